package main

// C09 rules R3 (cascade guards), R4 (sweep guard), R5 (exclusivity).

import (
	"fmt"
	"go/constant"
	"go/token"
	"go/types"
	"strings"

	"golang.org/x/tools/go/ssa"
)

const (
	c09nTagSet    = "(*~/internal/resolver.Memory).TagSet"
	c09nUntag     = "(*~/internal/resolver.Memory).Untag"
	c09nTag       = "(*~/internal/resolver.Memory).Tag"
	c09nMap       = "(*~/internal/resolver.Memory).Map"
	c09nResolve   = "(*~/internal/resolver.Memory).Resolve"
	c09nRemove    = "(*~/internal/graph.Memory).Remove"
	c09nExists    = "(*~/internal/graph.Memory).Exists"
	c09nIndexAll  = "(*~/internal/graph.Memory).IndexAll"
	c09nDigestSet = "(*~/internal/graph.Memory).DigestSet"
	c09nStDelete  = "(*~/content/oci.Storage).Delete"
	c09nReferrers = "~/registry.Referrers"
	c09nIsMan     = "~/internal/descriptor.IsManifest"
	c09nEqual     = "~/content.Equal"
)

// c09Uses: v is computed from target (through loads, field/index addressing,
// conversions, interface boxing, composite literals and call arguments).
func c09Uses(v, target ssa.Value, depth int) bool {
	if v == nil || depth > 8 {
		return false
	}
	if v == target {
		return true
	}
	if _, isCall := v.(*ssa.Call); isCall && c09PureCallEq(v, target, 0) {
		return true // another call of the same pure accessor on the same value
	}
	switch u := v.(type) {
	case *ssa.UnOp:
		return c09Uses(u.X, target, depth+1)
	case *ssa.FieldAddr:
		return c09Uses(u.X, target, depth+1)
	case *ssa.Field:
		return c09Uses(u.X, target, depth+1)
	case *ssa.IndexAddr:
		return c09Uses(u.X, target, depth+1)
	case *ssa.Index:
		return c09Uses(u.X, target, depth+1)
	case *ssa.Slice:
		return c09Uses(u.X, target, depth+1)
	case *ssa.MakeInterface:
		return c09Uses(u.X, target, depth+1)
	case *ssa.ChangeType:
		return c09Uses(u.X, target, depth+1)
	case *ssa.ChangeInterface:
		return c09Uses(u.X, target, depth+1)
	case *ssa.Convert:
		return c09Uses(u.X, target, depth+1)
	case *ssa.TypeAssert:
		return c09Uses(u.X, target, depth+1)
	case *ssa.Extract:
		return c09Uses(u.Tuple, target, depth+1)
	case *ssa.BinOp:
		return c09Uses(u.X, target, depth+1) || c09Uses(u.Y, target, depth+1)
	case *ssa.Phi:
		for _, e := range u.Edges {
			if e != v && c09Uses(e, target, depth+1) {
				return true
			}
		}
	case *ssa.Call:
		for _, a := range u.Call.Args {
			if c09Uses(a, target, depth+1) {
				return true
			}
		}
		if u.Call.IsInvoke() {
			return c09Uses(u.Call.Value, target, depth+1)
		}
	case *ssa.Alloc:
		var walk func(x ssa.Value, d int) bool
		walk = func(x ssa.Value, d int) bool {
			if d > 3 || x.Referrers() == nil {
				return false
			}
			for _, r := range *x.Referrers() {
				switch w := r.(type) {
				case *ssa.Store:
					if w.Addr == x && c09Uses(w.Val, target, depth+1) {
						return true
					}
				case *ssa.FieldAddr:
					if walk(w, d+1) {
						return true
					}
				case *ssa.IndexAddr:
					if w.X == x && walk(w, d+1) {
						return true
					}
				}
			}
			return false
		}
		return walk(u, 0)
	}
	return false
}

// c09FieldLoads: loads of <recv>.<field> in fn (recv = the method receiver).
func c09FieldLoads(fn *ssa.Function, recv ssa.Value, field string) map[ssa.Value]bool {
	out := map[ssa.Value]bool{}
	AllInstrs(fn, func(in ssa.Instruction) {
		u, ok := in.(*ssa.UnOp)
		if !ok || u.Op != token.MUL {
			return
		}
		fa, ok := u.X.(*ssa.FieldAddr)
		if !ok || fa.X != recv {
			return
		}
		if strings.HasSuffix(fieldName(fa.X.Type(), fa.Field), "."+field) {
			for a := range Aliases(u) {
				out[a] = true
			}
		}
	})
	return out
}

// c09Guarded: on every path that reaches `at`, one of the guard edges was taken
// since the last time control entered the innermost loop that contains both
// `at` and a guard test (or since function entry).
func c09Guarded(at ssa.Instruction, edges []Edge) bool {
	if len(edges) == 0 {
		return false
	}
	fn := at.Parent()
	edges = append(append([]Edge{}, edges...), c09FlagEdges(fn, edges)...)
	var best *Loop
	for _, l := range Loops(fn) {
		if !l.Contains(at) {
			continue
		}
		has := false
		for _, e := range edges {
			if l.Blocks[e.From] {
				has = true
			}
		}
		if has && (best == nil || len(l.Blocks) < len(best.Blocks)) {
			best = l
		}
	}
	ct := newCut().Edges(edges...)
	if best != nil {
		return !reach(best.Header, 0, at, ct)
	}
	return !reach(fn.Blocks[0], 0, at, ct)
}

// c09FlagEdges: true-edges of Ifs on a boolean flag (phi of constants) that can
// only be true when one of the guard edges was taken: every `true` flowing into
// the flag enters from a block that is reachable only through a guard edge.
// (`found := false; if cond { found = true }; ...; if found { X }`)
func c09FlagEdges(fn *ssa.Function, guards []Edge) []Edge {
	ct := newCut().Edges(guards...)
	var out []Edge
	for _, i := range Ifs(fn) {
		cond, t, _ := ifEdges(i)
		phi, ok := cond.(*ssa.Phi)
		if !ok {
			continue
		}
		seen := map[*ssa.Phi]bool{}
		okAll, anyTrue := true, false
		var walk func(p *ssa.Phi)
		walk = func(p *ssa.Phi) {
			if seen[p] {
				return
			}
			seen[p] = true
			for k, e := range p.Edges {
				switch u := e.(type) {
				case *ssa.Phi:
					walk(u)
				case *ssa.Const:
					if u.Value != nil && u.Value.String() == "true" {
						anyTrue = true
						pred := p.Block().Preds[k]
						if reach(fn.Blocks[0], 0, pred.Instrs[len(pred.Instrs)-1], ct) {
							okAll = false
						}
					}
				default:
					okAll = false
				}
			}
		}
		walk(phi)
		if okAll && anyTrue {
			out = append(out, t)
		}
	}
	return out
}

// c09DigestString: v is the string form of obj's Digest (string(d), d.String()).
func c09DigestString(obj c09DescObj, v ssa.Value) bool {
	if obj.fieldOf(v, "Digest") {
		return true
	}
	for _, r := range Roots(v) {
		call, ok := r.(*ssa.Call)
		if !ok || CalleeName(call) != "(digest.Digest).String" || !obj.fieldOf(call.Call.Args[0], "Digest") {
			return false
		}
	}
	return true
}

// c09AppendedElems: for `append(dst, xs...)`, the element values stored into a
// literal varargs array, or (whole=true) the slice value appended as a whole.
func c09AppendedElems(call ssa.CallInstruction) (elems []ssa.Value, whole ssa.Value) {
	args := call.Common().Args
	if len(args) != 2 {
		return nil, nil
	}
	if sl, ok := args[1].(*ssa.Slice); ok {
		if a, ok := sl.X.(*ssa.Alloc); ok {
			for _, r := range *a.Referrers() {
				if ia, ok := r.(*ssa.IndexAddr); ok {
					for _, r2 := range *ia.Referrers() {
						if s, ok := r2.(*ssa.Store); ok && s.Addr == ia {
							elems = append(elems, s.Val)
						}
					}
				}
			}
			return elems, nil
		}
	}
	return nil, args[1]
}

// c09ElemOf: v is an element loaded from (an alias of) slice.
func c09ElemOf(v ssa.Value, slice map[ssa.Value]bool) bool {
	rs := Roots(c09CellOrValue(v))
	if len(rs) == 0 {
		return false
	}
	for _, r := range rs {
		u, ok := r.(*ssa.UnOp)
		if !ok || u.Op != token.MUL {
			return false
		}
		ia, ok := u.X.(*ssa.IndexAddr)
		if !ok || !slice[ia.X] {
			return false
		}
	}
	return true
}

// c09Helpers locates the unexported helpers of oci.Store by role, anywhere in
// the in-package call tree below the exported operation (depth 3): it does not
// matter whether a piece of the operation was extracted into a helper.
type c09Helpers struct {
	store      *types.Named
	del, gc    *ssa.Function
	deleteOne  *ssa.Function   // calls graph.Memory.Remove and Storage.Delete
	cascade    []*ssa.Function // functions below Delete that call deleteOne (where the follow-up work is decided)
	isTagged   *ssa.Function   // bool helper calling resolver.Memory.TagSet
	gcIndex    *ssa.Function   // function below GC that replaces s.tagResolver
	sweepHosts []*ssa.Function // functions below GC that remove files
}

func c09FindHelpers(c *Ctx, rule string) *c09Helpers {
	h := &c09Helpers{del: c.P.Fn("content/oci", "Store.Delete"), gc: c.P.Fn("content/oci", "Store.GC"), store: c.P.Named("content/oci", "Store")}
	if h.del == nil || h.gc == nil || h.store == nil {
		c.LostAnchor(rule, "~/content/oci.Store / Store.Delete / Store.GC")
		return nil
	}
	below := c09ReachableInPkg(h.del, 3)
	for _, g := range below {
		if len(CallsTo(g, c09nRemove)) > 0 && len(CallsTo(g, c09nStDelete)) > 0 {
			h.deleteOne = g
		}
		if g != h.del && g.Signature.Results().Len() == 1 && types.Identical(g.Signature.Results().At(0).Type(), types.Typ[types.Bool]) {
			if len(CallsTo(g, c09nTagSet)) > 0 || c09TagPredOf(c.P, g) != nil {
				h.isTagged = g
			}
		}
	}
	if h.deleteOne != nil {
		for _, g := range below {
			if g != h.deleteOne && len(CallsTo(g, fnFullName(h.deleteOne))) > 0 {
				h.cascade = append(h.cascade, g)
			}
		}
		if len(h.cascade) == 0 && h.deleteOne == h.del {
			h.cascade = []*ssa.Function{h.del} // the delete step is inlined into the operation
		}
	}
	for _, g := range c09ReachableInPkg(h.gc, 3) {
		AllInstrs(g, func(in ssa.Instruction) {
			if s, ok := in.(*ssa.Store); ok && c09IsFieldAddrOf(s.Addr, h.store, "tagResolver") {
				h.gcIndex = g
			}
		})
		if len(Calls(g, func(n string) bool { return n == "os.Remove" || n == "os.RemoveAll" || n == "(*os.Root).Remove" })) > 0 {
			h.sweepHosts = append(h.sweepHosts, g)
		}
	}
	return h
}

// ---------------------------------------------------------------- R3

func c09R3(c *Ctx) {
	const R3 = "C09.R3.cascade-guards"
	c.Expect(R3, 10)
	h := c09FindHelpers(c, R3)
	if h == nil {
		return
	}
	dn := FnName(h.del) // keys are anchored at the exported operation, whichever helper hosts the logic
	if h.deleteOne == nil || len(h.cascade) == 0 {
		c.LostAnchor(R3, dn+": helper that removes one node (calls graph.Memory.Remove and Storage.Delete) and its caller")
		return
	}
	autoGCEdges := func(fn *ssa.Function, _ c09Vals) []Edge {
		t, _ := BoolTests(fn, c08StoreFieldLoads(fn, h.store, "AutoGC"))
		return t
	}
	nRef, nEnq, nRefEnq := 0, 0, 0
	usesInline := false
	// helpers that hand the referrers list back as it came from registry.Referrers: judged at their call sites
	rawRefHelper := map[*ssa.Function]bool{}
	for _, g := range c09ReachableInPkg(h.del, 3) {
		if g == h.del || g.Signature.Results().Len() == 0 {
			continue
		}
		for _, rc := range CallsTo(g, c09nReferrers) {
			refs := ResultOf(rc, 0)
			for _, a := range RetAtoms(g, 0) {
				if refs != nil && (Aliases(refs)[a.Val] || c09Resolved(a.Val) == refs) {
					rawRefHelper[g] = true
				}
			}
		}
	}
	for _, host := range c09ReachableInPkg(h.del, 3) {
		delCalls := CallsTo(host, fnFullName(h.deleteOne))
		// (a) referrers
		for _, rc := range CallsTo(host, c09nReferrers) {
			nRef++
			at := rc.(ssa.Instruction)
			head := rc.Common().Args[2]
			ok := c09GuardedUp(c.P, at, nil, autoGCEdges, 2)
			c.Check(R3, dn+"|referrers-only-under-AutoGC", rc.Pos(), ok, ifelse(ok, "registry.Referrers is reached only on the s.AutoGC edge", "referrers are collected (and then deleted) although AutoGC is off"))
			ok = c09GuardedUp(c.P, at, c09Vals{"node": head}, func(fn *ssa.Function, v c09Vals) []Edge {
				if v["node"] == nil {
					return nil
				}
				t, _, _ := CallTests(fn, c09nIsMan, func(x *ssa.Call) bool { return c09SameKey(x.Call.Args[0], v["node"]) })
				return t
			}, 2)
			c.Check(R3, dn+"|referrers-only-of-manifests", rc.Pos(), ok, ifelse(ok, "registry.Referrers(head) is reached only on the IsManifest(head) edge", "referrers are looked up for a non-manifest node"))
			// the node whose referrers follow is the node that is deleted
			same := false
			headO, _ := c09Origins(c.P, head, 2, h.del)
			for _, ch := range h.cascade {
				var deleted []ssa.Value
				for _, dc := range CallsTo(ch, fnFullName(h.deleteOne)) {
					deleted = append(deleted, dc.Common().Args[2])
				}
				if ch == h.deleteOne {
					for _, rc := range CallsTo(ch, c09nRemove) {
						deleted = append(deleted, rc.Common().Args[1])
					}
				}
				for _, dv := range deleted {
					same = true
					dO, _ := c09Origins(c.P, dv, 2, h.del)
					for _, a := range headO {
						hit := false
						for _, b := range dO {
							if c09SameKey(a, b) {
								hit = true
							}
						}
						if !hit {
							same = false
						}
					}
				}
			}
			c.Check(R3, dn+"|referrers-of-the-deleted-node", rc.Pos(), same, ifelse(same, "the node whose referrers are enqueued is the node that is deleted", "referrers are collected for another node than the one being deleted"))
			// the referrers are enqueued as a whole only after the call succeeded
			if e := ErrOf(rc); e != nil {
				ne, _, _ := NilTests(host, Aliases(e))
				refs := ResultOf(rc, 0)
				for _, ap := range CallsTo(host, "builtin:append") {
					if _, whole := c09AppendedElems(ap); whole != nil && refs != nil && Aliases(refs)[whole] {
						ok := c09Guarded(ap.(ssa.Instruction), ne)
						c.Check(R3, dn+"|referrers-enqueued-on-success", ap.Pos(), ok, "the referrers list is enqueued only when registry.Referrers returned no error")
					}
				}
			}
		}
		// (b) danglings: the result of the delete step, or of graph.Remove where that step is inlined
		var dangSources []ssa.Value
		// … when the delete step hands graph.Remove's result on unfiltered (otherwise it filters itself and is judged as a host)
		rawResult := false
		for _, a := range RetAtoms(h.deleteOne, 0) {
			for _, rc := range CallsTo(h.deleteOne, c09nRemove) {
				if v := rc.Value(); v != nil && (Aliases(v)[a.Val] || c09Resolved(a.Val) == v) {
					rawResult = true
				}
			}
		}
		for _, dc := range delCalls {
			if dang := ResultOf(dc, 0); dang != nil && rawResult {
				dangSources = append(dangSources, dang)
			}
		}
		for _, rc := range CallsTo(host, c09nRemove) {
			if v := rc.Value(); v != nil {
				dangSources = append(dangSources, v)
			}
		}
		// the work list of the host: the slices whose elements are handed to the delete step / the cascade helpers /
		// the referrers lookup; an append to anything else only accumulates (followUps = append(followUps, referrers...))
		queueRoots := map[ssa.Value]bool{}
		for _, call := range Calls(host, func(string) bool { return true }) {
			g := StaticCallee(call)
			consumer := CalleeName(call) == c09nReferrers || (g != nil && g == h.deleteOne)
			for _, cf := range h.cascade {
				consumer = consumer || (g != nil && g == cf)
			}
			if !consumer {
				continue
			}
			for _, a := range call.Common().Args {
				for _, rt := range Roots(c09CellOrValue(a)) {
					if ld, ok := rt.(*ssa.UnOp); ok && ld.Op == token.MUL {
						if ia, ok := ld.X.(*ssa.IndexAddr); ok {
							for _, q := range Roots(ia.X) {
								queueRoots[q] = true
							}
							queueRoots[ia.X] = true
						}
					}
				}
			}
		}
		var isQueue func(v ssa.Value, depth int) bool
		isQueue = func(v ssa.Value, depth int) bool {
			if v == nil || depth > 6 {
				return false
			}
			if queueRoots[v] {
				return true
			}
			switch u := v.(type) {
			case *ssa.Slice:
				return isQueue(u.X, depth+1)
			case *ssa.Phi:
				for _, e := range u.Edges {
					if e != v && isQueue(e, depth+1) {
						return true
					}
				}
			case *ssa.Call:
				if CalleeName(u) == "builtin:append" {
					return isQueue(u.Call.Args[0], depth+1)
				}
			}
			return false
		}
		_, gcOff := BoolTests(host, c08StoreFieldLoads(host, h.store, "AutoGC"))
		derived := map[string]bool{}
		var judge func(dang ssa.Value, what string, withReturns bool, cnt *int)
		judge = func(dang ssa.Value, what string, withReturns bool, cnt *int) {
			noun := ifelse(what == "referrers", "referrer of the deleted node", "dangling node")
			nouns := ifelse(what == "referrers", "referrers of the deleted node", "dangling nodes")
			kAuto, kUntagged, kRaw := "|"+what+"-only-under-AutoGC", "|"+what+"-only-if-untagged", "|"+what+"-enqueued-unfiltered"
			if what == "referrers" {
				// one obligation for the followers of the deleted node: they enter the work list only when untagged
				kAuto, kUntagged, kRaw = "|referrers-only-under-AutoGC", "|referrers-enqueued-only-if-untagged", "|referrers-enqueued-only-if-untagged"
			}
			dAliases := Aliases(dang)
			// slices that are handed on as a whole: appended (`append(q, xs...)`), or returned to the caller
			// that enqueues them; slices.Concat(a, b) hands on both
			for _, sk := range c09WholeSinks(host, withReturns) {
				at, whole := sk.at, sk.whole
				// slices.DeleteFunc(danglings, isTagged): keeps exactly the untagged ones
				if keep, isFilter := c09FilterSeqOf(whole, dAliases); isFilter {
					// an iterator pipeline that keeps the elements for which keep(d) holds: keep must be !isTagged
					*cnt++
					usesInline = true
					ok := c09GuardedUp(c.P, at, nil, autoGCEdges, 2)
					c.Check(R3, dn+kAuto, at.Pos(), ok, ifelse(ok, "a "+noun+" is enqueued only on the s.AutoGC edge", nouns+" are deleted although AutoGC is off"))
					ok = c09PredIsNot(keep, h.isTagged)
					c.Check(R3, dn+kUntagged, at.Pos(), ok, ifelse(ok, "only the "+nouns+" for which !isTagged(d) holds pass the filter before they are enqueued", "the "+nouns+" are filtered with a predicate that is not the negated isTagged test: a tagged manifest can be deleted"))
					continue
				}
				if df := c09DeleteFuncOf(whole, dAliases); df != nil {
					*cnt++
					usesInline = true
					ok := c09GuardedUp(c.P, at, nil, autoGCEdges, 2)
					c.Check(R3, dn+kAuto, at.Pos(), ok, ifelse(ok, "a "+noun+" is enqueued only on the s.AutoGC edge", nouns+" are deleted although AutoGC is off"))
					ok = c09PredIs(df.Call.Args[1], h.isTagged)
					c.Check(R3, dn+kUntagged, at.Pos(), ok, ifelse(ok, "the tagged "+nouns+" are filtered out with slices.DeleteFunc(…, isTagged) before they are enqueued", "the "+nouns+" are filtered with a predicate that is not the isTagged test: a tagged manifest can be deleted"))
					continue
				}
				if dAliases[whole] || dAliases[c09Resolved(whole)] {
					// appended to an accumulator that is not the work list: the accumulated list is judged where it goes
					if ap, isAp := at.(*ssa.Call); isAp && CalleeName(ap) == "builtin:append" && !isQueue(ap.Call.Args[0], 0) {
						if k := what + "|" + ap.Name(); !derived[k] {
							derived[k] = true
							judge(ap, what, withReturns, cnt)
						}
						continue
					}
					// with AutoGC off no referrers were looked up (referrers-only-under-AutoGC): the list is empty there
					if what == "referrers" && len(gcOff) > 0 && c09Guarded(at, gcOff) {
						continue
					}
					c.Violation(R3, dn+kRaw, at.Pos(), "the "+nouns+" are enqueued as a whole, without the !isTagged filter: tagged manifests would be deleted")
					*cnt++
				}
			}
			for _, ap := range CallsTo(host, "builtin:append") {
				if apc, isCall := ap.(*ssa.Call); isCall && !isQueue(apc.Call.Args[0], 0) {
					grows := false
					for _, rt := range Roots(apc.Call.Args[0]) {
						grows = grows || dAliases[rt]
					}
					if k := what + "|" + apc.Name(); grows && !derived[k] {
						derived[k] = true
						judge(apc, what, withReturns, cnt) // the list goes on growing: same elements, judged further on
					}
				}
			}
			for _, ap := range CallsTo(host, "builtin:append") {
				elems, _ := c09AppendedElems(ap)
				for _, e := range elems {
					if !c09ElemOf(e, dAliases) {
						continue
					}
					*cnt++
					ok := c09GuardedUp(c.P, ap.(ssa.Instruction), nil, autoGCEdges, 2)
					c.Check(R3, dn+kAuto, ap.Pos(), ok, ifelse(ok, "a "+noun+" is enqueued only on the s.AutoGC edge", nouns+" are deleted although AutoGC is off"))
					var notTagged []Edge
					if h.isTagged != nil {
						_, notTagged, _ = CallTests(host, fnFullName(h.isTagged), func(x *ssa.Call) bool { return c09SameKey(x.Call.Args[len(x.Call.Args)-1], e) })
					}
					// the test inlined: a comparison of len(TagSet(e)) discounting e's own digest
					if _, inl := c09TaggedTests(host, e); len(inl) > 0 {
						notTagged = append(notTagged, inl...)
						usesInline = true
					}
					ok = c09Guarded(ap.(ssa.Instruction), notTagged)
					c.Check(R3, dn+kUntagged, ap.Pos(), ok, ifelse(ok, "a "+noun+" d is enqueued only on the !isTagged(d) edge", "a "+noun+" is enqueued for deletion without the !isTagged(d) test of that same node: a tagged manifest can be deleted"))
				}
			}
		}
		for _, dang := range dangSources {
			judge(dang, "dangling", host != h.del && host != h.deleteOne, &nEnq)
		}
		// (a') the referrers of the deleted node are followers like the danglings: tagged ones stay (D11)
		for _, rc := range CallsTo(host, c09nReferrers) {
			if refs := ResultOf(rc, 0); refs != nil {
				judge(refs, "referrers", !rawRefHelper[host] && host != h.del && host != h.deleteOne, &nRefEnq)
			}
		}
		for _, call := range Calls(host, func(string) bool { return true }) {
			if g := StaticCallee(call); g != nil && rawRefHelper[g] {
				if refs := ResultOf(call, 0); refs != nil {
					judge(refs, "referrers", host != h.del && host != h.deleteOne, &nRefEnq)
				}
			}
		}
	}
	if nRef == 0 {
		c.LostAnchor(R3, dn+": call of registry.Referrers")
	}
	if nEnq == 0 {
		c.LostAnchor(R3, dn+": enqueue of the dangling nodes returned by the delete helper")
	}
	if nRef > 0 && nRefEnq == 0 {
		c.LostAnchor(R3, dn+": enqueue of the referrers of the deleted node")
	}
	if h.isTagged == nil && !usesInline {
		c.LostAnchor(R3, dn+": isTagged test (bool function calling resolver.Memory.TagSet, or the same comparison inlined)")
	}
	// the work list is processed to the end: the loop that calls the per-node step is left early only with an error
	for _, g := range h.cascade {
		for _, l := range Loops(g) {
			steps := false
			for _, dc := range CallsTo(g, fnFullName(h.deleteOne)) {
				steps = steps || c09InLoopRegion(l, dc.(ssa.Instruction))
			}
			if !steps || h.deleteOne == g {
				continue
			}
			// with AutoGC off nothing is ever enqueued (see the two …-only-under-AutoGC obligations): leaving on
			// that edge is leaving with an empty queue
			_, gcOff := BoolTests(g, c08StoreFieldLoads(g, h.store, "AutoGC"))
			bad, at := c09LoopEarlyExit(g, l, gcOff)
			if !bad {
				at = blockPos(l.Header)
			}
			c.Check(R3, dn+"|work-list-processed-to-the-end", at, !bad, ifelse(!bad, "the loop over the delete queue is left without an error only when the queue is empty",
				"the loop over the delete queue can be left early while Delete reports success: enqueued referrers / dangling nodes are never removed"))
		}
	}
	c09R3Delete(c, R3, h)
	c09R3Remove(c, R3)
	c09R3IsTagged(c, R3, h)
}

// (c) delete helper: Untag only of references whose descriptor equals the target.
func c09R3Delete(c *Ctx, R3 string, h *c09Helpers) {
	d := h.deleteOne
	fn := FnName(d)
	// the target: the descriptor handed to graph.Remove and Storage.Delete
	var target ssa.Value
	for _, rc := range CallsTo(d, c09nRemove) {
		target = rc.Common().Args[1]
	}
	okT := target != nil
	for _, sc := range CallsTo(d, c09nStDelete) {
		if !c09SameKey(sc.Common().Args[2], target) {
			okT = false
		}
	}
	c.Check(R3, fn+"|removes-and-deletes-the-same-node", d.Pos(), okT, "graph.Remove and Storage.Delete receive the same descriptor")
	// success of the per-node step implies that the blob removal was attempted, whatever the options say
	if ei := ErrResultIndex(d.Signature); ei >= 0 && d != h.del {
		ct := newCut()
		for _, sc := range CallsTo(d, c09nStDelete) {
			ct.Instr(sc.(ssa.Instruction))
		}
		okS, at := true, d.Pos()
		for _, a := range RetAtoms(d, ei) {
			if c09MayBeNilAtom(d, a) && !AtomMustPass(a, ct) {
				okS, at = false, a.Ret.Pos()
			}
		}
		c.Check(R3, fn+"|success-implies-blob-removed", at, okS, ifelse(okS, "every return of the per-node delete step that may report success lies behind Storage.Delete",
			"the per-node delete step can report success without having called Storage.Delete: the node is untagged and unlinked, index.json is saved, but the blob stays in storage"))
	}
	// sameAsTarget: v (in function f, at or below the delete helper) denotes the node being removed
	sameAsTarget := func(v ssa.Value) bool {
		os, ok := c09Origins(c.P, v, 2, d)
		if !ok || len(os) == 0 {
			return false
		}
		for _, o := range os {
			if !c09SameKey(o, target) {
				return false
			}
		}
		return true
	}
	n := 0
	for _, f := range c09ReachableInPkg(d, 2) {
		resolverLoads := c08StoreFieldLoads(f, h.store, "tagResolver")
		for _, uc := range CallsTo(f, c09nUntag) {
			args := uc.Common().Args
			if !resolverLoads[args[0]] {
				continue
			}
			n++
			// the reference is the key of a range over the resolver map — directly, or
			// collected first into a slice that is then ranged over
			type keySite struct {
				at  ssa.Instruction
				key ssa.Value
			}
			sites := []keySite{{uc.(ssa.Instruction), args[1]}}
			if rs := Roots(args[1]); len(rs) == 1 {
				if ld, ok := rs[0].(*ssa.UnOp); ok && ld.Op == token.MUL {
					if ia, ok := ld.X.(*ssa.IndexAddr); ok {
						sites = nil
						acc := map[ssa.Value]bool{}
						var grow func(v ssa.Value)
						grow = func(v ssa.Value) {
							if v == nil || acc[v] {
								return
							}
							acc[v] = true
							switch u := v.(type) {
							case *ssa.Phi:
								for _, e := range u.Edges {
									grow(e)
								}
							case *ssa.Call:
								if CalleeName(u) == "builtin:append" {
									grow(u.Call.Args[0])
								}
							}
						}
						grow(ia.X)
						for _, ap := range CallsTo(f, "builtin:append") {
							if acc[ap.Value()] {
								elems, whole := c09AppendedElems(ap)
								if whole != nil {
									sites = append(sites, keySite{ap.(ssa.Instruction), nil})
								}
								for _, e := range elems {
									sites = append(sites, keySite{ap.(ssa.Instruction), e})
								}
							}
						}
					}
				}
			}
			// the reference is yielded by an iterator: judged where it is yielded (the producer), or — for the
			// keys of a map — by the filter the map went through
			filteredOK := false
			if c09IsYieldBody(f) {
				if pf, _ := c09ParamOf(args[1]); pf == f {
					sites = nil
					AllInstrs(f.Parent(), func(in ssa.Instruction) {
						seq, body, isRF := c09RangeFuncCall(in)
						if !isRF || body != f {
							return
						}
						if mk, isCall := c09Resolved(seq).(*ssa.Call); isCall && (CalleeName(mk) == "maps.Keys" || CalleeName(mk) == "maps.All") {
							if c09MapFilteredTo(mk.Call.Args[0], in, sameAsTarget) {
								filteredOK = true
							}
							return
						}
						if vs, closed := c09SitesOf(c.P, f); closed {
							for _, vsite := range vs {
								sites = append(sites, keySite{vsite.At, vsite.Tr(args[1])})
							}
						}
					})
				}
			}
			if filteredOK {
				c.OK(R3, fn+"|untag-only-equal-descriptors", uc.Pos(), "the references untagged are the keys of a map from which every entry not content.Equal to the target was deleted (maps.DeleteFunc)")
				continue
			}
			okAll, undecided := len(sites) > 0, false
			for _, ks := range sites {
				f := ks.at.Parent() // the function in which the key is produced
				var nx ssa.Value
				if ks.key != nil {
					for _, r := range Roots(ks.key) {
						if e, ok := r.(*ssa.Extract); ok && e.Index == 1 {
							if _, isNext := e.Tuple.(*ssa.Next); isNext {
								nx = e.Tuple
							}
						}
					}
				}
				// the descriptor the resolver holds for the key: the value of the same map entry, or what the
				// resolver answers for the key (Resolve(ctx, key) of the store's resolver)
				isVal := func(v ssa.Value) bool {
					rs := Roots(c09CellOrValue(v))
					for _, r := range rs {
						e, ok := r.(*ssa.Extract)
						if !ok {
							return false
						}
						if nx != nil && e.Index == 2 && e.Tuple == nx {
							continue
						}
						rc, isCall := e.Tuple.(*ssa.Call)
						if !isCall || e.Index != 0 || ks.key == nil || CalleeName(rc) != c09nResolve || !c08StoreFieldLoads(f, h.store, "tagResolver")[rc.Call.Args[0]] || !c09SameKey(rc.Call.Args[2], ks.key) {
							return false
						}
					}
					return len(rs) > 0
				}
				eq, _, _ := CallTests(f, c09nEqual, func(x *ssa.Call) bool {
					a, b := x.Call.Args[0], x.Call.Args[1]
					return (isVal(a) && sameAsTarget(b)) || (isVal(b) && sameAsTarget(a))
				})
				if len(eq) > 0 && c09Guarded(ks.at, eq) {
					continue
				}
				if nx == nil {
					undecided = true
					continue
				}
				// `for ref := range m` over a map that was filtered down to the equal entries beforehand
				if nxt, isNext := nx.(*ssa.Next); !isNext || !c09MapFilteredTo(nxt.Iter.(*ssa.Range).X, nxt, sameAsTarget) {
					okAll = false
				}
			}
			if undecided {
				c.Undecided(R3, fn+"|untag-only-equal-descriptors", uc.Pos(), "the reference passed to Untag is not the key of a range over the resolver map (directly or via a collected slice): shape not recognised")
				continue
			}
			ok := okAll
			c.Check(R3, fn+"|untag-only-equal-descriptors", uc.Pos(), ok, ifelse(ok, "Untag(ref) is reached only on the content.Equal(resolver[ref], target) edge", "a reference is untagged without content.Equal(resolver[ref], target): another node's tag can be removed"))
		}
	}
	if n == 0 {
		c.LostAnchor(R3, fn+": Untag of the deleted node's references")
	}
	// every reference of the node is examined: the loop that untags is not left early while the step goes on
	for _, f := range c09ReachableInPkg(d, 2) {
		if c09IsYieldBody(f) {
			continue
		}
		for _, it := range c09ItersIn(f) {
			untags := false
			for _, call := range c09BodyCalls(it) {
				untags = untags || CalleeName(call) == c09nUntag
			}
			if !untags {
				continue
			}
			bad, at := c09IterEarlyExit(it)
			if !bad {
				at = it.Stmt.Pos()
			}
			c.Check(R3, fn+"|untag-loop-runs-to-the-end", at, !bad, ifelse(!bad, "the loop that untags the references of the deleted node is left without an error only when its collection is exhausted",
				"the loop that untags the references of the deleted node can be left early: a second tag of the node survives its deletion and resolves to a blob that no longer exists"))
		}
	}
}

// c09MapFilteredTo: before `at`, every entry of map m whose value is not
// content.Equal to the target was deleted: maps.DeleteFunc(m, func(k, v) bool {
// return !content.Equal(v, target) }) on every path to `at`.
func c09MapFilteredTo(m ssa.Value, at ssa.Instruction, sameAsTarget func(ssa.Value) bool) bool {
	fn := at.Parent()
	var filters []ssa.Instruction
	for _, call := range CallsTo(fn, "maps.DeleteFunc") {
		a := call.Common().Args
		if len(a) != 2 || !c09SameKey(a[0], m) {
			continue
		}
		ok := false
		for _, rt := range Roots(a[1]) {
			var pred *ssa.Function
			switch u := rt.(type) {
			case *ssa.MakeClosure:
				pred = u.Fn.(*ssa.Function)
			case *ssa.Function:
				pred = u
			}
			if pred == nil || len(pred.Params) != 2 {
				ok = false
				break
			}
			ok = true
			for _, ra := range RetAtoms(pred, 0) {
				v := ra.Val
				neg := false
				for {
					u, isNot := v.(*ssa.UnOp)
					if !isNot || u.Op != token.NOT {
						break
					}
					neg, v = !neg, u.X
				}
				eq, isCall := v.(*ssa.Call)
				if !isCall || CalleeName(eq) != c09nEqual || !neg {
					ok = false
					break
				}
				x, y := eq.Call.Args[0], eq.Call.Args[1]
				isVal := func(w ssa.Value) bool { pf, i := c09ParamOf(w); return pf == pred && i == 1 }
				if !((isVal(x) && sameAsTarget(y)) || (isVal(y) && sameAsTarget(x))) {
					ok = false
				}
			}
		}
		if ok {
			filters = append(filters, call.(ssa.Instruction))
		}
	}
	return len(filters) > 0 && MustPass(at, newCut().Instr(filters...))
}

// (d) graph.Remove reports a successor only if it lost its last predecessor and is a node.
func c09R3Remove(c *Ctx, R3 string) {
	f := c.P.Fn("internal/graph", "Memory.Remove")
	mem := c.P.Named("internal/graph", "Memory")
	if f == nil || mem == nil || !c09HasField(mem, "predecessors") || !c09HasField(mem, "nodes") {
		c.LostAnchor(R3, "~/internal/graph.Memory.Remove / fields predecessors, nodes")
		return
	}
	fn := FnName(f)
	n := 0
	resT := f.Signature.Results().At(0).Type()
	var hosts []*ssa.Function
	for _, hf := range c09ReachableInPkg(f, 2) {
		if hf == f || (hf.Parent() != nil && (hf.Parent() == f || hf.Parent().Parent() == f)) {
			hosts = append(hosts, hf) // Remove itself and the bodies of its range-over-func loops
		}
	}
	for _, f := range hosts {
		for _, ap := range CallsTo(f, "builtin:append") {
			if !types.Identical(ap.Value().Type(), resT) {
				continue
			}
			elems, whole := c09AppendedElems(ap)
			if whole != nil {
				c.Undecided(R3, fn+"|dangling-reported", ap.Pos(), "a whole slice is appended to the result: shape not recognised")
				continue
			}
			for _, e := range elems {
				n++
				var key ssa.Value
				for _, r := range Roots(e) {
					switch u := r.(type) {
					case *ssa.Lookup:
						if c09IsLoadOfField(u.X, mem, "nodes") {
							key = u.Index
						}
					case *ssa.Extract:
						if lk, ok := u.Tuple.(*ssa.Lookup); ok && c09IsLoadOfField(lk.X, mem, "nodes") {
							key = lk.Index
						}
					}
				}
				var present, empty []Edge
				if key == nil {
					// the node comes out of a helper `node, ok := m.unlink(parent, child)` that looks it up itself
					if hk, pe, ee, ok := c09UnlinkHelper(f, e, mem); ok {
						key, present, empty = hk, pe, ee
					}
				}
				if key == nil {
					c.Undecided(R3, fn+"|dangling-reported", ap.Pos(), "the reported node is not read from m.nodes: shape not recognised")
					continue
				}
				AllInstrs(f, func(in ssa.Instruction) {
					lk, ok := in.(*ssa.Lookup)
					if !ok || !c09SameKey(lk.Index, key) {
						return
					}
					if c09IsLoadOfField(lk.X, mem, "nodes") && lk.CommaOk {
						for _, r := range *lk.Referrers() {
							if ex, ok := r.(*ssa.Extract); ok && ex.Index == 1 {
								te, _ := BoolTests(f, Aliases(ex))
								present = append(present, te...)
							}
						}
					}
					if c09IsLoadOfField(lk.X, mem, "predecessors") {
						var sv ssa.Value = lk
						if lk.CommaOk {
							sv = nil
							for _, r := range *lk.Referrers() {
								if ex, ok := r.(*ssa.Extract); ok && ex.Index == 0 {
									sv = ex
								}
							}
						}
						if sv != nil {
							empty = append(empty, lenZeroEdges(f, sv)...)
						}
					}
				})
				// … or the set became empty according to a helper of the package that
				// returns true only when len(predecessors[key]) == 0
				presenceHelpers := map[*ssa.Function]bool{}
				te, _ := c09BoolCallEdges(f, func(call *ssa.Call, g *ssa.Function) (int, bool) {
					if g.Signature.Results().Len() == 0 || !inModule(g) {
						return 0, false
					}
					for i, a := range call.Call.Args {
						if i >= len(g.Params) || !c09SameKey(a, key) {
							continue
						}
						var guards []Edge
						sets := map[ssa.Value]bool{}
						AllInstrs(g, func(in ssa.Instruction) {
							lk, ok := in.(*ssa.Lookup)
							if !ok {
								return
							}
							// m.predecessors itself, or the map parameter of a generic helper that receives it
							isPred := c09IsLoadOfField(lk.X, mem, "predecessors")
							if pf, mi := c09ParamOf(lk.X); !isPred && pf == g && mi < len(call.Call.Args) && c09IsLoadOfField(call.Call.Args[mi], mem, "predecessors") {
								isPred = true
							}
							if !isPred {
								return
							}
							if pf, pi := c09ParamOf(lk.Index); pf != g || pi != i {
								return
							}
							var sv ssa.Value = lk
							if lk.CommaOk {
								sv = nil
								for _, r := range *lk.Referrers() {
									if ex, ok := r.(*ssa.Extract); ok && ex.Index == 0 {
										sv = ex
									}
								}
							}
							if sv != nil {
								sets[sv] = true
								guards = append(guards, c08LenZeroEdges(g, sv)...)
							}
						})
						for idx := 0; idx < g.Signature.Results().Len(); idx++ {
							if !types.Identical(g.Signature.Results().At(idx).Type(), types.Typ[types.Bool]) {
								continue
							}
							if c09TrueImplies(g, idx, guards, nil) || c09IsLenZeroResult(g, idx, sets) {
								return idx, true
							}
							// `…; _, exists := m.nodes[key]; return exists` past the len == 0 edge: true implies both guards
							isPresence := func(v ssa.Value) bool {
								ex, ok := v.(*ssa.Extract)
								if !ok || ex.Index != 1 {
									return false
								}
								lk, ok := ex.Tuple.(*ssa.Lookup)
								if !ok || !c09IsLoadOfField(lk.X, mem, "nodes") {
									return false
								}
								pf, pi := c09ParamOf(lk.Index)
								return pf == g && pi == i
							}
							okAll, anyPresence := len(guards) > 0, false
							for _, a := range RetAtoms(g, idx) {
								if cst, isC := a.Val.(*ssa.Const); isC && cst.Value != nil && cst.Value.String() == "false" {
									continue
								}
								if isPresence(a.Val) {
									anyPresence = true
								} else if cst, isC := a.Val.(*ssa.Const); !isC || cst.Value == nil {
									okAll = false
								}
								if !AtomMustPass(a, newCut().Edges(guards...)) {
									okAll = false
								}
							}
							if okAll {
								if anyPresence {
									presenceHelpers[g] = true
								}
								return idx, true
							}
						}
					}
					return 0, false
				})
				empty = append(empty, te...)
				if len(presenceHelpers) > 0 {
					present = append(present, te...) // the helper's true also means "is a node"
				}
				ok := c09Guarded(ap.(ssa.Instruction), empty)
				c.Check(R3, fn+"|dangling-only-without-predecessors", ap.Pos(), ok, ifelse(ok, "a successor is reported dangling only on the len(predecessors[successor]) == 0 edge", "a successor is reported as dangling although other nodes may still point to it (it would be deleted under a surviving parent)"))
				ok = c09Guarded(ap.(ssa.Instruction), present)
				c.Check(R3, fn+"|dangling-only-existing-nodes", ap.Pos(), ok, ifelse(ok, "a successor is reported only when it is present in m.nodes", "a successor that is not a node of the graph is reported as dangling"))
			}
		}
	}
	if n == 0 {
		c.LostAnchor(R3, fn+": append of a dangling node to the result")
	}
}

// c09UnlinkHelper: e is result #0 of a call `node, ok := helper(…, key, …)` where
// the helper returns m.nodes[key] (or the zero value) and reports ok == true
// only after len(m.predecessors[key]) == 0 and with ok being the presence of key
// in m.nodes.  Returns the key argument and the edges of fn on which ok is true
// (they stand for both guards).
func c09UnlinkHelper(fn *ssa.Function, e ssa.Value, mem *types.Named) (key ssa.Value, present, empty []Edge, ok bool) {
	rs := Roots(c09CellOrValue(e))
	if len(rs) != 1 {
		return nil, nil, nil, false
	}
	ex, isEx := rs[0].(*ssa.Extract)
	if !isEx {
		return nil, nil, nil, false
	}
	call, isCall := ex.Tuple.(*ssa.Call)
	if !isCall {
		return nil, nil, nil, false
	}
	g := StaticCallee(call)
	if g == nil || !inModule(g) || len(g.Blocks) == 0 || g.Signature.Results().Len() < 2 {
		return nil, nil, nil, false
	}
	// the lookup of the node in the helper, keyed by one of its parameters
	var nodeLk *ssa.Lookup
	kp := -1
	AllInstrs(g, func(in ssa.Instruction) {
		if lk, isLk := in.(*ssa.Lookup); isLk && c09IsLoadOfField(lk.X, mem, "nodes") {
			if pf, i := c09ParamOf(lk.Index); pf == g {
				nodeLk, kp = lk, i
			}
		}
	})
	if nodeLk == nil || kp >= len(call.Call.Args) {
		return nil, nil, nil, false
	}
	// result ex.Index: m.nodes[key] or the zero value
	for _, a := range RetAtoms(g, ex.Index) {
		v := c09CellOrValue(a.Val)
		if x, isX := v.(*ssa.Extract); isX && x.Tuple == ssa.Value(nodeLk) && x.Index == 0 {
			continue
		}
		if v == ssa.Value(nodeLk) {
			continue
		}
		if _, isZero := a.Val.(zeroMarker); isZero {
			continue
		}
		if cst, isC := a.Val.(*ssa.Const); isC && cst.Value == nil {
			continue // T{}: zero value
		}
		if ld, isLd := a.Val.(*ssa.UnOp); isLd {
			if al, isAl := ld.X.(*ssa.Alloc); isAl && len(storesTo(al)) == 0 {
				continue // composite literal T{}: zero value
			}
		}
		return nil, nil, nil, false
	}
	// the bool result: true only past len(predecessors[key]) == 0, and equal to the presence test
	var lenZero []Edge
	AllInstrs(g, func(in ssa.Instruction) {
		if lk, isLk := in.(*ssa.Lookup); isLk && c09IsLoadOfField(lk.X, mem, "predecessors") {
			if pf, i := c09ParamOf(lk.Index); pf == g && i == kp {
				var sv ssa.Value = lk
				if lk.CommaOk {
					sv = nil
					for _, r := range *lk.Referrers() {
						if x, isX := r.(*ssa.Extract); isX && x.Index == 0 {
							sv = x
						}
					}
				}
				if sv != nil {
					lenZero = append(lenZero, c08LenZeroEdges(g, sv)...)
				}
			}
		}
	})
	if len(lenZero) == 0 {
		return nil, nil, nil, false
	}
	for bi := 0; bi < g.Signature.Results().Len(); bi++ {
		if !types.Identical(g.Signature.Results().At(bi).Type(), types.Typ[types.Bool]) {
			continue
		}
		good := true
		for _, a := range RetAtoms(g, bi) {
			if cst, isC := a.Val.(*ssa.Const); isC && cst.Value != nil && cst.Value.String() == "false" {
				continue
			}
			isPresence := false
			if x, isX := a.Val.(*ssa.Extract); isX && x.Tuple == ssa.Value(nodeLk) && x.Index == 1 {
				isPresence = true
			}
			if !isPresence || !AtomMustPass(a, newCut().Edges(lenZero...)) {
				good = false
			}
		}
		if !good {
			continue
		}
		if bv := ResultOf(call, bi); bv != nil {
			te, _ := BoolTests(fn, Aliases(bv))
			return call.Call.Args[kp], te, te, len(te) > 0
		}
	}
	return nil, nil, nil, false
}

// c09IsLenZeroResult: result idx of g is the predicate `len(set) == 0` itself on every return.
func c09IsLenZeroResult(g *ssa.Function, idx int, sets map[ssa.Value]bool) bool {
	atoms := RetAtoms(g, idx)
	if len(atoms) == 0 {
		return false
	}
	for _, a := range atoms {
		bo, ok := a.Val.(*ssa.BinOp)
		if !ok {
			return false
		}
		ln, ok := bo.X.(*ssa.Call)
		if !ok || CalleeName(ln) != "builtin:len" || !sets[ln.Call.Args[0]] {
			return false
		}
		k, ok := constInt(bo.Y)
		if !ok || !((bo.Op == token.EQL && k == 0) || (bo.Op == token.LSS && k == 1) || (bo.Op == token.LEQ && k == 0)) {
			return false
		}
	}
	return true
}

// (e) isTagged: a lone digest self-reference does not count as a tag.
func c09R3IsTagged(c *Ctx, R3 string, h *c09Helpers) {
	f := h.isTagged
	if f == nil {
		return
	}
	fn := FnName(f)
	key := fn + "|digest-self-reference-discounted"
	tp := c09TagPredOf(c.P, f)
	if tp == nil {
		c.Undecided(R3, key, f.Pos(), "expected exactly one TagSet call (or the answer of a resolver predicate over the tag set of the descriptor)")
		return
	}
	// the predicate is judged where it is evaluated (isTagged itself, or the resolver method it asks)
	f = tp.fn
	set := tp.set
	isSelf := tp.isSelf
	selfT, selfF, _ := CallTests(f, "(~/internal/container/set.Set[T]).Contains", func(x *ssa.Call) bool {
		return set[x.Call.Args[0]] && isSelf(x.Call.Args[1])
	})
	if len(selfT) == 0 {
		// also accept a comma-ok lookup  _, ok := tagSet[string(desc.Digest)]
		AllInstrs(f, func(in ssa.Instruction) {
			if lk, ok := in.(*ssa.Lookup); ok && lk.CommaOk && set[lk.X] && isSelf(lk.Index) {
				for _, r := range *lk.Referrers() {
					if ex, ok := r.(*ssa.Extract); ok && ex.Index == 1 {
						te, fe := BoolTests(f, Aliases(ex))
						selfT, selfF = append(selfT, te...), append(selfF, fe...)
					}
				}
			}
		})
	}
	if len(selfT) == 0 {
		// alternative shape: the (cloned) tag set has the digest self-reference removed, then any remaining element counts
		var dels []ssa.Instruction
		AllInstrs(f, func(in ssa.Instruction) {
			if op, sv, elem := c09SetOp(in); op == "del" && set[sv] && isSelf(elem) && !tp.shared {
				dels = append(dels, in)
			}
		})
		if len(dels) > 0 {
			ok, why := true, ""
			for _, a := range RetAtoms(f, 0) {
				alts, known := c09LenCompare(a.Val, set)
				if !known {
					c.Undecided(R3, key, a.Ret.Pos(), "result "+describe(a.Val)+" is not a comparison of len(tagSet) with a constant")
					return
				}
				for _, alt := range alts {
					if alt.thr != 1 {
						ok, why = false, fmt.Sprintf("after removing the digest self-reference the result is len(tagSet) >= %d, expected >= 1", alt.thr)
					}
				}
				if !MustPass(a.Ret, newCut().Instr(dels...)) {
					ok, why = false, "a result is computed without the digest self-reference having been removed from the set"
				}
			}
			c.Check(R3, key, f.Pos(), ok, ifelse(ok, "tagged iff the tag set, with the descriptor's own digest removed, is not empty", why))
			return
		}
		// alternative shape: a search for a tag other than the own digest — `for tag := range tagSet { if tag != self { return true } }; return false`
		if ok, decided := c09IsTaggedBySearch(f, set, isSelf); decided {
			c.Check(R3, key, f.Pos(), ok, ifelse(ok, "tagged iff some element of the tag set differs from the descriptor's own digest", "the search over the tag set does not answer true exactly for a tag other than the descriptor's own digest"))
			return
		}
		c.Violation(R3, key, f.Pos(), "isTagged does not test whether the tag set contains the descriptor's own digest: every manifest pushed through Store.Push is tagged by its digest, so every dangling manifest would count as tagged and auto-GC would never remove one (or, if the set size is ignored, would remove tagged ones)")
		return
	}
	ok, why := true, ""
	inEdges := func(e Edge, es []Edge) bool {
		for _, x := range es {
			if x == e {
				return true
			}
		}
		return false
	}
	for _, a := range RetAtoms(f, 0) {
		alts, known := c09LenCompare(a.Val, set)
		if !known {
			c.Undecided(R3, key, a.Ret.Pos(), "result "+describe(a.Val)+" is not a comparison of len(tagSet) (plus a constant) with a constant")
			return
		}
		for _, alt := range alts {
			if alt.neg {
				ok, why = false, "the result is the negation of the tagged test"
				continue
			}
			var onSelf, onOther bool
			if alt.via != nil {
				term := alt.via.From.Instrs[len(alt.via.From.Instrs)-1]
				onSelf = inEdges(*alt.via, selfT) || MustPass(term, newCut().Edges(selfT...))
				onOther = inEdges(*alt.via, selfF) || MustPass(term, newCut().Edges(selfF...))
			} else {
				onSelf = AtomMustPass(a, newCut().Edges(selfT...))
				onOther = AtomMustPass(a, newCut().Edges(selfF...))
			}
			switch {
			case onSelf && !onOther:
				if alt.thr != 2 {
					ok, why = false, fmt.Sprintf("when the set contains the digest itself the result is len(tagSet) >= %d, expected >= 2", alt.thr)
				}
			case onOther && !onSelf:
				if alt.thr != 1 {
					ok, why = false, fmt.Sprintf("when the set does not contain the digest the result is len(tagSet) >= %d, expected >= 1", alt.thr)
				}
			default:
				c.Undecided(R3, key, a.Ret.Pos(), "a result is not decided by the contains-own-digest test")
				return
			}
		}
	}
	c.Check(R3, key, f.Pos(), ok, ifelse(ok, "tagged iff the tag set holds a reference other than the descriptor's own digest", why))
}

// c09LenAlt: the compared value is equivalent to len(set) >= thr (neg: to its
// negation) when control arrived over phi edge via (nil: unconditionally).
type c09LenAlt struct {
	thr int64
	via *Edge
	neg bool
}

// c09LenCompare: v is `L OP R` where one side is len(set) plus/minus constants
// and the other a constant, either side possibly a phi of such expressions
// chosen by an earlier branch (`n := len(s); if c { n-- }; return n > 0`,
// `self := 0; if c { self = 1 }; if len(s) > self`).  len(set) is known to be
// >= 0 (and >= 1 on the side where the set contains the tested element).
func c09LenCompare(v ssa.Value, set map[ssa.Value]bool) ([]c09LenAlt, bool) {
	bo, ok := v.(*ssa.BinOp)
	if !ok {
		return nil, false
	}
	type lin struct {
		coef, off int64
		via       *Edge
	}
	var linear func(x ssa.Value, depth int) ([]lin, bool)
	linear = func(x ssa.Value, depth int) ([]lin, bool) {
		if depth > 4 {
			return nil, false
		}
		if k, isC := constInt(x); isC {
			return []lin{{0, k, nil}}, true
		}
		switch u := x.(type) {
		case *ssa.Call:
			if CalleeName(u) == "builtin:len" && set[u.Call.Args[0]] {
				return []lin{{1, 0, nil}}, true
			}
		case *ssa.BinOp:
			if k, isC := constInt(u.Y); isC && (u.Op == token.ADD || u.Op == token.SUB) {
				ls, ok := linear(u.X, depth+1)
				if !ok {
					return nil, false
				}
				for i := range ls {
					if u.Op == token.ADD {
						ls[i].off += k
					} else {
						ls[i].off -= k
					}
				}
				return ls, true
			}
		case *ssa.Phi:
			var out []lin
			for i, e := range u.Edges {
				ls, ok := linear(e, depth+1)
				if !ok {
					return nil, false
				}
				edge := Edge{u.Block().Preds[i], u.Block()}
				for _, l := range ls {
					if l.via == nil {
						ed := edge
						l.via = &ed
					}
					out = append(out, l)
				}
			}
			return out, true
		}
		return nil, false
	}
	ls, okL := linear(bo.X, 0)
	rs, okR := linear(bo.Y, 0)
	if !okL || !okR {
		return nil, false
	}
	var out []c09LenAlt
	for _, l := range ls {
		for _, r := range rs {
			if l.via != nil && r.via != nil && *l.via != *r.via {
				return nil, false
			}
			via := l.via
			if via == nil {
				via = r.via
			}
			op := bo.Op
			coef, off := l.coef-r.coef, l.off-r.off // coef*len + off OP 0
			if coef == -1 {
				coef, off = 1, -off
				switch op {
				case token.LSS:
					op = token.GTR
				case token.LEQ:
					op = token.GEQ
				case token.GTR:
					op = token.LSS
				case token.GEQ:
					op = token.LEQ
				}
			}
			if coef != 1 {
				return nil, false
			}
			switch op { // len + off OP 0
			case token.GTR:
				out = append(out, c09LenAlt{1 - off, via, false})
			case token.GEQ:
				out = append(out, c09LenAlt{-off, via, false})
			case token.LSS:
				out = append(out, c09LenAlt{-off, via, true})
			case token.LEQ:
				out = append(out, c09LenAlt{1 - off, via, true})
			case token.NEQ: // len + off != 0, with len + off >= 0 where the shape is used
				out = append(out, c09LenAlt{1 - off, via, false})
			case token.EQL:
				out = append(out, c09LenAlt{1 - off, via, true})
			default:
				return nil, false
			}
		}
	}
	return out, len(out) > 0
}

// c09TaggedTests: the branches of fn that decide "node e has a tag other than
// its own digest" inline: a comparison of len(TagSet(e)) (minus one where the
// set contains e's digest) — returns the edges taken when e is tagged /
// untagged.
func c09TaggedTests(fn *ssa.Function, e ssa.Value) (tagged, untagged []Edge) {
	for _, ts := range CallsTo(fn, c09nTagSet) {
		a := ts.Common().Args
		if !c09SameKey(a[len(a)-1], e) {
			continue
		}
		set := Aliases(ts.Value())
		desc := c09DescObjOf(a[len(a)-1])
		selfT, selfF, _ := CallTests(fn, "(~/internal/container/set.Set[T]).Contains", func(x *ssa.Call) bool {
			return set[x.Call.Args[0]] && c09DigestString(desc, x.Call.Args[1])
		})
		AllInstrs(fn, func(in ssa.Instruction) {
			if lk, ok := in.(*ssa.Lookup); ok && lk.CommaOk && set[lk.X] && c09DigestString(desc, lk.Index) {
				for _, r := range *lk.Referrers() {
					if ex, ok := r.(*ssa.Extract); ok && ex.Index == 1 {
						te, fe := BoolTests(fn, Aliases(ex))
						selfT, selfF = append(selfT, te...), append(selfF, fe...)
					}
				}
			}
		})
		if len(selfT) == 0 {
			continue
		}
		inEdges := func(x Edge, es []Edge) bool {
			for _, y := range es {
				if x == y {
					return true
				}
			}
			return false
		}
		for _, i := range Ifs(fn) {
			cond, t, f := ifEdges(i)
			alts, ok := c09LenCompare(cond, set)
			if !ok {
				continue
			}
			good := true
			neg := alts[0].neg
			for _, alt := range alts {
				var onSelf, onOther bool
				if alt.via != nil {
					term := alt.via.From.Instrs[len(alt.via.From.Instrs)-1]
					onSelf = inEdges(*alt.via, selfT) || MustPass(term, newCut().Edges(selfT...))
					onOther = inEdges(*alt.via, selfF) || MustPass(term, newCut().Edges(selfF...))
				} else {
					onSelf = MustPass(i, newCut().Edges(selfT...))
					onOther = MustPass(i, newCut().Edges(selfF...))
				}
				if alt.neg != neg || !((onSelf && !onOther && alt.thr == 2) || (onOther && !onSelf && alt.thr == 1)) {
					good = false
				}
			}
			if !good {
				continue
			}
			if neg {
				tagged, untagged = append(tagged, f), append(untagged, t)
			} else {
				tagged, untagged = append(tagged, t), append(untagged, f)
			}
		}
	}
	return
}

// c09WholeSink: a slice value handed on as a whole at an instruction.
type c09WholeSink struct {
	at    ssa.Instruction
	whole ssa.Value
}

// c09WholeSinks: `append(dst, xs...)` (xs), and — when withReturns — slice
// results returned by fn; slices.Concat(a, b, …) counts for each of its operands.
func c09WholeSinks(fn *ssa.Function, withReturns bool) []c09WholeSink {
	var out []c09WholeSink
	var add func(at ssa.Instruction, v ssa.Value, depth int)
	add = func(at ssa.Instruction, v ssa.Value, depth int) {
		if v == nil || depth > 3 {
			return
		}
		for _, rt := range Roots(c09Resolved(v)) {
			if call, ok := rt.(*ssa.Call); ok && CalleeName(call) == "slices.Concat" && len(call.Call.Args) == 1 {
				if sl, isSlice := call.Call.Args[0].(*ssa.Slice); isSlice {
					if arr, isAlloc := sl.X.(*ssa.Alloc); isAlloc {
						for _, ref := range *arr.Referrers() {
							if ia, isIA := ref.(*ssa.IndexAddr); isIA {
								for _, r2 := range *ia.Referrers() {
									if st, isSt := r2.(*ssa.Store); isSt && st.Addr == ssa.Value(ia) {
										add(at, st.Val, depth+1)
									}
								}
							}
						}
						continue
					}
				}
			}
			out = append(out, c09WholeSink{at, rt})
		}
	}
	for _, ap := range CallsTo(fn, "builtin:append") {
		if _, whole := c09AppendedElems(ap); whole != nil {
			add(ap.(ssa.Instruction), whole, 0)
		}
	}
	for _, ap := range CallsTo(fn, "slices.AppendSeq") { // append every element of an iterator
		if a := ap.Common().Args; len(a) == 2 {
			add(ap.(ssa.Instruction), a[1], 0)
		}
	}
	if withReturns {
		for _, r := range Returns(fn) {
			for _, res := range r.Results {
				if _, isSlice := res.Type().Underlying().(*types.Slice); isSlice {
					if c, isConst := res.(*ssa.Const); isConst && c.Value == nil {
						continue
					}
					add(r, res, 0)
				}
			}
		}
	}
	return out
}

// c09FilterAdapter: g(seq, keep) returns an iterator that yields exactly those
// elements v of seq for which keep(v) is true (only they are yielded).  Returns
// the indexes of the two parameters.
func c09FilterAdapter(g *ssa.Function) (seqParam, keepParam int, ok bool) {
	if g == nil || !inModule(g) || len(g.Blocks) == 0 {
		return -1, -1, false
	}
	paramIdx := func(v ssa.Value) int {
		if pf, i := c09ParamOf(c09Resolved(v)); pf == g {
			return i
		}
		return -1
	}
	for _, a := range RetAtoms(g, 0) {
		mc, isMC := strip(a.Val).(*ssa.MakeClosure)
		if !isMC {
			return -1, -1, false
		}
		P := mc.Fn.(*ssa.Function)
		if len(P.Params) == 0 {
			return -1, -1, false
		}
		yield := P.Params[len(P.Params)-1]
		found := false
		AllInstrs(P, func(in ssa.Instruction) {
			seq, body, isRF := c09RangeFuncCall(in)
			if !isRF || len(body.Params) == 0 {
				return
			}
			si := paramIdx(seq)
			if si < 0 {
				return
			}
			v := body.Params[0]
			// yield(v) in the body, guarded by keep(v)
			for _, yc := range Calls(body, func(string) bool { return true }) {
				call, isCall := yc.(*ssa.Call)
				if !isCall || call.Call.IsInvoke() || c09Resolved(call.Call.Value) != ssa.Value(yield) || len(call.Call.Args) == 0 || !c09SameKey(call.Call.Args[0], v) {
					continue
				}
				for _, i := range Ifs(body) {
					cond, t, _ := ifEdges(i)
					kc, isKC := cond.(*ssa.Call)
					if !isKC || kc.Call.IsInvoke() || len(kc.Call.Args) != 1 || !c09SameKey(kc.Call.Args[0], v) {
						continue
					}
					ki := paramIdx(kc.Call.Value)
					if ki >= 0 && c09Guarded(call, []Edge{t}) {
						seqParam, keepParam, found = si, ki, true
					}
				}
			}
		})
		if !found {
			return -1, -1, false
		}
	}
	return seqParam, keepParam, seqParam >= 0
}

// c09FilterSeqOf: seq iterates over the elements of the slice (slices.Values)
// that satisfy a predicate, through an in-module filter adapter: returns the predicate.
func c09FilterSeqOf(seq ssa.Value, slice map[ssa.Value]bool) (keep ssa.Value, ok bool) {
	if seq == nil {
		return nil, false
	}
	call, isCall := c09Resolved(seq).(*ssa.Call)
	if !isCall {
		return nil, false
	}
	si, ki, isFilter := c09FilterAdapter(StaticCallee(call))
	if !isFilter || si >= len(call.Call.Args) || ki >= len(call.Call.Args) {
		return nil, false
	}
	src, isSrc := c09Resolved(call.Call.Args[si]).(*ssa.Call)
	if !isSrc || CalleeName(src) != "slices.Values" || len(src.Call.Args) != 1 {
		return nil, false
	}
	x := c09Resolved(src.Call.Args[0])
	if !slice[x] && !slice[src.Call.Args[0]] {
		return nil, false
	}
	return call.Call.Args[ki], true
}

// c09PredIsNot: pred(d) == !target(d): a closure that returns the negation of a call of target on its parameter.
func c09PredIsNot(pred ssa.Value, target *ssa.Function) bool {
	if target == nil {
		return false
	}
	for _, rt := range Roots(c09Resolved(pred)) {
		mc, ok := rt.(*ssa.MakeClosure)
		if !ok {
			return false
		}
		fn := mc.Fn.(*ssa.Function)
		atoms := RetAtoms(fn, 0)
		if len(atoms) == 0 || len(fn.Params) != 1 {
			return false
		}
		for _, a := range atoms {
			not, isNot := a.Val.(*ssa.UnOp)
			if !isNot || not.Op != token.NOT {
				return false
			}
			call, isCall := not.X.(*ssa.Call)
			if !isCall || StaticCallee(call) != target || !c09SameKey(call.Call.Args[len(call.Call.Args)-1], fn.Params[0]) {
				return false
			}
		}
	}
	return true
}

// c09DeleteFuncOf: whole is slices.DeleteFunc(X, pred) where X is the slice (or a
// slices.Clone of it); nil otherwise.
func c09DeleteFuncOf(whole ssa.Value, slice map[ssa.Value]bool) *ssa.Call {
	if whole == nil {
		return nil
	}
	for _, rt := range Roots(c09Resolved(whole)) {
		df, ok := rt.(*ssa.Call)
		if !ok || CalleeName(df) != "slices.DeleteFunc" || len(df.Call.Args) != 2 {
			return nil
		}
		src := c09Resolved(df.Call.Args[0])
		if cl, isCall := src.(*ssa.Call); isCall && CalleeName(cl) == "slices.Clone" && len(cl.Call.Args) == 1 {
			src = c09Resolved(cl.Call.Args[0])
		}
		if !slice[src] {
			return nil
		}
		return df
	}
	return nil
}

// c09PredIs: the function value pred is (a bound-method or trivial wrapper of) target.
func c09PredIs(pred ssa.Value, target *ssa.Function) bool {
	if target == nil {
		return false
	}
	for _, rt := range Roots(pred) {
		var fn *ssa.Function
		switch u := rt.(type) {
		case *ssa.MakeClosure:
			fn = u.Fn.(*ssa.Function)
		case *ssa.Function:
			fn = u
		}
		if fn == nil {
			return false
		}
		if fn == target {
			continue
		}
		// wrapper: its only in-module call is target, whose result it returns
		n := 0
		AllInstrs(fn, func(in ssa.Instruction) {
			if call, ok := in.(ssa.CallInstruction); ok {
				if g := StaticCallee(call); g != nil && inModule(g) {
					if g == target {
						n++
					} else {
						n += 100
					}
				}
			}
		})
		if n != 1 {
			return false
		}
	}
	return true
}

// c09TagPred: where "the tag set of descriptor d" is inspected for the
// isTagged answer: the function that evaluates the predicate, the aliases of
// the set there, and what denotes d's own digest as a reference string.
// shared: the set is the resolver's own (not a snapshot) and must not be
// modified by the predicate.
type c09TagPred struct {
	fn     *ssa.Function
	set    map[ssa.Value]bool
	isSelf func(ssa.Value) bool
	shared bool
}

// c09TagPredOf: f takes the snapshot TagSet(d) and judges it itself, or f
// answers with the result of a bool method of the resolver that looks up the
// digest -> references entry of d in place (state by role) and is handed
// string(d.Digest) as the reference to discount.
func c09TagPredOf(p *Prog, f *ssa.Function) *c09TagPred {
	if ts := CallsTo(f, c09nTagSet); len(ts) == 1 {
		desc := c09DescObjOf(ts[0].Common().Args[1])
		return &c09TagPred{fn: f, set: Aliases(ts[0].Value()), isSelf: func(v ssa.Value) bool { return c09DigestString(desc, v) }}
	} else if len(ts) > 1 {
		return nil
	}
	mem := p.Named("internal/resolver", "Memory")
	if mem == nil {
		return nil
	}
	var call *ssa.Call
	for _, a := range RetAtoms(f, 0) {
		cl, ok := a.Val.(*ssa.Call)
		if !ok || (call != nil && cl != call) {
			return nil
		}
		call = cl
	}
	if call == nil {
		return nil
	}
	q := StaticCallee(call)
	if q == nil || !inModule(q) || len(q.Blocks) == 0 || q.Signature.Recv() == nil || len(q.Params) == 0 {
		return nil
	}
	if pt, ok := q.Params[0].Type().(*types.Pointer); !ok || !types.Identical(pt.Elem(), mem) {
		return nil
	}
	// the entry of the digest -> references map at a parameter's digest
	var set map[ssa.Value]bool
	pd := -1
	AllInstrs(q, func(in ssa.Instruction) {
		lk, ok := in.(*ssa.Lookup)
		if !ok || lk.CommaOk || !c09IsLoadOfField(lk.X, mem, "tags") {
			return
		}
		for i, prm := range q.Params {
			if i > 0 && c09DescObjOf(prm).fieldOf(lk.Index, "Digest") {
				if set == nil {
					set = map[ssa.Value]bool{}
				}
				if pd >= 0 && pd != i {
					pd = -2
				}
				if pd != -2 {
					pd = i
				}
				for a := range Aliases(lk) {
					set[a] = true
				}
			}
		}
	})
	if set == nil || pd < 1 || pd >= len(call.Call.Args) {
		return nil
	}
	// which string parameters carry d's own digest at the asking site
	desc := c09DescObjOf(call.Call.Args[pd])
	self := map[ssa.Value]bool{}
	for i, prm := range q.Params {
		if b, ok := prm.Type().Underlying().(*types.Basic); ok && b.Kind() == types.String && i < len(call.Call.Args) && c09DigestString(desc, call.Call.Args[i]) {
			for a := range Aliases(prm) {
				self[a] = true
			}
		}
	}
	return &c09TagPred{fn: q, set: set, shared: true, isSelf: func(v ssa.Value) bool {
		rs := Roots(v)
		for _, r := range rs {
			if !self[r] {
				return false
			}
		}
		return len(rs) > 0
	}}
}

// c09IsTaggedBySearch: f loops over the keys of the tag set and answers true as
// soon as (and only when) it meets a key different from the descriptor's own
// digest; false after the loop.
func c09IsTaggedBySearch(f *ssa.Function, set map[ssa.Value]bool, isSelf func(ssa.Value) bool) (ok, decided bool) {
	for _, it := range c09ItersIn(f) {
		if it.Coll == nil || it.Key == nil || !(set[it.Coll] || set[c09Resolved(it.Coll)]) {
			continue
		}
		decided = true
		var neq []Edge
		for _, i := range Ifs(it.Fn) {
			if !it.InBody(i) {
				continue
			}
			cond, t, fe := ifEdges(i)
			bo, isBo := cond.(*ssa.BinOp)
			if !isBo || (bo.Op != token.EQL && bo.Op != token.NEQ) {
				continue
			}
			if (c09SameKey(bo.X, it.Key) && isSelf(bo.Y)) || (c09SameKey(bo.Y, it.Key) && isSelf(bo.X)) {
				if bo.Op == token.EQL {
					neq = append(neq, fe)
				} else {
					neq = append(neq, t)
				}
			}
		}
		if len(neq) == 0 {
			return false, true
		}
		// where the answer "true" is produced
		var trues []ssa.Instruction
		if it.Loop != nil {
			for _, r := range Returns(it.Fn) {
				if cst, isC := r.Results[0].(*ssa.Const); isC && cst.Value != nil && cst.Value.String() == "true" {
					trues = append(trues, r)
				}
			}
		} else {
			AllInstrs(it.Fn, func(in ssa.Instruction) {
				if st, isSt := in.(*ssa.Store); isSt {
					if _, isFV := st.Addr.(*ssa.FreeVar); isFV {
						if cst, isC := st.Val.(*ssa.Const); isC && cst.Value != nil && cst.Value.String() == "true" {
							trues = append(trues, st)
						}
					}
				}
			})
		}
		if len(trues) == 0 {
			return false, true
		}
		ok = true
		for _, tr := range trues { // only for another tag
			if reach(it.Fn.Blocks[0], 0, tr, newCut().Edges(neq...)) {
				ok = false
			}
		}
		for _, e := range neq { // and for every other tag
			if it.ContinuesWithout(e.To, 0, newCut().Instr(trues...)) {
				ok = false
			}
		}
		// after the loop the answer is false (or the variable the body stores into)
		for _, a := range RetAtoms(f, 0) {
			if cst, isC := a.Val.(*ssa.Const); isC && cst.Value != nil {
				continue
			}
			if _, isZero := a.Val.(zeroMarker); isZero {
				continue
			}
			if ld, isLd := a.Val.(*ssa.UnOp); isLd && ld.Op == token.MUL {
				continue
			}
			ok = false
		}
		return ok, true
	}
	return false, false
}

// c09LenThreshold: v is `len(set) OP k`; returns t such that v == (len(set) >= t).
func c09LenThreshold(v ssa.Value, set map[ssa.Value]bool) (int64, bool) {
	bo, ok := v.(*ssa.BinOp)
	if !ok {
		return 0, false
	}
	isLen := func(x ssa.Value) bool {
		call, ok := x.(*ssa.Call)
		return ok && CalleeName(call) == "builtin:len" && set[call.Call.Args[0]]
	}
	if isLen(bo.X) {
		if k, ok := constInt(bo.Y); ok {
			switch bo.Op {
			case token.GTR:
				return k + 1, true
			case token.GEQ:
				return k, true
			case token.NEQ:
				if k == 0 {
					return 1, true
				}
			}
		}
	}
	if isLen(bo.Y) {
		if k, ok := constInt(bo.X); ok {
			switch bo.Op {
			case token.LSS:
				return k + 1, true
			case token.LEQ:
				return k, true
			case token.NEQ:
				if k == 0 {
					return 1, true
				}
			}
		}
	}
	return 0, false
}

// ---------------------------------------------------------------- R4

func c09R4(c *Ctx) {
	const R4 = "C09.R4.sweep-guard"
	c.Expect(R4, 10)
	h := c09FindHelpers(c, R4)
	if h == nil {
		return
	}
	gn := FnName(h.gc) // keys are anchored at the exported operation
	if h.gcIndex == nil {
		c.LostAnchor(R4, gn+": function that rebuilds and replaces s.tagResolver (gcIndex)")
		return
	}
	if len(h.sweepHosts) == 0 {
		c.LostAnchor(R4, gn+": removal of unreachable blobs (os.Remove)")
		return
	}
	// reachSet: v is (through parameters of unexported helpers) the result of s.graph.DigestSet()
	reachSet := func(v ssa.Value) ([]*ssa.Call, bool) {
		os, ok := c09Origins(c.P, v, 3, nil)
		if !ok || len(os) == 0 {
			return nil, false
		}
		var out []*ssa.Call
		for _, o := range os {
			rs := Roots(o)
			if len(rs) != 1 {
				return nil, false
			}
			ds, isCall := rs[0].(*ssa.Call)
			if !isCall || CalleeName(ds) != c09nDigestSet || !c08StoreFieldLoads(ds.Parent(), h.store, "graph")[ds.Call.Args[0]] {
				return nil, false
			}
			out = append(out, ds)
		}
		return out, true
	}
	containsTests := func(fn *ssa.Function) (notIn []Edge, calls []*ssa.Call) {
		_, notIn, calls = CallTests(fn, "(~/internal/container/set.Set[T]).Contains", func(x *ssa.Call) bool { _, ok := reachSet(x.Call.Args[0]); return ok })
		return
	}
	rebuilt := func(fn *ssa.Function, _ c09Vals) []Edge {
		var out []Edge
		for _, g := range CallsTo(fn, fnFullName(h.gcIndex)) {
			if e := ErrOf(g); e != nil {
				ne, _, _ := NilTests(fn, Aliases(e))
				out = append(out, ne...)
			}
		}
		return out
	}
	n := 0
	knownFns := map[*ssa.Function]bool{}
	inlineAlgs := map[string]bool{}
	registryTest := false
	for _, host := range h.sweepHosts {
		for _, rm := range Calls(host, func(n string) bool { return n == "os.Remove" || n == "os.RemoveAll" || n == "(*os.Root).Remove" }) {
			n++
			sfx := ""
			if n > 1 {
				sfx = fmt.Sprintf("#%d", n)
			}
			// T: the function that tests reachability — the host, or its (single-level) caller
			T, atT := host, rm.(ssa.Instruction)
			pathVals := []ssa.Value{rm.Common().Args[0]}
			if ne, _ := containsTests(host); len(ne) == 0 {
				if sites, closed := c09CallSites(c.P, host); closed && len(sites) == 1 {
					T, atT = sites[0].Parent(), sites[0].(ssa.Instruction)
					pathVals = sites[0].Common().Args
				}
			}
			notIn, cs := containsTests(T)
			okG := c09Guarded(atT, notIn)
			if !c.Check(R4, gn+"|remove-only-unreachable"+sfx, rm.Pos(), okG, ifelse(okG,
				"the blob is removed only on the !reachable.Contains(digest) edge, reachable = s.graph.DigestSet()",
				"a blob file is removed without the test that its digest is absent from s.graph.DigestSet(): reachable content can be deleted")) {
				continue
			}
			for _, x := range cs {
				dss, _ := reachSet(x.Call.Args[0])
				ok := len(dss) > 0
				var dsPos = x.Pos()
				for _, ds := range dss {
					dsPos = ds.Pos()
					if !c09GuardedUp(c.P, ds, nil, rebuilt, 2) {
						ok = false
					}
				}
				c.Check(R4, gn+"|reachable-set-after-gcIndex"+sfx, dsPos, ok, ifelse(ok, "DigestSet() is taken after the index was rebuilt successfully", "the reachable set is computed before (or without) a successful rebuild of the index: the sweep uses stale reachability"))
				d := x.Call.Args[1]
				// valid digest name
				var valid, invalid []Edge
				for _, vc := range CallsTo(T, "(digest.Digest).Validate") {
					if c09SameKey(vc.Common().Args[0], d) {
						ne, nn, _ := NilTests(T, Aliases(vc.Value()))
						valid = append(valid, ne...)
						invalid = append(invalid, nn...)
					}
				}
				ok = c09Guarded(atT, valid)
				c.Check(R4, gn+"|remove-only-valid-digest-names"+sfx, rm.Pos(), ok, ifelse(ok, "entries whose name is not a valid digest are skipped", "a directory entry whose name is not a valid digest can be removed"))
				// completeness per entry: an entry found unreachable is not passed over — from the "not in the reachable set"
				// edge the next entry is reached only through the removal (or because its name is no valid digest)
				for _, it := range c09ItersIn(T) {
					if !it.InBody(atT) || (it.Loop == nil && it.Fn != T) {
						continue
					}
					ct := newCut().Instr(atT).Edges(invalid...)
					okC := true
					for _, e := range notIn {
						if it.InBody(e.From.Instrs[len(e.From.Instrs)-1]) && it.ContinuesWithout(e.To, 0, ct) {
							okC = false
						}
					}
					c.Check(R4, gn+"|every-unreachable-blob-removed"+sfx, rm.Pos(), okC, ifelse(okC, "an entry whose digest is not in the reachable set reaches the next entry only through the removal",
						"an entry whose digest is not in the reachable set can be passed over without being removed: garbage survives although GC reports success"))
					break
				}
				// d = NewDigestFromEncoded(alg, name): name flows into the removed path, alg is a known algorithm
				var mk *ssa.Call
				for _, r := range Roots(d) {
					if call, ok := r.(*ssa.Call); ok && CalleeName(call) == "digest.NewDigestFromEncoded" {
						mk = call
					}
				}
				if mk == nil {
					c.Undecided(R4, gn+"|removed-file-is-the-tested-digest"+sfx, rm.Pos(), "the tested digest is not built with digest.NewDigestFromEncoded(alg, name)")
					continue
				}
				alg, name := strip(mk.Call.Args[0]), mk.Call.Args[1]
				usesName, usesAlg := false, false
				for _, pv := range pathVals {
					usesName = usesName || c09Uses(pv, name, 0)
					usesAlg = usesAlg || c09Uses(pv, alg, 0)
				}
				if !usesAlg {
					// the directory may come in as a parameter of the sweeping helper: at every place the helper is
					// entered from, it must be built from the value the algorithm is taken from
					if sites, closed := c09SitesOf(c.P, T); closed && len(sites) > 0 {
						for _, pv := range pathVals {
							for _, prm := range T.Params {
								if !c09Uses(pv, prm, 0) {
									continue
								}
								all := true
								for _, cs := range sites {
									dv, av := cs.Tr(prm), cs.Tr(alg)
									if dv == nil || av == nil || !(c09Uses(dv, strip(av), 0) || c09Uses(dv, c09Resolved(strip(av)), 0)) {
										all = false
									}
								}
								usesAlg = usesAlg || all
							}
						}
					}
				}
				ok = usesName && usesAlg
				c.Check(R4, gn+"|removed-file-is-the-tested-digest"+sfx, rm.Pos(), ok, ifelse(ok, "the removed path is built from the algorithm directory and entry name whose digest was tested", "the removed path is not derived from the entry whose digest was tested"))
				ok = c09GuardedUp(c.P, atT, c09Vals{"alg": alg}, func(fn *ssa.Function, v c09Vals) []Edge {
					if v["alg"] == nil {
						return nil
					}
					var known []Edge
					algV := strip(v["alg"])
					for _, i := range Ifs(fn) {
						cond, t, fe := ifEdges(i)
						// inlined: `switch alg { case digest.SHA256, …: default: continue }` / alg == "sha256" || …
						if bo, isBo := cond.(*ssa.BinOp); isBo && (bo.Op == token.EQL || bo.Op == token.NEQ) {
							other := ssa.Value(nil)
							if c09ValEq(strip(bo.X), algV) {
								other = bo.Y
							} else if c09ValEq(strip(bo.Y), algV) {
								other = bo.X
							}
							if sv, isC := constString(other); other != nil && isC {
								inlineAlgs[sv] = true
								if bo.Op == token.EQL {
									known = append(known, t)
								} else {
									known = append(known, fe)
								}
							}
							continue
						}
						// any other membership test: lookup table, slices.Contains over a package-level list,
						// go-digest's registry, or an in-module predicate built from those
						if consts, registry, isSet := c09AlgSetOf(c.P, cond, algV, 0); isSet {
							for _, k := range consts {
								inlineAlgs[k] = true
							}
							if registry {
								registryTest = true
							}
							known = append(known, t)
						}
					}
					return known
				}, 2)
				c.Check(R4, gn+"|remove-only-in-known-algorithm-dirs"+sfx, rm.Pos(), ok, ifelse(ok, "directories that are not a supported digest algorithm are skipped", "files below a directory that is not a supported algorithm can be removed"))
				// constant-set agreement: the sweep visits every algorithm directory a blob can be stored under
				// (Storage.Push accepts any digest that go-digest validates)
				if ok {
					want := c09DigestAlgorithms(c.P)
					got := map[string]bool{}
					for a := range inlineAlgs {
						got[a] = true
					}
					for g := range knownFns {
						for _, sv := range StringConstsComparedWith(g, func(ssa.Value) bool { return true }) {
							got[sv] = true
						}
					}
					var missing []string
					for _, a := range want {
						if !got[a] && !registryTest {
							missing = append(missing, a)
						}
					}
					switch {
					case len(want) == 0:
						c.LostAnchor(R4, "exported Algorithm constants of github.com/opencontainers/go-digest")
					case len(missing) > 0:
						c.Violation(R4, gn+"|sweep-covers-every-storable-algorithm"+sfx, rm.Pos(), "the sweep skips blobs/"+strings.Join(missing, ", blobs/")+
							": go-digest registers "+strings.Join(want, ", ")+" and Storage.Push stores blobs under any of them, so unreachable blobs of the skipped algorithm survive GC (storage and graph diverge)")
					default:
						c.OK(R4, gn+"|sweep-covers-every-storable-algorithm"+sfx, rm.Pos(), "the algorithm directories visited by the sweep include every algorithm of the go-digest module in use: "+strings.Join(want, ", "))
					}
				}
			}
		}
	}
	c09R4SweepCompletes(c, R4, h)
	c09R4GcIndex(c, R4, h)
}

// c09R4SweepCompletes: a loop of the sweep (its body removes files, or calls
// down to the removal) is left early only with an error: every return that may
// report success and can be reached once an iteration has begun lies behind the
// loop's own exit (the collection is exhausted).  `return nil` / `break` in the
// body would end the sweep at the first skipped entry and GC would report
// success with unreachable blobs left behind.  The loop may be a classic loop,
// a range-over-func loop (body and in-module producer judged by
// c09IterEarlyExit) or a directory walk with a callback (WalkDir / Walk): the
// callback never answers SkipAll and answers SkipDir only for a directory.
func c09R4SweepCompletes(c *Ctx, R4 string, h *c09Helpers) {
	gn := FnName(h.gc)
	isRemoval := func(n string) bool { return n == "os.Remove" || n == "os.RemoveAll" || n == "(*os.Root).Remove" }
	removes := map[*ssa.Function]bool{}
	for _, g := range h.sweepHosts {
		removes[g] = true
	}
	below := c09ReachableInPkg(h.gc, 4)
	for _, g := range below {
		if len(Calls(g, isRemoval)) > 0 && g != h.gcIndex {
			removes[g] = true
		}
	}
	for changed := true; changed; {
		changed = false
		for _, g := range below {
			if removes[g] || g == h.gcIndex {
				continue
			}
			AllInstrs(g, func(in ssa.Instruction) {
				switch x := in.(type) {
				case *ssa.MakeClosure:
					if removes[x.Fn.(*ssa.Function)] {
						removes[g], changed = true, true
					}
				case ssa.CallInstruction:
					if cal := c09Callee(x); cal != nil && removes[cal] {
						removes[g], changed = true, true
					}
				}
			})
		}
	}
	sweepsIn := func(calls []ssa.CallInstruction) bool {
		for _, call := range calls {
			if cal := c09Callee(call); isRemoval(CalleeName(call)) || (cal != nil && removes[cal]) {
				return true
			}
		}
		return false
	}
	nLoops := 0
	report := func(bad bool, at token.Pos) {
		nLoops++
		sfx := ""
		if nLoops > 1 {
			sfx = fmt.Sprintf("#%d", nLoops)
		}
		c.Check(R4, gn+"|sweep-runs-to-the-end"+sfx, at, !bad, ifelse(!bad, "once begun, the sweep is left without an error only when its collection is exhausted",
			"the sweep can be left early while GC still reports success: the entries after the first skipped one are never examined and unreachable blobs stay in storage"))
	}
	for _, g := range below {
		if !removes[g] {
			continue
		}
		for _, l := range Loops(g) {
			var calls []ssa.CallInstruction
			for _, call := range Calls(g, func(string) bool { return true }) {
				if c09InLoopRegion(l, call.(ssa.Instruction)) {
					calls = append(calls, call)
				}
			}
			if !sweepsIn(calls) {
				continue
			}
			bad, at := c09LoopEarlyExit(g, l, nil)
			if !bad {
				at = blockPos(l.Header)
			}
			report(bad, at)
		}
		if c09IsYieldBody(g) {
			continue
		}
		for _, it := range c09ItersIn(g) {
			if it.Loop != nil || !sweepsIn(c09BodyCalls(it)) {
				continue
			}
			bad, at := c09IterEarlyExit(it)
			if !bad {
				at = it.Stmt.Pos()
			}
			report(bad, at)
		}
		// directory walk with a callback
		for _, wc := range Calls(g, func(n string) bool {
			return n == "path/filepath.WalkDir" || n == "io/fs.WalkDir" || n == "path/filepath.Walk"
		}) {
			args := wc.Common().Args
			var cb *ssa.Function
			switch u := c09Resolved(args[len(args)-1]).(type) {
			case *ssa.MakeClosure:
				cb = u.Fn.(*ssa.Function)
			case *ssa.Function:
				cb = u
			}
			if cb == nil || !removes[cb] || len(cb.Params) < 2 {
				continue
			}
			isGlobal := func(v ssa.Value, name string) bool {
				ld, ok := v.(*ssa.UnOp)
				if !ok || ld.Op != token.MUL {
					return false
				}
				gl, ok := ld.X.(*ssa.Global)
				return ok && gl.Pkg != nil && gl.Pkg.Pkg.Path() == "io/fs" && gl.Name() == name
			}
			entry := Aliases(cb.Params[len(cb.Params)-2]) // the DirEntry / FileInfo of the visited path
			var isDir []Edge
			for _, i := range Ifs(cb) {
				cond, t, _ := ifEdges(i)
				if x, ok := cond.(*ssa.Call); ok && x.Call.IsInvoke() && x.Call.Method.Name() == "IsDir" && entry[x.Call.Value] {
					isDir = append(isDir, t)
				}
			}
			bad, at := false, wc.Pos()
			for _, a := range RetAtoms(cb, 0) {
				switch {
				case isGlobal(a.Val, "SkipAll"):
					bad, at = true, a.Ret.Pos()
				case isGlobal(a.Val, "SkipDir"):
					if !AtomMustPass(a, newCut().Edges(isDir...)) {
						bad, at = true, a.Ret.Pos()
					}
				}
			}
			report(bad, at)
		}
	}
}

// c09AlgSetOf: the bool value v is true exactly when arg is a member of a fixed
// set of strings: a lookup in a package-level table, slices.Contains over a
// package-level list, go-digest's Algorithm.Available, or a call of an in-module
// predicate whose result is one of those in terms of its parameter (or which
// compares its parameter with string constants).
func c09AlgSetOf(p *Prog, v ssa.Value, arg ssa.Value, depth int) (consts []string, registry, ok bool) {
	if depth > 2 {
		return nil, false, false
	}
	same := func(x ssa.Value) bool { return c09ValEq(strip(x), strip(arg)) }
	switch u := v.(type) {
	case *ssa.Lookup:
		if same(u.Index) {
			if keys, isTable := c09GlobalMapKeys(p, u.X); isTable {
				return keys, false, true
			}
		}
	case *ssa.Extract:
		if lk, isLk := u.Tuple.(*ssa.Lookup); isLk && u.Index == 1 {
			return c09AlgSetOf(p, lk, arg, depth)
		}
	case *ssa.Call:
		n := CalleeName(u)
		args := u.Call.Args
		switch {
		case n == "(digest.Algorithm).Available" && len(args) == 1 && same(args[0]):
			return nil, true, true
		case n == "slices.Contains" && len(args) == 2 && same(args[1]):
			if keys, isList := c09GlobalSliceConsts(p, args[0]); isList {
				return keys, false, true
			}
		case n == "slices.Index" || n == "slices.IndexFunc":
			return nil, false, false
		}
		g := StaticCallee(u)
		if g == nil || !inModule(g) || len(g.Blocks) == 0 || len(args) == 0 {
			return nil, false, false
		}
		pi := -1
		for i, a := range args {
			if same(a) {
				pi = i
			}
		}
		if pi < 0 || pi >= len(g.Params) {
			return nil, false, false
		}
		all := map[string]bool{}
		okAll, anyReg := true, false
		atoms := RetAtoms(g, 0)
		structured := len(atoms) > 0
		for _, a := range atoms {
			if _, isConst := a.Val.(*ssa.Const); isConst {
				structured = false // `switch x { case …: return true }`: constants compared in the body
				break
			}
			cs, reg, ok := c09AlgSetOf(p, a.Val, g.Params[pi], depth+1)
			if !ok {
				okAll = false
			}
			anyReg = anyReg || reg
			for _, k := range cs {
				all[k] = true
			}
		}
		if structured && okAll {
			return c09SortedKeys(all), anyReg, true
		}
		if cs := StringConstsComparedWith(g, func(ssa.Value) bool { return true }); len(cs) > 0 {
			return cs, false, true
		}
	}
	return nil, false, false
}

// c09GlobalSliceConsts: s is (a load of) a package-level slice variable of the
// module initialised with constant strings and never written elsewhere.
func c09GlobalSliceConsts(p *Prog, sv ssa.Value) ([]string, bool) {
	rs := Roots(sv)
	if len(rs) != 1 {
		return nil, false
	}
	// a local literal: known := [...]T{a, b, c}; … known[:]
	if sl, isSlice := rs[0].(*ssa.Slice); isSlice {
		if arr, isAlloc := sl.X.(*ssa.Alloc); isAlloc {
			keys := map[string]bool{}
			ok := true
			for _, ref := range *arr.Referrers() {
				switch u := ref.(type) {
				case *ssa.IndexAddr:
					for _, r2 := range *u.Referrers() {
						es, isSt := r2.(*ssa.Store)
						if !isSt || es.Addr != ssa.Value(u) {
							ok = false
							continue
						}
						if k, isC := constString(es.Val); isC {
							keys[k] = true
						} else {
							ok = false
						}
					}
				case *ssa.Slice, *ssa.DebugRef:
				default:
					ok = false
				}
			}
			if ok && len(keys) > 0 {
				return c09SortedKeys(keys), true
			}
			return nil, false
		}
	}
	ld, ok := rs[0].(*ssa.UnOp)
	if !ok || ld.Op != token.MUL {
		return nil, false
	}
	g, ok := ld.X.(*ssa.Global)
	if !ok || g.Pkg == nil {
		return nil, false
	}
	init := g.Pkg.Func("init")
	if init == nil {
		return nil, false
	}
	keys := map[string]bool{}
	complete := true
	AllInstrs(init, func(in ssa.Instruction) {
		st, ok := in.(*ssa.Store)
		if !ok || st.Addr != ssa.Value(g) {
			return
		}
		sl, isSlice := st.Val.(*ssa.Slice)
		if !isSlice {
			complete = false
			return
		}
		arr, isAlloc := sl.X.(*ssa.Alloc)
		if !isAlloc {
			complete = false
			return
		}
		for _, ref := range *arr.Referrers() {
			if ia, isIA := ref.(*ssa.IndexAddr); isIA {
				for _, r2 := range *ia.Referrers() {
					if es, isSt := r2.(*ssa.Store); isSt && es.Addr == ssa.Value(ia) {
						if k, isC := constString(es.Val); isC {
							keys[k] = true
						} else {
							complete = false
						}
					}
				}
			}
		}
	})
	for f := range p.All {
		if f == init || f.Pkg != g.Pkg {
			continue
		}
		AllInstrs(f, func(in ssa.Instruction) {
			if st, ok := in.(*ssa.Store); ok && st.Addr == ssa.Value(g) {
				complete = false
			}
		})
	}
	if !complete || len(keys) == 0 {
		return nil, false
	}
	return c09SortedKeys(keys), true
}

// c09GlobalMapKeys: m is a load of a package-level map variable of the module that
// is filled with constant string keys in the package initialiser (a lookup
// table): returns its keys.
func c09GlobalMapKeys(p *Prog, m ssa.Value) ([]string, bool) {
	rs := Roots(m)
	if len(rs) != 1 {
		return nil, false
	}
	ld, ok := rs[0].(*ssa.UnOp)
	if !ok || ld.Op != token.MUL {
		return nil, false
	}
	g, ok := ld.X.(*ssa.Global)
	if !ok || g.Pkg == nil {
		return nil, false
	}
	init := g.Pkg.Func("init")
	if init == nil {
		return nil, false
	}
	keys := map[string]bool{}
	complete := true
	AllInstrs(init, func(in ssa.Instruction) {
		st, ok := in.(*ssa.Store)
		if !ok || st.Addr != ssa.Value(g) {
			return
		}
		for _, rt := range Roots(st.Val) {
			mm, isMake := rt.(*ssa.MakeMap)
			if !isMake {
				complete = false
				continue
			}
			for _, ref := range *mm.Referrers() {
				if mu, isMU := ref.(*ssa.MapUpdate); isMU && mu.Map == ssa.Value(mm) {
					if sv, isC := constString(mu.Key); isC {
						// a false value does not make the key a member
						if cst, isConst := mu.Value.(*ssa.Const); isConst && cst.Value != nil && cst.Value.String() == "false" {
							continue
						}
						keys[sv] = true
					} else {
						complete = false
					}
				}
			}
		}
	})
	// the table must not be written anywhere else
	for f := range p.All {
		if f == init || f.Pkg != g.Pkg {
			continue
		}
		AllInstrs(f, func(in ssa.Instruction) {
			switch u := in.(type) {
			case *ssa.Store:
				if u.Addr == ssa.Value(g) {
					complete = false
				}
			case *ssa.MapUpdate:
				for _, rt := range Roots(u.Map) {
					if l2, ok := rt.(*ssa.UnOp); ok && l2.X == ssa.Value(g) {
						complete = false
					}
				}
			}
		})
	}
	if !complete || len(keys) == 0 {
		return nil, false
	}
	return c09SortedKeys(keys), true
}

// c09DigestAlgorithms: the values of the exported constants of type Algorithm of
// the go-digest package the build uses (sha256, sha384, sha512 today), sorted.
func c09DigestAlgorithms(p *Prog) []string {
	tp := p.TypesPkg("github.com/opencontainers/go-digest")
	if tp == nil {
		return nil
	}
	set := map[string]bool{}
	for _, name := range tp.Scope().Names() {
		cst, ok := tp.Scope().Lookup(name).(*types.Const)
		if !ok || !cst.Exported() || cst.Val().Kind() != constant.String {
			continue
		}
		if named, ok := cst.Type().(*types.Named); !ok || named.Obj().Name() != "Algorithm" || named.Obj().Pkg() != tp {
			continue
		}
		set[constant.StringVal(cst.Val())] = true
	}
	return c09SortedKeys(set)
}

// gcIndex pass 1: every ref != digest entry is kept (re-tagged by digest and by ref, re-indexed);
// pass 2: a digest-only entry is kept only when its subject chain reaches the new graph.
func c09R4GcIndex(c *Ctx, R4 string, h *c09Helpers) {
	f := h.gcIndex
	fn := FnName(f)
	// fresh resolver / graph that replace the store's
	store := c.P.Named("content/oci", "Store")
	var newRes, newGraph ssa.Value
	AllInstrs(f, func(in ssa.Instruction) {
		if s, ok := in.(*ssa.Store); ok {
			if c09IsFieldAddrOf(s.Addr, store, "tagResolver") {
				newRes = s.Val
			}
			if c09IsFieldAddrOf(s.Addr, store, "graph") {
				newGraph = s.Val
			}
		}
	})
	if newRes == nil || newGraph == nil {
		c.LostAnchor(R4, fn+": replacement of s.tagResolver and s.graph")
		return
	}
	// the rebuilt metadata is installed only when the whole rebuild succeeded: no return that may carry an
	// error is produced after an install (a failing pass must leave the store's resolver/graph as they were)
	if ei := ErrResultIndex(f.Signature); ei >= 0 {
		var installs []*ssa.Store
		AllInstrs(f, func(in ssa.Instruction) {
			if s, ok := in.(*ssa.Store); ok && (c09IsFieldAddrOf(s.Addr, store, "tagResolver") || c09IsFieldAddrOf(s.Addr, store, "graph")) {
				installs = append(installs, s)
			}
		})
		okI, at := true, f.Pos()
		for _, a := range RetAtoms(f, ei) {
			if cst, isC := a.Val.(*ssa.Const); isC && cst.Value == nil {
				continue
			}
			if _, isZero := a.Val.(zeroMarker); isZero {
				continue
			}
			for _, st := range installs {
				if c09AtomReachableFrom(st.Block(), instrIndex(st)+1, a, newCut()) {
					okI, at = false, a.Ret.Pos()
				}
			}
		}
		c.Check(R4, fn+"|installed-only-when-rebuilt", at, okI, ifelse(okI, "s.tagResolver / s.graph are replaced only after every pass of the rebuild succeeded: no error is returned past the replacement",
			"an error can be returned after s.tagResolver / s.graph were replaced: a failing pass leaves half-built metadata installed although GC reports failure (reachable content then looks unreachable)"))
	}
	pass1 := 0
	gcIndexFn := f
	// is v (in whatever function below gcIndex) the rebuilt resolver / graph?
	isNew := func(v, orig ssa.Value) bool {
		if v == nil {
			return false
		}
		if c09SameKey(v, orig) || c09SameKey(c09Resolved(v), c09Resolved(orig)) {
			return true
		}
		os, ok := c09Origins(c.P, v, 2, gcIndexFn)
		if !ok || len(os) == 0 {
			return false
		}
		for _, o := range os {
			if !(c09SameKey(o, orig) || c09SameKey(c09Resolved(o), c09Resolved(orig))) {
				return false
			}
		}
		return true
	}
	// the snapshot of the old tag map that the passes range over
	maps := map[ssa.Value]bool{}
	for _, g := range c09ReachableInPkg(gcIndexFn, 2) {
		res := c08StoreFieldLoads(g, store, "tagResolver")
		for _, mc := range CallsTo(g, c09nMap) {
			if res[mc.Common().Args[0]] {
				for a := range Aliases(mc.Value()) {
					maps[a] = true
				}
			}
		}
	}
	for round := 0; round < 2; round++ {
		for _, g := range c09ReachableInPkg(gcIndexFn, 2) {
			for _, prm := range g.Params {
				if os, ok := c09Origins(c.P, prm, 1, nil); ok && len(os) > 0 && !(len(os) == 1 && os[0] == ssa.Value(prm)) {
					all := true
					for _, o := range os {
						all = all && (maps[o] || maps[c09Resolved(o)])
					}
					if all {
						maps[prm] = true
					}
				}
			}
		}
	}
	for _, f := range c09ReachableInPkg(gcIndexFn, 2) {
		if c09IsYieldBody(f) {
			continue // reached through the loop statement of its parent
		}
		for _, p := range c08Passes(c.P, f, maps) {
			p := p
			k, obj, body := p.k, p.obj, p.fn
			inObj := func(v ssa.Value) bool {
				return v != nil && (obj.vals[v] || obj.vals[strip(v)] || obj.vals[c09CellOrValue(v)])
			}
			digestStringOfObj := func(x ssa.Value, bind c09Bind) bool {
				call, ok := strip(x).(*ssa.Call)
				var dg ssa.Value
				if ok && CalleeName(call) == "(digest.Digest).String" {
					dg = call.Call.Args[0]
				} else if cv, isCv := x.(*ssa.Convert); isCv {
					dg = cv.X
				} else if ct, isCt := x.(*ssa.ChangeType); isCt {
					dg = ct.X
				}
				return dg != nil && inObj(bind(c09FieldBase(dg, "Digest")))
			}
			inBody := func(ins []ssa.Instruction) []ssa.Instruction {
				var out []ssa.Instruction
				for _, in := range ins {
					if p.it.InBody(in) {
						out = append(out, in)
					}
				}
				return out
			}
			// Tag on the rebuilt resolver: the method itself, or Tag of a tagger interface that is bound to it
			tagArgs := func(call ssa.CallInstruction, bind c09Bind) (a []ssa.Value, ok bool) {
				cc := call.Common()
				if CalleeName(call) == c09nTag && len(cc.Args) == 4 {
					return cc.Args, isNew(bind(cc.Args[0]), newRes) || isNew(cc.Args[0], newRes)
				}
				if cc.IsInvoke() && cc.Method.Name() == "Tag" && len(cc.Args) == 3 {
					rv := bind(cc.Value)
					if mi, isMI := rv.(*ssa.MakeInterface); isMI {
						rv = mi.X
					}
					return append([]ssa.Value{rv}, cc.Args...), rv != nil && isNew(rv, newRes)
				}
				return nil, false
			}
			tagRef := inBody(c09EffectSites(body, c09Identity, func(call ssa.CallInstruction, bind c09Bind) bool {
				a, ok := tagArgs(call, bind)
				return ok && k != nil && bind(a[3]) != nil && c09SameKey(bind(a[3]), k) && inObj(bind(c09CellOrValue(a[2])))
			}, 2))
			tagDg := inBody(c09EffectSites(body, c09Identity, func(call ssa.CallInstruction, bind c09Bind) bool {
				a, ok := tagArgs(call, bind)
				return ok && digestStringOfObj(a[3], bind)
			}, 2))
			idx := inBody(c09EffectSites(body, c09Identity, func(call ssa.CallInstruction, bind c09Bind) bool {
				a := call.Common().Args
				return CalleeName(call) == c09nIndexAll && len(a) == 4 && (isNew(bind(a[0]), newGraph) || isNew(a[0], newGraph))
			}, 2))
			lpos := p.it.Stmt.Pos()
			if p.l != nil {
				lpos = blockPos(p.l.Header)
			}
			if len(tagRef) > 0 || len(tagDg) > 0 {
				bad, at := c09IterEarlyExit(p.it)
				if !bad {
					at = lpos
				}
				c.Check(R4, fn+"|"+ifelse(len(tagRef) > 0, "pass1", "pass2")+"-runs-to-the-end", at, !bad, ifelse(!bad, "the pass over the old tag map is left without an error only when the map is exhausted",
					"the pass over the old tag map can be left early while the rebuild reports success: the entries not visited lose their tags / become garbage"))
			}
			if len(tagRef) > 0 {
				pass1++
				starts := p.starts(-1)
				if len(starts) == 0 {
					c.Undecided(R4, fn+"|pass1-keeps-tagged-entries", lpos, "the ref != digest test of the first pass is not recognised")
					continue
				}
				for _, req := range []struct {
					what string
					ins  []ssa.Instruction
				}{{"tag-by-ref", tagRef}, {"tag-by-digest", tagDg}, {"index-all", idx}} {
					ok := len(req.ins) > 0
					for _, b := range starts {
						if p.it.ContinuesWithout(b, 0, newCut().Instr(req.ins...)) {
							ok = false
						}
					}
					c.Check(R4, fn+"|pass1-keeps-tagged-entries:"+req.what, lpos, ok, ifelse(ok,
						"every ref != digest entry that continues the loop went through "+req.what+" on the new resolver/graph",
						"a tagged entry (ref != digest) can be skipped without "+req.what+": GC would drop a tag or treat tagged content as garbage"))
				}
				continue
			}
			// pass 2: digest-only entries are kept only under graph.Exists(subject)
			if len(tagDg) > 0 {
				exT, _, _ := CallTests(body, c09nExists, func(x *ssa.Call) bool { return isNew(x.Call.Args[0], newGraph) })
				// … or a helper that answers true only on newGraph.Exists(...) == true
				te, _ := c09BoolCallEdges(body, func(call *ssa.Call, g *ssa.Function) (int, bool) {
					if fnPkgPath(g) != fnPkgPath(body) {
						return 0, false
					}
					gb := c09HelperBind(call, g, c09Identity)
					inner, _, _ := CallTests(g, c09nExists, func(x *ssa.Call) bool {
						return isNew(gb(x.Call.Args[0]), newGraph) || isNew(x.Call.Args[0], newGraph)
					})
					for ri := 0; ri < g.Signature.Results().Len(); ri++ {
						if types.Identical(g.Signature.Results().At(ri).Type(), types.Typ[types.Bool]) && len(inner) > 0 && c09TrueImplies(g, ri, inner, nil) {
							return ri, true
						}
					}
					return 0, false
				})
				exT = append(exT, te...)
				ok := true
				for _, t := range append(append([]ssa.Instruction{}, tagDg...), idx...) {
					if !c09Guarded(t, exT) {
						ok = false
					}
				}
				if !ok && len(exT) > 0 {
					c.Undecided(R4, fn+"|pass2-keeps-only-referrers-of-kept-nodes", lpos, "the second pass consults newGraph.Exists but the rule cannot show that an untagged entry is kept only when it answered true (condition shape not recognised)")
					continue
				}
				c.Check(R4, fn+"|pass2-keeps-only-referrers-of-kept-nodes", lpos, ok, ifelse(ok,
					"an untagged entry is re-tagged/re-indexed only on the newGraph.Exists(subject) edge",
					"an untagged entry is kept without its subject chain reaching the rebuilt graph: garbage survives GC"))
				// … and every such entry is kept: once a subject of the chain exists in the rebuilt graph, the entry
				// does not reach the next iteration without having been re-tagged and re-indexed
				if ok && len(exT) > 0 && len(idx) > 0 {
					okK := true
					for _, e := range exT {
						if p.it.InBody(e.From.Instrs[len(e.From.Instrs)-1]) && (p.it.ContinuesWithout(e.To, 0, newCut().Instr(tagDg...)) || p.it.ContinuesWithout(e.To, 0, newCut().Instr(idx...))) {
							okK = false
						}
					}
					c.Check(R4, fn+"|pass2-keeps-every-referrer-of-kept-nodes", lpos, okK, ifelse(okK,
						"an untagged entry whose subject chain reaches the rebuilt graph is re-tagged and re-indexed before the pass moves on",
						"an untagged entry whose subject chain reaches the rebuilt graph can be skipped: a referrer of reachable content is treated as garbage and its blob is swept"))
				}
			}
		}
	}
	if pass1 == 0 {
		c.LostAnchor(R4, fn+": first pass (range over the resolver map tagging by reference)")
	}
}

// ---------------------------------------------------------------- R5

// c09HandsOverLock: f returns a function value that releases a lock (the bound
// method value mu.Unlock / mu.RUnlock, or a closure that calls it): the lock f
// acquires is released by whoever runs that value.
func c09HandsOverLock(f *ssa.Function) bool {
	res := f.Signature.Results()
	for i := 0; i < res.Len(); i++ {
		if _, isFunc := res.At(i).Type().Underlying().(*types.Signature); !isFunc {
			continue
		}
		for _, a := range RetAtoms(f, i) {
			mc, ok := c09Resolved(a.Val).(*ssa.MakeClosure)
			if !ok {
				continue
			}
			g := mc.Fn.(*ssa.Function)
			if n := g.Name(); strings.HasSuffix(g.String(), ".Unlock$bound") || strings.HasSuffix(g.String(), ".RUnlock$bound") || n == "Unlock$bound" || n == "RUnlock$bound" {
				return true
			}
			for _, call := range Calls(g, func(string) bool { return true }) {
				if op, _ := lockOp(call); op == "U" || op == "RU" {
					return true
				}
			}
		}
	}
	return false
}

// c09StoreState: the fields of oci.Store that s.sync protects.
var c09StoreState = map[string]bool{"root": true, "indexPath": true, "index": true, "storage": true, "tagResolver": true, "graph": true}

// c09UsesStoreState: v is the store itself (handed on as a whole) or is computed
// from one of its lock-protected fields; option fields (AutoGC, …) do not count.
func c09UsesStoreState(v, recv ssa.Value) bool {
	found := false
	seen := map[ssa.Value]bool{}
	var walk func(x ssa.Value, d int)
	walk = func(x ssa.Value, d int) {
		if x == nil || d > 8 || seen[x] || found {
			return
		}
		seen[x] = true
		if x == recv {
			found = true
			return
		}
		switch u := x.(type) {
		case *ssa.FieldAddr:
			if u.X == recv {
				name := fieldName(u.X.Type(), u.Field)
				name = name[strings.LastIndex(name, ".")+1:]
				if pt, ok := u.X.Type().Underlying().(*types.Pointer); ok {
					if named, ok := pt.Elem().(*types.Named); ok {
						for role := range c09StoreState {
							if c09FieldRole(named, role) == name {
								found = true
							}
						}
					}
				}
				return
			}
			walk(u.X, d+1)
		case *ssa.UnOp:
			walk(u.X, d+1)
		case *ssa.Field:
			walk(u.X, d+1)
		case *ssa.IndexAddr:
			walk(u.X, d+1)
		case *ssa.Index:
			walk(u.X, d+1)
		case *ssa.Slice:
			walk(u.X, d+1)
		case *ssa.MakeInterface:
			walk(u.X, d+1)
		case *ssa.ChangeType:
			walk(u.X, d+1)
		case *ssa.ChangeInterface:
			walk(u.X, d+1)
		case *ssa.Convert:
			walk(u.X, d+1)
		case *ssa.Extract:
			walk(u.Tuple, d+1)
		case *ssa.Phi:
			for _, e := range u.Edges {
				walk(e, d+1)
			}
		case *ssa.Call:
			for _, a := range u.Call.Args {
				walk(a, d+1)
			}
		case *ssa.Alloc:
			var inner func(a ssa.Value, dd int)
			inner = func(a ssa.Value, dd int) {
				if dd > 3 || a.Referrers() == nil {
					return
				}
				for _, r := range *a.Referrers() {
					switch w := r.(type) {
					case *ssa.Store:
						if w.Addr == a {
							walk(w.Val, d+1)
						}
					case *ssa.FieldAddr:
						inner(w, dd+1)
					case *ssa.IndexAddr:
						if w.X == a {
							inner(w, dd+1)
						}
					}
				}
			}
			inner(u, 0)
		}
	}
	walk(v, 0)
	return found
}

func c09R5(c *Ctx) {
	const R5 = "C09.R5.exclusive"
	c.Expect(R5, 2)
	for _, name := range []string{"Store.Delete", "Store.GC"} {
		f := c.P.Fn("content/oci", name)
		if f == nil {
			c.LostAnchor(R5, "~/content/oci."+name)
			continue
		}
		recv := f.Params[0]
		lockField := "sync"
		if st := c.P.Named("content/oci", "Store"); st != nil {
			lockField = c09FieldRole(st, "sync")
		}
		lockPath := "P:" + recv.Name() + "." + lockField
		held := heldAt(f, heldSet{})
		n, bad := 0, ""
		var badPos token.Pos
		// the lock taken by a helper that hands back its release (`unlock := s.lockExclusive(); defer unlock()`):
		// held from the call on when the helper returns with the receiver's lock in write mode and the returned
		// release is deferred here
		var takers []*ssa.Call
		AllInstrs(f, func(in ssa.Instruction) {
			call, ok := in.(*ssa.Call)
			g := (*ssa.Function)(nil)
			if ok {
				g = StaticCallee(call)
			}
			if g == nil || !inModule(g) || len(g.Blocks) == 0 || len(g.Params) == 0 || len(call.Call.Args) == 0 || call.Call.Args[0] != ssa.Value(recv) || !c09HandsOverLock(g) {
				return
			}
			gh := heldAt(g, heldSet{})
			all := true
			for _, r := range Returns(g) {
				all = all && gh[r]["P:"+g.Params[0].Name()+"."+lockField] == modeW
			}
			deferred := false
			for _, ref := range *call.Referrers() {
				if d, isD := ref.(*ssa.Defer); isD && d.Call.Value == ssa.Value(call) {
					deferred = true
				}
			}
			if all && deferred {
				takers = append(takers, call)
			}
		})
		viaHelper := func(in ssa.Instruction) bool {
			if in == nil {
				return false
			}
			for _, t := range takers {
				if in != ssa.Instruction(t) && Dominates(t, in) {
					return true
				}
			}
			for _, t := range takers {
				if in == ssa.Instruction(t) {
					return true // the taker itself
				}
			}
			return false
		}
		AllInstrs(f, func(in ssa.Instruction) {
			call, ok := in.(*ssa.Call)
			if !ok {
				return
			}
			if op, _ := lockOp(call); op != "" {
				return
			}
			uses := false
			for _, a := range call.Call.Args {
				if c09UsesStoreState(a, recv) {
					uses = true
				}
			}
			if !uses && !fsMutators[CalleeName(call)] {
				return
			}
			n++
			if held[in][lockPath] < modeW && bad == "" && !viaHelper(in) {
				bad, badPos = CalleeName(call)+" at "+c.P.Pos(call.Pos()), call.Pos()
			}
		})
		AllInstrs(f, func(in ssa.Instruction) {
			if g, ok := in.(*ssa.Go); ok && bad == "" {
				bad, badPos = "go statement at "+c.P.Pos(g.Pos())+" (the goroutine runs without the lock)", g.Pos()
			}
		})
		key := FnName(f) + "|s.sync:W"
		if n == 0 {
			c.LostAnchor(R5, FnName(f)+": no store effect found")
			continue
		}
		if bad != "" {
			c.Violation(R5, key, badPos, "the store's state is used without holding s.sync in write mode: "+bad+" — concurrent Push/Tag/Fetch (which take RLock) can interleave with the removal")
		} else {
			c.OK(R5, key, f.Pos(), fmt.Sprintf("s.sync is write-locked at all %d calls that use the store or mutate the file system", n))
		}
	}
	// every lock of the store, the resolver and the graph that a function acquires is released on every way
	// out (a deferred matching unlock that every return passes, or not held any more at the return): a leaked read
	// lock blocks the next Delete/GC for ever
	for _, rel := range []string{"content/oci", "internal/resolver", "internal/graph"} {
		for _, f := range c09FuncsOfPkg(c.P, rel) {
			if c09IsYieldBody(f) {
				continue
			}
			acquires := false
			for _, call := range Calls(f, func(string) bool { return true }) {
				if _, isCall := call.(*ssa.Call); isCall {
					if op, _ := lockOp(call); op == "L" || op == "RL" {
						acquires = true
					}
				}
			}
			if !acquires || c09HandsOverLock(f) {
				continue // nothing acquired, or the release is handed to the caller (judged where it is deferred)
			}
			held := heldAt(f, heldSet{})
			type rel struct {
				d    ssa.Instruction
				path string
				op   string
			}
			var rels []rel
			AllInstrs(f, func(in ssa.Instruction) {
				d, ok := in.(*ssa.Defer)
				if !ok {
					return
				}
				if op, recv := lockOp(d); op == "U" || op == "RU" {
					rels = append(rels, rel{d, accessPath(recv), op})
					return
				}
				// a deferred helper / closure that releases a lock: counts for every held lock of that mode
				var g *ssa.Function
				if sc := StaticCallee(d); sc != nil {
					g = sc
				} else if mc, isMC := d.Call.Value.(*ssa.MakeClosure); isMC {
					g = mc.Fn.(*ssa.Function)
				}
				if g != nil && inModule(g) {
					for _, call := range Calls(g, func(string) bool { return true }) {
						if op, _ := lockOp(call); op == "U" || op == "RU" {
							rels = append(rels, rel{d, "*", op})
						}
					}
				}
			})
			ok, at, what := true, f.Pos(), ""
			for _, r := range Returns(f) {
				for p, mode := range held[r] {
					want := ifelse(mode == modeW, "U", "RU")
					released := false
					for _, rl := range rels {
						if (rl.path == p || rl.path == "*") && rl.op == want && MustPass(r, newCut().Instr(rl.d)) {
							released = true
						}
					}
					if !released {
						ok, at, what = false, r.Pos(), p
					}
				}
			}
			c.Check(R5, FnName(f)+"|lock-released-on-every-return", at, ok, ifelse(ok, "every lock acquired here is released (explicitly or by a deferred unlock) on every return",
				"the function can return with "+what+" still locked: every later operation that needs the lock in write mode (Delete, GC) blocks for ever"))
		}
	}

}

// ---------------------------------------------------------------- mutants

var c09Mutants = []Mutant{
	// R1.  The first applies once D1 is repaired (it re-introduces the shadowing); on the pinned tree its anchor text is absent and it is skipped.
	{Name: "gcindex-subject-shadowed", File: "content/oci/oci.go",
		Old:    "\t\t\tvar err error\n\t\t\tsubject, err = manifestutil.Subject(ctx, s.storage, *subject)",
		New:    "\t\t\tsubject, err := manifestutil.Subject(ctx, s.storage, *subject)",
		Expect: "C09.R1.loop-progress|(*~/content/oci.Store).gcIndex"},
	{Name: "storage-delete-retry-never-retries", File: "content/oci/storage.go",
		Old:    "\terr = os.Remove(targetPath)\n\tif err != nil {",
		New:    "\tfor err = os.Remove(targetPath); errors.Is(err, fs.ErrExist); {\n\t}\n\tif err != nil {",
		Expect: "C09.R1.loop-progress|(*~/content/oci.Storage).Delete"},
	// R2
	{Name: "untag-keeps-inverse-entry", File: "internal/resolver/memory.go", Old: "\ttagSet.Delete(reference)\n", New: "",
		Expect: "C09.R2.inverse-tags|(*~/internal/resolver.Memory).Untag"},
	{Name: "tag-without-inverse-entry", File: "internal/resolver/memory.go", Old: "\ttagSet.Add(reference)\n", New: "",
		Expect: "C09.R2.inverse-tags|(*~/internal/resolver.Memory).Tag|index-update:inverse-added"},
	{Name: "tag-stale-inverse-left", File: "internal/resolver/memory.go", Old: "\t\t\toldTagSet.Delete(reference)\n", New: "",
		Expect: "C09.R2.inverse-tags|(*~/internal/resolver.Memory).Tag|index-update:stale-inverse-removed"},
	// R3
	{Name: "d11-tagged-referrers-enqueued", File: "content/oci/oci.go", // regression of D11: the fix reverted
		Old:    "\t\t\tfor _, referrer := range referrers {\n\t\t\t\t// do not delete existing tagged manifests\n\t\t\t\tif !s.isTagged(referrer) {\n\t\t\t\t\tdeleteQueue = append(deleteQueue, referrer)\n\t\t\t\t}\n\t\t\t}\n",
		New:    "\t\t\tdeleteQueue = append(deleteQueue, referrers...)\n",
		Expect: "C09.R3.cascade-guards|(*~/content/oci.Store).Delete|referrers-enqueued-only-if-untagged"},
	{Name: "referrers-deleted-without-autogc", File: "content/oci/oci.go", Old: "if s.AutoGC && descriptor.IsManifest(head) {", New: "if descriptor.IsManifest(head) {",
		Expect: "C09.R3.cascade-guards|(*~/content/oci.Store).Delete|referrers-only-under-AutoGC"},
	{Name: "tagged-dangling-deleted", File: "content/oci/oci.go",
		Old:    "\t\t\t\tif !s.isTagged(d) {\n\t\t\t\t\tdeleteQueue = append(deleteQueue, d)\n\t\t\t\t}",
		New:    "\t\t\t\tdeleteQueue = append(deleteQueue, d)",
		Expect: "C09.R3.cascade-guards|(*~/content/oci.Store).Delete|dangling-only-if-untagged"},
	{Name: "dangling-deleted-without-autogc", File: "content/oci/oci.go",
		Old:    "\t\tif s.AutoGC {\n\t\t\tfor _, d := range danglings {",
		New:    "\t\t{\n\t\t\tfor _, d := range danglings {",
		Expect: "C09.R3.cascade-guards|(*~/content/oci.Store).Delete|dangling-only-under-AutoGC"},
	{Name: "untag-by-digest-only", File: "content/oci/oci.go", Old: "if content.Equal(desc, target) {", New: "if content.Equal(desc, target) || desc.Digest == target.Digest {",
		Expect: "C09.R3.cascade-guards|(*~/content/oci.Store).delete|untag-only-equal-descriptors"},
	{Name: "remove-reports-shared-successor", File: "internal/graph/memory.go",
		Old:    "\t\tif len(predecessorEntry) == 0 {\n\t\t\tdelete(m.predecessors, successorKey)\n",
		New:    "\t\t{\n\t\t\tif len(predecessorEntry) == 0 {\n\t\t\t\tdelete(m.predecessors, successorKey)\n\t\t\t}\n",
		Expect: "C09.R3.cascade-guards|(*~/internal/graph.Memory).Remove|dangling-only-without-predecessors"},
	{Name: "istagged-counts-self-reference", File: "content/oci/oci.go",
		Old: "\tif tagSet.Contains(string(desc.Digest)) {\n\t\treturn len(tagSet) > 1\n\t}\n", New: "",
		Expect: "C09.R3.cascade-guards|(*~/content/oci.Store).isTagged"},
	{Name: "istagged-off-by-one", File: "content/oci/oci.go", Old: "\t\treturn len(tagSet) > 1\n", New: "\t\treturn len(tagSet) >= 1\n",
		Expect: "C09.R3.cascade-guards|(*~/content/oci.Store).isTagged"},
	// R4
	{Name: "sweep-removes-reachable", File: "content/oci/oci.go", Old: "\t\t\tif !reachableNodes.Contains(blobDigest) {", New: "\t\t\tif !reachableNodes.Contains(blobDigest) || alg == \"sha512\" {",
		Expect: "C09.R4.sweep-guard|(*~/content/oci.Store).GC|remove-only-unreachable"},
	{Name: "reachable-set-before-reload", File: "content/oci/oci.go",
		Old:    "\terr := s.gcIndex(ctx)\n\tif err != nil {\n\t\treturn fmt.Errorf(\"unable to reload index: %w\", err)\n\t}\n\tif s.AutoSaveIndex {\n\t\tif err := s.saveIndex(); err != nil {\n\t\t\treturn err\n\t\t}\n\t}\n\treachableNodes := s.graph.DigestSet()\n",
		New:    "\treachableNodes := s.graph.DigestSet()\n\terr := s.gcIndex(ctx)\n\tif err != nil {\n\t\treturn fmt.Errorf(\"unable to reload index: %w\", err)\n\t}\n\tif s.AutoSaveIndex {\n\t\tif err := s.saveIndex(); err != nil {\n\t\t\treturn err\n\t\t}\n\t}\n",
		Expect: "C09.R4.sweep-guard|(*~/content/oci.Store).GC|reachable-set-after-gcIndex"},
	{Name: "sweep-ignores-gcindex-error", File: "content/oci/oci.go",
		Old:    "\terr := s.gcIndex(ctx)\n\tif err != nil {\n\t\treturn fmt.Errorf(\"unable to reload index: %w\", err)\n\t}\n",
		New:    "\terr := s.gcIndex(ctx)\n\tif err != nil && ctx.Err() != nil {\n\t\treturn fmt.Errorf(\"unable to reload index: %w\", err)\n\t}\n",
		Expect: "C09.R4.sweep-guard|(*~/content/oci.Store).GC|reachable-set-after-gcIndex"},
	{Name: "sweep-removes-invalid-names", File: "content/oci/oci.go",
		Old: "\t\t\tif err := blobDigest.Validate(); err != nil {\n\t\t\t\t// skip irrelevant content\n\t\t\t\tcontinue\n\t\t\t}\n", New: "",
		Expect: "C09.R4.sweep-guard|(*~/content/oci.Store).GC|remove-only-valid-digest-names"},
	{Name: "sweep-enters-unknown-dirs", File: "content/oci/oci.go",
		Old: "\t\tif !isKnownAlgorithm(alg) {\n\t\t\tcontinue\n\t\t}\n", New: "",
		Expect: "C09.R4.sweep-guard|(*~/content/oci.Store).GC|remove-only-in-known-algorithm-dirs"},
	{Name: "gcindex-tagged-not-reindexed", File: "content/oci/oci.go",
		Old:    "\t\tplain := descriptor.Plain(desc)\n\t\tif err := graph.IndexAll(ctx, s.storage, plain); err != nil {\n\t\t\treturn err\n\t\t}\n\t\ttagged.Add(desc.Digest)",
		New:    "\t\ttagged.Add(desc.Digest)",
		Expect: "C09.R4.sweep-guard|(*~/content/oci.Store).gcIndex|pass1-keeps-tagged-entries:index-all"},
	{Name: "gcindex-keeps-unrooted-referrers", File: "content/oci/oci.go",
		Old: "\t\t\tif graph.Exists(*subject) {", New: "\t\t\tif graph.Exists(*subject) || ref != \"\" {",
		Expect: "C09.R4.sweep-guard|(*~/content/oci.Store).gcIndex|pass2-keeps-only-referrers-of-kept-nodes"},
	{Name: "sweep-forgets-sha384", File: "content/oci/oci.go",
		Old: "\tcase digest.SHA256, digest.SHA512, digest.SHA384:\n", New: "\tcase digest.SHA256, digest.SHA512:\n",
		Expect: "C09.R4.sweep-guard|(*~/content/oci.Store).GC|sweep-covers-every-storable-algorithm"},
	// R5
	{Name: "gc-under-read-lock", File: "content/oci/oci.go",
		Old:    "\ts.sync.Lock()\n\tdefer s.sync.Unlock()\n\n\t// get reachable nodes by reloading the index",
		New:    "\ts.sync.RLock()\n\tdefer s.sync.RUnlock()\n\n\t// get reachable nodes by reloading the index",
		Expect: "C09.R5.exclusive|(*~/content/oci.Store).GC"},
	{Name: "delete-under-read-lock", File: "content/oci/oci.go",
		Old:    "\ts.sync.Lock()\n\tdefer s.sync.Unlock()\n\n\tdeleteQueue",
		New:    "\ts.sync.RLock()\n\tdefer s.sync.RUnlock()\n\n\tdeleteQueue",
		Expect: "C09.R5.exclusive|(*~/content/oci.Store).Delete"},
	// mutation-sweep triage C2
	{Name: "tags-leaks-read-lock", File: "content/oci/oci.go",
		Old: "\ts.sync.RLock()\n\tdefer s.sync.RUnlock()\n\n\treturn listTags(", New: "\ts.sync.RLock()\n\n\treturn listTags(",
		Expect: "C09.R5.exclusive|(*~/content/oci.Store).Tags|lock-released-on-every-return"},
	// coverage review (all keep the repository's tests green)
	{Name: "delete-untags-first-reference-only", File: "content/oci/oci.go",
		Old: "\t\t\tuntagged = true\n", New: "\t\t\tuntagged = true\n\t\t\tbreak\n",
		Expect: "C09.R3.cascade-guards|(*~/content/oci.Store).delete|untag-loop-runs-to-the-end"},
	{Name: "delete-gives-up-on-long-queue", File: "content/oci/oci.go",
		Old: "\t\thead := deleteQueue[0]\n", New: "\t\tif len(deleteQueue) > 4096 {\n\t\t\tbreak // give up on pathological graphs\n\t\t}\n\t\thead := deleteQueue[0]\n",
		Expect: "C09.R3.cascade-guards|(*~/content/oci.Store).Delete|work-list-processed-to-the-end"},
	{Name: "sweep-spares-unreachable-symlinks", File: "content/oci/oci.go",
		Old: "\t\t\tif !reachableNodes.Contains(blobDigest) {", New: "\t\t\tif !reachableNodes.Contains(blobDigest) && digestEntry.Type()&os.ModeSymlink == 0 {",
		Expect: "C09.R4.sweep-guard|(*~/content/oci.Store).GC|every-unreachable-blob-removed"},
	{Name: "gcindex-drops-annotated-referrers", File: "content/oci/oci.go",
		Old: "\t\t\tif graph.Exists(*subject) {", New: "\t\t\tif graph.Exists(*subject) {\n\t\t\t\tif len(desc.Annotations) > 0 {\n\t\t\t\t\tbreak\n\t\t\t\t}",
		Expect: "C09.R4.sweep-guard|(*~/content/oci.Store).gcIndex|pass2-keeps-every-referrer-of-kept-nodes"},
	{Name: "gcindex-pass1-breaks-on-cancel", File: "content/oci/oci.go",
		Old:    "\tfor ref, desc := range refMap {\n\t\tif ref == desc.Digest.String() {\n\t\t\tcontinue\n\t\t}\n",
		New:    "\tfor ref, desc := range refMap {\n\t\tif isContextDone(ctx) != nil {\n\t\t\tbreak\n\t\t}\n\t\tif ref == desc.Digest.String() {\n\t\t\tcontinue\n\t\t}\n",
		Expect: "C09.R4.sweep-guard|(*~/content/oci.Store).gcIndex|pass1-runs-to-the-end"},
	// wave 5: conditions that the carrier / extracted forms must keep too
	{Name: "tag-stale-drop-after-insert", File: "internal/resolver/memory.go",
		Old:    "\tif old, ok := m.index[reference]; ok && old.Digest != desc.Digest {\n\t\t// the reference is moved from another digest, drop the stale entry\n\t\tif oldTagSet, ok := m.tags[old.Digest]; ok {\n\t\t\toldTagSet.Delete(reference)\n\t\t\tif len(oldTagSet) == 0 {\n\t\t\t\tdelete(m.tags, old.Digest)\n\t\t\t}\n\t\t}\n\t}\n\tm.index[reference] = desc\n\ttagSet, ok := m.tags[desc.Digest]\n\tif !ok {\n\t\ttagSet = set.New[string]()\n\t\tm.tags[desc.Digest] = tagSet\n\t}\n\ttagSet.Add(reference)\n",
		New:    "\told, retagged := m.index[reference]\n\tm.index[reference] = desc\n\ttagSet, ok := m.tags[desc.Digest]\n\tif !ok {\n\t\ttagSet = set.New[string]()\n\t\tm.tags[desc.Digest] = tagSet\n\t}\n\ttagSet.Add(reference)\n\tif retagged {\n\t\tif oldTagSet, ok := m.tags[old.Digest]; ok {\n\t\t\toldTagSet.Delete(reference)\n\t\t\tif len(oldTagSet) == 0 {\n\t\t\t\tdelete(m.tags, old.Digest)\n\t\t\t}\n\t\t}\n\t}\n",
		Expect: "C09.R2.inverse-tags|(*~/internal/resolver.Memory).Tag|index-update:inverse-survives"},
	{Name: "delete-skips-blob-without-autogc", File: "content/oci/oci.go",
		Old:    "\tif err := s.storage.Delete(ctx, target); err != nil {\n\t\treturn nil, err\n\t}\n\treturn danglings, nil",
		New:    "\tif !s.AutoGC {\n\t\treturn nil, nil\n\t}\n\tif err := s.storage.Delete(ctx, target); err != nil {\n\t\treturn nil, err\n\t}\n\treturn danglings, nil",
		Expect: "C09.R3.cascade-guards|(*~/content/oci.Store).delete|success-implies-blob-removed"},
	{Name: "sweep-stops-at-first-skipped-entry", File: "content/oci/oci.go",
		Old:    "\t\t\t\t// skip irrelevant content\n\t\t\t\tcontinue",
		New:    "\t\t\t\t// skip irrelevant content\n\t\t\t\treturn nil",
		Expect: "C09.R4.sweep-guard|(*~/content/oci.Store).GC|sweep-runs-to-the-end"},
	{Name: "gcindex-installs-before-referrer-pass", File: "content/oci/oci.go",
		Old:    "\t// index referrer manifests\n",
		New:    "\ts.tagResolver = tagResolver\n\ts.graph = graph\n\n\t// index referrer manifests\n",
		Expect: "C09.R4.sweep-guard|(*~/content/oci.Store).gcIndex|installed-only-when-rebuilt"},
	{Name: "delete-unlocks-early", File: "content/oci/oci.go",
		Old:    "\t\tdanglings, err := s.delete(ctx, head)\n",
		New:    "\t\ts.sync.Unlock()\n\t\tdanglings, err := s.delete(ctx, head)\n\t\ts.sync.Lock()\n",
		Expect: "C09.R5.exclusive|(*~/content/oci.Store).Delete"},
}
