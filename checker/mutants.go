package main

// Checker self-validation (thorough tier): each mutant is a source-level edit
// of one rule instance applied to a scratch copy of the repository (outside
// /repo and /verif, removed immediately).  The mutated tree must still
// type-check and must make the expected rule fire.  A surviving mutant is a
// weakness of the checker (CHECKER-WEAK, exit 2), never a VIOLATION.
// Mutants whose anchor text is no longer present in the current tree are
// skipped (the repository may have been edited legitimately).

import (
	"encoding/json"
	"fmt"
	"os"
	"os/exec"
	"path/filepath"
	"sort"
	"strconv"
	"strings"
	"sync"
)

type Mutant struct {
	Name string
	File string // repository-relative
	Old  string
	New  string
	// Expect: a fired obligation key must have this prefix (usually the rule id).
	Expect string
}

func copyTree(src, dst string) error {
	return filepath.Walk(src, func(path string, info os.FileInfo, err error) error {
		if err != nil {
			return err
		}
		rel, _ := filepath.Rel(src, path)
		if rel == ".git" || strings.HasPrefix(rel, ".git"+string(filepath.Separator)) {
			if info.IsDir() {
				return filepath.SkipDir
			}
			return nil
		}
		target := filepath.Join(dst, rel)
		if info.IsDir() {
			return os.MkdirAll(target, 0o755)
		}
		if !info.Mode().IsRegular() {
			return nil
		}
		b, err := os.ReadFile(path)
		if err != nil {
			return err
		}
		return os.WriteFile(target, b, 0o644)
	})
}

func scratchBase() string {
	base := os.Getenv("TMPDIR")
	if base == "" {
		base = os.TempDir()
	}
	return base
}

// runMutants evaluates every mutant of the property in its own process.
func runMutants(id, repo string, baseline []string) (tried, killed, skipped int, survived []string) {
	ms := props[id].Mutants
	blJSON, _ := json.Marshal(baseline)
	exe, _ := os.Executable()
	par := 8
	if n, err := strconv.Atoi(os.Getenv("ORASCHECK_PAR")); err == nil && n > 0 {
		par = n
	}
	sem := make(chan struct{}, par)
	var mu sync.Mutex
	var wg sync.WaitGroup
	for _, m := range ms {
		src, err := os.ReadFile(filepath.Join(repo, m.File))
		if err != nil || strings.Count(string(src), m.Old) != 1 {
			skipped++
			continue
		}
		tried++
		wg.Add(1)
		go func(m Mutant) {
			defer wg.Done()
			sem <- struct{}{}
			defer func() { <-sem }()
			cmd := exec.Command(exe, "-mutant", id+":"+m.Name, "-repo", repo)
			cmd.Env = append(os.Environ(), "ORASCHECK_BASELINE="+string(blJSON))
			out, err := cmd.CombinedOutput()
			ok := err == nil && strings.Contains(string(out), "MUTANT-KILLED")
			mu.Lock()
			if ok {
				killed++
			} else {
				last := strings.TrimSpace(string(out))
				if i := strings.LastIndex(last, "\n"); i >= 0 {
					last = last[i+1:]
				}
				survived = append(survived, m.Name+" ("+last+")")
			}
			mu.Unlock()
		}(m)
	}
	wg.Wait()
	sort.Strings(survived)
	return
}

// runOneMutant: copy repo, apply the mutant, run the property, report.
func runOneMutant(spec, repo string) int {
	parts := strings.SplitN(spec, ":", 2)
	if len(parts) != 2 || props[parts[0]] == nil {
		fmt.Println("bad mutant spec")
		return 2
	}
	id := parts[0]
	var m *Mutant
	for i := range props[id].Mutants {
		if props[id].Mutants[i].Name == parts[1] {
			m = &props[id].Mutants[i]
		}
	}
	if m == nil {
		fmt.Println("unknown mutant", spec)
		return 2
	}
	dir, err := os.MkdirTemp(scratchBase(), "orascheck-mutant-")
	if err != nil {
		fmt.Println(err)
		return 2
	}
	defer os.RemoveAll(dir)
	if err := copyTree(repo, dir); err != nil {
		fmt.Println(err)
		return 2
	}
	path := filepath.Join(dir, m.File)
	b, _ := os.ReadFile(path)
	if strings.Count(string(b), m.Old) != 1 {
		fmt.Println("MUTANT-SKIPPED anchor text not unique")
		return 0
	}
	os.WriteFile(path, []byte(strings.Replace(string(b), m.Old, m.New, 1)), 0o644)
	p, err := Load(dir, "linux", "amd64")
	if err != nil {
		fmt.Println("MUTANT-INVALID does not type-check:", err)
		return 3
	}
	c := &Ctx{Prop: id, Tier: "quick", P: p, Variant: "mutant"}
	func() {
		defer func() {
			if rec := recover(); rec != nil {
				c.ob("analyser", "panic", 0, Undecided, true, fmt.Sprint(rec))
			}
		}()
		props[id].Run(c)
		runED(c)
		c.finish()
	}()
	var fired []string
	hit := false
	baseline := map[string]bool{}
	var bl []string
	json.Unmarshal([]byte(os.Getenv("ORASCHECK_BASELINE")), &bl)
	for _, k := range bl {
		baseline[k] = true
	}
	for _, o := range c.Obs {
		if o.st != Discharged {
			if baseline[o.Key()] {
				continue // fires on the unmutated tree too (known finding)
			}
			fired = append(fired, o.Key())
			if strings.HasPrefix(o.Key(), m.Expect) {
				hit = true
			}
		}
	}
	js, _ := json.Marshal(fired)
	if hit {
		fmt.Printf("MUTANT-KILLED %s fired=%s\n", m.Name, js)
		return 0
	}
	fmt.Printf("MUTANT-SURVIVED %s expect=%s fired=%s\n", m.Name, m.Expect, js)
	return 1
}
