package main

// Coverage-review additions for C03 (author A): rule R8.
//   R8 filter-asks-and-matches : the FindPredecessors wrappers (Filter*, the default finder) look up the predecessors of
//   the node they were asked about, list referrers unfiltered, and the keep predicates answer by matching the regex
//   against the artifact type / the looked-up annotation value.

import (
	"go/types"
	"sort"
	"strings"

	"golang.org/x/tools/go/ssa"
)

func runC03Coverage(c *Ctx) {
	c03R8(c)
}

const (
	c03nPredecessors = "(~/content.PredecessorFinder).Predecessors"
	c03nReferrers    = "(~/registry.ReferrerLister).Referrers"
	c03nMatchString  = "(*regexp.Regexp).MatchString"
)

// c03OwnOrOuterParam: v is parameter p of its function, or (inside a closure) a parameter of identical type of an
// enclosing function carried in by capture — the storage the whole search runs on.
func c03OwnOrOuterParam(p *Prog, v ssa.Value, own *ssa.Parameter) bool {
	if own == nil {
		return false
	}
	if c01ParamOf(v) == own {
		return true
	}
	in, ok := v.(ssa.Instruction)
	if !ok {
		return false
	}
	for o := in.Parent().Parent(); o != nil; o = o.Parent() {
		for _, q := range o.Params {
			if types.Identical(q.Type(), own.Type()) && c01CarriedFrom(p, v, q) {
				return true
			}
		}
	}
	return false
}

func c03R8(c *Ctx) {
	const R = "C03.R8.filter-asks-and-matches"
	c.Expect(R, 6) // 7 on the pinned tree; the default finder counts only while it is installed into the option field (else C03.R1 default-predecessors covers it)
	fpOpt := c01FieldOf(c.P, "", "ExtendedCopyGraphOptions", "FindPredecessors")
	if fpOpt == nil {
		c.LostAnchor(R, "~.ExtendedCopyGraphOptions.FindPredecessors")
		return
	}
	// ---- (A)/(B): every function installed as FindPredecessors asks about its own query ----
	type wrapper struct {
		W   *ssa.Function
		key string
	}
	var ws []wrapper
	seenW := map[*ssa.Function]bool{}
	for _, F := range c.P.FuncsOfPkg("") {
		for _, st := range c04FieldStores(F, fpOpt) {
			W, _ := c01FuncOfValue(st.Val)
			if W == nil || len(W.Blocks) == 0 || !inModule(W) || seenW[W] || len(W.Params) < 3 {
				continue
			}
			seenW[W] = true
			ws = append(ws, wrapper{W, c01OuterName(W) + "$wrapper"})
		}
	}
	sort.Slice(ws, func(i, j int) bool { return ws[i].key < ws[j].key })
	for _, w := range ws {
		W := w.W
		var ctxP, srcP, descP *ssa.Parameter
		for _, p := range W.Params {
			switch {
			case c01IsOCIDescriptor(p.Type()):
				descP = p
			case c03IsContext(p.Type()):
				ctxP = p
			default:
				if _, isIface := p.Type().Underlying().(*types.Interface); isIface && srcP == nil {
					srcP = p
				}
			}
		}
		if ctxP == nil || srcP == nil || descP == nil {
			c.Undecided(R, w.key+"|lookups-about-own-query", W.Pos(), "the installed finder does not have the (ctx, src, desc) parameters")
			continue
		}
		n, nRef := 0, 0
		bad, badRef := "", ""
		var scan func(f *ssa.Function, ctxP, srcP, descP *ssa.Parameter, depth int)
		scan = func(f *ssa.Function, ctxP, srcP, descP *ssa.Parameter, depth int) {
			isSrc := func(v ssa.Value) bool {
				for _, r := range Roots(v) {
					if ex, isEx := r.(*ssa.Extract); isEx && ex.Index == 0 {
						if ta, isTA := ex.Tuple.(*ssa.TypeAssert); isTA {
							r = ta.X
						}
					} else if ta, isTA := r.(*ssa.TypeAssert); isTA {
						r = ta.X
					}
					ok := false
					for _, r2 := range Roots(r) {
						if c03OwnOrOuterParam(c.P, r2, srcP) {
							ok = true
						} else {
							return false
						}
					}
					if !ok {
						return false
					}
				}
				return true
			}
			isDesc := func(v ssa.Value) bool { return c01ParamOf(v) == descP }
			for _, call := range Calls(f, func(string) bool { return true }) {
				cc := call.Common()
				switch name := CalleeName(call); {
				case name == c03nPredecessors && cc.IsInvoke():
					n++
					if !isSrc(cc.Value) {
						bad = "Predecessors is asked of something else than the storage the finder was given"
					}
					if len(cc.Args) != 2 || !isDesc(cc.Args[1]) {
						bad = "Predecessors is asked about a descriptor other than the node the finder was called with"
					}
				case name == c03nReferrers && cc.IsInvoke():
					n++
					nRef++
					if !isSrc(cc.Value) {
						bad = "Referrers is asked of something else than the storage the finder was given"
					}
					if len(cc.Args) != 4 || !isDesc(cc.Args[1]) {
						bad = "Referrers is asked about a descriptor other than the node the finder was called with"
					}
					if len(cc.Args) == 4 {
						if s, isK := constString(cc.Args[2]); !isK || s != "" {
							badRef = "the referrers are listed with a server-side artifact-type restriction: referrers the regex / annotation filter would keep are never seen"
						}
					}
				case !cc.IsInvoke() && StaticCallee(call) == nil && c01IsCallbackValue(cc.Value, fpOpt):
					n++
					if len(cc.Args) != 3 || c01ParamOf(cc.Args[0]) != ctxP || !isSrc(cc.Args[1]) || !isDesc(cc.Args[2]) {
						bad = "the previous FindPredecessors is not called with the finder's own ctx, storage and node"
					}
				default:
					// a module helper handed the storage and the node: its lookups are judged with the parameters mapped
					g := StaticCallee(call)
					if g == nil || !inModule(g) || len(g.Blocks) == 0 || depth >= 2 || fnPkgPath(g) != Mod {
						continue
					}
					var gc, gs, gd *ssa.Parameter
					for i, a := range cc.Args {
						if i >= len(g.Params) {
							break
						}
						switch {
						case isDesc(a):
							gd = g.Params[i]
						case c01ParamOf(a) == ctxP && ctxP != nil:
							gc = g.Params[i]
						case isSrc(a):
							gs = g.Params[i] // the storage itself or its ReferrerLister view
						}
					}
					if gs != nil && gd != nil {
						scan(g, gc, gs, gd, depth+1)
					}
				}
			}
		}
		scan(W, ctxP, srcP, descP, 0)
		if n == 0 {
			c.Undecided(R, w.key+"|lookups-about-own-query", W.Pos(), "no predecessor lookup (Predecessors / Referrers / previous FindPredecessors) recognised in the installed finder")
			continue
		}
		c.Check(R, w.key+"|lookups-about-own-query", W.Pos(), bad == "",
			ifelse(bad == "", "every predecessor lookup of the finder (Predecessors / Referrers / previous FindPredecessors) is about the node and the storage it was called with", bad+": ancestors of the node are missed or another node's ancestors are copied"))
		if nRef > 0 {
			c.Check(R, w.key+"|referrers-listed-unfiltered", W.Pos(), badRef == "",
				ifelse(badRef == "", "Referrers is listed with the empty artifact type: the filtering is done by the keep predicate only", badRef))
		}
	}
	// ---- (C): FilterArtifactType keeps on regex.MatchString(descriptor.ArtifactType) ----
	atVar := c01FieldOf(c.P, c01OCISpec, "Descriptor", "ArtifactType")
	annVar := c01FieldOf(c.P, c01OCISpec, "Descriptor", "Annotations")
	FAT := c.P.Fn("", "ExtendedCopyGraphOptions.FilterArtifactType")
	FA := c.P.Fn("", "ExtendedCopyGraphOptions.FilterAnnotation")
	if atVar == nil || annVar == nil || FAT == nil || FA == nil || len(FAT.Params) != 2 || len(FA.Params) != 3 {
		c.LostAnchor(R, "(*~.ExtendedCopyGraphOptions).FilterArtifactType(regex) / FilterAnnotation(key, regex) / ocispec.Descriptor.{ArtifactType,Annotations}")
		return
	}
	family := func(root *ssa.Function) []*ssa.Function {
		set := c01ReachableFns(root, 3)
		for changed := true; changed; {
			changed = false
			for _, f := range c.P.FuncsOfPkg("") {
				if !set[f] && f.Parent() != nil && set[f.Parent()] {
					for g := range c01ReachableFns(f, 3) {
						if !set[g] {
							set[g], changed = true, true
						}
					}
				}
			}
		}
		var out []*ssa.Function
		for f := range set {
			out = append(out, f)
		}
		sort.Slice(out, func(i, j int) bool { return out[i].String() < out[j].String() })
		return out
	}
	// answersOnlyOnMatch: every answer of K other than `false` is the match result itself or follows one of `edges`
	answersOnlyOnMatch := func(K *ssa.Function, match map[ssa.Value]bool, edges []Edge) bool {
		mt, _ := BoolTests(K, match)
		cut := newCut().Edges(mt...).Edges(edges...)
		for _, a := range RetAtoms(K, 0) {
			if k, isK := a.Val.(*ssa.Const); isK && k.Value != nil && !boolConst(k) {
				continue
			}
			if match[a.Val] {
				continue
			}
			if !AtomMustPass(a, cut) {
				return false
			}
		}
		return true
	}
	isBoolFn := func(f *ssa.Function) bool {
		if f.Signature.Results().Len() != 1 {
			return false
		}
		b, ok := f.Signature.Results().At(0).Type().Underlying().(*types.Basic)
		return ok && b.Kind() == types.Bool
	}
	regexOK := func(v ssa.Value, regexParam *ssa.Parameter) bool {
		return c01ParamOf(v) == regexParam || c01CarriedFrom(c.P, v, regexParam)
	}
	{
		nM, why := 0, ""
		for _, K := range family(FAT) {
			for _, mc := range c03MatchCalls(K) {
				cv := mc.call
				nM++
				if !regexOK(mc.recv, FAT.Params[1]) {
					why = "a regular expression other than the one given to FilterArtifactType is matched"
				}
				arg := mc.arg
				okArg := true
				for _, r := range Roots(arg) {
					if c01IsFieldValue(r, atVar) {
						continue
					}
					if p := c01ParamOf(r); p != nil && p.Parent() == K {
						// a string parameter: every caller in the family passes an artifact type
						idx := -1
						for i, q := range K.Params {
							if q == p {
								idx = i
							}
						}
						nCallers := 0
						for _, G := range family(FAT) {
							for _, cs := range Calls(G, func(string) bool { return true }) {
								callee := StaticCallee(cs)
								if callee == nil && !cs.Common().IsInvoke() {
									callee, _ = c01FuncOfValue(cs.Common().Value)
								}
								if callee != K || idx >= len(cs.Common().Args) {
									continue
								}
								nCallers++
								for _, r2 := range Roots(cs.Common().Args[idx]) {
									if !c01IsFieldValue(r2, atVar) {
										okArg = false
									}
								}
							}
						}
						if nCallers == 0 {
							okArg = false
						}
						continue
					}
					okArg = false
				}
				if !okArg {
					why = "the regular expression is matched against something else than the descriptor's artifact type"
				}
				if isBoolFn(K) && !answersOnlyOnMatch(K, Aliases(cv), nil) {
					why = "the keep predicate can answer true without the artifact type matching the regular expression"
				}
			}
		}
		if nM == 0 {
			c.Undecided(R, FnName(FAT)+"$keep|matches-artifact-type", FAT.Pos(), "no regex.MatchString call recognised in FilterArtifactType and the functions it sets up")
		} else {
			c.Check(R, FnName(FAT)+"$keep|matches-artifact-type", FAT.Pos(), why == "",
				ifelse(why == "", "the keep predicate answers with regex.MatchString(descriptor.ArtifactType) for the regex given to FilterArtifactType", why+": predecessors are followed / dropped by something else than their artifact type"))
		}
	}
	// ---- (D): FilterAnnotation applies the regex to the looked-up value ----
	{
		keyParam, regexParam := FA.Params[1], FA.Params[2]
		nM, why := 0, ""
		for _, K := range family(FA) {
			if !isBoolFn(K) {
				continue
			}
			values := map[ssa.Value]bool{}
			AllInstrs(K, func(in ssa.Instruction) {
				lk, ok := in.(*ssa.Lookup)
				if !ok || !c01IsFieldValue(lk.X, annVar) || !c01CarriedFrom(c.P, lk.Index, keyParam) {
					return
				}
				if !lk.CommaOk {
					values[lk] = true
					return
				}
				for _, r := range *lk.Referrers() {
					if ex, isEx := r.(*ssa.Extract); isEx && ex.Index == 0 {
						values[ex] = true
					}
				}
			})
			if len(values) == 0 {
				continue
			}
			regexVals := map[ssa.Value]bool{}
			AllInstrs(K, func(in ssa.Instruction) {
				if v, isV := in.(ssa.Value); isV && types.Identical(v.Type(), regexParam.Type()) && regexOK(v, regexParam) {
					regexVals[v] = true
				}
			})
			reNil, _, _ := NilTests(K, regexVals)
			match := map[ssa.Value]bool{}
			for _, mc := range c03MatchCalls(K) {
				cv := mc.call
				nM++
				if !regexOK(mc.recv, regexParam) {
					why = "a regular expression other than the one given to FilterAnnotation is matched"
				}
				for _, r := range Roots(mc.arg) {
					if !values[r] {
						why = "the regular expression is matched against something else than the value looked up under the key"
					}
				}
				for a := range Aliases(cv) {
					match[a] = true
				}
			}
			if len(match) > 0 && !answersOnlyOnMatch(K, match, reNil) {
				why = "with a regular expression set the keep predicate can answer true without the annotation value matching it"
			}
		}
		if nM == 0 {
			c.Undecided(R, FnName(FA)+"$keep|regex-matches-looked-up-value", FA.Pos(), "no regex.MatchString call recognised in the predicate that looks up Annotations[key]")
		} else {
			c.Check(R, FnName(FA)+"$keep|regex-matches-looked-up-value", FA.Pos(), why == "",
				ifelse(why == "", "with a regex set, a true answer follows regex.MatchString(annotations[key]) (or regex == nil)", why+": predecessors are followed / dropped by something else than the annotation value"))
		}
	}
}

// c03MatchCall: one invocation of (*regexp.Regexp).MatchString — called as a method, or through a bound method value
// (`matches := regex.MatchString`).
type c03MatchCall struct {
	call      *ssa.Call
	recv, arg ssa.Value
}

func c03MatchCalls(K *ssa.Function) []c03MatchCall {
	var out []c03MatchCall
	for _, call := range Calls(K, func(string) bool { return true }) {
		cv, isV := call.(*ssa.Call)
		if !isV || cv.Call.IsInvoke() {
			continue
		}
		if CalleeName(cv) == c03nMatchString && len(cv.Call.Args) == 2 {
			out = append(out, c03MatchCall{cv, cv.Call.Args[0], cv.Call.Args[1]})
			continue
		}
		if StaticCallee(cv) != nil || len(cv.Call.Args) != 1 {
			continue
		}
		if g, recv := c01FuncOfValue(cv.Call.Value); g != nil && recv != nil && g.Name() == "MatchString" && g.Signature.Recv() != nil && g.Pkg != nil && g.Pkg.Pkg.Path() == "regexp" {
			out = append(out, c03MatchCall{cv, recv, cv.Call.Args[0]})
		}
	}
	return out
}

// c03OnDecodeFailure: the sink reads its member only on paths where decoding the document it reads from failed (the
// error of the encoding/json call fed with the document's address, or of the module helper returning it, is non-nil).
func c03OnDecodeFailure(s c03Sink) bool {
	if s.Base == nil || s.At == nil {
		return false
	}
	fn := s.At.Parent()
	var errs []ssa.Value
	addCall := func(call ssa.CallInstruction) {
		if e := ErrOf(call); e != nil {
			errs = append(errs, e)
		}
	}
	switch b := s.Base.(type) {
	case *ssa.Alloc:
		for _, r := range *b.Referrers() {
			if mi, isMI := r.(*ssa.MakeInterface); isMI {
				for _, r2 := range *mi.Referrers() {
					if call, isCall := r2.(ssa.CallInstruction); isCall {
						if n := CalleeName(call); strings.HasPrefix(n, "encoding/json.") || strings.HasPrefix(n, "(*encoding/json.") {
							addCall(call)
						}
					}
				}
			}
		}
		for _, st := range storesTo(b) {
			if ex, isEx := st.Val.(*ssa.Extract); isEx {
				if call, isCall := ex.Tuple.(*ssa.Call); isCall {
					addCall(call)
				}
			}
		}
	case *ssa.Extract:
		if call, isCall := b.Tuple.(*ssa.Call); isCall {
			addCall(call)
		}
	}
	var failed []Edge
	for _, e := range errs {
		if in, ok := e.(ssa.Instruction); !ok || in.Parent() != fn {
			continue
		}
		_, nonNil, _ := NilTests(fn, Aliases(e))
		failed = append(failed, nonNil...)
	}
	if len(failed) == 0 {
		return false
	}
	cut := newCut().Edges(failed...)
	if MustPass(s.At, cut) {
		return true
	}
	for _, e := range s.Edges {
		if c01MustPassEdge(e, cut) {
			return true
		}
	}
	return false
}

func c03IsContext(t types.Type) bool {
	n, ok := t.(*types.Named)
	return ok && n.Obj().Pkg() != nil && n.Obj().Pkg().Path() == "context" && n.Obj().Name() == "Context"
}

// c03CovMutants: mutants of the coverage-review rules. "tests green" = the repository's own test suite passes with the
// mutant applied (go test ./... in a scratch copy; content/file TestStore_Dir_OverwriteSymlink_RemovalFailed fails on the
// pristine tree too when run as root and is disregarded).
var c03CovMutants = []Mutant{
	{Name: "dfs-stops-at-visited-node", File: "extendedcopy.go", // tests green (mutation sweep extendedcopy.go|cont-break|1)
		Old:    "\t\t\t// skip the current node if it has been visited\n\t\t\tcontinue",
		New:    "\t\t\t// skip the current node if it has been visited\n\t\t\tbreak",
		Expect: "C03.R1.find-roots-shape|~.findRoots|dfs-runs-until-stack-empty"},
	{Name: "index-type-read-only-when-decode-fails", File: "extendedcopy.go", // tests green (mutation sweep extendedcopy.go|neg-cond|45)
		Old:    "\t\tif err := json.NewDecoder(rc).Decode(&index); err != nil {\n\t\t\treturn \"\", err\n\t\t}\n\t\treturn index.ArtifactType, nil",
		New:    "\t\tif err := json.NewDecoder(rc).Decode(&index); err == nil {\n\t\t\treturn \"\", err\n\t\t}\n\t\treturn index.ArtifactType, nil",
		Expect: "C03.R3.artifact-type-derivation|~.fetchArtifactType|handles-image-index"},
	{Name: "untyped-predecessor-kept", File: "extendedcopy.go", // tests green
		Old:    "\t\treturn regex.MatchString(desc.ArtifactType)\n",
		New:    "\t\treturn desc.ArtifactType == \"\" || regex.MatchString(desc.ArtifactType)\n",
		Expect: "C03.R8.filter-asks-and-matches|(*~.ExtendedCopyGraphOptions).FilterArtifactType$keep|matches-artifact-type"},
	{Name: "annotation-regex-matches-key", File: "extendedcopy.go", // tests green
		Old:    "\t\treturn ok && (regex == nil || regex.MatchString(value))",
		New:    "\t\treturn ok && (regex == nil || regex.MatchString(key+\"=\"+value))",
		Expect: "C03.R8.filter-asks-and-matches|(*~.ExtendedCopyGraphOptions).FilterAnnotation$keep|regex-matches-looked-up-value"},
	{Name: "empty-annotation-value-kept", File: "extendedcopy.go", // tests green
		Old:    "\t\treturn ok && (regex == nil || regex.MatchString(value))",
		New:    "\t\treturn ok && (regex == nil || value == \"\" || regex.MatchString(value))",
		Expect: "C03.R8.filter-asks-and-matches|(*~.ExtendedCopyGraphOptions).FilterAnnotation$keep|regex-matches-looked-up-value"},
	{Name: "default-finder-asks-start-node", File: "extendedcopy.go", // caught by the repository tests as well
		Old:    "\t\t\treturn src.Predecessors(ctx, desc)\n",
		New:    "\t\t\treturn src.Predecessors(ctx, node)\n",
		Expect: "C03.R8.filter-asks-and-matches|~.findRoots$wrapper|lookups-about-own-query"},
	{Name: "regex-pushed-down-to-referrers", File: "extendedcopy.go", // caught by the repository tests as well
		Old:    "\tkeep := func(desc ocispec.Descriptor) bool {\n\t\treturn regex.MatchString(desc.ArtifactType)\n\t}\n\n\tfp := opts.FindPredecessors\n\topts.FindPredecessors = func(ctx context.Context, src content.ReadOnlyGraphStorage, desc ocispec.Descriptor) ([]ocispec.Descriptor, error) {\n\t\tvar predecessors []ocispec.Descriptor\n\t\tvar err error\n\t\tif fp == nil {\n\t\t\tif rf, ok := src.(registry.ReferrerLister); ok {\n\t\t\t\t// if src is a ReferrerLister, use Referrers() for possible memory saving\n\t\t\t\tif err := rf.Referrers(ctx, desc, \"\", func",
		New:    "\tkeep := func(desc ocispec.Descriptor) bool {\n\t\treturn regex.MatchString(desc.ArtifactType)\n\t}\n\n\tfp := opts.FindPredecessors\n\topts.FindPredecessors = func(ctx context.Context, src content.ReadOnlyGraphStorage, desc ocispec.Descriptor) ([]ocispec.Descriptor, error) {\n\t\tvar predecessors []ocispec.Descriptor\n\t\tvar err error\n\t\tif fp == nil {\n\t\t\tif rf, ok := src.(registry.ReferrerLister); ok {\n\t\t\t\t// if src is a ReferrerLister, use Referrers() for possible memory saving\n\t\t\t\tif err := rf.Referrers(ctx, desc, regex.String(), func",
		Expect: "C03.R8.filter-asks-and-matches|(*~.ExtendedCopyGraphOptions).FilterArtifactType$wrapper|referrers-listed-unfiltered"},
	{Name: "keep-matches-media-type", File: "extendedcopy.go", // caught by the repository tests as well
		Old:    "\t\treturn regex.MatchString(desc.ArtifactType)\n",
		New:    "\t\treturn regex.MatchString(desc.MediaType)\n",
		Expect: "C03.R8.filter-asks-and-matches|(*~.ExtendedCopyGraphOptions).FilterArtifactType$keep|matches-artifact-type"},
}
