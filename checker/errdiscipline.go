package main

// ED — errors of the mechanism are dropped only after being classified.
//
// A generic rule instantiated for every property: after the property's own
// rules ran, the functions named in its obligation constructs (and their
// anonymous functions) are the property's mechanism; every call with an error
// result inside them must either surface its error (shared ErrFlow, path
// sensitive variant as a second opinion) or drop it through one of the
// enumerated idioms below.  Obligation key: Cnn.ED.error-surfaces|<fn>|<callee>.

import (
	"fmt"
	"go/token"
	"go/types"
	"sort"
	"strings"

	"golang.org/x/tools/go/ssa"
)

// edDeliberate: the remaining deliberate drops, keyed by CALLEE and role.
// role "discard": the error is never looked at; "probe": the error is only
// compared with nil and the failure edge merely skips optional work / falls
// back (the comparison must be there: an untested probe is a violation).
var edDeliberate = map[string]struct{ role, why string }{
	"(*~/registry/remote.Repository).SetReferrersCapability": {"discard", "idempotent capability latch: the only error is 'already set to the other value', which every caller treats as 'keep the first answer'"},
	"os.Chtimes":                               {"discard", "best-effort restoration of modification times during extraction"},
	"mime.ParseMediaType":                      {"discard", "Content-Type fallback: an unparsable header yields the default media type"},
	"strconv.ParseInt":                         {"discard", "Retry-After parse fallback: an unparsable value means 'no hint'"},
	"strconv.QuotedPrefix":                     {"probe", "challenge parsing: a malformed quoted value ends the parameter list"},
	"strconv.Unquote":                          {"probe", "challenge parsing: a malformed quoted value ends the parameter list"},
	"(digest.Digest).Validate":                 {"probe", "validity predicate: the error itself is the classification 'not a digest'"},
	"digest.Parse":                             {"probe", "optional checksum / digest probe: an unparsable value selects the branch without verifier"},
	"(~/registry.Reference).Digest":            {"probe", "probe whether the reference is a digest"},
	"~/registry.ParseReference":                {"probe", "not a fully qualified reference: it is then parsed relative to the repository and validated there"},
	"(~/registry/remote/auth.Cache).GetScheme": {"probe", "cache miss is reported as an error; the request proceeds and the challenge flow decides"},
	"(~/registry/remote/auth.Cache).GetToken":  {"probe", "cache miss is reported as an error; the request proceeds and the challenge flow decides"},
	"field:net/http.Request.GetBody":           {"probe", "the body cannot be rewound: the retry is abandoned and the original response/error is returned"},
}

// edCalleeDepth: how far ED follows static callees of the attributed functions.
const edCalleeDepth = 2

var edConstructors = map[string]bool{"errors.New": true, "fmt.Errorf": true, "errors.Join": true,
	// state queries, not operations that fail
	"(context.Context).Err": true, "context.Cause": true}

// edInfallible: documented to always return a nil error.
func edInfallible(n string) bool {
	return strings.HasPrefix(n, "(*strings.Builder).") || strings.HasPrefix(n, "(*bytes.Buffer).Write") || strings.HasPrefix(n, "(hash.Hash).Write")
}

type edVerdict struct {
	ok   bool
	how  string
	skip bool
}

var (
	edCache     = map[ssa.Instruction]edVerdict{}
	edCacheProg *Prog
	edCtor      = map[*ssa.Function]int8{}
)

// edIsConstructor: g's only result is error and it merely builds it (no
// fallible call inside).
func edIsConstructor(g *ssa.Function, depth int) bool {
	if g == nil || len(g.Blocks) == 0 || depth > 2 {
		return false
	}
	if v, ok := edCtor[g]; ok {
		return v == 1
	}
	edCtor[g] = 2
	res := g.Signature.Results()
	if res.Len() != 1 || !isErrorType(res.At(0).Type()) {
		return false
	}
	okc := true
	AllInstrs(g, func(in ssa.Instruction) {
		c, isCall := in.(ssa.CallInstruction)
		if !isCall || !hasErrResult(c) {
			return
		}
		if edConstructors[CalleeName(c)] {
			return
		}
		if h := StaticCallee(c); h != nil && inModule(h) && edIsConstructor(h, depth+1) {
			return
		}
		okc = false
	})
	if okc {
		edCtor[g] = 1
	}
	return okc
}

// edAttributed: the functions named (as whole tokens) in the constructs of
// the property's obligations, plus their anonymous functions.
func edAttributed(c *Ctx) []*ssa.Function {
	var sb strings.Builder
	for _, o := range c.Obs {
		sb.WriteString(o.Construct)
		sb.WriteByte('\n')
	}
	text := sb.String()
	isNameChar := func(b byte) bool {
		return b == '_' || b == '$' || b == '[' || (b >= '0' && b <= '9') || (b >= 'a' && b <= 'z') || (b >= 'A' && b <= 'Z')
	}
	isPrefixChar := func(b byte) bool {
		return isNameChar(b) || b == '/' || b == '.' || b == '~' || b == '*' || b == '('
	}
	set := map[*ssa.Function]bool{}
	for f := range c.P.All {
		if len(f.Blocks) == 0 || !inModule(f) || f.Pos() == 0 {
			continue
		}
		if f.Synthetic != "" && !strings.HasPrefix(f.Synthetic, "instance of") && f.Parent() == nil {
			continue
		}
		name := FnName(f)
		for from := 0; ; {
			i := strings.Index(text[from:], name)
			if i < 0 {
				break
			}
			i += from
			j := i + len(name)
			if (i == 0 || !isPrefixChar(text[i-1])) && (j >= len(text) || !isNameChar(text[j])) {
				set[f] = true
				break
			}
			from = i + 1
		}
	}
	var roots []*ssa.Function
	for f := range set {
		roots = append(roots, f)
	}
	for _, f := range roots {
		for _, a := range Anons(f) {
			if len(a.Blocks) > 0 {
				set[a] = true
			}
		}
	}
	// the helpers the mechanism runs through: static in-module callees (and
	// closures passed directly), transitively to depth 2; not interface dispatch
	frontier := make([]*ssa.Function, 0, len(set))
	for f := range set {
		frontier = append(frontier, f)
	}
	for depth := 0; depth < edCalleeDepth; depth++ {
		var next []*ssa.Function
		add := func(g *ssa.Function) {
			if g == nil || set[g] || len(g.Blocks) == 0 || !inModule(g) {
				return
			}
			set[g] = true
			next = append(next, g)
			for _, a := range Anons(g) {
				if len(a.Blocks) > 0 && !set[a] {
					set[a] = true
					next = append(next, a)
				}
			}
		}
		for _, f := range frontier {
			AllInstrs(f, func(in ssa.Instruction) {
				call, ok := in.(ssa.CallInstruction)
				if !ok || call.Common().IsInvoke() {
					return
				}
				add(StaticCallee(call))
				for _, a := range call.Common().Args {
					switch x := a.(type) {
					case *ssa.MakeClosure:
						add(x.Fn.(*ssa.Function))
					case *ssa.Function:
						add(x)
					}
				}
			})
		}
		frontier = next
	}
	var out []*ssa.Function
	for f := range set {
		out = append(out, f)
	}
	sort.Slice(out, func(i, j int) bool {
		if out[i].String() != out[j].String() {
			return out[i].String() < out[j].String()
		}
		return out[i].Pos() < out[j].Pos()
	})
	return out
}

// runED is called by the driver after the property's own rules.
func runED(c *Ctx) {
	rule := c.Prop + ".ED.error-surfaces"
	if edCacheProg != c.P {
		edCache = map[ssa.Instruction]edVerdict{}
		edCtor = map[*ssa.Function]int8{}
		edCacheProg = c.P
	}
	type agg struct {
		pos  token.Pos
		bad  []string
		good []string
	}
	sites := 0
	byKey := map[string]*agg{}
	var keys []string
	for _, f := range edAttributed(c) {
		for _, b := range f.Blocks {
			for _, in := range b.Instrs {
				call, isCall := in.(ssa.CallInstruction)
				if !isCall || !hasErrResult(call) {
					continue
				}
				v, ok := edCache[in]
				if !ok {
					v = edJudge(c.P, call)
					edCache[in] = v
				}
				if v.skip {
					continue
				}
				sites++
				k := FnName(f) + "|" + CalleeName(call)
				a := byKey[k]
				if a == nil {
					a = &agg{pos: call.Pos()}
					byKey[k] = a
					keys = append(keys, k)
				}
				if v.ok {
					a.good = append(a.good, v.how)
				} else {
					a.bad = append(a.bad, fmt.Sprintf("%s: %s", c.P.Pos(call.Pos()), v.how))
					a.pos = call.Pos()
				}
			}
		}
	}
	sort.Strings(keys)
	for _, k := range keys {
		a := byKey[k]
		if len(a.bad) > 0 {
			c.Violation(rule, k, a.pos, "the error of this call is dropped without being classified: "+strings.Join(a.bad, "; "))
		} else {
			c.OK(rule, k, a.pos, a.good[0])
		}
	}
	if sites == 0 {
		c.LostAnchor(rule, "no error-returning call in the functions the property's rules are anchored in")
	}
}

// ---------- the verdict for one call site ----------

func edJudge(p *Prog, call ssa.CallInstruction) edVerdict {
	n := CalleeName(call)
	// (1) error constructors are not fallible calls
	if edConstructors[n] || edInfallible(n) {
		return edVerdict{skip: true}
	}
	if g := StaticCallee(call); g != nil && inModule(g) && edIsConstructor(g, 0) {
		// a constructor always yields an error, or wraps the error it is given
		// (nil -> nil); a function that may return nil on its own is a validator
		// whose verdict must be heeded
		wraps := false
		for _, prm := range g.Params {
			if isErrorType(prm.Type()) {
				wraps = true
			}
		}
		if v := call.Value(); wraps || (v != nil && ErrNilStatus(v, 0) == NonNil) {
			return edVerdict{skip: true}
		}
	}
	fn := call.Parent()
	_, isDefer := call.(*ssa.Defer)
	if _, isGo := call.(*ssa.Go); isGo {
		return edVerdict{skip: true}
	}
	// a test that sits in dead code (`if false && err != nil`) is no test
	dead := edDeadBlocks(fn)
	if len(dead) > 0 && !isDefer {
		if e := ErrOf(call); e != nil && !dead[call.Block()] {
			al := Aliases(e)
			_, _, tests := NilTests(fn, al)
			live := 0
			for _, t := range tests {
				if !dead[t.Block()] {
					live++
				}
			}
			if len(tests) > 0 && live == 0 {
				direct := false
				if errIdx := ErrResultIndex(fn.Signature); errIdx >= 0 {
					for _, a := range RetAtoms(fn, errIdx) {
						if (al[a.Val] || al[strip(a.Val)]) && !dead[a.Ret.Block()] {
							direct = true
						}
					}
				}
				if !direct && edSinkLive(p, fn, al, dead) == "" {
					return edVerdict{how: "the only test of this error is unreachable (its condition is constantly false): the error is neither tested, returned nor handed on"}
				}
			}
		}
	}
	if dead[call.Block()] {
		return edVerdict{skip: true}
	}
	if !isDefer {
		if r := ErrFlow(call, ErrFlowOpts{AllowCancel: true}); r.OK {
			return edVerdict{ok: true, how: "surfaces: " + r.How}
		} else if r.How == "clobbered-by-deferred-store" {
			return edVerdict{how: r.How + r.Detail}
		}
		if r := c02ErrFlowCore(call, ErrFlowOpts{AllowCancel: true}); r.OK {
			return edVerdict{ok: true, how: "surfaces (path-sensitive): " + r.How}
		}
		if r, handled := c02YieldErrFlow(call, ErrFlowOpts{}); handled && r.OK {
			return edVerdict{ok: true, how: "surfaces: " + r.How}
		}
	}
	cleanup, writeSide := edCleanupClass(call)
	// (2) deferred cleanup
	if isDefer {
		if cleanup && !writeSide {
			return edVerdict{ok: true, how: "deferred read-side cleanup (Close/Remove); its error is not a failure of the operation"}
		}
		if cleanup {
			return edVerdict{how: "deferred Close of a writer / written file discards its error (buffered data may be lost silently)"}
		}
		// `closeFile := sync.OnceValue(f.Close); defer closeFile(); ... err := closeFile()`:
		// the deferred call is the panic-path duplicate of an explicit call that is handled
		for _, o := range Calls(fn, func(string) bool { return true }) {
			if _, d := o.(*ssa.Defer); d || o == call || o.Common().IsInvoke() != call.Common().IsInvoke() {
				continue
			}
			if StaticCallee(o) == nil && SameValue(o.Common().Value, call.Common().Value) {
				if v := edJudge(p, o); v.ok {
					return edVerdict{ok: true, how: "deferred duplicate of an explicit call of the same function value, whose error is handled"}
				}
			}
		}
		return edVerdict{how: "deferred call: its error cannot surface"}
	}
	e := ErrOf(call)
	if e == nil {
		// the error result is never extracted
		if cleanup && !writeSide && (edOnFailureOrDeferredPath(call) || edIsCleanupHelper(fn)) {
			return edVerdict{ok: true, how: "cleanup (Close/Remove) on a failure path, in deferred code or in a cleanup helper; its error is not a failure of the operation"}
		}
		if cleanup && !writeSide && strings.HasSuffix(n, ".Close") {
			return edVerdict{ok: true, how: "read-side Close; its error is not a failure of the operation"}
		}
		if d, ok := edDeliberate[n]; ok && d.role == "discard" {
			return edVerdict{ok: true, how: "deliberate: " + d.why}
		}
		if cleanup && writeSide {
			return edVerdict{how: "Close of a writer / written file discards its error (buffered data may be lost silently)"}
		}
		return edVerdict{how: "error result is discarded"}
	}
	aliases := Aliases(e)
	// (4) handed to a sink that surfaces it
	if how := edSink(p, fn, aliases); how != "" {
		return edVerdict{ok: true, how: how}
	}
	// handed to an in-module helper that returns it (possibly wrapped) or drops
	// it only after classifying it: ignoreAlreadyExists(err), existsUnlessNotFound(err), wrapX(err)
	if how := edHandedToHelper(p, fn, aliases, 0); how != "" {
		return edVerdict{ok: true, how: how}
	}
	// (3) on every feasible path from the failure to a success return the error
	// is classified, or the same question is put to an alternative
	_, _, ifs := NilTests(fn, aliases)
	cls, alt := edClassifiers(fn, aliases), edAlternatives(fn, call)
	ct := map[ssa.Instruction]bool{}
	for in := range cls {
		ct[in] = true
	}
	for in := range alt {
		ct[in] = true
	}
	bad, exceeded := edFailureReachesSuccess(fn, call, e, aliases, ct)
	if exceeded {
		// too many paths: the path-insensitive version of the same question
		bad = true
		if errIdx := ErrResultIndex(fn.Signature); errIdx >= 0 && len(ifs) > 0 {
			sc := newCut().Instr(call.(ssa.Instruction))
			for in := range ct {
				sc.Instr(in)
			}
			bad = false
			_, nonNilE, _ := NilTests(fn, aliases)
			for _, ne := range nonNilE {
				if findNilReturnFrom(fn, ne, errIdx, sc, aliases) != nil {
					bad = true
				}
			}
		}
	}
	if !bad {
		switch {
		case len(cls) == 0 && len(alt) == 0:
			return edVerdict{ok: true, how: "surfaces on every feasible path (error variable shared with later steps / failure reported through the result)"}
		case len(alt) > 0 && len(cls) == 0:
			return edVerdict{ok: true, how: "fallback: on failure the same operation is tried on an alternative, whose error surfaces"}
		default:
			return edVerdict{ok: true, how: "dropped only after classification (errors.Is/As, sentinel comparison, predicate or type test of this error)"}
		}
	}
	if g := StaticCallee(call); g != nil && inModule(g) && len(ifs) > 0 {
		// only "not found" is an answer rather than a failure
		// (or an unexported sentinel: a module-private signal such as "unexpected format", not a failure callers can see)
		sentinel := edSingleCause(g)
		private := false
		if i := strings.LastIndex(sentinel, "."); i >= 0 && i+1 < len(sentinel) && sentinel[i+1] >= 'a' && sentinel[i+1] <= 'z' {
			private = true
		}
		if sentinel == "~/errdef.ErrNotFound" || private {
			return edVerdict{ok: true, how: "the callee fails in exactly one way (" + sentinel + "): comparing its error with nil is the classification"}
		}
	}
	if d, ok := edDeliberate[n]; ok {
		if d.role == "discard" || len(ifs) > 0 {
			return edVerdict{ok: true, how: "deliberate: " + d.why}
		}
	}
	if cleanup && !writeSide {
		if edOnFailureOrDeferredPath(call) || strings.HasSuffix(n, ".Close") || edIsCleanupHelper(fn) {
			return edVerdict{ok: true, how: "cleanup (Close/Remove); its error is not a failure of the operation"}
		}
	}
	if len(ifs) == 0 {
		return edVerdict{how: "error value is neither tested, classified, returned nor handed on"}
	}
	return edVerdict{how: "after the error is found non-nil a path returns success without classifying it"}
}

// edCleanupClass: Close / Remove family; writeSide: the closed object is a
// writer or a file that was (or may have been) opened for writing.
func edCleanupClass(call ssa.CallInstruction) (cleanup, writeSide bool) {
	n := CalleeName(call)
	switch n {
	case "os.Remove", "os.RemoveAll":
		return true, false
	}
	if strings.HasSuffix(n, ").CloseWithError") {
		return true, false // pipe ends: always returns nil
	}
	if !strings.HasSuffix(n, ").Close") {
		return false, false
	}
	cc := call.Common()
	var recv ssa.Value
	if cc.IsInvoke() {
		recv = cc.Value
	} else if len(cc.Args) > 0 {
		recv = cc.Args[0]
	}
	if recv == nil {
		return true, false
	}
	tn := recv.Type().String()
	if strings.Contains(tn, "Writer") || strings.Contains(tn, "WriteCloser") {
		return true, true
	}
	if strings.HasSuffix(tn, "os.File") {
		return true, edFileWritable(recv, 0)
	}
	return true, false
}

// edFileWritable: the *os.File may have been opened for writing (anything
// but a provable os.Open).
func edFileWritable(v ssa.Value, depth int) bool {
	if depth > 4 {
		return true
	}
	for _, r := range Roots(v) {
		switch u := r.(type) {
		case *ssa.Extract:
			if c, ok := u.Tuple.(*ssa.Call); ok && CalleeName(c) == "os.Open" {
				continue
			}
			return true
		case *ssa.UnOp:
			if u.Op == token.MUL {
				var vals []ssa.Value
				switch x := u.X.(type) {
				case *ssa.FreeVar, *ssa.Alloc:
					vals = c02CellValues(x, 0)
				}
				if len(vals) == 0 {
					return true
				}
				for _, val := range vals {
					if edFileWritable(val, depth+1) {
						return true
					}
				}
				continue
			}
			return true
		default:
			return true
		}
	}
	return false
}

// edOnFailureOrDeferredPath: the call runs in deferred code, or only where
// some other error was already found non-nil.
func edOnFailureOrDeferredPath(call ssa.CallInstruction) bool {
	fn := call.Parent()
	if par := fn.Parent(); par != nil {
		deferred := false
		AllInstrs(par, func(in ssa.Instruction) {
			if d, ok := in.(*ssa.Defer); ok {
				if mc, ok := d.Call.Value.(*ssa.MakeClosure); ok && mc.Fn == fn {
					deferred = true
				}
			}
		})
		if deferred {
			return true
		}
	}
	ct := newCut()
	n := 0
	for _, ifi := range Ifs(fn) {
		cond, t, f := ifEdges(ifi)
		bo, ok := cond.(*ssa.BinOp)
		if !ok || (bo.Op != token.EQL && bo.Op != token.NEQ) {
			continue
		}
		var x ssa.Value
		if isNilConst(bo.Y) {
			x = bo.X
		} else if isNilConst(bo.X) {
			x = bo.Y
		}
		if x == nil || !isErrorType(x.Type()) {
			continue
		}
		n++
		if bo.Op == token.NEQ {
			ct.Edges(t)
		} else {
			ct.Edges(f)
		}
	}
	return n > 0 && MustPass(call.(ssa.Instruction), ct)
}

// edSink: the error is handed to something that surfaces it: stored into the
// enclosing function's named result from deferred code, into a captured
// variable / struct field that is read elsewhere, sent on a channel, passed to
// CloseWithError / a cancel-cause function / a callback / appended as text.
func edSink(p *Prog, fn *ssa.Function, aliases map[ssa.Value]bool) string {
	carries := func(v ssa.Value) bool { return aliases[v] || aliases[strip(v)] || derivesFromAny(v, aliases, 0) }
	how := ""
	dead := edDeadBlocks(fn)
	AllInstrs(fn, func(in ssa.Instruction) {
		if how != "" || dead[in.Block()] {
			return
		}
		switch x := in.(type) {
		case *ssa.Store:
			if !carries(x.Val) {
				return
			}
			switch a := x.Addr.(type) {
			case *ssa.FreeVar:
				if edCapturedIsReturned(fn, a) {
					how = "stored into the captured variable " + a.Name() + ", which the enclosing function (or a sibling closure) returns"
				}
			case *ssa.FieldAddr:
				how = "stored into the struct field " + fieldName(a.X.Type(), a.Field) + ", which reports it later"
			case *ssa.Parameter:
				how = "stored through the pointer parameter " + a.Name()
			case *ssa.Global:
				how = "stored into the package variable " + a.Name()
			}
		case *ssa.Send:
			if carries(x.X) {
				how = "sent on a channel"
			}
		case *ssa.MapUpdate:
			if carries(x.Value) {
				how = "recorded in a map"
			}
		case ssa.CallInstruction:
			cc := x.Common()
			n := CalleeName(x)
			if cc.IsInvoke() && aliases[cc.Value] {
				how = "consumed through its accessor " + n // err.Error(), status accessor
				return
			}
			for _, a := range cc.Args {
				if !aliases[a] && !aliases[strip(a)] {
					continue
				}
				switch {
				case strings.HasSuffix(n, ").CloseWithError"):
					how = "handed to CloseWithError"
				case strings.HasPrefix(n, "dyn:") || strings.HasPrefix(n, "field:") || strings.HasPrefix(n, "closure:"):
					how = "handed to the callback " + n
				default:
					if nt, ok := cc.Value.Type().(*types.Named); ok && nt.Obj().Name() == "CancelCauseFunc" {
						how = "handed to the cancel-cause function"
					} else if cc.IsInvoke() {
						how = "handed to " + n
					}
				}
			}
		}
	})
	return how
}

// edClassifiers: the instructions that classify this error value: errors.Is /
// errors.As on it, == / != against a sentinel, a predicate receiving it, a
// type assertion on it.
func edClassifiers(fn *ssa.Function, aliases map[ssa.Value]bool) map[ssa.Instruction]bool {
	out := map[ssa.Instruction]bool{}
	AllInstrs(fn, func(in ssa.Instruction) {
		switch x := in.(type) {
		case *ssa.Call:
			name := CalleeName(x)
			for i, a := range x.Call.Args {
				if !aliases[a] && !aliases[strip(a)] {
					continue
				}
				if (name == "errors.Is" || name == "errors.As") && i == 0 {
					out[x] = true
				} else if sig := x.Call.Signature(); sig != nil && sig.Results().Len() == 1 {
					if b, ok := sig.Results().At(0).Type().Underlying().(*types.Basic); ok && b.Kind() == types.Bool {
						out[x] = true // os.IsNotExist(err), isTemporary(err) ...
					}
				}
			}
		case *ssa.BinOp:
			if x.Op != token.EQL && x.Op != token.NEQ {
				return
			}
			var other ssa.Value
			if aliases[x.X] {
				other = x.Y
			} else if aliases[x.Y] {
				other = x.X
			}
			if other != nil && !isNilConst(other) {
				out[x] = true // compared with a sentinel
			}
		case *ssa.TypeAssert:
			if aliases[x.X] {
				out[x] = true
			}
		case *ssa.MakeClosure:
			// a predicate closure that captured the error variable and classifies it
			// (slices.ContainsFunc(ignored, func(t error) bool { return errors.Is(err, t) }))
			g := x.Fn.(*ssa.Function)
			for j, bnd := range x.Bindings {
				a, isAlloc := bnd.(*ssa.Alloc)
				if !isAlloc || !isErrorType(a.Type().(*types.Pointer).Elem()) {
					continue
				}
				holds := false
				for _, st := range storesTo(a) {
					if aliases[st.Val] || aliases[strip(st.Val)] {
						holds = true
					}
				}
				if !holds {
					continue
				}
				inner := map[ssa.Value]bool{}
				for _, ref := range *g.FreeVars[j].Referrers() {
					if ld, isLd := ref.(*ssa.UnOp); isLd && ld.Op == token.MUL {
						for al := range Aliases(ld) {
							inner[al] = true
						}
					}
				}
				if len(edClassifiers(g, inner)) > 0 {
					out[x] = true
				}
			}
		}
	})
	return out
}

// edSingleCause: every non-nil error g returns is one and the same
// package-level sentinel (possibly wrapped by fmt.Errorf): returns its name.
func edSingleCause(g *ssa.Function) string {
	errIdx := ErrResultIndex(g.Signature)
	if errIdx < 0 || len(g.Blocks) == 0 {
		return ""
	}
	name := ""
	for _, a := range RetAtoms(g, errIdx) {
		if ErrNilStatus(a.Val, 0) == IsNil {
			continue
		}
		var sn string
		switch u := a.Val.(type) {
		case *ssa.Call:
			if CalleeName(u) != "fmt.Errorf" {
				return ""
			}
			// the only error-typed operand is a sentinel
			globals := map[ssa.Value]bool{}
			AllInstrs(g, func(in ssa.Instruction) {
				if ld, ok := in.(*ssa.UnOp); ok && ld.Op == token.MUL {
					if gl, ok := ld.X.(*ssa.Global); ok && isErrorType(gl.Type().(*types.Pointer).Elem()) {
						globals[ld] = true
					}
				}
			})
			for gl := range globals {
				if derivesFromAny(u, map[ssa.Value]bool{gl: true}, 0) {
					if s := sentinelName(gl); sn == "" {
						sn = s
					} else if s != sn {
						return ""
					}
				}
			}
		default:
			sn = sentinelName(a.Val)
			if strings.HasPrefix(sn, "local:") {
				sn = ""
			}
		}
		if sn == "" || (name != "" && sn != name) {
			return ""
		}
		name = sn
	}
	return name
}

// edAlternatives: other calls of the same operation (same callee, or the
// method of the same name on another receiver / interface, or an in-module
// helper that performs it): cache first, then the source.
func edAlternatives(fn *ssa.Function, call ssa.CallInstruction) map[ssa.Instruction]bool {
	out := map[ssa.Instruction]bool{}
	n := CalleeName(call)
	suffix := n
	if strings.HasPrefix(n, "dyn:") || strings.HasPrefix(n, "field:") {
		// a function value: the same value again (get(primary) / get(secondary)) or
		// another function value of the identical type (primary() / secondary())
		for _, o := range Calls(fn, func(m string) bool { return strings.HasPrefix(m, "dyn:") || strings.HasPrefix(m, "field:") }) {
			if _, isDefer := o.(*ssa.Defer); isDefer || o == call {
				continue
			}
			if types.Identical(o.Common().Value.Type(), call.Common().Value.Type()) {
				out[o.(ssa.Instruction)] = true
			}
		}
		return out
	}
	if dot := strings.LastIndex(n, ")."); dot >= 0 {
		suffix = n[dot:]
	} else if !call.Common().IsInvoke() {
		return out
	}
	same := func(m string) bool {
		return m == n || (strings.HasPrefix(suffix, ").") && strings.HasSuffix(m, suffix))
	}
	for _, o := range Calls(fn, func(string) bool { return true }) {
		if o == call {
			continue
		}
		if _, isDefer := o.(*ssa.Defer); isDefer {
			continue
		}
		if same(CalleeName(o)) {
			out[o.(ssa.Instruction)] = true
			continue
		}
		if g, _ := c02CalleeOf(o); g != nil && g != fn && hasErrResult(o) {
			if c02ReachesStatic(g, 2, func(in ssa.Instruction) bool {
				ic, ok := in.(ssa.CallInstruction)
				return ok && same(CalleeName(ic))
			}) {
				out[o.(ssa.Instruction)] = true
			}
		}
	}
	return out
}

// edFailureReachesSuccess explores the feasible paths of fn with the error of
// `call` forced non-nil and reports whether a success return (nil-able error
// result; for a function without error result: a return that does not report
// the failure through a constant zero/false result) is reached without
// executing one of the stop instructions.
func edFailureReachesSuccess(fn *ssa.Function, call ssa.CallInstruction, e ssa.Value, aliases map[ssa.Value]bool, stop map[ssa.Instruction]bool) (bad, exceeded bool) {
	ex := newC02Explorer(fn)
	ex.budget = 15000
	errIdx := ErrResultIndex(fn.Signature)
	eInstr, _ := e.(ssa.Instruction)
	dead := edDeadBlocks(fn)
	ex.instr = func(in ssa.Instruction, env *c02Env) bool {
		if bad || dead[in.Block()] {
			return false
		}
		failed := env.user.touched
		if failed && stop[in] {
			return false
		}
		if failed && call != nil && in == call.(ssa.Instruction) {
			return false // a new error value
		}
		if in == eInstr || (eInstr == nil && !failed) {
			env.nilOf[e] = 2
			env.user.touched = true
			env.user.last = nil
			if in == eInstr {
				return true
			}
		}
		if !failed {
			return true
		}
		if st, ok := in.(*ssa.Store); ok {
			if fa, isFA := st.Addr.(*ssa.FieldAddr); isFA && isErrorType(st.Val.Type()) {
				if ex.nilness(st.Val, env) == 2 || aliases[st.Val] || derivesFromAny(st.Val, aliases, 0) {
					env.user.last = st
					_ = fa
				}
			}
		}
		r, ok := in.(*ssa.Return)
		if !ok {
			return true
		}
		if errIdx < 0 {
			// the failure is reported through the non-error result: every result a constant zero value
			allZero := len(r.Results) > 0
			for _, v := range r.Results {
				c, isC := v.(*ssa.Const)
				if !isC || !(c.Value == nil || c.Value.String() == "false" || c.Value.String() == "0" || c.Value.String() == `""`) {
					allZero = false
				}
			}
			if !allZero {
				bad = true
			}
			return false
		}
		res := r.Results[errIdx]
		if ex.nilness(res, env) == 2 {
			return false
		}
		rv := ex.res(res, env)
		if aliases[res] || aliases[strip(res)] || (rv != nil && (aliases[rv] || derivesFromAny(rv, aliases, 0))) || derivesFromAny(res, aliases, 0) {
			return false
		}
		// `x.err = Sentinel; return x.err`
		if ld, isLd := res.(*ssa.UnOp); isLd && ld.Op == token.MUL {
			if fa, isFA := ld.X.(*ssa.FieldAddr); isFA {
				if st, isSt := env.user.last.(*ssa.Store); isSt {
					if sfa := st.Addr.(*ssa.FieldAddr); sfa.Field == fa.Field && types.Identical(sfa.X.Type(), fa.X.Type()) {
						return false
					}
				}
			}
		}
		bad = true
		return false
	}
	ex.run(c02Permit{})
	return bad, ex.exceeded
}

// edDeadBlocks: blocks reachable only through the infeasible edge of an If
// whose condition is a constant (`if false && err != nil` leaves the test of
// err in such a block).
func edDeadBlocks(fn *ssa.Function) map[*ssa.BasicBlock]bool {
	hasConst := false
	for _, i := range Ifs(fn) {
		if _, ok := i.Cond.(*ssa.Const); ok {
			hasConst = true
		}
	}
	if !hasConst {
		return nil
	}
	live := map[*ssa.BasicBlock]bool{}
	var walk func(b *ssa.BasicBlock)
	walk = func(b *ssa.BasicBlock) {
		if live[b] {
			return
		}
		live[b] = true
		if len(b.Instrs) > 0 {
			if i, ok := b.Instrs[len(b.Instrs)-1].(*ssa.If); ok {
				if c, isC := i.Cond.(*ssa.Const); isC && c.Value != nil {
					if c.Value.String() == "true" {
						walk(b.Succs[0])
					} else {
						walk(b.Succs[1])
					}
					return
				}
			}
		}
		for _, s := range b.Succs {
			walk(s)
		}
	}
	walk(fn.Blocks[0])
	if fn.Recover != nil {
		walk(fn.Recover)
	}
	dead := map[*ssa.BasicBlock]bool{}
	for _, b := range fn.Blocks {
		if !live[b] {
			dead[b] = true
		}
	}
	return dead
}

// edSinkLive: edSink restricted to live code.
func edSinkLive(p *Prog, fn *ssa.Function, aliases map[ssa.Value]bool, dead map[*ssa.BasicBlock]bool) string {
	live := map[ssa.Value]bool{}
	for a := range aliases {
		if in, ok := a.(ssa.Instruction); ok && dead[in.Block()] {
			continue
		}
		live[a] = true
	}
	return edSink(p, fn, live)
}

// edCapturedIsReturned: the variable captured as fv is, in live code of the
// enclosing function or of another closure that captured it, returned as an
// error result.
func edCapturedIsReturned(fn *ssa.Function, fv *ssa.FreeVar) bool {
	var cells []ssa.Value
	for _, b := range freeVarBindings(fv) {
		cells = append(cells, b)
	}
	top := fn
	for top.Parent() != nil {
		top = top.Parent()
	}
	isCell := func(v ssa.Value, g *ssa.Function) bool {
		for _, c := range cells {
			if v == c {
				return true
			}
		}
		if f2, ok := v.(*ssa.FreeVar); ok {
			for _, b := range freeVarBindings(f2) {
				for _, c := range cells {
					if b == c {
						return true
					}
				}
			}
		}
		return false
	}
	for _, g := range append([]*ssa.Function{top}, Anons(top)...) {
		errIdx := ErrResultIndex(g.Signature)
		if errIdx < 0 || len(g.Blocks) == 0 {
			continue
		}
		dead := edDeadBlocks(g)
		for _, r := range Returns(g) {
			if dead[r.Block()] || errIdx >= len(r.Results) {
				continue
			}
			found := false
			var visit func(v ssa.Value, depth int)
			visit = func(v ssa.Value, depth int) {
				if depth > 4 || found {
					return
				}
				switch u := v.(type) {
				case *ssa.UnOp:
					if u.Op == token.MUL && isCell(u.X, g) {
						found = true
					}
				case *ssa.Phi:
					for _, e := range u.Edges {
						visit(e, depth+1)
					}
				case *ssa.Call:
					for _, a := range u.Call.Args {
						visit(a, depth+1)
					}
				case *ssa.Slice:
					visit(u.X, depth+1)
				case *ssa.Alloc:
					for _, ref := range *u.Referrers() {
						if ia, ok := ref.(*ssa.IndexAddr); ok {
							for _, r2 := range *ia.Referrers() {
								if st, ok := r2.(*ssa.Store); ok {
									visit(st.Val, depth+1)
								}
							}
						}
					}
				case *ssa.MakeInterface:
					visit(u.X, depth+1)
				case *ssa.ChangeInterface:
					visit(u.X, depth+1)
				}
			}
			visit(r.Results[errIdx], 0)
			if found {
				return true
			}
		}
	}
	return false
}

// edIsCleanupHelper: fn has no error result and its only error-returning
// calls are of the Close / Remove family (discardIngest(path), closeQuietly(c)).
func edIsCleanupHelper(fn *ssa.Function) bool {
	if ErrResultIndex(fn.Signature) >= 0 || fn.Parent() != nil {
		return false
	}
	n, ok := 0, true
	AllInstrs(fn, func(in ssa.Instruction) {
		c, isCall := in.(ssa.CallInstruction)
		if !isCall || !hasErrResult(c) {
			return
		}
		n++
		if cl, ws := edCleanupClass(c); !cl || ws {
			ok = false
		}
	})
	return ok && n > 0
}

// edHandedToHelper: the error is passed to an in-module function in which —
// with that parameter non-nil — every feasible path to a success return
// classifies it (or the function returns it / a wrap of it, or sinks it).
func edHandedToHelper(p *Prog, fn *ssa.Function, aliases map[ssa.Value]bool, depth int) string {
	if depth > 2 {
		return ""
	}
	dead := edDeadBlocks(fn)
	how := ""
	for _, m := range Calls(fn, func(string) bool { return true }) {
		if how != "" {
			break
		}
		if _, isDefer := m.(*ssa.Defer); isDefer || dead[m.(ssa.Instruction).Block()] {
			continue
		}
		g, off := c02CalleeOf(m)
		if g == nil || g == fn {
			continue
		}
		for i, a := range m.Common().Args {
			if !aliases[a] && !aliases[strip(a)] {
				continue
			}
			prm := c02ArgParam(g, off, i)
			if prm == nil || !isErrorType(prm.Type()) {
				continue
			}
			pal := Aliases(prm)
			if ErrResultIndex(g.Signature) >= 0 {
				stop := edClassifiers(g, pal)
				if bad, exceeded := edFailureReachesSuccess(g, nil, prm, pal, stop); !bad && !exceeded {
					how = "handed to " + FnName(g) + ", which returns it (possibly wrapped) or drops it only after classifying it"
					break
				}
			}
			if sk := edSink(p, g, pal); sk != "" {
				how = "handed to " + FnName(g) + ": " + sk
				break
			}
			if h := edHandedToHelper(p, g, pal, depth+1); h != "" {
				how = "handed to " + FnName(g) + ": " + h
				break
			}
		}
	}
	return how
}
