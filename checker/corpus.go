package main

// Checker self-validation against the committed patch corpora (thorough tier).
//
//   seeded/<id>-*      independent property-breaking changes; seeded/EXPECT.json
//                      records, per seed, which rules of which property fired
//                      when the seed was admitted.  The property's check must
//                      still fire one of those rules on the patched tree.
//   refactors*/<id>-*, tiny*/<id>-*   behaviour-preserving edits (refactors5: harmless additive commits) of the code
//                      realising property <id>; the property's check must
//                      report nothing new on the patched tree.
//
// Each patch is applied to a scratch copy of the repository's current tree
// (outside /repo and /verif, removed immediately) and analysed in its own
// process; nothing is executed.  A patch that no longer applies, or whose
// result no longer type-checks, is skipped (the repository may have been
// edited legitimately).  A seed that is no longer caught is CHECKER-WEAK, a
// benign patch that alarms is CHECKER-NOISY; neither is a VIOLATION of the
// property on the tree under analysis.

import (
	"encoding/json"
	"fmt"
	"os"
	"os/exec"
	"path/filepath"
	"sort"
	"strconv"
	"strings"
	"sync"
)

var benignCorpora = []string{"refactors", "refactors2", "refactors3", "refactors4", "refactors5", "refactors6", "tiny", "tiny2"}

type corpusResult struct {
	SeedsTried, SeedsCaught, SeedsSkipped    int
	BenignTried, BenignSilent, BenignSkipped int
	Weak, Noisy, KnownNoisy                  []string
}

// seedExpectations: seed name -> property -> rule ids expected to fire.
func seedExpectations(verif string) map[string]map[string][]string {
	m := map[string]map[string][]string{}
	b, err := os.ReadFile(filepath.Join(verif, "seeded", "EXPECT.json"))
	if err != nil {
		return m
	}
	json.Unmarshal(b, &m)
	return m
}

func runCorpus(id, repo, verif string, baseline []string) *corpusResult {
	res := &corpusResult{}
	exe, _ := os.Executable()
	blJSON, _ := json.Marshal(baseline)
	par := 8
	if n, err := strconv.Atoi(os.Getenv("ORASCHECK_PAR")); err == nil && n > 0 {
		par = n
	}
	type job struct {
		name, patch string
		base        string   // patch to apply first (a seed made on top of a committed refactoring), or ""
		expect      []string // nil: benign
	}
	var jobs []job
	exp := seedExpectations(verif)
	var seeds []string
	for s := range exp {
		seeds = append(seeds, s)
	}
	sort.Strings(seeds)
	for _, s := range seeds {
		if rules := exp[s][id]; len(rules) > 0 {
			jobs = append(jobs, job{"seeded/" + s, filepath.Join(verif, "seeded", s, "patch.diff"), seedBase(verif, s), rules})
		}
	}
	for _, corp := range benignCorpora {
		ds, _ := filepath.Glob(filepath.Join(verif, corp, id+"-*"))
		sort.Strings(ds)
		for _, d := range ds {
			jobs = append(jobs, job{corp + "/" + filepath.Base(d), filepath.Join(d, "patch.diff"), "", nil})
		}
	}
	sem := make(chan struct{}, par)
	var mu sync.Mutex
	var wg sync.WaitGroup
	for _, j := range jobs {
		if _, err := os.Stat(j.patch); err != nil {
			continue
		}
		wg.Add(1)
		go func(j job) {
			defer wg.Done()
			sem <- struct{}{}
			defer func() { <-sem }()
			patches := j.patch
			if j.base != "" {
				patches = j.base + "," + j.patch
			}
			cmd := exec.Command(exe, "-patch", patches, "-prop", id, "-repo", repo)
			cmd.Env = append(os.Environ(), "ORASCHECK_BASELINE="+string(blJSON))
			out, _ := cmd.CombinedOutput()
			line := ""
			for _, l := range strings.Split(string(out), "\n") {
				if strings.HasPrefix(l, "PATCH-") {
					line = l
				}
			}
			mu.Lock()
			defer mu.Unlock()
			var fired []string
			switch {
			case strings.HasPrefix(line, "PATCH-FIRED "):
				json.Unmarshal([]byte(strings.TrimPrefix(line, "PATCH-FIRED ")), &fired)
			case strings.HasPrefix(line, "PATCH-SKIPPED"), strings.HasPrefix(line, "PATCH-INVALID"):
				if j.expect != nil {
					res.SeedsSkipped++
				} else {
					res.BenignSkipped++
				}
				return
			default:
				// the sub-process failed: count as a failure of the self-validation
				fired = []string{"analyser|sub-process produced no verdict"}
				if j.expect != nil {
					res.SeedsTried++
					res.Weak = append(res.Weak, j.name+" (no verdict)")
					return
				}
			}
			if j.expect != nil {
				res.SeedsTried++
				hit := false
				for _, k := range fired {
					for _, r := range j.expect {
						if strings.HasPrefix(k, r+"|") || k == r {
							hit = true
						}
					}
				}
				if hit {
					res.SeedsCaught++
				} else {
					res.Weak = append(res.Weak, fmt.Sprintf("%s (expected one of %v, fired %v)", j.name, j.expect, fired))
				}
				return
			}
			res.BenignTried++
			if len(fired) > 0 {
				parts := strings.SplitN(j.name, "/", 2)
				if len(parts) == 2 {
					known := knownNoisy(verif, parts[0])[parts[1]]
					var rest []string
					for _, k := range fired {
						isKnown := false
						for _, r := range known {
							if strings.HasPrefix(k, r+"|") || k == r {
								isKnown = true
							}
						}
						if !isKnown {
							rest = append(rest, k)
						}
					}
					if len(rest) == 0 {
						res.KnownNoisy = append(res.KnownNoisy, j.name)
						return
					}
					fired = rest
				}
			}
			if len(fired) == 0 {
				res.BenignSilent++
			} else {
				res.Noisy = append(res.Noisy, fmt.Sprintf("%s (fired %v)", j.name, fired))
			}
		}(j)
	}
	wg.Wait()
	sort.Strings(res.Weak)
	sort.Strings(res.Noisy)
	return res
}

// knownNoisy: <corpus>/KNOWN-NOISY.json lists, per patch directory, the rule
// ids that are known to alarm on that behaviour-preserving patch (open false
// alarms, documented in DESIGN.md §9.3); they are reported as such instead of
// as new CHECKER-NOISY findings, any other rule firing on the patch still is.
func knownNoisy(verif, corpus string) map[string][]string {
	m := map[string][]string{}
	b, err := os.ReadFile(filepath.Join(verif, corpus, "KNOWN-NOISY.json"))
	if err == nil {
		json.Unmarshal(b, &m)
	}
	return m
}

// seedBase returns the patch a seed was made on top of (meta.json "base":
// "<corpus>/<dir>"), or "".
func seedBase(verif, seed string) string {
	b, err := os.ReadFile(filepath.Join(verif, "seeded", seed, "meta.json"))
	if err != nil {
		return ""
	}
	var m struct {
		Base string `json:"base"`
	}
	if json.Unmarshal(b, &m) != nil || m.Base == "" {
		return ""
	}
	return filepath.Join(verif, filepath.FromSlash(m.Base), "patch.diff")
}

// applyPatch applies a unified diff (as written by `git diff`) to dir.
func applyPatch(dir, patch string) error {
	abs, _ := filepath.Abs(patch)
	cmd := exec.Command("git", "apply", "--whitespace=nowarn", abs)
	cmd.Dir = dir
	cmd.Env = append(os.Environ(), "GIT_DIR=/nonexistent", "GIT_CEILING_DIRECTORIES="+filepath.Dir(dir))
	if out, err := cmd.CombinedOutput(); err != nil {
		cmd2 := exec.Command("patch", "-p1", "-s", "-f", "-i", abs)
		cmd2.Dir = dir
		if out2, err2 := cmd2.CombinedOutput(); err2 != nil {
			return fmt.Errorf("git apply: %s; patch: %s", strings.TrimSpace(string(out)), strings.TrimSpace(string(out2)))
		}
	}
	return nil
}

// runOnePatch: copy repo, apply the patch, run the property, print the fired
// (non-baseline) obligation keys.
func runOnePatch(id, patch, repo string) int {
	if props[id] == nil {
		fmt.Println("bad property", id)
		return 2
	}
	dir, err := os.MkdirTemp(scratchBase(), "orascheck-patch-")
	if err != nil {
		fmt.Println(err)
		return 2
	}
	defer os.RemoveAll(dir)
	if err := copyTree(repo, dir); err != nil {
		fmt.Println(err)
		return 2
	}
	for _, one := range strings.Split(patch, ",") {
		if err := applyPatch(dir, one); err != nil {
			fmt.Println("PATCH-SKIPPED does not apply to the current tree:", strings.ReplaceAll(err.Error(), "\n", " "))
			return 0
		}
	}
	p, err := Load(dir, "linux", "amd64")
	if err != nil {
		fmt.Println("PATCH-INVALID does not type-check:", strings.ReplaceAll(err.Error(), "\n", " "))
		return 0
	}
	c := &Ctx{Prop: id, Tier: "quick", P: p, Variant: "patch"}
	func() {
		defer func() {
			if rec := recover(); rec != nil {
				c.ob("analyser", "panic", 0, Undecided, true, fmt.Sprint(rec))
			}
		}()
		props[id].Run(c)
		runED(c)
		c.finish()
	}()
	baseline := map[string]bool{}
	var bl []string
	json.Unmarshal([]byte(os.Getenv("ORASCHECK_BASELINE")), &bl)
	for _, k := range bl {
		baseline[k] = true
	}
	fired := []string{}
	seen := map[string]bool{}
	for _, o := range c.Obs {
		if o.st != Discharged && !baseline[o.Key()] && !seen[o.Key()] {
			seen[o.Key()] = true
			fired = append(fired, o.Key())
		}
	}
	sort.Strings(fired)
	js, _ := json.Marshal(fired)
	fmt.Printf("PATCH-FIRED %s\n", js)
	return 0
}
