package main

// C14.R1 — complete / assign, decided on located instructions and access
// paths, so that the running and the pending batch may be two fields of Merge,
// or two sub-objects served by shared methods.

import (
	"fmt"
	"go/token"

	"golang.org/x/tools/go/ssa"
)

func c14P(rel string) string { return "p0." + rel }

func c14LIs(lis []c14LI) []ssa.Instruction {
	var o []ssa.Instruction
	for _, l := range lis {
		o = append(o, l.In)
	}
	return o
}

// c14Lin evaluates v (in cx) as a*L+b where L = len(<the running batch's items>).
func c14Lin(V *c14View, v ssa.Value, cx *c14Ctx, depth int) (a, b int64, ok bool) {
	if depth > 6 {
		return 0, 0, false
	}
	rs := V.LeavesIn(v, cx)
	if len(rs) != 1 {
		return 0, 0, false
	}
	lcx := rs[0].Ctx
	switch u := rs[0].V.(type) {
	case *ssa.Const:
		if k, isInt := constInt(u); isInt {
			return 0, k, true
		}
	case *ssa.Call:
		if CalleeName(u) == "builtin:len" {
			x := u.Call.Args[0]
			if V.IsLoadOfPathIn(x, lcx, c14P(c14N.items)) {
				return 1, 0, true
			}
			xs := V.LeavesIn(x, lcx)
			if len(xs) != 1 {
				return 0, 0, false
			}
			if sl, isSl := xs[0].V.(*ssa.Slice); isSl && sl.Max == nil && V.IsLoadOfPathIn(sl.X, xs[0].Ctx, c14P(c14N.items)) {
				var lo, hi int64
				hiA := int64(1)
				if sl.Low != nil {
					la, lb, okL := c14Lin(V, sl.Low, xs[0].Ctx, depth+1)
					if !okL || la != 0 {
						return 0, 0, false
					}
					lo = lb
				}
				if sl.High != nil {
					ha, hb, okH := c14Lin(V, sl.High, xs[0].Ctx, depth+1)
					if !okH {
						return 0, 0, false
					}
					hiA, hi = ha, hb
				}
				return hiA, hi - lo, true
			}
		}
	case *ssa.BinOp:
		xa, xb, ok1 := c14Lin(V, u.X, lcx, depth+1)
		ya, yb, ok2 := c14Lin(V, u.Y, lcx, depth+1)
		if ok1 && ok2 {
			switch u.Op {
			case token.ADD:
				return xa + ya, xb + yb, true
			case token.SUB:
				return xa - ya, xb - yb, true
			}
		}
	}
	return 0, 0, false
}

// c14TripCount returns the number of iterations of l (a loop of cx.fn) as a*L+b
// for the recognised counting shapes: a counter phi with step ±1 compared with
// a loop-invariant bound (condition at the header, at the single exit of a
// for{…break}, or at the bottom with an entry guard: `for range n`), or a range
// over (a slice of) the items.
func c14TripCount(V *c14View, l *Loop, cx *c14Ctx) (a, b int64, ok bool, why string) {
	if _, _, _, _, isRange := l.RangeIndex(); isRange {
		h := l.Header
		ifi := h.Instrs[len(h.Instrs)-1].(*ssa.If)
		a, b, ok = c14Lin(V, ifi.Cond.(*ssa.BinOp).Y, cx, 0)
		return a, b, ok, "range loop"
	}
	h := l.Header
	cb := h
	if _, isIf := h.Instrs[len(h.Instrs)-1].(*ssa.If); !isIf {
		cb = nil
		for _, e := range l.Exits {
			if cb != nil && cb != e.From {
				return 0, 0, false, "several exits"
			}
			cb = e.From
		}
		if cb == nil {
			return 0, 0, false, "no exit condition"
		}
	}
	ifi, isIf := cb.Instrs[len(cb.Instrs)-1].(*ssa.If)
	if !isIf {
		return 0, 0, false, "loop exit is not a condition"
	}
	cond, t, f := ifEdges(ifi)
	bo, isBin := cond.(*ssa.BinOp)
	if !isBin {
		return 0, 0, false, "loop condition is not a comparison"
	}
	op := bo.Op
	flip := map[token.Token]token.Token{token.LSS: token.GTR, token.GTR: token.LSS, token.LEQ: token.GEQ, token.GEQ: token.LEQ, token.NEQ: token.NEQ, token.EQL: token.EQL}
	neg := map[token.Token]token.Token{token.LSS: token.GEQ, token.GTR: token.LEQ, token.LEQ: token.GTR, token.GEQ: token.LSS, token.NEQ: token.EQL, token.EQL: token.NEQ}
	// the counter: a header phi, or (test at the bottom) the phi's successor value
	asCounter := func(v ssa.Value) (*ssa.Phi, bool) {
		if p, isPhi := v.(*ssa.Phi); isPhi && p.Block() == h {
			return p, false
		}
		if nb, isB := v.(*ssa.BinOp); isB && (nb.Op == token.ADD || nb.Op == token.SUB) {
			if p, isPhi := nb.X.(*ssa.Phi); isPhi && p.Block() == h {
				if k, isK := constInt(nb.Y); isK && k == 1 {
					return p, true
				}
			}
		}
		return nil, false
	}
	var phi *ssa.Phi
	var bound ssa.Value
	bottom := false
	if p, bt := asCounter(bo.X); p != nil {
		phi, bound, bottom = p, bo.Y, bt
	} else if p, bt := asCounter(bo.Y); p != nil {
		phi, bound, bottom = p, bo.X, bt
		op = flip[op]
	} else {
		return 0, 0, false, "loop condition does not test a loop counter"
	}
	switch {
	case l.Blocks[t.To] && !l.Blocks[f.To]:
	case l.Blocks[f.To] && !l.Blocks[t.To]:
		op = neg[op]
	default:
		return 0, 0, false, "loop condition does not separate body and exit"
	}
	var init ssa.Value
	var initPred *ssa.BasicBlock
	step := int64(0)
	for i, e := range phi.Edges {
		if !l.Blocks[h.Preds[i]] {
			if init != nil {
				return 0, 0, false, "counter has several initial values"
			}
			init, initPred = e, h.Preds[i]
			continue
		}
		nb, isBin := e.(*ssa.BinOp)
		if !isBin {
			return 0, 0, false, "counter update is not ±1"
		}
		k, isK := constInt(nb.Y)
		if nb.X != ssa.Value(phi) || !isK || k != 1 || (nb.Op != token.ADD && nb.Op != token.SUB) {
			return 0, 0, false, "counter update is not ±1"
		}
		s := int64(1)
		if nb.Op == token.SUB {
			s = -1
		}
		if step != 0 && step != s {
			return 0, 0, false, "counter moves in both directions"
		}
		step = s
	}
	if init == nil || step == 0 {
		return 0, 0, false, "counter shape not recognised"
	}
	ia, ib, ok1 := c14Lin(V, init, cx, 0)
	ba, bb, ok2 := c14Lin(V, bound, cx, 0)
	if !ok1 || !ok2 {
		return 0, 0, false, "counter start/bound is not an affine function of len(items)"
	}
	if bottom {
		// do-while shape: needs the entry guard `init OP bound` so that zero iterations are possible
		guarded := false
		if gi, isIf := initPred.Instrs[len(initPred.Instrs)-1].(*ssa.If); isIf {
			gc, gt, _ := ifEdges(gi)
			if gb, isB := gc.(*ssa.BinOp); isB && gt.To == h {
				gop, gx, gy := gb.Op, gb.X, gb.Y
				if gy == init || SameValue(gy, init) {
					gx, gy, gop = gy, gx, flip[gop]
				}
				xa, xb, okx := c14Lin(V, gx, cx, 0)
				ya, yb, oky := c14Lin(V, gy, cx, 0)
				if okx && oky && xa == ia && xb == ib && ya == ba && yb == bb && gop == op {
					guarded = true
				}
			}
		}
		if !guarded {
			return 0, 0, false, "bottom-tested loop without a matching entry guard"
		}
	}
	switch {
	case step == 1 && (op == token.LSS || op == token.NEQ):
		return ba - ia, bb - ib, true, ""
	case step == 1 && op == token.LEQ:
		return ba - ia, bb - ib + 1, true, ""
	case step == -1 && (op == token.GTR || op == token.NEQ):
		return ia - ba, ib - bb, true, ""
	case step == -1 && op == token.GEQ:
		return ia - ba, ib - bb + 1, true, ""
	}
	return 0, 0, false, "comparison direction does not match the counter direction"
}

// c14LitFieldIn: v (in cx) is (a copy of) a struct literal; returns the values
// stored into its field `field` with their contexts.
func c14LitFieldIn(V *c14View, v ssa.Value, cx *c14Ctx, field string) (vals []c14CV, ok bool) {
	ls := V.LeavesIn(v, cx)
	if len(ls) == 0 {
		return nil, false
	}
	for _, l := range ls {
		vs, isLit := c14StructLitField(l.V, field)
		if !isLit {
			return nil, false
		}
		for _, x := range vs {
			vals = append(vals, c14CV{x, l.Ctx})
		}
	}
	return vals, true
}

// c14IsZero: v is the zero value of its type (nil, an empty composite literal).
func c14IsZero(v ssa.Value) bool {
	if k, ok := v.(*ssa.Const); ok {
		return k.Value == nil
	}
	if u, ok := v.(*ssa.UnOp); ok && u.Op == token.MUL {
		if a, ok := u.X.(*ssa.Alloc); ok && len(c14CellStores(a)) == 0 {
			for _, r := range *a.Referrers() {
				if _, isFA := r.(*ssa.FieldAddr); isFA {
					return false
				}
			}
			return true
		}
	}
	return false
}

type c14Sent struct {
	li             c14LI
	s              *ssa.Send
	isMain, isFail bool
}

func c14ClassifySends(V *c14View, errP *ssa.Parameter) (out []c14Sent, unknown []c14LI) {
	V.Each(func(li c14LI) {
		s, ok := li.In.(*ssa.Send)
		if !ok {
			return
		}
		errVals, isLit := c14LitFieldIn(V, s.X, li.Ctx, c14N.err)
		mainVals, _ := c14LitFieldIn(V, s.X, li.Ctx, c14N.main)
		e := c14Sent{li: li, s: s}
		for _, v := range mainVals {
			if b, ok := c14ConstBool(v.V); ok && b {
				e.isMain = true
			} else {
				isLit = false
			}
		}
		for _, v := range errVals {
			for _, l := range V.LeavesIn(v.V, v.Ctx) {
				if errP != nil && l.V == ssa.Value(errP) {
					e.isFail = true
				}
			}
		}
		if !isLit || e.isMain == e.isFail {
			unknown = append(unknown, li)
			return
		}
		out = append(out, e)
	})
	return
}

func c14R1Complete(c *Ctx, m *c14Merge) {
	const R = "C14.R1.merge-protocol"
	F, V := m.Complete, m.VComplete
	fn := FnName(F)
	if len(F.Params) != 2 {
		c.LostAnchor(R, fn+": (receiver, err) parameters")
		return
	}
	errP := F.Params[1]
	nilE, nonNilE := V.NilTests(V.Aliases(errP))
	if !c.Check(R, fn+"|tests-the-error", F.Pos(), len(nilE) > 0, "complete branches on err == nil") {
		return
	}
	pStatus, pItems, pPend, pPendSt := c14P(c14N.status), c14P(c14N.items), c14P(c14N.pending), c14P(c14N.pendingStatus)
	// promotion / clearing stores (field by field, or the whole batch at once)
	var promoI, promoS, clearI, clearS []c14LI
	okPromoVal := true
	V.Each(func(li c14LI) {
		st, ok := li.In.(*ssa.Store)
		if !ok {
			return
		}
		if _, isFA := st.Addr.(*ssa.FieldAddr); !isFA {
			return
		}
		path := V.PathIn(st.Addr, li.Ctx)
		zero := true
		for _, l := range V.LeavesIn(st.Val, li.Ctx) {
			if !c14IsZero(l.V) {
				zero = false
			}
		}
		switch {
		case path == pItems && !zero:
			promoI = append(promoI, li)
			okPromoVal = okPromoVal && V.IsLoadOfPathIn(st.Val, li.Ctx, pPend)
		case path == pStatus && !zero:
			promoS = append(promoS, li)
			okPromoVal = okPromoVal && V.IsLoadOfPathIn(st.Val, li.Ctx, pPendSt)
		case c14N.runB != "" && path == c14P(c14N.runB) && !zero:
			promoI, promoS = append(promoI, li), append(promoS, li)
			okPromoVal = okPromoVal && V.IsLoadOfPathIn(st.Val, li.Ctx, c14P(c14N.pendB))
		case path == pPend && zero:
			clearI = append(clearI, li)
		case path == pPendSt && zero:
			clearS = append(clearS, li)
		case c14N.pendB != "" && path == c14P(c14N.pendB) && zero:
			clearI, clearS = append(clearI, li), append(clearS, li)
		case path == pPend || path == pPendSt || (c14N.pendB != "" && path == c14P(c14N.pendB)):
			okPromoVal = false // the pending batch is overwritten with something else than its zero value
		}
	})
	cutOf := func(lis []c14LI) *cut { return V.CutLI(newCut(), lis...) }
	afterPromo := func(li c14LI) bool { return len(promoS) > 0 && V.MustPassLI(li, cutOf(promoS)) }
	// a channel value: is it the batch's status channel, and read before/after the promotion
	chanKind := func(ch ssa.Value, cx *c14Ctx) (isStatus, promoted bool) {
		ls := V.LeavesIn(ch, cx)
		if len(ls) == 0 {
			return false, false
		}
		isStatus, promoted = true, true
		for _, l := range ls {
			u, ok := l.V.(*ssa.UnOp)
			if !ok || u.Op != token.MUL {
				return false, false
			}
			switch V.PathIn(u.X, l.Ctx) {
			case pStatus:
				if !afterPromo(c14LI{u, l.Ctx}) {
					promoted = false
				}
			case pPendSt:
				// the pending channel read before it is promoted denotes the promoted batch's channel
				for _, p := range promoS {
					if !V.ReachLI(c14LI{u, l.Ctx}, p, nil) {
						promoted = false
					}
				}
			default:
				return false, false
			}
		}
		return
	}
	// success: close(m.status)
	var closes []c14LI
	V.Each(func(li c14LI) {
		if call, ok := li.In.(*ssa.Call); ok && CalleeName(call) == "builtin:close" {
			if isSt, prom := chanKind(call.Call.Args[0], li.Ctx); isSt && !prom {
				closes = append(closes, li)
			}
		}
	})
	okClose := len(closes) > 0
	for _, cl := range closes {
		if !V.MustPassLI(cl, newCut().Edges(nilE...)) {
			okClose = false
		}
	}
	c.Check(R, fn+"|close-only-on-success", F.Pos(), okClose,
		ifelse(okClose, "close(m.status) is reached only on the err==nil edge", "the status channel can be closed although the batch failed: waiting callers return nil for an update that was not applied"))
	okAll := okClose
	for _, e := range nilE {
		if V.ExitFromEdge(e, cutOf(closes)) {
			okAll = false
		}
	}
	c.Check(R, fn+"|close-on-every-success-path", F.Pos(), okAll,
		ifelse(okAll, "on success every path closes the status channel", "a success path does not close the status channel: the waiting callers of this batch park forever"))
	// classify sends
	sends, unknown := c14ClassifySends(V, errP)
	for _, li := range unknown {
		c.Undecided(R, fn+"|send", li.In.Pos(), "a send in complete() that is neither mergeStatus{err: err} nor mergeStatus{main: true}: shape not recognised")
	}
	var failSends, mainSends []c14Sent
	for _, s := range sends {
		if s.isFail {
			failSends = append(failSends, s)
		} else {
			mainSends = append(mainSends, s)
		}
	}
	if len(failSends) == 0 {
		c.Violation(R, fn+"|failure-notices", F.Pos(), "complete() never sends the batch error to the waiting callers")
	}
	for i, fs := range failSends {
		s := fs.s
		key := fmt.Sprintf("%s|failure-notice#%d", fn, i+1)
		okEdge := len(nonNilE) > 0 && V.MustPassLI(fs.li, newCut().Edges(nonNilE...))
		c.Check(R, key+"|only-on-failure", s.Pos(), okEdge, "the failure notice is sent only on the err!=nil edge")
		isSt, prom := chanKind(s.Chan, fs.li.Ctx)
		okCh := isSt && !prom
		c.Check(R, key+"|on-status-channel", s.Pos(), okCh, ifelse(okCh, "sent on m.status", "the failure notice is not sent on the batch's status channel"))
		// the loop around it: in its own function, or around the call of a one-send helper
		type inLoop struct {
			l  *Loop
			at ssa.Instruction
			cx *c14Ctx
		}
		var in []inLoop
		for _, l := range Loops(s.Parent()) {
			if l.Contains(s) {
				in = append(in, inLoop{l, s, fs.li.Ctx})
			}
		}
		if len(in) == 0 && fs.li.Ctx.parent != nil {
			if call, isCall := fs.li.Ctx.site.(*ssa.Call); isCall {
				for _, l := range Loops(call.Parent()) {
					if l.Contains(call) {
						in = append(in, inLoop{l, call, fs.li.Ctx.parent})
					}
				}
			}
		}
		if len(in) != 1 {
			c.Violation(R, key+"|count", s.Pos(), fmt.Sprintf("the failure notice is inside %d loops (expected one counting loop of len(items)-1 iterations): some waiting caller parks forever, or the main caller blocks on a send nobody receives", len(in)))
			continue
		}
		l := in[0].l
		a, b, ok, why := c14TripCount(V, l, in[0].cx)
		if !ok {
			c.Undecided(R, key+"|count", s.Pos(), "cannot determine the number of failure notices: "+why)
			continue
		}
		perIter := true
		hdr := l.Header.Instrs[0]
		starts := []*ssa.BasicBlock{}
		for _, succ := range l.Header.Succs {
			if l.Blocks[succ] && succ != l.Header {
				starts = append(starts, succ)
			}
		}
		for _, succ := range starts {
			if reach(succ, 0, hdr, newCut().Instr(in[0].at)) {
				perIter = false
			}
		}
		if len(starts) == 0 {
			// single-block loop: the block must contain the send
			perIter = in[0].at.Block() == l.Header
		}
		if in[0].at != ssa.Instruction(s) && c14AnyReturnReachable(s.Parent().Blocks[0], newCut().Instr(s)) != nil {
			perIter = false
		}
		okCount := a == 1 && b == -1 && perIter
		c.Check(R, key+"|count", s.Pos(), okCount,
			ifelse(okCount, "exactly len(items)-1 notices: one per waiting caller of the batch",
				fmt.Sprintf("the loop sends %d*len(items)%+d notices (one per iteration: %v) instead of len(items)-1: a waiting caller parks forever, or the main caller blocks on a send nobody receives and the subject is wedged", a, b, perIter)))
	}
	// reopen the window
	var reopen []c14LI
	for _, li := range V.PathStores(c14P(c14N.committed)) {
		if b, ok := c14ConstBool(li.In.(*ssa.Store).Val); ok && !b {
			reopen = append(reopen, li)
		} else {
			c.Violation(R, fn+"|reopens-window", li.In.Pos(), "complete() stores something else than false into committed")
		}
	}
	okRe := len(reopen) > 0 && !V.ExitFromEntry(cutOf(reopen))
	c.Check(R, fn+"|reopens-window", F.Pos(), okRe,
		ifelse(okRe, "every path stores committed=false", "a path leaves complete() with committed still true: every later change goes to a pending batch that nobody will ever run"))
	okI := okPromoVal && len(promoI) > 0 && !V.ExitFromEntry(cutOf(promoI))
	c.Check(R, fn+"|promotes-pending-items", F.Pos(), okI, ifelse(okI, "every path stores m.items = m.pending", "the pending items are not promoted to the next batch on every path: changes assigned while the batch ran are lost"))
	okS := okPromoVal && len(promoS) > 0 && !V.ExitFromEntry(cutOf(promoS))
	c.Check(R, fn+"|promotes-pending-status", F.Pos(), okS, ifelse(okS, "every path stores m.status = m.pendingStatus", "the pending status channel is not promoted with its items: the callers of the next batch wait on a channel nobody serves"))
	// cleared after promotion (the promotion's source is read before the clearing store)
	okC := len(clearI) > 0 && len(clearS) > 0 && !V.ExitFromEntry(cutOf(clearI)) && !V.ExitFromEntry(cutOf(clearS))
	for _, pair := range [][2][]c14LI{{clearI, promoI}, {clearS, promoS}} {
		for _, cl := range pair[0] {
			for _, p := range pair[1] {
				st := p.In.(*ssa.Store)
				for _, l := range V.LeavesIn(st.Val, p.Ctx) {
					if ld, isIn := l.V.(ssa.Instruction); isIn && V.ReachLI(cl, c14LI{ld, l.Ctx}, nil) {
						okC = false
					}
				}
			}
		}
	}
	c.Check(R, fn+"|clears-pending", F.Pos(), okC, ifelse(okC, "pending and pendingStatus are reset to nil after they were promoted, on every path", "the pending batch is not cleared after promotion (or cleared before it is read): a batch is run twice or dropped"))
	// one main token for the promoted batch
	promotedVals := map[ssa.Value]bool{}
	for _, li := range V.PathLoads(pStatus) {
		if afterPromo(li) {
			for a := range V.Aliases(li.In.(ssa.Value)) {
				promotedVals[a] = true
			}
		}
	}
	for _, p := range promoS {
		if st := p.In.(*ssa.Store); V.PathIn(st.Addr, p.Ctx) == pStatus {
			for a := range V.Aliases(st.Val) {
				promotedVals[a] = true
			}
		}
	}
	pNil, pNonNil := V.NilTests(promotedVals)
	okTok := len(mainSends) == 1 && len(pNonNil) > 0
	var mainLIs []c14LI
	for _, ms := range mainSends {
		mainLIs = append(mainLIs, ms.li)
		isSt, prom := chanKind(ms.s.Chan, ms.li.Ctx)
		if !isSt || !prom || !V.MustPassLI(ms.li, newCut().Edges(pNonNil...)) || V.ReachLI(ms.li, ms.li, nil) {
			okTok = false
		}
	}
	if okTok && V.ExitFromEntry(V.CutLI(newCut().Edges(pNil...), mainLIs...)) {
		okTok = false
	}
	pos := F.Pos()
	if len(mainSends) > 0 {
		pos = mainSends[0].s.Pos()
	}
	c.Check(R, fn+"|one-main-token-for-promoted-batch", pos, okTok,
		ifelse(okTok, "exactly when a pending batch was promoted, one mergeStatus{main:true} is sent on its channel", "the promoted batch does not receive exactly one main token (none: its callers park forever; two: two updaters of one index run concurrently)"))
}

func c14R1Assign(c *Ctx, m *c14Merge) {
	const R = "C14.R1.merge-protocol"
	F, V := m.Assign, m.VAssign
	fn := FnName(F)
	if len(F.Params) != 2 {
		c.LostAnchor(R, fn+": (receiver, item) parameters")
		return
	}
	item := F.Params[1]
	pStatus, pItems, pPend, pPendSt := c14P(c14N.status), c14P(c14N.items), c14P(c14N.pending), c14P(c14N.pendingStatus)
	cl := map[ssa.Value]bool{}
	for _, li := range V.PathLoads(c14P(c14N.committed)) {
		for a := range V.Aliases(li.In.(ssa.Value)) {
			cl[a] = true
		}
	}
	te, fe := V.BoolTests(cl)
	if !c.Check(R, fn+"|tests-committed", F.Pos(), len(te) > 0, "assign branches on m.committed") {
		return
	}
	cutOf := func(lis []c14LI) *cut { return V.CutLI(newCut(), lis...) }
	fromItem := func(v ssa.Value, cx *c14Ctx) bool {
		// the appended elements come from the item parameter
		var walk func(x ssa.Value, cx *c14Ctx, d int) bool
		walk = func(x ssa.Value, cx *c14Ctx, d int) bool {
			if d > 6 {
				return false
			}
			for _, l := range V.LeavesIn(x, cx) {
				if l.V == ssa.Value(item) {
					return true
				}
				if sl, ok := l.V.(*ssa.Slice); ok {
					if al, ok := sl.X.(*ssa.Alloc); ok {
						for _, r := range *al.Referrers() {
							if ia, ok := r.(*ssa.IndexAddr); ok {
								for _, r2 := range *ia.Referrers() {
									if st, ok := r2.(*ssa.Store); ok && walk(st.Val, l.Ctx, d+1) {
										return true
									}
								}
							}
						}
					}
				}
			}
			return false
		}
		return walk(v, cx, 0)
	}
	appendStores := func(path string) (out []c14LI, ok bool) {
		ok = true
		for _, li := range V.PathStores(path) {
			st := li.In.(*ssa.Store)
			ls := V.LeavesIn(st.Val, li.Ctx)
			if len(ls) != 1 {
				ok = false
				continue
			}
			call, isCall := ls[0].V.(*ssa.Call)
			if !isCall || CalleeName(call) != "builtin:append" {
				ok = false
				continue
			}
			if !V.IsLoadOfPathIn(call.Call.Args[0], ls[0].Ctx, path) || !fromItem(call.Call.Args[1], ls[0].Ctx) {
				ok = false
			}
			out = append(out, li)
		}
		return out, ok && len(out) > 0
	}
	itemStores, okI := appendStores(pItems)
	pendStores, okP := appendStores(pPend)
	okOpen := okI
	for _, s := range itemStores {
		if !V.MustPassLI(s, newCut().Edges(fe...)) {
			okOpen = false
		}
	}
	for _, e := range fe {
		if V.ExitFromEdge(e, cutOf(itemStores)) {
			okOpen = false
		}
	}
	c.Check(R, fn+"|items-only-while-open", F.Pos(), okOpen,
		ifelse(okOpen, "m.items = append(m.items, item) happens exactly on the committed==false edge", "assign can append to (or skip) m.items while the batch is committed: the change is missing from the slice being resolved, or the running batch's slice is mutated under the resolver"))
	okPend := okP
	for _, s := range pendStores {
		if !V.MustPassLI(s, newCut().Edges(te...)) {
			okPend = false
		}
	}
	for _, e := range te {
		if V.ExitFromEdge(e, cutOf(pendStores)) {
			okPend = false
		}
	}
	c.Check(R, fn+"|pending-while-committed", F.Pos(), okPend,
		ifelse(okPend, "m.pending = append(m.pending, item) happens exactly on the committed==true edge", "a change arriving while a batch is running is not queued in m.pending on every path: it is lost"))
	// returned channel matches the batch the item joined
	okRet := true
	nRet := 0
	root := V.ctxs[0]
	for _, a := range RetAtoms(F, 0) {
		if !V.ReachableFromEntry(a.Ret) {
			continue
		}
		nRet++
		fromT, fromF := false, false
		var anchor ssa.Instruction = a.Ret
		if len(a.Edges) > 0 {
			e := a.Edges[len(a.Edges)-1]
			anchor = e.From.Instrs[len(e.From.Instrs)-1]
		} else if a.Store != nil {
			anchor = a.Store
		}
		for _, e := range te {
			if e.To == anchor.Block() || V.EdgeReach(e, anchor, nil) {
				fromT = true
			}
		}
		for _, e := range fe {
			if e.To == anchor.Block() || V.EdgeReach(e, anchor, nil) {
				fromF = true
			}
		}
		if _, isZero := a.Val.(zeroMarker); isZero {
			okRet = false
			continue
		}
		switch {
		case fromT && !fromF:
			okRet = okRet && V.IsLoadOfPathIn(a.Val, root, pPendSt)
		case fromF && !fromT:
			okRet = okRet && V.IsLoadOfPathIn(a.Val, root, pStatus)
		default:
			okRet = false
		}
	}
	c.Check(R, fn+"|returns-channel-of-joined-batch", F.Pos(), okRet && nRet > 0,
		ifelse(okRet && nRet > 0, "the committed edge returns m.pendingStatus, the open edge returns m.status", "assign returns the status channel of a batch the item did not join: the caller gets the verdict of the wrong batch"))
	// channel creation
	var notNilOf map[string][]Edge = map[string][]Edge{}
	nilEdgesOf := func(path string) []Edge {
		lds := map[ssa.Value]bool{}
		for _, li := range V.PathLoads(path) {
			for a := range V.Aliases(li.In.(ssa.Value)) {
				lds[a] = true
			}
		}
		n, nn := V.NilTests(lds)
		// `opened = b.status == nil; if opened`: the nil comparison feeds a bool that is tested
		for _, f := range V.Funcs() {
			AllInstrs(f, func(in ssa.Instruction) {
				bo, ok := in.(*ssa.BinOp)
				if !ok || (bo.Op != token.EQL && bo.Op != token.NEQ) {
					return
				}
				var x ssa.Value
				if isNilConst(bo.Y) {
					x = bo.X
				} else if isNilConst(bo.X) {
					x = bo.Y
				}
				if x == nil || !lds[x] {
					return
				}
				t, fl := V.BoolTests(V.Aliases(bo))
				if bo.Op == token.EQL {
					n, nn = append(n, t...), append(nn, fl...)
				} else {
					n, nn = append(n, fl...), append(nn, t...)
				}
			})
		}
		notNilOf[path] = nn
		return n
	}
	mk := func(path string, side []Edge) (ok bool, makes []c14CV, nilE []Edge) {
		nilE = nilEdgesOf(path)
		ok = true
		n := 0
		for _, li := range V.PathStores(path) {
			st := li.In.(*ssa.Store)
			ls := V.LeavesIn(st.Val, li.Ctx)
			var mc *ssa.MakeChan
			if len(ls) == 1 {
				mc, _ = ls[0].V.(*ssa.MakeChan)
			}
			if mc == nil {
				ok = false
				continue
			}
			n++
			makes = append(makes, ls[0])
			if len(nilE) == 0 || !V.MustPassLI(li, newCut().Edges(nilE...)) || !V.MustPassLI(li, newCut().Edges(side...)) {
				ok = false
			}
		}
		return ok && n > 0, makes, nilE
	}
	okMkS, makesS, stNil := mk(pStatus, fe)
	c.Check(R, fn+"|status-created-once", F.Pos(), okMkS,
		ifelse(okMkS, "m.status is created only when it is nil, on the open edge", "m.status can be replaced while callers already wait on it: they park forever"))
	okMkP, _, _ := mk(pPendSt, te)
	c.Check(R, fn+"|pending-status-created-once", F.Pos(), okMkP,
		ifelse(okMkP, "m.pendingStatus is created only when it is nil, on the committed edge", "m.pendingStatus can be replaced while callers already wait on it: they park forever"))
	okBuf := len(makesS) > 0
	for _, mc := range makesS {
		if k, ok := constInt(mc.V.(*ssa.MakeChan).Size); !ok || k < 1 {
			okBuf = false
		}
	}
	c.Check(R, fn+"|status-buffered", F.Pos(), okBuf,
		ifelse(okBuf, "the status channel has capacity >= 1 for the main token sent under the lock", "the status channel is unbuffered: assign blocks on sending the main token while holding the lock (deadlock on first use)"))
	// main token: exactly on creation of m.status
	sends, unknown := c14ClassifySends(V, nil)
	for _, li := range unknown {
		c.Undecided(R, fn+"|send", li.In.Pos(), "a send in assign() that is not mergeStatus{main: true}: shape not recognised")
	}
	var mainLIs []c14LI
	okTok := true
	// "the status channel was just created" can be carried by a bool result (opened): the edges that imply it
	created := append([]Edge{}, stNil...)
	for _, ms := range sends {
		if !ms.isMain {
			continue
		}
		mainLIs = append(mainLIs, ms.li)
		chOK := false
		for _, l := range V.LeavesIn(ms.s.Chan, ms.li.Ctx) {
			chOK = false
			if mc, isMk := l.V.(*ssa.MakeChan); isMk {
				for _, k := range makesS {
					if k.V == ssa.Value(mc) {
						chOK = true
					}
				}
			}
			if u, isLd := l.V.(*ssa.UnOp); isLd && u.Op == token.MUL && V.PathIn(u.X, l.Ctx) == pStatus {
				chOK = true
			}
			if !chOK {
				break
			}
		}
		if !chOK || len(created) == 0 || !V.MustPassLI(ms.li, newCut().Edges(created...)) || !V.MustPassLI(ms.li, newCut().Edges(fe...)) || V.ReachLI(ms.li, ms.li, nil) {
			okTok = false
		}
	}
	okTok = okTok && len(mainLIs) > 0
	// every creation of the running batch's channel is followed by the token
	for _, li := range V.PathStores(pStatus) {
		if V.walkExitAfterLI(li, V.CutLI(newCut().Edges(notNilOf[pStatus]...), mainLIs...)) {
			okTok = false
		}
	}
	c.Check(R, fn+"|one-main-token-per-new-batch", F.Pos(), okTok,
		ifelse(okTok, "exactly when assign creates m.status it sends one mergeStatus{main:true}", "a new batch does not get exactly one main token (none: all its callers park forever; more: two updaters of one index run concurrently and one overwrites the other)"))
}

// walkExitAfterLI: an exit of the view is reachable after instance li avoiding the cut.
func (v *c14View) walkExitAfterLI(li c14LI, cu *cut) bool {
	r, _ := v.walk(v.afterLI(li), nil, cu, true)
	return r
}
