package main

// C09 — Delete / auto-GC / GC remove exactly the garbage and terminate.
//
//   R1 loop progress (E7)            every non-range loop reachable from Store.Delete / Store.GC
//   R2 inverse tag index consistent  resolver.Memory: index[k] kills unlink k from tags[old.Digest]
//   R3 cascade guards                Delete / delete / graph.Remove / isTagged
//   R4 sweep guard                   GC's os.Remove, gcIndex pass 1
//   R5 exclusivity                   Delete and GC hold s.sync in W mode
//
// The E7 engine (c09LoopProgress) is generic: it takes any natural loop and a
// table of idempotent reads and is meant to be reused (C15, C17).

import (
	"fmt"
	"go/token"
	"go/types"
	"sort"
	"strings"

	"golang.org/x/tools/go/ssa"
)

func init() {
	register(&propDef{
		ID: "C09",
		Explain: "Decided: (R1) every loop without an iteration-bounding range that is reachable from oci.Store.Delete / oci.Store.GC has a branch condition whose " +
			"backward slice contains loop-carried state (a header phi, memory written inside the loop, a channel operation, or a call outside the frozen table of idempotent reads) — " +
			"a loop whose conditions depend only on loop-invariant inputs never exits once it fails to exit; (R2) in resolver.Memory every overwrite/delete of index[k] is preceded by a lookup of the " +
			"old entry and removes k from tags[old.Digest] on every path where the entry existed and the digest changes, and every insertion adds k to tags[new.Digest]; " +
			"(R3) the Delete cascade enqueues referrers only under AutoGC && IsManifest(head), danglings only under AutoGC on the !isTagged edge, Untag only under content.Equal(desc,target), " +
			"graph.Remove reports a successor only when its predecessor set became empty and it is present in nodes, isTagged discounts the digest self-reference; " +
			"(R4) GC's only os.Remove is guarded by a valid digest name, a known algorithm directory and absence from graph.DigestSet() taken after gcIndex succeeded, and gcIndex pass 1 re-tags and re-indexes every ref!=digest entry; " +
			"(R5) Delete and GC hold s.sync in write mode around all their effects. " +
			"NOT decided (not applicable to static analysis): that exactly the garbage is removed for every graph and history (needs a reference collector), termination of Delete's data-dependent work-list " +
			"(only the progress condition is decided), behaviour under concurrent external modification of the directory.",
		Run:     runC09,
		Mutants: c09Mutants,
	})
}

func runC09(c *Ctx) {
	c09R1(c)
	c09R2(c)
	c09R3(c)
	c09R4(c)
	c09R5(c)
}

// =====================================================================
// E7: loop progress
// =====================================================================

// c09IdempotentReads is the frozen table of in-module calls that neither
// modify state visible to the caller nor return a different answer when
// called again with the same arguments on unchanged state.  One reason each.
var c09IdempotentReads = map[string]string{
	"~/internal/manifestutil.Subject":            "fetches and decodes the manifest named by its descriptor argument; content-addressed, no state",
	"~/internal/manifestutil.Config":             "as Subject",
	"~/internal/manifestutil.Manifests":          "as Subject",
	"(*~/internal/graph.Memory).Exists":          "map lookup under RLock",
	"(*~/internal/resolver.Memory).Map":          "clone under RLock",
	"(*~/internal/resolver.Memory).TagSet":       "clone under RLock",
	"~/internal/descriptor.IsManifest":           "pure predicate on the media type",
	"~/internal/descriptor.FromOCI":              "pure projection",
	"~/internal/descriptor.Plain":                "pure projection",
	"~/content.Equal":                            "pure comparison",
	"(~/internal/container/set.Set[T]).Contains": "map lookup",
}

// c09PureCallees: standard-library / dependency value functions (no state).
var c09PureCallees = map[string]bool{
	"builtin:len": true, "builtin:cap": true, "builtin:min": true, "builtin:max": true, "builtin:append": true,
	"builtin:real": true, "builtin:imag": true, "builtin:complex": true, "builtin:ssa:wrapnilchk": true,
	"(digest.Digest).String": true, "(digest.Digest).Validate": true, "(digest.Digest).Algorithm": true,
	"(digest.Digest).Encoded": true, "(digest.Algorithm).String": true, "digest.NewDigestFromEncoded": true,
	"errors.Is": true, "strings.HasPrefix": true, "strings.HasSuffix": true, "strings.Contains": true,
	"strings.TrimSpace": true, "strings.ToLower": true, "strings.EqualFold": true, "strings.Index": true,
	"path.Join": true, "path/filepath.Join": true, "path.Base": true, "path/filepath.Base": true,
}

// ProgressVerdict is the result of the E7 analysis of one loop.
type c09ProgressVerdict struct {
	Progress  bool     // some branch condition depends on loop-carried state
	Evidence  []string // what carries state across iterations (when Progress)
	Inputs    []string // the loop-invariant inputs the conditions depend on (when !Progress)
	Undecided string   // non-empty: engine gave up on this construct
	NoExit    bool     // the loop has no exit edge at all
}

type c09MemRead struct {
	kind string    // "load", "map", "opaque"
	addr ssa.Value // address (load) or map value (map); nil for opaque
	at   ssa.Instruction
	via  string
}

// c09AllocBase strips FieldAddr/IndexAddr chains and returns the base value.
func c09AddrBase(v ssa.Value) ssa.Value {
	for {
		switch u := v.(type) {
		case *ssa.FieldAddr:
			v = u.X
		case *ssa.IndexAddr:
			v = u.X
		case *ssa.ChangeType:
			v = u.X
		default:
			return v
		}
	}
}

// c09NonEscaping: the Alloc is only loaded from / stored to (possibly through
// field/index addressing); its address never leaves the function's registers.
func c09NonEscaping(a *ssa.Alloc) bool {
	var ok func(v ssa.Value, depth int) bool
	ok = func(v ssa.Value, depth int) bool {
		if depth > 6 || v.Referrers() == nil {
			return false
		}
		for _, r := range *v.Referrers() {
			switch u := r.(type) {
			case *ssa.DebugRef:
			case *ssa.UnOp:
				if u.Op != token.MUL {
					return false
				}
			case *ssa.Store:
				if u.Val == v {
					return false
				}
			case *ssa.FieldAddr:
				if !ok(u, depth+1) {
					return false
				}
			case *ssa.IndexAddr:
				if u.X != v || !ok(u, depth+1) {
					return false
				}
			default:
				return false
			}
		}
		return true
	}
	return ok(a, 0)
}

// c09LoopProgress is the E7 decision for one natural loop.  The roots of the
// slice are the conditions of every If inside the loop (exit tests and the
// internal branches that decide which exit test is reached); the loop makes
// progress if that slice contains loop-carried state.
func c09LoopProgress(l *Loop, idempotent func(name string) bool) c09ProgressVerdict {
	var vd c09ProgressVerdict
	if len(l.Exits) == 0 {
		vd.NoExit = true
		return vd
	}
	evid := map[string]bool{}
	inputs := map[string]bool{}
	addEv := func(s string) { evid[s] = true }
	seen := map[ssa.Value]bool{}
	var reads []c09MemRead
	var work []ssa.Value
	push := func(vs ...ssa.Value) {
		for _, v := range vs {
			if v != nil && !seen[v] {
				seen[v] = true
				work = append(work, v)
			}
		}
	}
	inLoop := func(v ssa.Value) bool {
		in, ok := v.(ssa.Instruction)
		return ok && in.Block() != nil && l.Blocks[in.Block()]
	}
	for b := range l.Blocks {
		if len(b.Instrs) == 0 {
			continue
		}
		if i, ok := b.Instrs[len(b.Instrs)-1].(*ssa.If); ok {
			push(i.Cond)
		}
	}
	for len(work) > 0 {
		v := work[len(work)-1]
		work = work[:len(work)-1]
		switch u := v.(type) {
		case *ssa.Const, *ssa.Function, *ssa.Builtin, *ssa.Global:
			continue
		case *ssa.Parameter:
			inputs["parameter "+u.Name()] = true
			continue
		case *ssa.FreeVar:
			inputs["captured "+u.Name()] = true
			continue
		}
		if !inLoop(v) {
			inputs["value computed before the loop ("+short(v.Name()+" = "+c09Trunc(v.String()))+")"] = true
			continue
		}
		switch u := v.(type) {
		case *ssa.Phi:
			if u.Block() == l.Header {
				carried := false
				for i, p := range u.Block().Preds {
					if l.Blocks[p] && u.Edges[i] != ssa.Value(u) {
						carried = true
					}
				}
				if carried {
					addEv("header phi " + c09PhiName(u))
					continue
				}
			}
			push(u.Edges...)
		case *ssa.BinOp:
			push(u.X, u.Y)
		case *ssa.UnOp:
			switch u.Op {
			case token.MUL:
				reads = append(reads, c09MemRead{kind: "load", addr: u.X, at: u})
				push(u.X)
			case token.ARROW:
				addEv("channel receive")
			default:
				push(u.X)
			}
		case *ssa.Call:
			name := CalleeName(u)
			args := u.Call.Args
			switch {
			case name == "builtin:len" || name == "builtin:cap":
				switch args[0].Type().Underlying().(type) {
				case *types.Map:
					reads = append(reads, c09MemRead{kind: "map", addr: args[0], at: u})
				case *types.Chan:
					addEv("len/cap of a channel")
				}
				push(args...)
			case c09PureCallees[name]:
				if name == "builtin:append" {
					reads = append(reads, c09MemRead{kind: "opaque", at: u, via: name})
				}
				push(args...)
			case idempotent != nil && idempotent(name):
				reads = append(reads, c09MemRead{kind: "opaque", at: u, via: name})
				push(args...)
				if !u.Call.IsInvoke() {
					if _, isFn := u.Call.Value.(*ssa.Function); !isFn {
						push(u.Call.Value)
					}
				}
			default:
				addEv("call " + name + " (not in the idempotent-read table: may advance state)")
			}
		case *ssa.Extract:
			push(u.Tuple)
		case *ssa.Lookup:
			if _, isMap := u.X.Type().Underlying().(*types.Map); isMap {
				reads = append(reads, c09MemRead{kind: "map", addr: u.X, at: u})
			}
			push(u.X, u.Index)
		case *ssa.Index:
			push(u.X, u.Index)
		case *ssa.Field:
			push(u.X)
		case *ssa.FieldAddr:
			push(u.X)
		case *ssa.IndexAddr:
			push(u.X, u.Index)
		case *ssa.Slice:
			push(u.X, u.Low, u.High, u.Max)
		case *ssa.Convert:
			push(u.X)
		case *ssa.ChangeType:
			push(u.X)
		case *ssa.ChangeInterface:
			push(u.X)
		case *ssa.MakeInterface:
			push(u.X)
		case *ssa.SliceToArrayPointer:
			push(u.X)
		case *ssa.MultiConvert:
			push(u.X)
		case *ssa.TypeAssert:
			push(u.X)
		case *ssa.Alloc:
			// fresh cell of this iteration
		case *ssa.MakeMap:
			push(u.Reserve)
		case *ssa.MakeSlice:
			push(u.Len, u.Cap)
		case *ssa.MakeChan:
			push(u.Size)
		case *ssa.MakeClosure:
			push(u.Bindings...)
		case *ssa.Next:
			r, isRange := u.Iter.(*ssa.Range)
			if !isRange || !inLoop(r) {
				addEv("iterator advanced inside the loop")
				continue
			}
			if _, isMap := r.X.Type().Underlying().(*types.Map); isMap {
				reads = append(reads, c09MemRead{kind: "map", addr: r.X, at: u})
			}
			push(r.X)
		case *ssa.Range:
			push(u.X)
		case *ssa.Select:
			addEv("select (channel operation)")
		default:
			vd.Undecided = fmt.Sprintf("value kind %T (%s) in the slice of the loop conditions is not understood by the loop-progress engine", v, c09Trunc(v.String()))
			return vd
		}
	}
	// memory: is anything the conditions read written inside the loop?
	if len(evid) == 0 && len(reads) > 0 {
		type writer struct {
			in   ssa.Instruction
			kind string // store, map, call
			base ssa.Value
		}
		var ws []writer
		for b := range l.Blocks {
			for _, in := range b.Instrs {
				switch w := in.(type) {
				case *ssa.Store:
					ws = append(ws, writer{w, "store", c09AddrBase(w.Addr)})
				case *ssa.MapUpdate:
					ws = append(ws, writer{w, "map", nil})
				case *ssa.Send:
					ws = append(ws, writer{w, "call", nil})
				case ssa.CallInstruction:
					name := CalleeName(w)
					if name == "builtin:delete" || name == "builtin:clear" {
						ws = append(ws, writer{in, "map", nil})
						continue
					}
					if c09PureCallees[name] || (idempotent != nil && idempotent(name)) {
						continue
					}
					ws = append(ws, writer{in, "call", nil})
				}
			}
		}
		for _, r := range reads {
			var rbase *ssa.Alloc
			private := false
			if r.kind == "load" {
				if a, ok := c09AddrBase(r.addr).(*ssa.Alloc); ok {
					rbase = a
					private = c09NonEscaping(a)
				}
			}
			for _, w := range ws {
				hit := false
				switch w.kind {
				case "call":
					hit = !private
				case "map":
					hit = r.kind == "map" || r.kind == "opaque"
				case "store":
					wa, wIsAlloc := w.base.(*ssa.Alloc)
					switch {
					case r.kind == "map":
						hit = false
					case private:
						hit = wIsAlloc && wa == rbase
					case wIsAlloc && c09NonEscaping(wa):
						hit = false
					default:
						hit = true
					}
				}
				if hit {
					addEv(fmt.Sprintf("memory read by the conditions (%s) may be written inside the loop by %s", c09ReadDesc(r), c09Trunc(w.in.String())))
				}
			}
		}
	}
	for _, r := range reads {
		switch r.kind {
		case "opaque":
			inputs["state read by "+r.via] = true
		case "map":
			inputs["map "+c09Trunc(r.addr.Name())] = true
		default:
			inputs["memory at "+short(c09Trunc(r.addr.String()))] = true
		}
	}
	vd.Progress = len(evid) > 0
	vd.Evidence = c09SortedKeys(evid)
	vd.Inputs = c09SortedKeys(inputs)
	return vd
}

func c09ReadDesc(r c09MemRead) string {
	switch r.kind {
	case "opaque":
		return "through " + r.via
	case "map":
		return "map " + r.addr.Name()
	}
	return "*" + r.addr.Name()
}

func c09PhiName(p *ssa.Phi) string {
	if p.Comment != "" {
		return p.Comment
	}
	return p.Name()
}

func c09Trunc(s string) string {
	s = short(s)
	if len(s) > 90 {
		s = s[:90] + "…"
	}
	return s
}

func c09SortedKeys(m map[string]bool) []string {
	out := make([]string, 0, len(m))
	for k := range m {
		out = append(out, k)
	}
	sort.Strings(out)
	return out
}

// c09Reachable: in-module functions reachable from roots through static
// calls, closures, and interface calls resolved (CHA) against the concrete
// types of the given packages.
func c09Reachable(p *Prog, roots []*ssa.Function, chaPkgs []string) []*ssa.Function {
	var cands []types.Type
	for _, rel := range chaPkgs {
		tp := p.TypesPkg(rel)
		if tp == nil {
			continue
		}
		for _, n := range tp.Scope().Names() {
			if tn, ok := tp.Scope().Lookup(n).(*types.TypeName); ok && !tn.IsAlias() {
				if named, ok := tn.Type().(*types.Named); ok && named.TypeParams().Len() == 0 {
					if _, isIface := named.Underlying().(*types.Interface); !isIface {
						cands = append(cands, named, types.NewPointer(named))
					}
				}
			}
		}
	}
	seen := map[*ssa.Function]bool{}
	var out []*ssa.Function
	var visit func(f *ssa.Function)
	visit = func(f *ssa.Function) {
		if f == nil || seen[f] || len(f.Blocks) == 0 || !inModule(f) {
			return
		}
		seen[f] = true
		out = append(out, f)
		AllInstrs(f, func(in ssa.Instruction) {
			switch x := in.(type) {
			case *ssa.MakeClosure:
				visit(x.Fn.(*ssa.Function))
			case ssa.CallInstruction:
				cc := x.Common()
				if cc.IsInvoke() {
					iface, _ := cc.Value.Type().Underlying().(*types.Interface)
					if iface == nil {
						return
					}
					for _, t := range cands {
						if types.Implements(t, iface) {
							ms := p.SSA.MethodSets.MethodSet(t)
							if sel := ms.Lookup(cc.Method.Pkg(), cc.Method.Name()); sel != nil {
								visit(p.SSA.MethodValue(sel))
							}
						}
					}
					return
				}
				visit(StaticCallee(x))
				for _, a := range cc.Args {
					if fn, ok := a.(*ssa.Function); ok {
						visit(fn)
					}
				}
			}
		})
	}
	for _, r := range roots {
		visit(r)
	}
	sort.Slice(out, func(i, j int) bool {
		if out[i].String() != out[j].String() {
			return out[i].String() < out[j].String()
		}
		return out[i].Pos() < out[j].Pos()
	})
	return out
}

// c09UnboundedLoops lists the loops of fn that are not bounded range loops,
// ordered by source position of the header (stable ordinal for keys).
func c09UnboundedLoops(fn *ssa.Function) []*Loop {
	var out []*Loop
	for _, l := range Loops(fn) {
		if !l.IsBoundedRange() {
			out = append(out, l)
		}
	}
	sort.SliceStable(out, func(i, j int) bool { return c09LoopPos(out[i]) < c09LoopPos(out[j]) })
	return out
}

func c09LoopPos(l *Loop) token.Pos {
	best := token.NoPos
	for b := range l.Blocks {
		for _, in := range b.Instrs {
			if p := in.Pos(); p.IsValid() && (best == token.NoPos || p < best) {
				best = p
			}
		}
	}
	return best
}

func c09R1(c *Ctx) {
	const R1 = "C09.R1.loop-progress"
	c.Expect(R1, 2)
	del, gc := c.P.Fn("content/oci", "Store.Delete"), c.P.Fn("content/oci", "Store.GC")
	if del == nil || gc == nil {
		c.LostAnchor(R1, "~/content/oci.Store.Delete / Store.GC")
		return
	}
	// the table must still name existing read-only functions
	for name := range c09IdempotentReads {
		if strings.Contains(name, "/container/set.Set") { // generic: no single body to inspect
			continue
		}
		if f := c09FnByName(c.P, name); f == nil {
			c.LostAnchor(R1, "idempotent-read table entry "+name)
		} else if w := c09FirstWrite(f); w != "" {
			c.Undecided(R1, "idempotent-read-table|"+name, f.Pos(), "the function is listed as an idempotent read but now contains a write ("+w+"); the loop-progress engine cannot rely on the table entry any more — review it")
		}
	}
	idem := func(n string) bool { _, ok := c09IdempotentReads[n]; return ok }
	fns := c09Reachable(c.P, []*ssa.Function{del, gc}, []string{"content/oci", "internal/graph", "internal/resolver", "internal/cas"})
	for _, f := range fns {
		for k, l := range c09UnboundedLoops(f) {
			key := fmt.Sprintf("%s|for#%d", FnName(f), k+1)
			pos := c09LoopPos(l)
			vd := c09LoopProgress(l, idem)
			switch {
			case vd.Undecided != "":
				c.Undecided(R1, key, pos, vd.Undecided)
			case vd.NoExit:
				c.Violation(R1, key, pos, "the loop has no exit edge: once entered it never terminates (reachable from Store.Delete/Store.GC, which hold the store's write lock)")
			case vd.Progress:
				c.OK(R1, key, pos, "conditions depend on loop-carried state: "+strings.Join(vd.Evidence, "; "))
			default:
				c.Violation(R1, key, pos, "no branch condition of this loop depends on state that changes between iterations: there is no loop-carried value (header phi) in the slice of the conditions, "+
					"nothing they read is written inside the loop, and every call they depend on is an idempotent read — if the first iteration does not exit, no later one can (the operation hangs while holding the store lock). "+
					"Conditions depend only on: "+strings.Join(vd.Inputs, "; "))
			}
		}
	}
}

// c09FnByName resolves a canonical callee name ("~/pkg.F", "(*~/pkg.T).M").
func c09FnByName(p *Prog, name string) *ssa.Function {
	n := strings.TrimPrefix(name, "(*")
	n = strings.TrimPrefix(n, "(")
	n = strings.Replace(n, ").", ".", 1)
	i := strings.LastIndex(n, "/")
	j := strings.Index(n[i+1:], ".")
	if j < 0 {
		return nil
	}
	pkg, rest := n[:i+1+j], n[i+1+j+1:]
	return p.Fn(strings.TrimPrefix(pkg, "~/"), rest)
}

// c09FirstWrite: a direct write to memory that is not a private local, in fn itself.
func c09FirstWrite(fn *ssa.Function) string {
	out := ""
	AllInstrs(fn, func(in ssa.Instruction) {
		if out != "" {
			return
		}
		switch w := in.(type) {
		case *ssa.MapUpdate:
			if _, fresh := w.Map.(*ssa.MakeMap); !fresh {
				out = c09Trunc(w.String())
			}
		case *ssa.Store:
			if _, isAlloc := c09AddrBase(w.Addr).(*ssa.Alloc); !isAlloc {
				out = c09Trunc(w.String())
			}
		case *ssa.Send:
			out = c09Trunc(w.String())
		case ssa.CallInstruction:
			if n := CalleeName(w); n == "builtin:delete" || n == "builtin:clear" {
				out = n
			}
		}
	})
	return out
}

// =====================================================================
// R2: resolver.Memory keeps tags (digest -> refs) the inverse of index
// =====================================================================

// c09IsFieldAddrOf: v is &x.<field> with x of type *<named>.
func c09IsFieldAddrOf(v ssa.Value, named *types.Named, field string) bool {
	fa, ok := v.(*ssa.FieldAddr)
	if !ok {
		return false
	}
	pt, ok := fa.X.Type().Underlying().(*types.Pointer)
	if !ok || !types.Identical(pt.Elem(), named) {
		return false
	}
	st, ok := named.Underlying().(*types.Struct)
	return ok && fa.Field < st.NumFields() && st.Field(fa.Field).Name() == c09FieldRole(named, field)
}

// c09IsLoadOfField: every root of v is a load of <named>.<field>.
func c09IsLoadOfField(v ssa.Value, named *types.Named, field string) bool {
	rs := Roots(v)
	if len(rs) == 0 {
		return false
	}
	for _, r := range rs {
		u, ok := r.(*ssa.UnOp)
		if !ok || u.Op != token.MUL || !c09IsFieldAddrOf(u.X, named, field) {
			return false
		}
	}
	return true
}

func c09HasField(named *types.Named, field string) bool {
	st, ok := named.Underlying().(*types.Struct)
	if !ok {
		return false
	}
	field = c09FieldRole(named, field)
	for i := 0; i < st.NumFields(); i++ {
		if st.Field(i).Name() == field {
			return true
		}
	}
	return false
}

// c09DescObj describes "the descriptor a digest is read from": either the SSA
// value itself or the local cell(s) that hold it.
type c09DescObj struct {
	vals  map[ssa.Value]bool // the struct value and its aliases
	cells map[*ssa.Alloc]bool
}

// c09DescObjOf builds the object for struct value v: v, its aliases, and the
// struct-typed cells every store of which writes (an alias of) v.
func c09DescObjOf(vs ...ssa.Value) c09DescObj {
	o := c09DescObj{vals: map[ssa.Value]bool{}, cells: map[*ssa.Alloc]bool{}}
	for _, v := range vs {
		if v == nil {
			continue
		}
		for a := range Aliases(v) {
			o.vals[a] = true
		}
		// v may itself be a load of a cell: then that cell is the object
		if u, ok := v.(*ssa.UnOp); ok && u.Op == token.MUL {
			if a, ok := u.X.(*ssa.Alloc); ok {
				o.cells[a] = true
			}
		}
	}
	for v := range o.vals {
		if v.Referrers() == nil {
			continue
		}
		for _, r := range *v.Referrers() {
			if s, ok := r.(*ssa.Store); ok && s.Val == v {
				if a, ok := s.Addr.(*ssa.Alloc); ok {
					all := true
					for _, s2 := range storesTo(a) {
						if !o.vals[s2.Val] {
							all = false
						}
					}
					if all {
						o.cells[a] = true
					}
				}
			}
		}
	}
	// loads of the cells denote the object too
	for a := range o.cells {
		for _, r := range *a.Referrers() {
			if u, ok := r.(*ssa.UnOp); ok && u.Op == token.MUL && u.X == ssa.Value(a) {
				o.vals[u] = true
			}
		}
	}
	return o
}

// fieldOf: x is the value of field `field` of the object.
func (o c09DescObj) fieldOf(x ssa.Value, field string) bool {
	rs := Roots(x)
	if len(rs) == 0 {
		return false
	}
	for _, r := range rs {
		ok := false
		switch u := r.(type) {
		case *ssa.UnOp:
			if fa, isFA := u.X.(*ssa.FieldAddr); isFA && u.Op == token.MUL {
				if a, isAlloc := fa.X.(*ssa.Alloc); isAlloc && o.cells[a] && strings.HasSuffix(fieldName(fa.X.Type(), fa.Field), "."+field) {
					ok = true
				}
				// the cell read from inside a closure that captured it
				if fv, isFV := fa.X.(*ssa.FreeVar); isFV && strings.HasSuffix(fieldName(fa.X.Type(), fa.Field), "."+field) {
					bs := freeVarBindings(fv)
					all := len(bs) > 0
					for _, b := range bs {
						a, isAlloc := b.(*ssa.Alloc)
						all = all && isAlloc && o.cells[a]
					}
					ok = ok || all
				}
			}
		case *ssa.Field:
			if o.vals[u.X] && strings.HasSuffix(fieldName(u.X.Type(), u.Field), "."+field) {
				ok = true
			}
		}
		if !ok {
			return false
		}
	}
	return true
}

// c09SetOp: the instruction inserts into / removes from a set-typed map
// (map[K]struct{} behind ~/internal/container/set.Set): returns the set value
// and the element.
func c09SetOp(in ssa.Instruction) (op string, set, elem ssa.Value) {
	switch u := in.(type) {
	case *ssa.MapUpdate:
		if c09IsSetType(u.Map.Type()) {
			return "add", u.Map, u.Key
		}
	case ssa.CallInstruction:
		n := CalleeName(u)
		args := u.Common().Args
		switch {
		case n == "builtin:delete" && len(args) == 2 && c09IsSetType(args[0].Type()):
			return "del", args[0], args[1]
		case strings.HasPrefix(n, "(~/internal/container/set.Set") && strings.HasSuffix(n, ").Add") && len(args) == 2:
			return "add", args[0], args[1]
		case strings.HasPrefix(n, "(~/internal/container/set.Set") && strings.HasSuffix(n, ").Delete") && len(args) == 2:
			return "del", args[0], args[1]
		}
	}
	return "", nil, nil
}

func c09IsSetType(t types.Type) bool {
	m, ok := t.Underlying().(*types.Map)
	if !ok {
		return false
	}
	st, ok := m.Elem().Underlying().(*types.Struct)
	return ok && st.NumFields() == 0
}

func c09RootsIn(v ssa.Value, set map[ssa.Value]bool) bool {
	rs := Roots(v)
	if len(rs) == 0 {
		return false
	}
	for _, r := range rs {
		if !set[r] && !set[strip(r)] {
			return false
		}
	}
	return true
}

func c09SameKey(a, b ssa.Value) bool {
	if a == b {
		return true
	}
	if c09CellSource(a) != nil && c09CellSource(a) == c09CellSource(b) {
		return true
	}
	// a local captured by a closure is read through its cell on both sides
	if ra, rb := c09Resolved(a), c09Resolved(b); (ra != a || rb != b) && ra != nil && rb != nil {
		if ra == rb {
			return true
		}
		if ra2, rb2 := Roots(ra), Roots(rb); len(ra2) == 1 && len(rb2) == 1 && ra2[0] == rb2[0] {
			return true
		}
	}
	ra, rb := Roots(a), Roots(b)
	if len(ra) == 0 || len(ra) != len(rb) {
		return false
	}
	m := map[ssa.Value]bool{}
	for _, r := range ra {
		m[r] = true
	}
	for _, r := range rb {
		if !m[r] {
			return c09PureCallEq(a, b, 0)
		}
	}
	return true
}

// c09CellSource: v is (a load of) a struct-typed local cell that is written
// exactly once — returns the stored value (Roots does not look through struct
// cells, so `target` and a later `target` of an address-taken parameter would
// otherwise look different).
func c09CellSource(v ssa.Value) ssa.Value {
	u, ok := v.(*ssa.UnOp)
	if !ok || u.Op != token.MUL {
		return v
	}
	var a *ssa.Alloc
	switch x := u.X.(type) {
	case *ssa.Alloc:
		a = x
	case *ssa.FreeVar:
		// a variable captured by a closure (range-over-func bodies capture every local they use):
		// the cell of the enclosing function, if every closure instance binds the same one
		for _, b := range freeVarBindings(x) {
			// bindings of nested closures are free variables of the parent: follow them
			for depth := 0; depth < 3; depth++ {
				if fv, isFV := b.(*ssa.FreeVar); isFV {
					bs := freeVarBindings(fv)
					if len(bs) != 1 {
						return nil
					}
					b = bs[0]
				}
			}
			ba, isAlloc := b.(*ssa.Alloc)
			if !isAlloc || (a != nil && a != ba) {
				return nil
			}
			a = ba
		}
	}
	if a == nil {
		return nil
	}
	st := storesTo(a)
	if len(st) != 1 || len(closureWriters(a)) > 0 {
		return nil
	}
	return st[0].Val
}

// c09Resolved follows single-store cells (also captured ones) to the value stored.
func c09Resolved(v ssa.Value) ssa.Value {
	for i := 0; i < 4 && v != nil; i++ {
		v = strip(v)
		u, ok := v.(*ssa.UnOp)
		if !ok || u.Op != token.MUL {
			return v
		}
		// a field of a local struct that merely carries a value (rebuilt.tagResolver)
		if fa, isFA := u.X.(*ssa.FieldAddr); isFA {
			if w := c09FieldValue(fa.X, fa.Field); w != nil {
				v = w
				continue
			}
			return v
		}
		src := c09CellSource(v)
		if src == nil || src == v {
			return v
		}
		v = src
	}
	return v
}

// c09PathThrough: there is a path entry -> K -> some Return that avoids the cut.
func c09PathThrough(K ssa.Instruction, ct *cut) bool {
	fn := K.Parent()
	if !reach(fn.Blocks[0], 0, K, ct) {
		return false
	}
	if ct.instrs[K] {
		return false
	}
	for _, r := range Returns(fn) {
		if reach(K.Block(), instrIndex(K)+1, r, ct) {
			return true
		}
	}
	return false
}

func c09R2(c *Ctx) {
	const R2 = "C09.R2.inverse-tags"
	c.Expect(R2, 3)
	mem := c.P.Named("internal/resolver", "Memory")
	if mem == nil || !c09HasField(mem, "index") || !c09HasField(mem, "tags") {
		c.LostAnchor(R2, "~/internal/resolver.Memory{index,tags}")
		return
	}
	for _, f := range c09FuncsOfPkg(c.P, "internal/resolver") {
		fname := FnName(f)
		// every use of a loaded index map
		var kills []ssa.Instruction
		AllInstrs(f, func(in ssa.Instruction) {
			u, ok := in.(*ssa.UnOp)
			if !ok || u.Op != token.MUL || !c09IsFieldAddrOf(u.X, mem, "index") {
				return
			}
			if pathIsFresh(accessPath(u.X.(*ssa.FieldAddr).X)) {
				return
			}
			for m := range Aliases(u) {
				if m.Referrers() == nil {
					continue
				}
				for _, r := range *m.Referrers() {
					switch w := r.(type) {
					case *ssa.MapUpdate:
						if w.Map == m {
							kills = append(kills, w)
						}
					case *ssa.Lookup, *ssa.Range, *ssa.DebugRef, *ssa.Phi, *ssa.Store:
					case ssa.CallInstruction:
						switch n := CalleeName(w); n {
						case "builtin:delete":
							kills = append(kills, w)
						case "builtin:len", "maps.Clone", "maps.Keys", "maps.Values", "maps.All":
						default:
							c.Undecided(R2, fname+"|index-passed-to:"+n, w.Pos(), "the index map is handed to "+n+"; the rule cannot tell whether entries are killed there")
						}
					default:
						c.Undecided(R2, fname+"|index-used-by:"+fmt.Sprintf("%T", r), r.Pos(), "use of the index map not understood")
					}
				}
			}
		})
		for _, K := range kills {
			c09R2Kill(c, R2, f, mem, K)
		}
	}
}

func c09R2Kill(c *Ctx, R2 string, f *ssa.Function, mem *types.Named, K ssa.Instruction) {
	fname := FnName(f)
	var key, newVal ssa.Value
	what := "index-delete"
	if mu, ok := K.(*ssa.MapUpdate); ok {
		key, newVal, what = mu.Key, mu.Value, "index-update"
	} else {
		key = K.(ssa.CallInstruction).Common().Args[1]
	}
	// lookups of index[key]
	var lookups []*ssa.Lookup
	AllInstrs(f, func(in ssa.Instruction) {
		if lk, ok := in.(*ssa.Lookup); ok && c09IsLoadOfField(lk.X, mem, "index") && c09SameKey(lk.Index, key) {
			lookups = append(lookups, lk)
		}
	})
	excused := newCut()
	var oldVals []ssa.Value
	for _, lk := range lookups {
		if lk.CommaOk {
			for _, r := range *lk.Referrers() {
				if e, ok := r.(*ssa.Extract); ok {
					if e.Index == 0 {
						oldVals = append(oldVals, e)
					} else {
						_, fe := BoolTests(f, Aliases(e))
						excused.Edges(fe...) // entry absent: nothing to unlink
					}
				}
			}
		} else {
			oldVals = append(oldVals, lk)
		}
	}
	old := c09DescObjOf(oldVals...)
	var nw c09DescObj
	if newVal != nil {
		nw = c09DescObjOf(newVal)
	}
	// tags[old.Digest] / tags[new.Digest]
	oldSets, newSets := map[ssa.Value]bool{}, map[ssa.Value]bool{}
	addSet := func(dst map[ssa.Value]bool, v ssa.Value) {
		for a := range Aliases(v) {
			dst[a] = true
		}
	}
	AllInstrs(f, func(in ssa.Instruction) {
		switch u := in.(type) {
		case *ssa.Lookup:
			if !c09IsLoadOfField(u.X, mem, "tags") {
				return
			}
			var dst map[ssa.Value]bool
			switch {
			case len(oldVals) > 0 && old.fieldOf(u.Index, "Digest"):
				dst = oldSets
			case newVal != nil && nw.fieldOf(u.Index, "Digest"):
				dst = newSets
			default:
				return
			}
			if u.CommaOk {
				for _, r := range *u.Referrers() {
					if e, ok := r.(*ssa.Extract); ok {
						if e.Index == 0 {
							addSet(dst, e)
						} else if len(oldVals) > 0 && old.fieldOf(u.Index, "Digest") {
							_, fe := BoolTests(f, Aliases(e))
							excused.Edges(fe...) // no inverse set for the old digest: nothing to unlink
						}
					}
				}
			} else {
				addSet(dst, u)
			}
		case *ssa.MapUpdate:
			if newVal != nil && c09IsLoadOfField(u.Map, mem, "tags") && nw.fieldOf(u.Key, "Digest") {
				for _, r := range Roots(u.Value) {
					addSet(newSets, r)
				}
			}
		}
	})
	if len(oldSets) > 0 {
		ne, _, _ := NilTests(f, oldSets)
		excused.Edges(ne...)
	}
	// digest unchanged: old.Digest == new.Digest
	differs := newCut() // edges on which old.Digest != new.Digest is known
	if newVal != nil && len(oldVals) > 0 {
		for _, i := range Ifs(f) {
			cond, t, fe := ifEdges(i)
			bo, ok := cond.(*ssa.BinOp)
			if !ok || (bo.Op != token.EQL && bo.Op != token.NEQ) {
				continue
			}
			if (old.fieldOf(bo.X, "Digest") && nw.fieldOf(bo.Y, "Digest")) || (old.fieldOf(bo.Y, "Digest") && nw.fieldOf(bo.X, "Digest")) {
				if bo.Op == token.EQL {
					excused.Edges(t)
					differs.Edges(fe)
				} else {
					excused.Edges(fe)
					differs.Edges(t)
				}
			}
		}
	}
	var dels, adds []ssa.Instruction
	AllInstrs(f, func(in ssa.Instruction) {
		op, set, elem := c09SetOp(in)
		if op == "" || !c09SameKey(elem, key) {
			return
		}
		if op == "del" && len(oldSets) > 0 && c09RootsIn(set, oldSets) {
			dels = append(dels, in)
		}
		if op == "add" && len(newSets) > 0 && c09RootsIn(set, newSets) {
			adds = append(adds, in)
		}
	})
	// the same operations performed by a helper of the package on tags[<digest argument>]
	for _, call := range Calls(f, func(string) bool { return true }) {
		g := StaticCallee(call)
		if _, isCall := call.(*ssa.Call); !isCall || g == nil || g == f || !inModule(g) || len(g.Blocks) == 0 {
			continue
		}
		args := call.Common().Args
		for _, op := range []string{"del", "add"} {
			mi, di, ki, ok := c09HelperSetOp(g, mem, op)
			if !ok || di >= len(args) || ki >= len(args) || !c09SameKey(args[ki], key) {
				continue
			}
			// a generic helper receives the map of sets as an argument: it must be m.tags
			if mi >= 0 && (mi >= len(args) || !c09IsLoadOfField(args[mi], mem, "tags")) {
				continue
			}
			if op == "del" && len(oldVals) > 0 && (old.fieldOf(args[di], "Digest") || old.vals[args[di]]) {
				dels = append(dels, call.(ssa.Instruction))
			}
			if op == "add" && newVal != nil && (nw.fieldOf(args[di], "Digest") || nw.vals[args[di]]) {
				adds = append(adds, call.(ssa.Instruction))
			}
		}
	}
	// (a) the stale inverse entry is removed
	k1 := fmt.Sprintf("%s|%s:stale-inverse-removed", fname, what)
	// delegation: a helper of the package that receives k and deletes index[k] (its own kill is checked
	// by this rule) runs before this kill on every path: there is no old entry left to unlink
	var helpers []string
	var delegated []ssa.Instruction
	for _, call := range Calls(f, func(string) bool { return true }) {
		g := StaticCallee(call)
		if g == nil || g == f || fnPkgPath(g) != fnPkgPath(f) || len(g.Blocks) == 0 {
			continue
		}
		for i, a := range call.Common().Args {
			if i < len(g.Params) && c09SameKey(a, key) {
				helpers = append(helpers, FnName(g))
				if c09DeletesIndexOfParam(g, mem, g.Params[i]) {
					delegated = append(delegated, call.(ssa.Instruction))
				}
			}
		}
	}
	noLookup := len(lookups) == 0 || !MustPass(K, newCut().Instr(c09LookupInstrs(lookups)...))
	switch {
	case noLookup && len(delegated) > 0 && MustPass(K, newCut().Instr(delegated...)):
		c.OK(R2, k1, K.Pos(), "a helper that deletes index[k] (and is itself checked) runs before this kill on every path: no old entry remains")
	case (noLookup || len(dels) == 0) && len(helpers) > 0:
		c.Undecided(R2, k1, K.Pos(), "index[k] is killed here and k is passed to "+strings.Join(helpers, ", ")+": the rule cannot tell whether that helper unlinks k from tags[old.Digest] (shape not recognised)")
	case noLookup:
		c.Violation(R2, k1, K.Pos(), "index[k] is "+ifelse(newVal != nil, "overwritten", "deleted")+" without first looking up the entry it replaces: when k pointed at another digest, k stays in tags[old.Digest], "+
			"so TagSet(old)/isTagged(old) keep reporting a tag that no longer exists (auto-GC then spares a node that lost its last tag)")
	case len(dels) == 0:
		c.Violation(R2, k1, K.Pos(), "the old entry is looked up but k is never removed from tags[old.Digest]")
	default:
		ct := newCut().Instr(dels...)
		for e := range excused.edges {
			ct.Edges(e)
		}
		bad := c09PathThrough(K, ct)
		c.Check(R2, k1, K.Pos(), !bad, ifelse(!bad,
			"every path through this kill of index[k] on which the entry existed"+ifelse(newVal != nil, " with a different digest", "")+" removes k from tags[old.Digest]",
			"a path through this kill of index[k] leaves k in tags[old.Digest] although the entry existed"+ifelse(newVal != nil, " with another digest", "")))
	}
	// (b) the new inverse entry is added
	if newVal != nil {
		k2 := fmt.Sprintf("%s|%s:inverse-added", fname, what)
		if len(adds) == 0 {
			c.Violation(R2, k2, K.Pos(), "index[k] = v is not accompanied by adding k to tags[v.Digest]: TagSet(v) misses the tag, isTagged(v) is false and auto-GC may delete a tagged manifest")
		} else {
			bad := c09PathThrough(K, newCut().Instr(adds...))
			c.Check(R2, k2, K.Pos(), !bad, ifelse(!bad, "every path through index[k] = v adds k to tags[v.Digest]", "a path through index[k] = v returns without adding k to tags[v.Digest]"))
		}
		// (c) the new inverse entry survives: once k is in tags[v.Digest], k is removed from tags[old.Digest] only
		// where the two digests are known to differ (re-applying a tag must not drop it)
		if len(adds) > 0 && len(dels) > 0 {
			k3 := fmt.Sprintf("%s|%s:inverse-survives", fname, what)
			bad := false
			for _, a := range adds {
				for _, d := range dels {
					if reach(a.Block(), instrIndex(a)+1, d, differs) {
						bad = true
					}
				}
			}
			c.Check(R2, k3, K.Pos(), !bad, ifelse(!bad, "the removal of k from tags[old.Digest] precedes the insertion into tags[v.Digest] or is guarded by old.Digest != v.Digest",
				"after k was added to tags[v.Digest] it is removed from tags[old.Digest] without old.Digest != v.Digest being known: re-applying a tag the descriptor already carries empties its tag set, isTagged turns false and auto-GC deletes a tagged manifest"))
		}
	}
}

// c09HelperSetOp: on every path, g removes (op "del") / inserts (op "add") its
// parameter #ki from / into tags[d] where d is its parameter #di (a digest, or a
// descriptor whose Digest is used).  For "del" a missing or nil set is excused.
func c09HelperSetOp(g *ssa.Function, mem *types.Named, op string) (mi, di, ki int, ok bool) {
	mi = -1
	// the map of sets: m.tags itself, or a parameter (generic helper set.AddTo(sets, key, item))
	isTags := func(x ssa.Value) bool {
		if c09IsLoadOfField(x, mem, "tags") {
			return true
		}
		if pf, i := c09ParamOf(x); pf == g {
			if mt, isMap := g.Params[i].Type().Underlying().(*types.Map); isMap && c09IsSetType(mt.Elem()) {
				mi = i
				return true
			}
		}
		return false
	}
	digestParam := func(x ssa.Value) int {
		if fn, i := c09ParamOf(x); fn == g {
			return i
		}
		for i, prm := range g.Params {
			if _, isStruct := prm.Type().Underlying().(*types.Struct); isStruct && c09DescObjOf(prm).fieldOf(x, "Digest") {
				return i
			}
		}
		return -1
	}
	sets := map[int]map[ssa.Value]bool{}
	excused := map[int][]Edge{}
	addTo := func(i int, v ssa.Value) {
		if sets[i] == nil {
			sets[i] = map[ssa.Value]bool{}
		}
		for a := range Aliases(v) {
			sets[i][a] = true
		}
	}
	AllInstrs(g, func(in ssa.Instruction) {
		switch u := in.(type) {
		case *ssa.Lookup:
			if !isTags(u.X) {
				return
			}
			i := digestParam(u.Index)
			if i < 0 {
				return
			}
			if u.CommaOk {
				for _, r := range *u.Referrers() {
					if e, ok := r.(*ssa.Extract); ok {
						if e.Index == 0 {
							addTo(i, e)
						} else {
							_, fe := BoolTests(g, Aliases(e))
							excused[i] = append(excused[i], fe...)
						}
					}
				}
			} else {
				addTo(i, u)
			}
		case *ssa.MapUpdate:
			if op == "add" && isTags(u.Map) {
				if i := digestParam(u.Key); i >= 0 {
					for _, r := range Roots(u.Value) {
						addTo(i, r)
					}
				}
			}
		}
	})
	for i, set := range sets {
		ne, _, _ := NilTests(g, set)
		byKey := map[int][]ssa.Instruction{}
		AllInstrs(g, func(in ssa.Instruction) {
			o, sv, elem := c09SetOp(in)
			if o != op || !c09RootsIn(sv, set) {
				return
			}
			if fn, k := c09ParamOf(elem); fn == g {
				byKey[k] = append(byKey[k], in)
			}
		})
		for k, ins := range byKey {
			ct := newCut().Instr(ins...)
			if op == "del" {
				ct.Edges(excused[i]...).Edges(ne...)
			}
			all := true
			for _, r := range Returns(g) {
				if ReachableFromEntry(r) && !MustPass(r, ct) {
					all = false
				}
			}
			if all {
				return mi, i, k, true
			}
		}
	}
	return -1, -1, -1, false
}

// c09DeletesIndexOfParam: every path through g deletes index[p] or finds it absent.
func c09DeletesIndexOfParam(g *ssa.Function, mem *types.Named, p *ssa.Parameter) bool {
	ct := newCut()
	n := 0
	AllInstrs(g, func(in ssa.Instruction) {
		switch u := in.(type) {
		case *ssa.Call:
			if CalleeName(u) == "builtin:delete" && c09IsLoadOfField(u.Call.Args[0], mem, "index") && c09SameKey(u.Call.Args[1], p) {
				ct.Instr(u)
				n++
			}
		case *ssa.Lookup:
			if u.CommaOk && c09IsLoadOfField(u.X, mem, "index") && c09SameKey(u.Index, p) {
				for _, r := range *u.Referrers() {
					if e, ok := r.(*ssa.Extract); ok && e.Index == 1 {
						_, fe := BoolTests(g, Aliases(e))
						ct.Edges(fe...)
					}
				}
			}
		}
	})
	if n == 0 {
		return false
	}
	for _, r := range Returns(g) {
		if !MustPass(r, ct) {
			return false
		}
	}
	return true
}

func c09LookupInstrs(ls []*ssa.Lookup) []ssa.Instruction {
	var out []ssa.Instruction
	for _, l := range ls {
		out = append(out, l)
	}
	return out
}
