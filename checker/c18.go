package main

// C18 — the credentials file store never damages the config file.
//
// R1 atomic replace (effect inventory of credentials/internal/{config,ioutil}
// with one semantic check per effect class), R2 guarded-by (lockset),
// R3 preservation by construction (types + map-key discipline + what is
// marshalled), R4 format guard in FileStore.Put.

import (
	"fmt"
	"go/constant"
	"go/token"
	"go/types"
	"sort"
	"strings"

	"golang.org/x/tools/go/ssa"
)

func init() {
	register(&propDef{
		ID: "C18",
		Explain: "Decided: (R1) the only file-system effects of credentials/internal/{config,ioutil} are MkdirAll of the config directory, an exclusive temp file created in the directory of the target " +
			"(owner-only before content is written, every write/chmod/close error surfaces), Rename of that temp file onto Config.path behind the success edge of the ingest, and Remove of the temp file; " +
			"any other writer (os.WriteFile/Create/OpenFile/…) is an unclassified effect; (R2) Config.{content,authsCache,credentialsStore} are accessed only under rwLock in the required mode " +
			"(locally or in every caller), with the documented exceptions; (R3) content/authsCache are map[string]json.RawMessage, never replaced wholesale after Load, written only at the constant keys " +
			"auths/credsStore resp. the caller's server address, and the bytes ingested are json.MarshalIndent(Config.content) taken after the auths entry was refreshed; (R4) FileStore.Put checks DisablePut and the " +
			"colon rule before PutCredential. NOT decided (not applicable to static analysis): round-trip equality of credentials (base64 / strings.Cut are value computations), crash points beyond the rename idiom, " +
			"sequential equivalence of concurrent calls beyond the lock discipline.",
		Run:     runC18,
		Mutants: c18Mutants,
	})
}

const (
	c18CfgPkg = "registry/remote/credentials/internal/config"
	c18IOPkg  = "registry/remote/credentials/internal/ioutil"
	c18Cfg    = "~/registry/remote/credentials/internal/config.Config"
)

func runC18(c *Ctx) {
	const R1 = "C18.R1.atomic-replace"
	n := c.P.Named(c18CfgPkg, "Config")
	if n == nil {
		c.LostAnchor(R1, "type "+c18Cfg)
		return
	}
	st, _ := n.Underlying().(*types.Struct)
	fields := map[string]types.Type{}
	if st != nil {
		for i := 0; i < st.NumFields(); i++ {
			fields[st.Field(i).Name()] = st.Field(i).Type()
		}
	}
	cfgFns := c11FuncsOfPkg(c.P, c18CfgPkg)
	if st == nil || !c18ResolveFields(c, R1, st, cfgFns) {
		return
	}
	ioFns := c11FuncsOfPkg(c.P, c18IOPkg)
	all := append(append([]*ssa.Function{}, cfgFns...), ioFns...)
	c18R1(c, all)
	c18R2(c)
	c18R3(c, cfgFns, fields)
	c18R4(c)
	c18R5(c, cfgFns)
	c18R6(c, cfgFns)
	c18R7(c, cfgFns)
}

// The unexported state of Config, identified by TYPE and ROLE (renaming a field
// changes nothing):
//
//	lock     the sync.RWMutex / sync.Mutex field
//	content  the string-keyed map field that receives the constant key "auths" (the document written to the file)
//	auths    the string-keyed map field whose json.Marshal is stored under "auths"
//	creds    the string field whose json.Marshal is stored under "credsStore"
//	path     the string field handed (directly or through helpers) to os.Rename as the new name
var c18FPath, c18FLock, c18FContent, c18FAuths, c18FCreds string

func c18ResolveFields(c *Ctx, R1 string, st *types.Struct, fns []*ssa.Function) bool {
	c18FPath, c18FLock, c18FContent, c18FAuths, c18FCreds = "", "", "", "", ""
	var strFields, mapFields []string
	for i := 0; i < st.NumFields(); i++ {
		f := st.Field(i)
		switch t := f.Type().(type) {
		case *types.Named:
			if t.Obj().Pkg() != nil && t.Obj().Pkg().Path() == "sync" && (t.Obj().Name() == "RWMutex" || t.Obj().Name() == "Mutex") {
				if c18FLock != "" {
					c18FLock = "?"
				} else {
					c18FLock = f.Name()
				}
			}
		}
		if b, ok := f.Type().Underlying().(*types.Basic); ok && b.Kind() == types.String {
			strFields = append(strFields, f.Name())
		}
		if m, ok := f.Type().Underlying().(*types.Map); ok {
			if k, ok := m.Key().Underlying().(*types.Basic); ok && k.Kind() == types.String {
				mapFields = append(mapFields, f.Name())
			}
		}
	}
	// the value stored under a constant key of a map field, and what was marshalled into it
	marshalledField := func(fn *ssa.Function, val ssa.Value, cands []string) string {
		for _, call := range CallsTo(fn, "encoding/json.Marshal", "encoding/json.MarshalIndent") {
			r0 := ResultOf(call, 0)
			if r0 == nil || !c11DerivesFrom(val, map[ssa.Value]bool{r0: true}) {
				continue
			}
			for _, cf := range cands {
				if c11DerivesFrom(call.Common().Args[0], c11FieldReads(fn, c18Cfg+"."+cf)) {
					return cf
				}
			}
		}
		return ""
	}
	for _, fn := range fns {
		AllInstrs(fn, func(in ssa.Instruction) {
			mu, ok := in.(*ssa.MapUpdate)
			if !ok {
				return
			}
			k, isConst := constString(mu.Key)
			if !isConst || (k != "auths" && k != "credsStore") {
				return
			}
			for _, mf := range mapFields {
				if !c11FieldReads(fn, c18Cfg+"."+mf)[mu.Map] {
					continue
				}
				c18FContent = mf
				if k == "auths" {
					var others []string
					for _, o := range mapFields {
						if o != mf {
							others = append(others, o)
						}
					}
					if a := marshalledField(fn, mu.Value, others); a != "" {
						c18FAuths = a
					}
				} else if cr := marshalledField(fn, mu.Value, strFields); cr != "" {
					c18FCreds = cr
				}
			}
		})
	}
	// fallbacks by type when the key-based evidence is gone (the rules then report what is wrong, not a lost anchor)
	if c18FContent == "" {
		for _, fn := range fns {
			for _, call := range CallsTo(fn, "encoding/json.MarshalIndent") {
				for _, mf := range mapFields {
					if c11DerivesFrom(call.Common().Args[0], c11FieldReads(fn, c18Cfg+"."+mf)) {
						c18FContent = mf
					}
				}
			}
		}
	}
	if c18FAuths == "" && c18FContent != "" {
		var others []string
		for i := 0; i < st.NumFields(); i++ {
			if o := st.Field(i).Name(); o != c18FContent && c18IsRawMap(st.Field(i).Type()) {
				others = append(others, o)
			}
		}
		if len(others) == 1 {
			c18FAuths = others[0]
		}
	}
	// path: the string field that reaches os.Rename's new name
	for _, sf := range strFields {
		vals := map[ssa.Value]bool{}
		for _, fn := range fns {
			for v := range c11FieldReads(fn, c18Cfg+"."+sf) {
				vals[v] = true
			}
		}
		if len(vals) == 0 {
			continue
		}
		c18PropagateToParams(fns, vals)
		for _, fn := range fns {
			for _, rn := range CallsTo(fn, "os.Rename") {
				rs := Roots(rn.Common().Args[1])
				all := len(rs) > 0
				for _, r := range rs {
					if !vals[r] {
						all = false
					}
				}
				if all {
					c18FPath = sf
				}
			}
		}
	}
	if c18FPath == "" {
		// no rename left (the rules will say so): the string field whose directory is created / used for the temp file
		for _, sf := range strFields {
			for _, fn := range fns {
				for _, d := range CallsTo(fn, "path/filepath.Dir") {
					if c11DerivesFrom(d.Common().Args[0], c11FieldReads(fn, c18Cfg+"."+sf)) {
						c18FPath = sf
					}
				}
			}
		}
	}
	ok := true
	for _, x := range [][2]string{
		{c18FLock, "the sync.RWMutex field of Config"},
		{c18FContent, "the string-keyed map field of Config that receives the key \"auths\" (the document written to the file)"},
		{c18FAuths, "the map field of Config whose json.Marshal is stored under \"auths\""},
		{c18FCreds, "the string field of Config whose json.Marshal is stored under \"credsStore\""},
		{c18FPath, "the string field of Config handed to os.Rename as the new name"},
	} {
		if x[0] == "" || x[0] == "?" {
			c.LostAnchor(R1, x[1])
			ok = false
		}
	}
	return ok
}

// ---------- R5: one base64 alphabet ----------

// c18R5: the `auth` field is base64(username:password) in the standard alphabet
// with padding (docker's format).  Encoder and decoder must agree, and agree
// with docker: every base64 operation of the config package uses
// base64.StdEncoding.  A different *Encoding on one side makes Get return an
// error (or another credential) for entries written by Put or by docker.
func c18R5(c *Ctx, fns []*ssa.Function) {
	const R5 = "C18.R5.auth-encoding-agrees"
	c.Expect(R5, 2)
	for _, f := range fns {
		n := map[string]int{}
		for _, call := range Calls(f, func(nm string) bool { return strings.HasPrefix(nm, "(*encoding/base64.Encoding).") }) {
			nm := CalleeName(call)
			n[nm]++
			key := FnName(f) + "|" + strings.TrimPrefix(nm, "(*encoding/base64.Encoding).")
			if n[nm] > 1 {
				key += fmt.Sprintf("#%d", n[nm])
			}
			which := ""
			ok := true
			rs := Roots(call.Common().Args[0])
			if len(rs) == 0 {
				ok = false
			}
			for _, r := range rs {
				ld, isLoad := r.(*ssa.UnOp)
				var g *ssa.Global
				if isLoad && ld.Op == token.MUL {
					g, _ = ld.X.(*ssa.Global)
				}
				if g == nil || g.Pkg == nil || g.Pkg.Pkg.Path() != "encoding/base64" {
					ok, which = false, describe(r)
					continue
				}
				if g.Name() != "StdEncoding" {
					ok, which = false, "base64."+g.Name()
				}
			}
			c.Check(R5, key, call.Pos(), ok, ifelse(ok, "uses base64.StdEncoding, like every other base64 operation of the package and like docker",
				"uses "+which+" instead of base64.StdEncoding: encoder and decoder of the auth field (and docker's config format) no longer agree — credentials whose base64 contains '+', '/' or padding are not read back"))
		}
	}
	// constructing a private alphabet is not the docker format either
	for _, f := range fns {
		for _, call := range CallsTo(f, "encoding/base64.NewEncoding", "(encoding/base64.Encoding).WithPadding", "(encoding/base64.Encoding).Strict") {
			c.Violation(R5, FnName(f)+"|custom-encoding", call.Pos(), "a custom base64 encoding is constructed in the config package: the auth field must be standard base64 with padding")
		}
	}
}

// ---------- R6 ----------

// c18R6: what Put writes Get reads back: every field of auth.Credential that is
// copied into a field of the stored entry is read back from that same field
// into the same Credential field, and the pair handed to the auth encoder comes
// back from the decoder in the same order into the same fields.  The pairs are
// found by data flow (stores of one struct's field loads into the other
// struct's fields); no type or field name of the entry is assumed.
func c18R6(c *Ctx, fns []*ssa.Function) {
	const R6 = "C18.R6.credential-fields-agree"
	c.Expect(R6, 3)
	const credT = "~/registry/remote/auth.Credential."
	isCred := func(f string) bool { return strings.HasPrefix(f, credT) }
	// field loads a value denotes
	loads := func(v ssa.Value) []string {
		var out []string
		for _, r := range Roots(v) {
			if f := fieldOfFuncValue(r); f != "" {
				out = append(out, f)
			}
		}
		return out
	}
	toFile := map[string]map[string]token.Pos{} // Credential field -> entry fields it is stored into
	fromFile := map[string]map[string]bool{}    // entry field -> Credential fields it is read into
	type encCall struct {
		args []string // Credential field per argument
		dst  string   // entry field receiving the result
		pos  token.Pos
	}
	var encs []encCall
	decRes := map[int]map[string]bool{} // result index of the decoder -> Credential fields
	decSrc := map[string]bool{}         // entry fields the decoder is applied to
	for _, f := range fns {
		AllInstrs(f, func(in ssa.Instruction) {
			st, ok := in.(*ssa.Store)
			if !ok {
				return
			}
			fa, ok := st.Addr.(*ssa.FieldAddr)
			if !ok {
				return
			}
			dst := fieldName(fa.X.Type(), fa.Field)
			for _, src := range loads(st.Val) {
				switch {
				case isCred(src) && !isCred(dst):
					if toFile[src] == nil {
						toFile[src] = map[string]token.Pos{}
					}
					toFile[src][dst] = st.Pos()
				case !isCred(src) && isCred(dst):
					if fromFile[src] == nil {
						fromFile[src] = map[string]bool{}
					}
					fromFile[src][dst] = true
				}
			}
			for _, r := range Roots(st.Val) {
				switch u := r.(type) {
				case *ssa.Call: // entry field = encode(cred.A, cred.B)
					g := StaticCallee(u)
					if g == nil || !inModule(g) || isCred(dst) || len(u.Call.Args) < 2 {
						continue
					}
					ec := encCall{dst: dst, pos: u.Pos()}
					for _, a := range u.Call.Args {
						l := loads(a)
						if len(l) != 1 || !isCred(l[0]) {
							ec.args = nil
							break
						}
						ec.args = append(ec.args, l[0])
					}
					if len(ec.args) >= 2 {
						encs = append(encs, ec)
					}
				case *ssa.Extract: // cred.A, cred.B, err = decode(entry.field)
					call, ok := u.Tuple.(*ssa.Call)
					if !ok || !isCred(dst) {
						continue
					}
					g := StaticCallee(call)
					if g == nil || !inModule(g) || len(call.Call.Args) != 1 {
						continue
					}
					l := loads(call.Call.Args[0])
					if len(l) != 1 || isCred(l[0]) {
						continue
					}
					decSrc[l[0]] = true
					if decRes[u.Index] == nil {
						decRes[u.Index] = map[string]bool{}
					}
					decRes[u.Index][dst] = true
				}
			}
		})
	}
	var keys []string
	for g := range toFile {
		keys = append(keys, g)
	}
	sort.Strings(keys)
	for _, g := range keys {
		var fs []string
		for f := range toFile[g] {
			fs = append(fs, f)
		}
		sort.Strings(fs)
		for _, f := range fs {
			back := fromFile[f]
			ok := len(back) == 1 && back[g]
			var got []string
			for b := range back {
				got = append(got, strings.TrimPrefix(b, credT))
			}
			sort.Strings(got)
			c.Check(R6, strings.TrimPrefix(g, credT)+"|read-back-from-where-it-is-written", toFile[g][f], ok, ifelse(ok, "written to "+f+" and read back from it into the same field",
				"Credential."+strings.TrimPrefix(g, credT)+" is stored in "+f+", which Get reads into ["+strings.Join(got, ", ")+"]: the credential read back is not the one stored"))
		}
	}
	for _, ec := range encs {
		ok := decSrc[ec.dst]
		for i, a := range ec.args {
			if len(decRes[i]) != 1 || !decRes[i][a] {
				ok = false
			}
		}
		var as []string
		for _, a := range ec.args {
			as = append(as, strings.TrimPrefix(a, credT))
		}
		c.Check(R6, strings.Join(as, ",")+"|encoded-pair-decoded-in-order", ec.pos, ok, ifelse(ok, "the encoder's arguments ("+strings.Join(as, ", ")+") come back from the decoder applied to "+ec.dst+" in the same order into the same fields",
			"the values encoded into "+ec.dst+" ("+strings.Join(as, ", ")+") are not the fields the decoder's results are stored into, in that order"))
	}
}

// ---------- R7 ----------

// c18R7: the load side of "never damages the config file".  What Put/Delete
// write back is the loaded document with one entry changed, so the document in
// memory must be the whole file: the file opened by the loader is decoded into a
// raw map (every top-level key kept verbatim, known or not); a failure to open
// the file other than "does not exist", and a failure to decode it, make the
// load fail — otherwise an unreadable or malformed file is taken for an empty
// one and replaced by the next save.
func c18R7(c *Ctx, fns []*ssa.Function) {
	const R7 = "C18.R7.load-keeps-the-document"
	c.Expect(R7, 2)
	n := 0
	for _, f := range fns {
		for _, op := range CallsTo(f, "os.Open", "os.OpenFile", "os.ReadFile") {
			n++
			fn := FnName(f)
			// (1) open error
			e := ErrOf(op)
			ok, why := false, "the error of opening the config file is discarded"
			errIdx := ErrResultIndex(f.Signature)
			if e != nil && errIdx >= 0 {
				al := Aliases(e)
				_, nonNil, ifs := NilTests(f, al)
				tol := toleratedEdges(f, al, []string{"io/fs.ErrNotExist", "os.ErrNotExist"})
				t, _, _ := CallTests(f, "os.IsNotExist", func(call *ssa.Call) bool { return al[call.Call.Args[0]] })
				cutT := newCut().Edges(tol...).Edges(t...).Instr(op.(ssa.Instruction))
				ok, why = len(ifs) > 0, "the error of opening the config file is never tested"
				for _, a := range RetAtoms(f, errIdx) {
					if len(ifs) == 0 && (al[a.Val] || al[strip(a.Val)]) {
						ok = true // returned as is
					}
				}
				for _, ne := range nonNil {
					if bad := findNilReturnFrom(f, ne, errIdx, cutT, al); bad != nil {
						ok, why = false, "an error of opening the config file other than \"does not exist\" (permission, I/O, …) is taken for a missing file: the load succeeds with an empty document and the next Put or Delete replaces the real file with it"
					}
				}
			}
			c.Check(R7, fn+"|open-error-surfaces-unless-missing", op.Pos(), ok, ifelse(ok, "only a missing file is tolerated; any other open error fails the load", why))
			// (2) the document decode
			f0 := ResultOf(op, 0)
			var dec ssa.CallInstruction
			var target ssa.Value
			if f0 != nil {
				src := map[ssa.Value]bool{f0: true}
				for _, d := range CallsTo(f, "(*encoding/json.Decoder).Decode") {
					if c11DerivesFrom(d.Common().Args[0], src) {
						dec, target = d, d.Common().Args[1]
					}
				}
				for _, d := range CallsTo(f, "encoding/json.Unmarshal") {
					if c11DerivesFrom(d.Common().Args[0], src) {
						dec, target = d, d.Common().Args[1]
					}
				}
			}
			var via ssa.CallInstruction
			if dec == nil && f0 != nil {
				// the decoding step may be a helper handed the opened file
				src := map[ssa.Value]bool{f0: true}
				for _, hc := range Calls(f, func(string) bool { return true }) {
					H := StaticCallee(hc)
					if H == nil || !inModule(H) || len(H.Blocks) == 0 || fnPkgPath(H) != fnPkgPath(f) {
						continue
					}
					args := hc.Common().Args
					for i, a := range args {
						if i >= len(H.Params) || !c11DerivesFrom(a, src) {
							continue
						}
						hsrc := map[ssa.Value]bool{H.Params[i]: true}
						for _, d := range CallsTo(H, "(*encoding/json.Decoder).Decode", "encoding/json.Unmarshal") {
							if c11DerivesFrom(d.Common().Args[0], hsrc) {
								dec, target, via = d, d.Common().Args[1], hc
							}
						}
					}
				}
			}
			if dec == nil {
				c.Violation(R7, fn+"|document-decoded-whole", op.Pos(), "the opened config file is not JSON-decoded in the function that opens it: cannot see that the document is read as a whole")
				continue
			}
			okT := false
			for _, r := range Roots(target) {
				if p, isP := r.Type().Underlying().(*types.Pointer); isP && c18IsRawMap(p.Elem()) {
					okT = true
				}
			}
			r := ErrFlow(dec, ErrFlowOpts{})
			if r.OK && via != nil {
				r = ErrFlow(via, ErrFlowOpts{})
			}
			okD := okT && r.OK
			c.Check(R7, fn+"|document-decoded-whole", dec.Pos(), okD, ifelse(okD, "the file is decoded into a map[string]json.RawMessage (every top-level key kept verbatim); a decode error fails the load",
				ifelse(!okT, "the config file is decoded into a typed value, not a raw map: top-level fields this library does not know are dropped at load and lost at the next save",
					"a failure to decode the config file is ignored ("+r.Detail+"): a malformed or truncated file is taken for an empty document and replaced by the next save")))
		}
	}
	if n == 0 {
		c.LostAnchor(R7, "the loader of the config package (os.Open / os.ReadFile in ~/"+c18CfgPkg+")")
	}
}

// ---------- R1 ----------

// c18PathVals: the values denoting Config.path (set by c18R1 before the per-site checks).
var c18PathVals map[ssa.Value]bool

// c18PropagateToParams extends set with the parameters of unexported, non-closure
// functions whose every call site (in fns) passes a value that denotes a member
// of set (fixpoint): a helper that is only ever handed X sees X in its parameter.
func c18PropagateToParams(fns []*ssa.Function, set map[ssa.Value]bool) {
	for round := 0; round < 4; round++ {
		changed := false
		for _, K := range fns {
			if K.Parent() != nil || (K.Object() != nil && K.Object().Exported() && !strings.Contains(fnPkgPath(K), "/internal/")) {
				continue
			}
			for i, prm := range K.Params {
				if set[prm] {
					continue
				}
				n, all := 0, true
				for _, f := range fns {
					for _, call := range Calls(f, func(string) bool { return true }) {
						if StaticCallee(call) != K || i >= len(call.Common().Args) {
							continue
						}
						n++
						rs := Roots(call.Common().Args[i])
						if len(rs) == 0 {
							all = false
						}
						for _, r := range rs {
							if !set[r] {
								all = false
							}
						}
					}
				}
				if n > 0 && all {
					set[prm] = true
					for a := range Aliases(prm) {
						set[a] = true
					}
					changed = true
				}
			}
		}
		if !changed {
			return
		}
	}
}

// c18DenotesAny: v may denote a member of set (value identity through phis,
// cells and variables captured by closures — not mere derivation).
func c18DenotesAny(v ssa.Value, set map[ssa.Value]bool, depth int) bool {
	if depth > 4 {
		return false
	}
	for _, r := range Roots(v) {
		if set[r] {
			return true
		}
		if ld, ok := r.(*ssa.UnOp); ok && ld.Op == token.MUL {
			if fv, ok := ld.X.(*ssa.FreeVar); ok {
				for _, b := range freeVarBindings(fv) {
					if a, ok := b.(*ssa.Alloc); ok {
						for _, st := range storesTo(a) {
							if c18DenotesAny(st.Val, set, depth+1) {
								return true
							}
						}
					}
				}
			}
		}
	}
	return false
}

func c18FileFrom(v ssa.Value, creates map[ssa.Value]bool) bool { return c11DerivesFrom(v, creates) }

func c18OwnerOnly(v ssa.Value) (bool, bool) {
	k, ok := constInt(v)
	if !ok {
		return false, false
	}
	return k&0o077 == 0, true
}

func c18R1(c *Ctx, fns []*ssa.Function) {
	const R1 = "C18.R1.atomic-replace"
	c.Expect(R1, 7) // effect-set, CreateTemp, Rename, Close, 2x error-surfaces, success-implies-content-written; chmod/mkdir/remove are permitted effects that may disappear
	inPkg := map[*ssa.Function]bool{}
	callers := map[*ssa.Function][]ssa.CallInstruction{}
	for _, f := range fns {
		inPkg[f] = true
	}
	for _, f := range fns {
		for _, call := range Calls(f, func(string) bool { return true }) {
			if g := StaticCallee(call); g != nil && inPkg[g] {
				callers[g] = append(callers[g], call)
			}
		}
	}
	// self-test of the zero-count part: the forbidden writers are members of the effect set and resolve in package os
	okSelf := fsMutators["os.WriteFile"] && fsMutators["os.Create"] && fsMutators["os.OpenFile"]
	if tp := c.P.TypesPkg("os"); tp == nil || tp.Scope().Lookup("WriteFile") == nil || tp.Scope().Lookup("Create") == nil || tp.Scope().Lookup("OpenFile") == nil {
		okSelf = false
	}
	c.Exists(R1, "effect-set|os.WriteFile,os.Create,os.OpenFile", token.NoPos, okSelf, "the in-place writers are part of the inventoried effect set and resolve in the loaded os package")

	// closed world for package os
	for _, f := range fns {
		for _, call := range Calls(f, func(n string) bool { return strings.HasPrefix(n, "os.") || strings.HasPrefix(n, "io/ioutil.") }) {
			nm := CalleeName(call)
			if fsMutators[nm] || c11ReadOnlyOS[nm] {
				continue
			}
			for _, a := range call.Common().Args {
				if b, ok := a.Type().Underlying().(*types.Basic); ok && b.Kind() == types.String {
					c.Undecided(R1, FnName(f)+"|"+nm, call.Pos(), "os function taking a path that is neither a known mutator nor known read-only; classify it")
					break
				}
			}
		}
	}

	sites := Inventory(fns, func(n string) bool { return fsMutators[n] })
	// creation sites and the ingest role
	creates := map[ssa.Value]bool{} // *os.File values of freshly created temp files
	var ingestFns []*ssa.Function
	for _, s := range sites {
		if s.Callee == "os.CreateTemp" || s.Callee == "io/ioutil.TempFile" {
			if v := ResultOf(s.Call, 0); v != nil {
				creates[v] = true
			}
			root := s.Fn
			for root.Parent() != nil {
				root = root.Parent()
			}
			dup := false
			for _, g := range ingestFns {
				if g == root {
					dup = true
				}
			}
			if !dup {
				ingestFns = append(ingestFns, root)
			}
		}
	}
	// helpers that are only ever handed the temp file: their parameter denotes the temp file too
	c18PropagateToParams(fns, creates)
	isIngest := func(g *ssa.Function) bool {
		for _, x := range ingestFns {
			if x == g {
				return true
			}
		}
		return false
	}
	// Config.path: loads of the field, and parameters of helpers that are only ever handed it
	pathVals := map[ssa.Value]bool{}
	for _, f := range fns {
		for v := range c11FieldReads(f, c18Cfg+"."+c18FPath) {
			pathVals[v] = true
		}
	}
	c18PropagateToParams(fns, pathVals)
	c18PathVals = pathVals
	pathLoads := func(f *ssa.Function) map[ssa.Value]bool { return pathVals }
	// temp-file names: (*os.File).Name() of a created file, and results of ingest calls
	tempNames := map[ssa.Value]bool{}
	for _, f := range fns {
		for _, call := range Calls(f, func(string) bool { return true }) {
			cv, ok := call.(*ssa.Call)
			if !ok {
				continue
			}
			if CalleeName(call) == "(*os.File).Name" && c18FileFrom(cv.Call.Args[0], creates) {
				tempNames[cv] = true
			}
			if g := StaticCallee(call); g != nil && isIngest(g) {
				if v := ResultOf(call, 0); v != nil {
					tempNames[v] = true
				}
			}
		}
	}
	readOnly := map[ssa.Value]bool{}
	for _, f := range fns {
		for _, call := range CallsTo(f, "os.Open") {
			if v := ResultOf(call, 0); v != nil {
				readOnly[v] = true
			}
		}
	}
	captured := map[*ssa.Function]bool{} // ingest function -> a Close of the temp file whose error is captured exists
	nCreate, nRename := 0, 0
	seen := map[string]int{}
	for _, s := range sites {
		key := FnName(s.Fn) + "|" + s.Callee
		seen[key]++
		if seen[key] > 1 {
			key = fmt.Sprintf("%s#%d", key, seen[key])
		}
		args := s.Call.Common().Args
		switch s.Callee {
		case "os.MkdirAll", "os.Mkdir":
			ok := c11DerivesFrom(args[0], pathLoads(s.Fn))
			c.Check(R1, key, s.Call.Pos(), ok, ifelse(ok, "creates the directory of Config.path", "creates a directory that is not derived from Config.path: effect outside the atomic-replace protocol"))
		case "os.CreateTemp", "io/ioutil.TempFile":
			nCreate++
			// the directory is the directory of the rename target
			ok, why := c18TempDirIsTargetDir(s, callers)
			c.Check(R1, key, s.Call.Pos(), ok, ifelse(ok, "exclusive temp file (0600 by os.CreateTemp's contract) created in filepath.Dir(Config.path): the rename stays inside one directory", why))
		case "os.Rename":
			nRename++
			c18Rename(c, R1, key, s, fns, isIngest)
		case "os.Remove":
			ok := (c11DerivesFrom(args[0], tempNames) || c18HelperArgIsTempName(args[0], fns, tempNames)) && !c18DenotesAny(args[0], pathVals, 0)
			c.Check(R1, key, s.Call.Pos(), ok, ifelse(ok, "removes the temp file only", "removes something other than the ingest temp file (the config file itself may be deleted)"))
		case "(*os.File).Chmod":
			own, known := c18OwnerOnly(args[1])
			ok := c18FileFrom(args[0], creates) && known && own
			c.Check(R1, key, s.Call.Pos(), ok, ifelse(ok, "chmod of the temp file to an owner-only mode", "chmod of a file that is not the fresh temp file, or to a mode with group/other bits: the secrets become readable by others"))
		case "(*os.File).Close":
			if c18FileFrom(args[0], readOnly) && !c18FileFrom(args[0], creates) {
				continue // closing a handle obtained with os.Open (read-only) is not a file-system effect
			}
			if rs := Roots(args[0]); len(rs) == 1 {
				if prm, isP := rs[0].(*ssa.Parameter); isP && prm.Parent().Parent() == nil && (creates[prm] || c18ParamAlwaysTempFile(args[0], fns, creates)) {
					continue // a closing helper that is only ever handed the temp file: judged below, at its call sites
				}
			}
			if !c18FileFrom(args[0], creates) {
				c.Violation(R1, key, s.Call.Pos(), "Close of a file that is not the ingest temp file: unclassified effect")
				continue
			}
			ok, why := c18CloseCaptured(s)
			root := s.Fn
			for root.Parent() != nil {
				root = root.Parent()
			}
			if !ok && s.Fn.Parent() == nil {
				// a Close whose error is dropped is harmless where the function fails anyway (clean-up after a failed write)
				failing := true
				if in, isInstr := s.Call.(ssa.Instruction); isInstr {
					for _, a := range c11SuccessAtoms(s.Fn) {
						ab, ai := a.anchor()
						if reach(in.Block(), instrIndex(in)+1, ab.Instrs[ai], nil) {
							failing = false
						}
					}
				}
				if _, isDefer := s.Call.(*ssa.Defer); !isDefer && failing {
					c.OK(R1, key, s.Call.Pos(), "Close on a path that can only fail: its error is subsumed by the error already being returned")
					continue
				}
			}
			if ok {
				captured[root] = true
			}
			c.Check(R1, key, s.Call.Pos(), ok, ifelse(ok, "a failing Close of the temp file turns the ingest into a failure (unless it already failed)", why))
		case "(*os.File).Write", "(*os.File).WriteString", "(*os.File).Sync":
			if !c18FileFrom(args[0], creates) {
				c.Violation(R1, key, s.Call.Pos(), "write to a file that is not the ingest temp file: in-place writer of the config")
				continue
			}
			r := ErrFlow(s.Call, ErrFlowOpts{})
			c.Check(R1, key, s.Call.Pos(), r.OK, "write to the temp file: "+r.How+r.Detail)
		default:
			c.Violation(R1, key, s.Call.Pos(), "unclassified effect: "+s.Callee+" is not part of the atomic-replace protocol (MkdirAll, CreateTemp in the target directory, write, Close, Rename onto Config.path, Remove of the temp file); "+
				"an in-place writer leaves a truncated or half-written config file when the process dies")
		}
	}
	// closing helpers (closeKeepingError-style): handed the temp file and a pointer to the error result
	for _, I := range ingestFns {
		for _, f := range append([]*ssa.Function{I}, Anons(I)...) {
			for _, call := range Calls(f, func(string) bool { return true }) {
				K := StaticCallee(call)
				if K == nil || K == I || K.Parent() != nil || !inModule(K) || len(K.Blocks) == 0 {
					continue
				}
				args := call.Common().Args
				for i, a := range args {
					if i >= len(K.Params) || !c18FileFrom(a, creates) {
						continue
					}
					var cl *ssa.Call
					AllInstrs(K, func(in ssa.Instruction) {
						cv, ok := in.(*ssa.Call)
						if !ok {
							return
						}
						if cv.Call.IsInvoke() && cv.Call.Method.Name() == "Close" && c11SameRoots(cv.Call.Value, K.Params[i]) {
							cl = cv
						}
						if CalleeName(cv) == "(*os.File).Close" && c11SameRoots(cv.Call.Args[0], K.Params[i]) {
							cl = cv
						}
					})
					if cl == nil {
						continue
					}
					key := FnName(I) + "|close-error-captured-via:" + FnName(K)
					// which argument is the pointer to the ingest's error result
					errIdx := ErrResultIndex(I.Signature)
					cells := map[ssa.Value]bool{}
					for _, r := range Returns(I) {
						if errIdx >= 0 {
							if al := cellOf(r.Results[errIdx]); al != nil {
								cells[al] = true
							}
						}
					}
					j := -1
					for k, b := range args {
						if cells[b] {
							j = k
						}
						if fv, isFV := b.(*ssa.FreeVar); isFV {
							for _, bnd := range freeVarBindings(fv) {
								if cells[bnd] {
									j = k
								}
							}
						}
					}
					if j < 0 || j >= len(K.Params) {
						c.Violation(R1, key, call.Pos(), "the temp file is closed by a helper that is not given the ingest's error result: a failed close (delayed write error) is lost and the incomplete file is renamed over the config")
						continue
					}
					ok, why := c18CloseIntoCell(K, cl, K.Params[j])
					if ok {
						in := call.(ssa.Instruction)
						atoms := c11SuccessAtoms(I)
						if f != I {
							ok, why = false, "the closing helper is called from a closure; shape not recognised"
						} else if !c11AllAtomsPass(atoms, func() *cut { return newCut().Instr(in) }) {
							ok, why = false, "a successful return of the ingest does not run the closing helper"
						}
					}
					if ok {
						captured[I] = true
					}
					c.Check(R1, key, call.Pos(), ok, ifelse(ok, "the helper closes the temp file and stores a failing Close into the ingest's error result unless an error is already pending; it runs on every successful return", why))
				}
			}
		}
		// closeFile := sync.OnceValue(tempFile.Close) (or the plain method value): a call of that function value is a Close
		for _, call := range Calls(I, func(string) bool { return true }) {
			cc := call.Common()
			if cc.IsInvoke() || StaticCallee(call) != nil || len(cc.Args) != 0 {
				continue
			}
			if _, isDefer := call.(*ssa.Defer); isDefer {
				continue
			}
			isClose := false
			for _, r := range Roots(cc.Value) {
				v := r
				if oc, ok := r.(*ssa.Call); ok && (CalleeName(oc) == "sync.OnceValue" || CalleeName(oc) == "sync.OnceValues") && len(oc.Call.Args) == 1 {
					rs := Roots(oc.Call.Args[0])
					if len(rs) != 1 {
						continue
					}
					v = rs[0]
				}
				if bm, ok := v.(*ssa.MakeClosure); ok && len(bm.Bindings) == 1 {
					g := bm.Fn.(*ssa.Function)
					if strings.HasPrefix(g.Synthetic, "bound method") && strings.HasPrefix(fnFullName(g), "(*os.File).Close") && c18FileFrom(bm.Bindings[0], creates) {
						isClose = true
					}
				}
			}
			if !isClose {
				continue
			}
			r := ErrFlow(call, ErrFlowOpts{})
			atoms := c11SuccessAtoms(I)
			in := call.(ssa.Instruction)
			ok := r.OK && c11AllAtomsPass(atoms, func() *cut { return newCut().Instr(in) })
			if ok {
				captured[I] = true
			}
			c.Check(R1, FnName(I)+"|close-error-captured-via:function-value", call.Pos(), ok, ifelse(ok, "the temp file is closed through a function value of its Close method; the error surfaces and every successful return lies behind it", "the Close error obtained through the function value does not surface on every path: "+r.Detail))
		}
		if !captured[I] {
			c.Violation(R1, FnName(I)+"|close-error-captured", I.Pos(), "the temp file is never closed with its error captured on the success path: a delayed write error reported by Close is lost and the incomplete file is renamed over the config")
		}
	}
	if nCreate == 0 {
		c.LostAnchor(R1, "creation of the ingest temp file (os.CreateTemp) in credentials/internal/{config,ioutil}")
	}
	if nRename == 0 {
		c.LostAnchor(R1, "os.Rename onto Config.path in credentials/internal/config")
	}
	// the ingest function: every error surfaces, success implies the content was written, Close is deferred/explicit on every success path.
	// Steps may be delegated to helpers that are handed the temp file.
	isCopy := func(nm string) bool {
		return nm == "io.Copy" || nm == "io.CopyBuffer" || nm == "io.CopyN" || nm == "(*os.File).Write" || nm == "(*os.File).WriteString" || nm == "io.WriteString" || nm == "(*os.File).ReadFrom"
	}
	for _, I := range ingestFns {
		in := FnName(I)
		hasWrite := func(f *ssa.Function) bool {
			for _, call := range Calls(f, isCopy) {
				if _, isDefer := call.(*ssa.Defer); !isDefer {
					return true
				}
			}
			return false
		}
		F, links := c11FindUnit(I, hasWrite, 2, map[*ssa.Function]bool{})
		scan := []*ssa.Function{I}
		// the write may be one step of a table of step closures run by a first-error loop: the sequence
		// "step1; step2; …" with early return — success of I then lies behind the "table exhausted" edge
		var stepLoop *c11StepLoop
		if F == nil {
			for _, sl := range c11StepLoops(I) {
				for _, st := range sl.Steps {
					var g *ssa.Function
					if mc, isMC := st.(*ssa.MakeClosure); isMC {
						g, _ = mc.Fn.(*ssa.Function)
					} else if fv, isFn := st.(*ssa.Function); isFn {
						g = fv
					}
					if g != nil && len(g.Blocks) > 0 && hasWrite(g) {
						sl := sl
						F, stepLoop = g, &sl
						scan = append(scan, g)
					}
				}
			}
		}
		for _, f := range fns {
			if f == I || f.Parent() != nil {
				continue
			}
			for _, prm := range f.Params {
				if creates[prm] {
					scan = append(scan, f)
					break
				}
			}
		}
		var writes []ssa.CallInstruction
		for _, f := range scan {
			for _, call := range Calls(f, func(string) bool { return true }) {
				if _, isDefer := call.(*ssa.Defer); isDefer {
					continue
				}
				nm := CalleeName(call)
				sig := call.Common().Signature()
				if sig == nil || ErrResultIndex(sig) < 0 {
					continue
				}
				// every content copy is examined, whatever its destination looks like
				touches := nm == "os.CreateTemp" || nm == "io/ioutil.TempFile" || nm == "io.Copy" || nm == "io.CopyBuffer" || nm == "io.CopyN" || nm == "io.WriteString"
				for _, a := range call.Common().Args {
					if c18FileFrom(a, creates) {
						touches = true
					}
				}
				if !touches {
					continue
				}
				if isCopy(nm) {
					if f == F {
						writes = append(writes, call)
					}
					c18WriterIsTempFile(c, R1, I, f, call, creates)
				}
				if v := call.Value(); v != nil && ErrNilStatus(v, 0) == NonNil {
					continue
				}
				if nm == "(*os.File).Close" || nm == "(io.Closer).Close" || nm == "os.Remove" {
					continue // Close is judged by the Close rules; Remove is best-effort clean-up (judged by the Remove rule)
				}
				r := ErrFlow(call, ErrFlowOpts{})
				c.Check(R1, in+"|error-surfaces:"+nm, call.Pos(), r.OK, ifelse(r.OK, r.How, "an error while preparing the temp file is swallowed, the incomplete file is then renamed over the config: "+r.Detail))
			}
		}
		ok := false
		if F != nil {
			atoms := c11SuccessAtoms(F)
			var wNil []Edge
			for _, w := range writes {
				if e := ErrOf(w); e != nil {
					ne, _, _ := NilTests(F, Aliases(e))
					wNil = append(wNil, ne...)
				}
			}
			ok = len(writes) > 0 && len(atoms) > 0 && len(wNil) > 0 && c11AllAtomsPass(atoms, func() *cut { return newCut().Edges(wNil...) }) && c11LinksPass(links)
			if ok && stepLoop != nil {
				ia := c11SuccessAtoms(I)
				ok = len(ia) > 0 && c11AllAtomsPass(ia, func() *cut { return newCut().Edges(stepLoop.Done) }) && ErrFlow(stepLoop.Call, ErrFlowOpts{}).OK
			}
		}
		c.Check(R1, in+"|success-implies-content-written", I.Pos(), ok,
			ifelse(ok, "every successful return lies behind the err==nil edge of the content copy", "the ingest can report success without having written the whole content"))
	}
}

// c18WriterIsTempFile: the destination of the content copy is the temp
// *os.File itself (or an io.MultiWriter containing it).  A buffering wrapper
// defers the real write(2) to its Flush/Close, whose error must then surface on
// every successful return; otherwise a short write leaves a truncated temp file
// that is renamed over the config while Put reports success.
func c18WriterIsTempFile(c *Ctx, R1 string, I, F *ssa.Function, cp ssa.CallInstruction, creates map[ssa.Value]bool) {
	key := FnName(I) + "|copy-destination-is-temp-file"
	dst := cp.Common().Args[0]
	var wrappers []*ssa.Call
	var unknown []string
	var visit func(v ssa.Value, depth int)
	visit = func(v ssa.Value, depth int) {
		for _, r := range Roots(v) {
			if creates[r] {
				continue
			}
			if ex, ok := r.(*ssa.Extract); ok && creates[ex] {
				continue
			}
			if ld, ok := r.(*ssa.UnOp); ok && ld.Op == token.MUL && depth <= 3 {
				// a variable of the enclosing function captured by a step / deferred literal: what the parent stored into it
				if fv, isFV := ld.X.(*ssa.FreeVar); isFV {
					n := 0
					for _, b := range freeVarBindings(fv) {
						if a, isA := b.(*ssa.Alloc); isA {
							for _, st := range storesTo(a) {
								n++
								visit(st.Val, depth+1)
							}
						}
					}
					if n > 0 {
						continue
					}
				}
			}
			call, isCall := r.(*ssa.Call)
			if !isCall || depth > 3 {
				unknown = append(unknown, describe(r))
				continue
			}
			switch CalleeName(call) {
			case "io.MultiWriter":
				var els []ssa.Value
				c11SliceElems(call.Call.Args[0], &els)
				for _, e := range els {
					visit(e, depth+1)
				}
			case "bufio.NewWriter", "bufio.NewWriterSize":
				wrappers = append(wrappers, call)
			default:
				unknown = append(unknown, "result of "+CalleeName(call))
			}
		}
	}
	visit(dst, 0)
	if len(unknown) > 0 {
		c.Undecided(R1, key, cp.Pos(), "the content is written through "+strings.Join(unknown, ", ")+", which wraps (or replaces) the temp file in a way the checker does not model: if it buffers, the error of the real write may be lost")
		return
	}
	atoms := c11SuccessAtoms(F)
	for _, w := range wrappers {
		var flushNil []Edge
		bad := ""
		n := 0
		for _, f := range append([]*ssa.Function{F}, Anons(F)...) {
			for _, fl := range CallsTo(f, "(*bufio.Writer).Flush") {
				if !c11DerivesFrom(fl.Common().Args[0], map[ssa.Value]bool{w: true}) {
					continue
				}
				n++
				if _, isDefer := fl.(*ssa.Defer); isDefer || f != F {
					bad = "the buffered writer is flushed in a defer / closure whose error is dropped"
					continue
				}
				if r := ErrFlow(fl, ErrFlowOpts{}); !r.OK {
					bad = "the error of Flush does not surface: " + r.Detail
					continue
				}
				if e := ErrOf(fl); e != nil {
					ne, _, _ := NilTests(F, Aliases(e))
					flushNil = append(flushNil, ne...)
				}
			}
		}
		ok := len(flushNil) > 0 && len(atoms) > 0 && c11AllAtomsPass(atoms, func() *cut { return newCut().Edges(flushNil...) })
		if !ok && bad == "" {
			bad = ifelse(n == 0, "the buffered writer is never flushed", "a successful return does not lie behind a successful Flush")
		}
		if !ok {
			c.Violation(R1, key, cp.Pos(), "the content is copied into a bufio.Writer around the temp file and "+bad+": the only real write happens in Flush, a failing/short write (ENOSPC, quota, EIO) "+
				"leaves a truncated temp file, the ingest reports success and the truncated file is renamed over the config")
			return
		}
	}
	c.OK(R1, key, cp.Pos(), ifelse(len(wrappers) == 0, "the copy writes to the temp *os.File itself: the write error is the copy's error", "buffered writer flushed with its error surfacing on every successful return"))
}

// c18TempDirIsTargetDir: the dir argument of the temp-file creation is (through
// the ingest function's parameter) filepath.Dir(<load of Config.path>).
func c18TempDirIsTargetDir(s EffectSite, callers map[*ssa.Function][]ssa.CallInstruction) (bool, string) {
	dir := s.Call.Common().Args[0]
	var check func(v ssa.Value, fn *ssa.Function, depth int) (bool, string)
	check = func(v ssa.Value, fn *ssa.Function, depth int) (bool, string) {
		for _, r := range Roots(v) {
			switch u := r.(type) {
			case *ssa.Call:
				if CalleeName(u) == "path/filepath.Dir" && c11DerivesFrom(u.Call.Args[0], c18PathVals) {
					continue
				}
				return false, "the temp file's directory is " + describe(u) + ", not filepath.Dir(Config.path): a rename across directories/file systems is not atomic"
			case *ssa.Parameter:
				if depth > 3 || fn.Parent() != nil {
					return false, "cannot resolve the temp directory"
				}
				idx := -1
				for i, q := range fn.Params {
					if q == u {
						idx = i
					}
				}
				cs := callers[fn]
				if len(cs) == 0 {
					return true, "" // not used by the config packages: nothing is written through it
				}
				for _, call := range cs {
					if ok, why := check(call.Common().Args[idx], call.Parent(), depth+1); !ok {
						return false, why
					}
				}
			default:
				if s, isStr := constString(r); isStr && s == "" {
					return false, "the temp file is created in the system temp directory, not next to the config file: the rename may cross file systems and is then not atomic"
				}
				return false, "the temp file's directory " + describe(r) + " is not filepath.Dir(Config.path)"
			}
		}
		return true, ""
	}
	return check(dir, s.Fn, 0)
}

func c18Rename(c *Ctx, R1, key string, s EffectSite, fns []*ssa.Function, isIngest func(*ssa.Function) bool) {
	args := s.Call.Common().Args
	pl := c18PathVals
	okNew := len(pl) > 0
	for _, r := range Roots(args[1]) {
		if !pl[r] {
			okNew = false
		}
	}
	// old name: result #0 of an ingest call, on its success edge
	var ing *ssa.Call
	okOld := true
	for _, r := range Roots(args[0]) {
		ex, isEx := r.(*ssa.Extract)
		var call *ssa.Call
		if isEx {
			call, _ = ex.Tuple.(*ssa.Call)
		}
		if call == nil || ex.Index != 0 || StaticCallee(call) == nil || !isIngest(StaticCallee(call)) {
			okOld = false
			continue
		}
		ing = call
	}
	why := ""
	ok := okNew && okOld && ing != nil
	if okNew && !ok {
		// the ingest inlined: the old name is Name() of a temp file created here; then the rename must lie behind
		// the successful creation, the successful content write and a successful explicit Close of that file
		if inl, w := c18InlineIngestBeforeRename(s); inl {
			r := ErrFlow(s.Call, ErrFlowOpts{})
			c.Check(R1, key, s.Call.Pos(), r.OK, ifelse(r.OK, "renames the temp file created, completely written and closed in this function onto Config.path; its error surfaces", "a failed rename is reported as success: "+r.Detail))
			return
		} else if w != "" {
			c.Violation(R1, key, s.Call.Pos(), w+" — the config file can be replaced by an incomplete file")
			return
		}
	}
	switch {
	case !okNew:
		why = "the rename target is not Config.path"
	case !okOld || ing == nil:
		why = "the renamed file is not the result of the ingest (temp file written completely and closed)"
	default:
		if d, w := c11SuccessDominates(ing, s.Call.(ssa.Instruction)); !d {
			ok, why = false, "the rename is reachable although the ingest failed: "+w
		}
	}
	if ok {
		r := ErrFlow(s.Call, ErrFlowOpts{})
		if !r.OK {
			ok, why = false, "a failed rename is reported as success: "+r.Detail
		}
	}
	c.Check(R1, key, s.Call.Pos(), ok, ifelse(ok, "renames the completely written, closed temp file onto Config.path, behind the success edge of the ingest; its error surfaces",
		why+" — the config file can be replaced by an incomplete file or the failure goes unnoticed"))
}

// c18InlineIngestBeforeRename: (true, "") when the renamed file is a temp file
// created in the same function and the rename is dominated by the success of
// CreateTemp, of every content write and of an explicit Close; (false, why)
// when it is such a temp file but an obligation fails; (false, "") otherwise.
func c18InlineIngestBeforeRename(s EffectSite) (bool, string) {
	fn := s.Fn
	at := s.Call.(ssa.Instruction)
	var file ssa.Value
	for _, r := range Roots(s.Call.Common().Args[0]) {
		nc, ok := r.(*ssa.Call)
		if !ok || CalleeName(nc) != "(*os.File).Name" {
			return false, ""
		}
		for _, fr := range Roots(nc.Call.Args[0]) {
			ex, ok := fr.(*ssa.Extract)
			if !ok {
				return false, ""
			}
			ct, ok := ex.Tuple.(*ssa.Call)
			if !ok || (CalleeName(ct) != "os.CreateTemp" && CalleeName(ct) != "io/ioutil.TempFile") || ct.Parent() != fn {
				return false, ""
			}
			file = ex
			if d, w := c11SuccessDominates(ct, at); !d {
				return false, "the rename is reachable although the temp file could not be created: " + w
			}
		}
	}
	if file == nil {
		return false, ""
	}
	fileSet := map[ssa.Value]bool{file: true}
	nWrites, nClose := 0, 0
	for _, call := range Calls(fn, func(string) bool { return true }) {
		cv, isCall := call.(*ssa.Call)
		if !isCall {
			continue
		}
		nm := CalleeName(call)
		switch nm {
		case "io.Copy", "io.CopyBuffer", "io.CopyN", "io.WriteString", "(*os.File).Write", "(*os.File).WriteString":
			if !c11DerivesFrom(cv.Call.Args[0], fileSet) {
				continue
			}
			nWrites++
			if d, _ := c11SuccessDominates(cv, at); !d {
				return false, "the rename is reachable although writing the content failed"
			}
		case "(*os.File).Close":
			if !c11DerivesFrom(cv.Call.Args[0], fileSet) || !Reachable(cv, at) {
				continue
			}
			if d, _ := c11SuccessDominates(cv, at); d {
				nClose++
			}
		}
	}
	if nWrites == 0 {
		return false, "the temp file is renamed without the content having been written to it in this function"
	}
	if nClose == 0 {
		return false, "the temp file is renamed before it was closed successfully (a delayed write error reported by Close comes too late)"
	}
	return true, ""
}

// c18CloseCaptured: the error of Close reaches the ingest's error result when
// no earlier error is pending.
func c18CloseCaptured(s EffectSite) (bool, string) {
	g := s.Fn
	if _, isDefer := s.Call.(*ssa.Defer); isDefer {
		return false, "the temp file is closed by a bare `defer f.Close()`: a failed close (delayed write error) is lost and the incomplete file is renamed over the config"
	}
	e := s.Call.Value()
	if e == nil {
		return false, "Close result unavailable"
	}
	if g.Parent() == nil {
		r := ErrFlow(s.Call, ErrFlowOpts{})
		return r.OK, "the error of Close is dropped: " + r.Detail
	}
	// closure: must be deferred (or called) by the parent; result cell captured by reference
	par := g.Parent()
	errIdx := ErrResultIndex(par.Signature)
	if errIdx < 0 {
		return false, "enclosing function has no error result"
	}
	cells := map[ssa.Value]bool{}
	for _, r := range Returns(par) {
		if a := cellOf(r.Results[errIdx]); a != nil {
			cells[a] = true
		}
	}
	var fv *ssa.FreeVar
	for _, x := range g.FreeVars {
		for _, b := range freeVarBindings(x) {
			if cells[b] {
				fv = x
			}
		}
	}
	if fv == nil {
		return false, "the closure closing the temp file does not capture the enclosing function's error result"
	}
	if ok, why := c18CloseIntoCell(g, e, fv); !ok {
		return false, why
	}
	// the closure runs on every successful return of the parent
	var runs []ssa.Instruction
	AllInstrs(par, func(in ssa.Instruction) {
		switch d := in.(type) {
		case *ssa.Defer:
			if mc, ok := d.Call.Value.(*ssa.MakeClosure); ok && mc.Fn == g {
				runs = append(runs, d)
			}
		case *ssa.Call:
			if mc, ok := d.Call.Value.(*ssa.MakeClosure); ok && mc.Fn == g {
				runs = append(runs, d)
			}
		}
	})
	atoms := c11SuccessAtoms(par)
	if len(runs) == 0 || !c11AllAtomsPass(atoms, func() *cut { return newCut().Instr(runs...) }) {
		return false, "a successful return of the ingest does not run the closing closure: the temp file may be renamed while still open / unflushed"
	}
	return true, ""
}

// c18CloseIntoCell: in g, whenever the Close result e is non-nil it is stored
// through cellPtr (a captured variable or a *error parameter), unless the cell
// already holds an error.  Accepts both `if e != nil && *p == nil { *p = e }`
// and `if *p == nil { *p = e }`.
func c18CloseIntoCell(g *ssa.Function, e ssa.Value, cellPtr ssa.Value) (bool, string) {
	aliases := Aliases(e)
	cutC := newCut()
	loads := map[ssa.Value]bool{}
	refs := cellPtr.Referrers()
	if refs == nil {
		return false, "the error cell is not used"
	}
	stored := false
	for _, ref := range *refs {
		switch u := ref.(type) {
		case *ssa.Store:
			if u.Addr == cellPtr && c11DerivesFrom(u.Val, aliases) {
				cutC.Instr(u)
				stored = true
			}
		case *ssa.UnOp:
			if u.Op == token.MUL {
				loads[u] = true
			}
		}
	}
	if !stored {
		return false, "the error of Close is never stored into the ingest's error result: a failed close is lost"
	}
	_, pending, _ := NilTests(g, loads)
	cutC.Edges(pending...)
	// start points: the non-nil edges of a test on e, or (untested e) the point right after the Close
	_, nonNil, _ := NilTests(g, aliases)
	if len(nonNil) > 0 {
		for _, ne := range nonNil {
			for _, r := range Returns(g) {
				if reach(ne.To, 0, r, cutC) {
					return false, "a failing Close does not always become the ingest's error (no store to the error result on some path, and no earlier error pending)"
				}
			}
		}
		return true, ""
	}
	in, ok := e.(ssa.Instruction)
	if !ok {
		return false, "Close result unavailable"
	}
	for _, r := range Returns(g) {
		if reach(in.Block(), instrIndex(in)+1, r, cutC) {
			return false, "the Close error is not stored on every path on which no earlier error is pending"
		}
	}
	return true, ""
}

// c18HelperArgIsTempName: v is a (string or *string) parameter of an unexported
// helper, and every call site passes the temp file's name (or the address of
// a variable that only ever holds that name or "").
func c18HelperArgIsTempName(v ssa.Value, fns []*ssa.Function, tempNames map[ssa.Value]bool) bool {
	rs := Roots(v)
	if len(rs) != 1 {
		return false
	}
	var prm *ssa.Parameter
	viaPtr := false
	switch u := rs[0].(type) {
	case *ssa.Parameter:
		prm = u
	case *ssa.UnOp:
		if p, ok := u.X.(*ssa.Parameter); ok && u.Op == token.MUL {
			prm, viaPtr = p, true
		}
	}
	if prm == nil || prm.Parent().Parent() != nil {
		return false
	}
	K := prm.Parent()
	idx := -1
	for i, q := range K.Params {
		if q == prm {
			idx = i
		}
	}
	n := 0
	for _, f := range fns {
		for _, call := range Calls(f, func(string) bool { return true }) {
			if StaticCallee(call) != K || idx < 0 || idx >= len(call.Common().Args) {
				continue
			}
			n++
			a := call.Common().Args[idx]
			if !viaPtr {
				if !c11DerivesFrom(a, tempNames) {
					return false
				}
				continue
			}
			cell, ok := a.(*ssa.Alloc)
			if !ok {
				return false
			}
			for _, st := range storesTo(cell) {
				if k, isStr := constString(st.Val); isStr && k == "" {
					continue
				}
				if !c11DerivesFrom(st.Val, tempNames) {
					return false
				}
			}
		}
	}
	return n > 0
}

// c18ParamAlwaysTempFile: v is a parameter of an unexported helper whose every
// call site in the packages passes the ingest temp file.
func c18ParamAlwaysTempFile(v ssa.Value, fns []*ssa.Function, creates map[ssa.Value]bool) bool {
	rs := Roots(v)
	if len(rs) != 1 {
		return false
	}
	prm, ok := rs[0].(*ssa.Parameter)
	if !ok || prm.Parent().Parent() != nil {
		return false
	}
	K := prm.Parent()
	idx := -1
	for i, q := range K.Params {
		if q == prm {
			idx = i
		}
	}
	n := 0
	for _, f := range fns {
		for _, call := range Calls(f, func(string) bool { return true }) {
			if StaticCallee(call) != K {
				continue
			}
			n++
			if idx < 0 || idx >= len(call.Common().Args) || !c18FileFrom(call.Common().Args[idx], creates) {
				return false
			}
		}
	}
	return n > 0
}

// ---------- R2 ----------

func c18R2(c *Ctx) {
	const R2 = "C18.R2.guarded-by"
	c.Expect(R2, 10)
	m := "(*" + c18Cfg + ")."
	exempt := map[string]string{
		"~/registry/remote/credentials/internal/config.Load": "the Config is under construction and not yet shared",
		m + "IsAuthConfigured":                               "advisory query, not among Get/Put/Delete; documented exception (DESIGN C18.R2)",
	}
	// a mutation written as a function literal and handed to a helper that locks, runs it and saves: the literal runs
	// with the write lock held (the lockset engine treats literals as functions of their own)
	fns := c11FuncsOfPkg(c.P, c18CfgPkg)
	for _, f := range fns {
		AllInstrs(f, func(in ssa.Instruction) {
			mc, ok := in.(*ssa.MakeClosure)
			if !ok || mc.Referrers() == nil {
				return
			}
			lit := mc.Fn.(*ssa.Function)
			for _, ref := range *mc.Referrers() {
				call, isCall := ref.(*ssa.Call)
				if !isCall {
					if _, dbg := ref.(*ssa.DebugRef); !dbg {
						return // the literal flows elsewhere too
					}
					continue
				}
				H := StaticCallee(call)
				if H == nil || len(H.Blocks) == 0 || H.Parent() != nil {
					return
				}
				idx := -1
				for i, a := range call.Call.Args {
					if a == ssa.Value(mc) {
						idx = i
					}
				}
				if idx < 0 || idx >= len(H.Params) {
					return
				}
				held := heldAt(H, heldSet{})
				n, all := 0, true
				for _, hc := range Calls(H, func(string) bool { return true }) {
					if hc.Common().Value != ssa.Value(H.Params[idx]) {
						continue
					}
					n++
					okW := false
					for path, mode := range held[hc.(ssa.Instruction)] {
						if strings.HasSuffix(path, "."+c18FLock) && mode >= modeW {
							okW = true
						}
					}
					if _, isDefer := hc.(*ssa.Defer); isDefer || !okW {
						all = false
					}
				}
				// the parameter is only called, never stored or passed on
				for _, pr := range *H.Params[idx].Referrers() {
					switch pr.(type) {
					case ssa.CallInstruction, *ssa.DebugRef:
					default:
						all = false
					}
				}
				if n > 0 && all {
					exempt[FnName(lit)] = "runs only inside " + FnName(H) + ", which invokes it with " + c18FLock + " held for writing"
				}
			}
		})
	}
	LockCheck(c, R2, []GuardSpec{{
		Type:   c18Cfg,
		Fields: []string{c18FContent, c18FAuths, c18FCreds},
		Lock:   c18FLock,
		Exempt: exempt,
	}}, []string{c18CfgPkg})
	c18ReplaceUnderWriteLock(c, R2)
}

// c18ReplaceUnderWriteLock: the replacement of the file (os.Rename onto
// Config.path) runs with Config.rwLock held for writing — in the function
// itself or in every caller chain — so that the order in which concurrent
// Put/Delete/SetCredentialsStore calls update the in-memory state is the order
// in which their files replace each other.  Releasing the lock between the
// update and the save lets an older document be renamed over a newer one.
func c18ReplaceUnderWriteLock(c *Ctx, R2 string) {
	fns := c11FuncsOfPkg(c.P, c18CfgPkg)
	callers := map[*ssa.Function][]ssa.CallInstruction{}
	for _, f := range fns {
		for _, call := range Calls(f, func(string) bool { return true }) {
			if g := StaticCallee(call); g != nil {
				callers[g] = append(callers[g], call)
			}
		}
	}
	cache := map[*ssa.Function]map[ssa.Instruction]heldSet{}
	var holdsW func(f *ssa.Function, at ssa.Instruction, depth int, seen map[*ssa.Function]bool) (bool, string)
	holdsW = func(f *ssa.Function, at ssa.Instruction, depth int, seen map[*ssa.Function]bool) (bool, string) {
		if cache[f] == nil {
			cache[f] = heldAt(f, heldSet{})
		}
		for path, mode := range cache[f][at] {
			if strings.HasSuffix(path, "."+c18FLock) && mode >= modeW {
				return true, ""
			}
		}
		if depth > 4 || seen[f] {
			return false, "caller chain too deep"
		}
		if f.Parent() != nil {
			return false, FnName(f) + " is a closure; the lock is not held inside it"
		}
		if f.Object() != nil && f.Object().Exported() {
			return false, FnName(f) + " is exported and does not hold Config.rwLock for writing at " + c.P.Pos(at.Pos())
		}
		cs := callers[f]
		if len(cs) == 0 {
			return false, FnName(f) + " has no caller that could hold the lock"
		}
		seen[f] = true
		defer delete(seen, f)
		for _, call := range cs {
			if _, isGo := call.(*ssa.Go); isGo {
				return false, "called in a new goroutine"
			}
			if _, isDefer := call.(*ssa.Defer); isDefer {
				return false, "called deferred at " + c.P.Pos(call.Pos())
			}
			if ok, why := holdsW(call.Parent(), call.(ssa.Instruction), depth+1, seen); !ok {
				return false, "the call from " + FnName(call.Parent()) + " at " + c.P.Pos(call.Pos()) + " does not hold it (" + why + ")"
			}
		}
		return true, ""
	}
	n := 0
	for _, f := range fns {
		for _, rn := range CallsTo(f, "os.Rename", "os.WriteFile") {
			n++
			ok, why := holdsW(f, rn.(ssa.Instruction), 0, map[*ssa.Function]bool{})
			c.Check(R2, FnName(f)+"|file-replaced-under-write-lock", rn.Pos(), ok, ifelse(ok, "Config.rwLock is held for writing (locally or in every caller) when the config file is replaced",
				"the config file is replaced without Config.rwLock held for writing: "+why+" — two concurrent updates can marshal in one order and rename in the other, leaving the older document on disk although both calls returned nil"))
		}
	}
	if n == 0 {
		c.LostAnchor(R2, "replacement of the config file (os.Rename) in credentials/internal/config")
	}
}

// ---------- R3 ----------

func c18IsRawMap(t types.Type) bool {
	mp, ok := t.Underlying().(*types.Map)
	if !ok {
		return false
	}
	k, ok := mp.Key().Underlying().(*types.Basic)
	if !ok || k.Kind() != types.String {
		return false
	}
	n, ok := mp.Elem().(*types.Named)
	return ok && n.Obj().Pkg() != nil && n.Obj().Pkg().Path() == "encoding/json" && n.Obj().Name() == "RawMessage"
}

func c18MarshalOf(v ssa.Value, fn *ssa.Function, field string) bool {
	// v derives from result #0 of json.Marshal(x) / MarshalIndent(x, …) with x a load of Config.<field>
	loads := c11FieldReads(fn, c18Cfg+"."+field)
	ok := false
	for _, call := range CallsTo(fn, "encoding/json.Marshal", "encoding/json.MarshalIndent") {
		r0 := ResultOf(call, 0)
		if r0 == nil || !c11DerivesFrom(v, map[ssa.Value]bool{r0: true}) {
			continue
		}
		if c11DerivesFrom(call.Common().Args[0], loads) {
			ok = true
		}
	}
	return ok
}

func c18R3(c *Ctx, fns []*ssa.Function, fields map[string]types.Type) {
	const R3 = "C18.R3.preservation"
	c.Expect(R3, 9)
	for i, f := range []string{c18FContent, c18FAuths} {
		ok := c18IsRawMap(fields[f])
		c.Exists(R3, "type|Config."+[]string{"content", "authsCache"}[i], token.NoPos, ok, ifelse(ok, "map[string]json.RawMessage: entries that are not touched are carried verbatim, unknown fields included",
			"Config."+f+" is no longer map[string]json.RawMessage (it is "+fields[f].String()+"): unknown fields of the config file / of other registries' entries are dropped when the file is rewritten"))
	}
	for _, fn := range fns {
		tn := FnName(fn)
		content := c11FieldReads(fn, c18Cfg+"."+c18FContent)
		auths := c11FieldReads(fn, c18Cfg+"."+c18FAuths)
		keyOK := func(k ssa.Value, isContent bool) (bool, string) {
			if isContent {
				s, ok := constString(k)
				if ok && (s == "auths" || s == "credsStore") {
					return true, s
				}
				return false, describe(k)
			}
			rs := Roots(k)
			for _, r := range rs {
				if p, ok := r.(*ssa.Parameter); ok && p.Parent() == fn {
					continue
				}
				// the enclosing method's parameter, captured by a closure that performs the mutation
				captured := false
				if ld, ok := r.(*ssa.UnOp); ok && ld.Op == token.MUL {
					if fv, ok := ld.X.(*ssa.FreeVar); ok {
						captured = true
						for _, b := range freeVarBindings(fv) {
							a, isAlloc := b.(*ssa.Alloc)
							if !isAlloc {
								captured = false
								continue
							}
							for _, st := range storesTo(a) {
								if _, isParam := st.Val.(*ssa.Parameter); !isParam {
									captured = false
								}
							}
						}
					}
				}
				if !captured {
					return false, describe(k)
				}
			}
			return len(rs) > 0, "the caller's server address"
		}
		n := map[string]int{}
		AllInstrs(fn, func(in ssa.Instruction) {
			var mp, key, val ssa.Value
			op := ""
			switch u := in.(type) {
			case *ssa.MapUpdate:
				mp, key, val, op = u.Map, u.Key, u.Value, "store"
			case *ssa.Call:
				if CalleeName(u) == "builtin:delete" {
					mp, key, op = u.Call.Args[0], u.Call.Args[1], "delete"
				}
			case *ssa.Store:
				if fa, ok := u.Addr.(*ssa.FieldAddr); ok {
					fname := fieldName(fa.X.Type(), fa.Field)
					if (fname == c18Cfg+"."+c18FContent || fname == c18Cfg+"."+c18FAuths) && !c18FreshBase(fa.X, fns, 0) {
						c.Violation(R3, tn+"|replace:"+ifelse(fname == c18Cfg+"."+c18FContent, "content", "authsCache"), u.Pos(), "the whole map is replaced on a shared Config: every entry not rebuilt here is lost at the next save")
					}
				}
			}
			if op == "" {
				return
			}
			isContent, isAuths := content[mp], auths[mp]
			if !isContent && !isAuths {
				return
			}
			which := ifelse(isContent, "content", "authsCache")
			ok, what := keyOK(key, isContent)
			n[op+which]++
			label := what
			if !ok {
				label = "other-key" // never an SSA register name in an obligation key
				if n[op+which+"!"]++; n[op+which+"!"] > 1 {
					label = fmt.Sprintf("other-key#%d", n[op+which+"!"])
				}
			}
			k := fmt.Sprintf("%s|%s:%s[%s]", tn, op, which, label)
			detail := "only the entry at " + what + " is touched"
			if ok && op == "store" {
				src := ""
				switch {
				case isContent && what == "auths":
					src = c18FAuths
				case isContent && what == "credsStore":
					src = c18FCreds
				}
				if src != "" && !c18MarshalOf(val, fn, src) {
					ok, detail = false, "the value stored under "+what+" is not json.Marshal(Config."+src+")"
				}
				if isAuths {
					m := false
					for _, call := range CallsTo(fn, "encoding/json.Marshal") {
						if r0 := ResultOf(call, 0); r0 != nil && c11DerivesFrom(val, map[ssa.Value]bool{r0: true}) {
							m = true
						}
					}
					if !m {
						ok, detail = false, "the value stored is not the json.Marshal of the new entry"
					}
				}
			} else if !ok {
				detail = "a key other than " + ifelse(isContent, "the constants auths/credsStore", "the caller's server address") + " (" + what + ") is written/deleted: other entries of the config file are damaged"
			}
			c.Check(R3, k, in.Pos(), ok, detail)
		})
		// address of the maps handed out on a shared Config
		AllInstrs(fn, func(in ssa.Instruction) {
			fa, ok := in.(*ssa.FieldAddr)
			if !ok {
				return
			}
			fname := fieldName(fa.X.Type(), fa.Field)
			if fname != c18Cfg+"."+c18FContent && fname != c18Cfg+"."+c18FAuths {
				return
			}
			if c18FreshBase(fa.X, fns, 0) {
				return
			}
			for _, ref := range *fa.Referrers() {
				switch u := ref.(type) {
				case *ssa.UnOp, *ssa.DebugRef:
				case *ssa.Store:
					_ = u
				default:
					c.Undecided(R3, tn+"|address-taken:"+ifelse(fname == c18Cfg+"."+c18FContent, "content", "authsCache"), fa.Pos(), "the address of the map field of a shared Config escapes; writes through it cannot be tracked")
				}
			}
		})
	}
	c18R3SingleSource(c, R3, fns)
	c18PutImpliesSaved(c, fns)
	// what is ingested: MarshalIndent(content) taken after the auths refresh, behind its success edge
	found := false
	for _, fn := range fns {
		for _, call := range Calls(fn, func(string) bool { return true }) {
			g := StaticCallee(call)
			var reader ssa.Value
			switch nm := CalleeName(call); {
			case g != nil && inModule(g) && g != fn && len(CallsTo(g, "os.CreateTemp")) > 0:
				// the ingest helper: its reader argument
				for _, a := range call.Common().Args {
					if types.IsInterface(a.Type()) {
						reader = a
					}
				}
				if reader == nil {
					continue // not handed any content: merely a caller of the function that saves
				}
			case len(CallsTo(fn, "os.CreateTemp")) > 0 && (nm == "io.Copy" || nm == "io.CopyBuffer" || nm == "io.CopyN" || nm == "io.WriteString" || nm == "(*os.File).Write" || nm == "(*os.File).WriteString"):
				// the ingest inlined: the source of the content write
				reader = call.Common().Args[1]
			default:
				continue
			}
			found = true
			tn := FnName(fn)
			// where do the bytes come from: followed through wrappers (bytes.NewReader), parameters of helpers (to
			// their call sites) and results of helpers (to what they return), each hop behind the success edge
			var marshals []*ssa.Call
			chainOK := c18ResolveMarshal(fns, reader, call.(ssa.Instruction), 0, map[ssa.Value]bool{}, &marshals)
			if len(marshals) == 0 {
				c.Violation(R3, tn+"|ingested-bytes", call.Pos(), "the bytes written to the config file are not the JSON encoding of Config.content")
				continue
			}
			ok := chainOK
			for _, mi := range marshals {
				if !c11DerivesFrom(mi.Call.Args[0], c11FieldReads(mi.Parent(), c18Cfg+"."+c18FContent)) {
					ok = false
				}
			}
			c.Check(R3, tn+"|ingested-bytes", call.Pos(), ok, ifelse(ok, "the ingested bytes are json.MarshalIndent(Config.content), on its success edge", "the ingested bytes are not (a successful) json encoding of Config.content: keys this library does not know are lost"))
			// the auths / credsStore entries are refreshed before marshalling
			for _, mi := range marshals {
				mf := mi.Parent()
				for _, k := range []string{"auths", "credsStore"} {
					var upd []ssa.Instruction
					content := c11FieldReads(mf, c18Cfg+"."+c18FContent)
					AllInstrs(mf, func(in ssa.Instruction) {
						switch u := in.(type) {
						case *ssa.MapUpdate:
							if s, ok := constString(u.Key); ok && s == k && content[u.Map] {
								upd = append(upd, u)
							}
						case *ssa.Call:
							if CalleeName(u) == "builtin:delete" && content[u.Call.Args[0]] {
								if s, ok := constString(u.Call.Args[1]); ok && s == k {
									upd = append(upd, u)
								}
							}
						}
					})
					ok := len(upd) > 0 && MustPass(mi, newCut().Instr(upd...))
					c.Check(R3, tn+"|refreshed-before-marshal:"+k, mi.Pos(), ok, ifelse(ok, "content["+k+"] is rebuilt from the in-memory state on every path to the marshalling",
						"a path marshals Config.content without first refreshing content["+k+"]: a Put/Delete/SetCredentialsStore is acknowledged but not written"))
				}
			}
		}
	}
	if !found {
		c.LostAnchor(R3, "call of the ingest function from credentials/internal/config")
	}
}

// c18R3SingleSource: the credential a Get returns is decoded from an entry of the
// auths map read in that call.  A second container of entries (a memo in another
// field / global, a sync.Map) that Get reads from serves stale entries after a
// Put/Delete through another key form — unless every function that writes the
// auths map clears that container completely.  Only positively identified second
// containers are reported (unknown value shapes are not).
func c18R3SingleSource(c *Ctx, R3 string, fns []*ssa.Function) {
	for _, G := range fns {
		if G.Parent() != nil || G.Object() == nil || !G.Object().Exported() || G.Signature.Recv() == nil {
			continue
		}
		res := G.Signature.Results()
		returnsCred := false
		for i := 0; i < res.Len(); i++ {
			if n, ok := res.At(i).Type().(*types.Named); ok && n.Obj().Name() == "Credential" {
				returnsCred = true
			}
		}
		if !returnsCred || len(c11FieldReads(G, c18Cfg+"."+c18FAuths)) == 0 && !c11Reaches(G, "encoding/json.Unmarshal", 1) {
			continue
		}
		var bad []string
		var pos token.Pos
		n := 0
		for _, um := range CallsTo(G, "encoding/json.Unmarshal") {
			n++
			var leaves []ssa.Value
			c12ExpandValue(fns, um.Common().Args[0], 0, map[ssa.Value]bool{}, &leaves)
			for _, lf := range leaves {
				v := lf
				if ta, ok := v.(*ssa.TypeAssert); ok {
					v = ta.X
				}
				if ex, ok := v.(*ssa.Extract); ok {
					v = ex.Tuple
				}
				switch u := v.(type) {
				case *ssa.Lookup:
					if fld := fieldOfFuncValue(u.X); fld != "" && fld != c18Cfg+"."+c18FAuths && strings.HasPrefix(fld, c18Cfg+".") {
						bad, pos = append(bad, "map field "+fld), u.Pos()
					}
					if ld, ok := u.X.(*ssa.UnOp); ok {
						if g, isG := ld.X.(*ssa.Global); isG {
							bad, pos = append(bad, "package variable "+g.Name()), u.Pos()
						}
					}
				case *ssa.Call:
					if nm := CalleeName(u); nm == "(*sync.Map).Load" || nm == "(*sync.Map).LoadOrStore" || nm == "(*sync.Map).Swap" {
						what := "a sync.Map"
						if fa, ok := u.Call.Args[0].(*ssa.FieldAddr); ok {
							what = "sync.Map field " + fieldName(fa.X.Type(), fa.Field)
							// tolerated when every writer of the auths map clears it completely
							cleared := true
							for _, f := range fns {
								writes := false
								auths := c11FieldReads(f, c18Cfg+"."+c18FAuths)
								AllInstrs(f, func(in ssa.Instruction) {
									switch w := in.(type) {
									case *ssa.MapUpdate:
										if auths[w.Map] {
											writes = true
										}
									case *ssa.Call:
										if CalleeName(w) == "builtin:delete" && auths[w.Call.Args[0]] {
											writes = true
										}
									}
								})
								if !writes {
									continue
								}
								ok := false
								for _, cl := range CallsTo(f, "(*sync.Map).Clear") {
									if fa2, isFA := cl.Common().Args[0].(*ssa.FieldAddr); isFA && fa2.Field == fa.Field {
										ok = true
									}
								}
								if !ok {
									cleared = false
								}
							}
							if cleared {
								continue
							}
						}
						bad, pos = append(bad, what), u.Pos()
					}
				}
			}
		}
		if n == 0 {
			continue
		}
		ok := len(bad) == 0
		if pos == token.NoPos {
			pos = G.Pos()
		}
		c.Check(R3, FnName(G)+"|credentials-read-only-from-auths", pos, ok, ifelse(ok, "the entry decoded by Get is read from the auths map in the same call; no second container of entries is consulted",
			"Get also decodes entries taken from "+strings.Join(bad, ", ")+", a second container that Put/Delete do not clear completely: after a Put/Delete through another form of the key (\"https://host/\" vs host) Get keeps returning the overwritten / deleted credential"))
	}
}

// c18PutImpliesSaved: a Put / SetCredentialsStore that reports success has
// gone through the save of the file: the in-memory maps are not the file (a
// failed save leaves them ahead of it), so "nothing changed in memory" is no
// reason to skip the save.  Shapes: the method calls the saver itself on every
// successful path; or it hands a function literal to a helper that runs it and
// saves unless the literal reports "unchanged" — then the literal must never
// report (unchanged, nil).
func c18PutImpliesSaved(c *Ctx, fns []*ssa.Function) {
	const R1 = "C18.R1.atomic-replace"
	// a saver replaces the file on EVERY successful return (a helper that saves only "if changed" is not one)
	memo := map[*ssa.Function]int{}
	var savesAlways func(g *ssa.Function, depth int) bool
	savesAlways = func(g *ssa.Function, depth int) bool {
		if g == nil || len(g.Blocks) == 0 || fnPkgPath(g) != pkgPath(c18CfgPkg) || depth > 3 || ErrResultIndex(g.Signature) < 0 {
			return false
		}
		if v, ok := memo[g]; ok {
			return v == 1
		}
		memo[g] = 0
		var through []ssa.CallInstruction
		for _, call := range Calls(g, func(string) bool { return true }) {
			if _, isDefer := call.(*ssa.Defer); isDefer {
				continue
			}
			if CalleeName(call) == "os.Rename" || savesAlways(StaticCallee(call), depth+1) {
				through = append(through, call)
			}
		}
		atoms := c11SuccessAtoms(g)
		ok := len(through) > 0 && len(atoms) > 0 && c11AllAtomsPass(atoms, func() *cut { return newCut().Calls(through) })
		if ok {
			memo[g] = 1
		}
		return ok
	}
	isSaver := func(g *ssa.Function) bool { return savesAlways(g, 0) }
	for _, P := range fns {
		if P.Parent() != nil || P.Object() == nil || !P.Object().Exported() || P.Signature.Recv() == nil || ErrResultIndex(P.Signature) < 0 {
			continue
		}
		// a writer of the in-memory state: stores an entry into the auths map or assigns the creds-store field
		writes := false
		deletes := false
		absentVals := map[ssa.Value]bool{} // the comma-ok of a lookup in the auths map ("the entry exists")
		var absent []Edge
		for _, f := range append([]*ssa.Function{P}, Anons(P)...) {
			auths := c11FieldReads(f, c18Cfg+"."+c18FAuths)
			AllInstrs(f, func(in ssa.Instruction) {
				switch u := in.(type) {
				case *ssa.Call:
					if CalleeName(u) == "builtin:delete" && auths[u.Call.Args[0]] {
						deletes = true
					}
				case *ssa.Lookup:
					if u.CommaOk && auths[u.X] {
						for _, ref := range *u.Referrers() {
							if ex, ok := ref.(*ssa.Extract); ok && ex.Index == 1 {
								for a := range Aliases(ex) {
									absentVals[a] = true
								}
							}
						}
					}
				case *ssa.MapUpdate:
					if auths[u.Map] {
						writes = true
					}
				case *ssa.Store:
					if fa, ok := u.Addr.(*ssa.FieldAddr); ok && fieldName(fa.X.Type(), fa.Field) == c18Cfg+"."+c18FCreds {
						writes = true
					}
				}
			})
		}
		if !writes && !deletes {
			continue
		}
		if deletes && !writes {
			// a Delete may return nil without saving only where the entry was absent from the map
			_, absent = BoolTests(P, absentVals)
		}
		key := FnName(P) + "|success-implies-saved"
		atoms := c11SuccessAtoms(P)
		// (1) saves itself
		var saves []ssa.CallInstruction
		for _, call := range Calls(P, func(string) bool { return true }) {
			if _, isDefer := call.(*ssa.Defer); !isDefer && isSaver(StaticCallee(call)) {
				saves = append(saves, call)
			}
		}
		if len(saves) > 0 {
			ok := len(atoms) > 0 && c11AllAtomsPass(atoms, func() *cut { return newCut().Calls(saves).Edges(absent...) })
			c.Check(R1, key, P.Pos(), ok, ifelse(ok, "every successful return lies behind the call that saves the file"+ifelse(len(absent) > 0, " (or on the entry-absent edge of the lookup)", ""),
				"a path returns nil without saving the file: after an earlier failed save the in-memory entry is ahead of the file, so a Put that is skipped as \"unchanged\" reports success although nothing was written"))
			continue
		}
		// (2) update(mutate)-style helper
		decided := false
		for _, call := range Calls(P, func(string) bool { return true }) {
			H := StaticCallee(call)
			cv, isCall := call.(*ssa.Call)
			if H == nil || !isCall || len(H.Blocks) == 0 || fnPkgPath(H) != pkgPath(c18CfgPkg) {
				continue
			}
			for i, a := range cv.Call.Args {
				mc, isLit := a.(*ssa.MakeClosure)
				if !isLit || i >= len(H.Params) {
					continue
				}
				L := mc.Fn.(*ssa.Function)
				// in H: the literal is called; H saves unless it reported "unchanged" (a bool result)
				var hSaves []ssa.CallInstruction
				for _, hc := range Calls(H, func(string) bool { return true }) {
					if _, isDefer := hc.(*ssa.Defer); !isDefer && isSaver(StaticCallee(hc)) {
						hSaves = append(hSaves, hc)
					}
				}
				if len(hSaves) == 0 {
					continue
				}
				bIdx := -1
				for k := 0; k < L.Signature.Results().Len(); k++ {
					if b, ok := L.Signature.Results().At(k).Type().Underlying().(*types.Basic); ok && b.Kind() == types.Bool {
						bIdx = k
					}
				}
				var unchanged []Edge
				for _, hc := range Calls(H, func(string) bool { return true }) {
					if hc.Common().Value != ssa.Value(H.Params[i]) || bIdx < 0 {
						continue
					}
					if bv := ResultOf(hc, bIdx); bv != nil {
						_, fe := BoolTests(H, Aliases(bv))
						unchanged = append(unchanged, fe...)
					}
					// the mutation's own failure is not a success path either (`if err != nil || !changed { return err }`)
					if ev := ErrOf(hc); ev != nil {
						_, nn, _ := NilTests(H, Aliases(ev))
						unchanged = append(unchanged, nn...)
					}
				}
				hAtoms := c11SuccessAtoms(H)
				ok := len(atoms) > 0 && c11AllAtomsPass(atoms, func() *cut { return newCut().Instr(cv) }) &&
					len(hAtoms) > 0 && c11AllAtomsPass(hAtoms, func() *cut { return newCut().Calls(hSaves).Edges(unchanged...) })
				why := "a successful return is reachable without the save"
				// the literal never reports (unchanged, nil)
				eIdx := ErrResultIndex(L.Signature)
				for _, ret := range Returns(L) {
					if eIdx >= 0 && ErrNilStatus(ret.Results[eIdx], 0) == NonNil {
						continue
					}
					if eIdx >= 0 {
						// an error returned on the non-nil side of its own test
						if _, isConst := ret.Results[eIdx].(*ssa.Const); !isConst {
							_, nn, _ := NilTests(L, Aliases(ret.Results[eIdx]))
							if len(nn) > 0 && MustPass(ret, newCut().Edges(nn...)) {
								continue
							}
						}
					}
					if bIdx >= 0 {
						if deletes && !writes {
							// a Delete may report "unchanged" exactly when the entry was absent: the comma-ok of its lookup
							allAbsent := true
							for _, rt := range Roots(ret.Results[bIdx]) {
								if k, isConst := rt.(*ssa.Const); isConst && k.Value != nil && constant.BoolVal(k.Value) {
									continue
								}
								if !absentVals[rt] {
									allAbsent = false
								}
							}
							if allAbsent {
								continue
							}
							// … or the constant false returned on the entry-absent edge
							if _, abs := BoolTests(L, absentVals); len(abs) > 0 && MustPass(ret, newCut().Edges(abs...)) {
								continue
							}
						}
						if k, isConst := ret.Results[bIdx].(*ssa.Const); !isConst || k.Value == nil || !constant.BoolVal(k.Value) {
							ok, why = false, "the mutation can report \"unchanged\" with a nil error, so "+FnName(H)+" returns nil without saving"
						}
					}
				}
				decided = true
				c.Check(R1, key, P.Pos(), ok, ifelse(ok, "runs through "+FnName(H)+", which saves unless the mutation reports \"unchanged\"; the mutation always reports a change on success",
					why+": after an earlier failed save the in-memory entry is ahead of the file, so a Put that is skipped as \"unchanged\" reports success although nothing was written"))
			}
		}
		if !decided {
			c.Undecided(R1, key, P.Pos(), "this method updates the in-memory state but neither calls the saver itself nor hands a function literal to a helper that saves; shape not recognised")
		}
	}
}

// c18FreshBase: the Config is still under construction: a local new(Config), or
// the parameter of an unexported helper that every caller hands such an object
// (Load split into helper methods).
func c18FreshBase(v ssa.Value, fns []*ssa.Function, depth int) bool {
	if pathIsFresh(accessPath(v)) {
		return true
	}
	if depth > 2 {
		return false
	}
	rs := Roots(v)
	if len(rs) != 1 {
		return false
	}
	prm, ok := rs[0].(*ssa.Parameter)
	if !ok || prm.Parent().Parent() != nil || (prm.Parent().Object() != nil && prm.Parent().Object().Exported()) {
		return false
	}
	K := prm.Parent()
	idx := -1
	for i, q := range K.Params {
		if q == prm {
			idx = i
		}
	}
	n := 0
	for _, f := range fns {
		for _, call := range Calls(f, func(string) bool { return true }) {
			if StaticCallee(call) != K || idx < 0 || idx >= len(call.Common().Args) {
				continue
			}
			n++
			if !c18FreshBase(call.Common().Args[idx], fns, depth+1) {
				return false
			}
		}
	}
	return n > 0
}

// c18ResolveMarshal follows v (used at instruction use, in use's function) back
// to the json.Marshal / json.MarshalIndent call(s) that produced the bytes.
// Returns false when a hop is not behind the success edge of the call it crosses.
func c18ResolveMarshal(fns []*ssa.Function, v ssa.Value, use ssa.Instruction, depth int, seen map[ssa.Value]bool, out *[]*ssa.Call) bool {
	if v == nil || depth > 8 {
		return true
	}
	ok := true
	for _, r := range Roots(v) {
		if seen[r] {
			continue
		}
		seen[r] = true
		switch u := r.(type) {
		case *ssa.Extract:
			call, isCall := u.Tuple.(*ssa.Call)
			if !isCall {
				continue
			}
			nm := CalleeName(call)
			if nm == "encoding/json.MarshalIndent" || nm == "encoding/json.Marshal" {
				if u.Index == 0 {
					*out = append(*out, call)
					if d, _ := c11SuccessDominates(call, use); !d {
						ok = false
					}
				}
				continue
			}
			if H := StaticCallee(call); H != nil && inModule(H) && len(H.Blocks) > 0 {
				if ErrResultIndex(H.Signature) >= 0 {
					if d, _ := c11SuccessDominates(call, use); !d {
						ok = false
					}
				}
				for _, a := range c11SuccessAtoms(H) {
					if u.Index < len(a.Ret.Results) && !c18ResolveMarshal(fns, a.Ret.Results[u.Index], a.Ret, depth+1, seen, out) {
						ok = false
					}
				}
				continue
			}
			for _, a := range call.Call.Args {
				if !c18ResolveMarshal(fns, a, use, depth+1, seen, out) {
					ok = false
				}
			}
		case *ssa.Call:
			if H := StaticCallee(u); H != nil && inModule(H) && len(H.Blocks) > 0 && H.Signature.Results().Len() == 1 {
				for _, ret := range Returns(H) {
					if !c18ResolveMarshal(fns, ret.Results[0], ret, depth+1, seen, out) {
						ok = false
					}
				}
				continue
			}
			for _, a := range u.Call.Args { // wrappers such as bytes.NewReader(b), string(b)
				if !c18ResolveMarshal(fns, a, use, depth+1, seen, out) {
					ok = false
				}
			}
		case *ssa.Parameter:
			f := u.Parent()
			idx := -1
			for i, q := range f.Params {
				if q == u {
					idx = i
				}
			}
			if f.Parent() != nil || idx < 0 {
				continue
			}
			for _, g := range fns {
				for _, cs := range Calls(g, func(string) bool { return true }) {
					if StaticCallee(cs) == f && idx < len(cs.Common().Args) {
						if !c18ResolveMarshal(fns, cs.Common().Args[idx], cs.(ssa.Instruction), depth+1, seen, out) {
							ok = false
						}
					}
				}
			}
		case *ssa.Slice:
			if !c18ResolveMarshal(fns, u.X, use, depth+1, seen, out) {
				ok = false
			}
		}
	}
	return ok
}

// ---------- R4 ----------

// c18R4CredsStoreCallers (mutation sweep, store.go|neg-cond|5 and |6): who may
// call the Config method that sets the credentials store (role: exported
// method storing its string parameter into the creds field and saving).  With
// an empty argument the save DELETES the "credsStore" key of the user's config
// file, so every caller outside the config package calls it only behind
// "argument is not empty", and the error of the save surfaces.
func c18R4CredsStoreCallers(c *Ctx, R4 string) {
	var setters []*ssa.Function
	for _, f := range c11FuncsOfPkg(c.P, c18CfgPkg) {
		if f.Parent() != nil || f.Signature.Recv() == nil || ErrResultIndex(f.Signature) < 0 {
			continue
		}
		AllInstrs(f, func(in ssa.Instruction) {
			st, ok := in.(*ssa.Store)
			if !ok {
				return
			}
			fa, ok := st.Addr.(*ssa.FieldAddr)
			if !ok || fieldName(fa.X.Type(), fa.Field) != c18Cfg+"."+c18FCreds {
				return
			}
			for _, r := range Roots(st.Val) {
				if prm, isP := r.(*ssa.Parameter); isP && prm.Parent() == f {
					setters = append(setters, f)
				}
			}
		})
	}
	sameObj := func(a, b ssa.Value) bool {
		if c11SameRoots(a, b) {
			return true
		}
		la, ok1 := a.(*ssa.UnOp)
		lb, ok2 := b.(*ssa.UnOp)
		if ok1 && ok2 && la.Op == token.MUL && lb.Op == token.MUL {
			fva, isA := la.X.(*ssa.FreeVar)
			fvb, isB := lb.X.(*ssa.FreeVar)
			return isA && isB && fva == fvb && !freeVarWritten(fva.Parent(), fva)
		}
		return false
	}
	same := func(a, b ssa.Value) bool {
		if c11SameLoc(a, b) {
			return true
		}
		ra, rb := Roots(a), Roots(b)
		if len(ra) != 1 || len(rb) != 1 {
			return false
		}
		la, ok1 := ra[0].(*ssa.UnOp)
		lb, ok2 := rb[0].(*ssa.UnOp)
		if !ok1 || !ok2 {
			return false
		}
		fa, ok1 := la.X.(*ssa.FieldAddr)
		fb, ok2 := lb.X.(*ssa.FieldAddr)
		if !ok1 || !ok2 || fa.Field != fb.Field || !sameObj(fa.X, fb.X) {
			return false
		}
		written := false
		AllInstrs(la.Parent(), func(in ssa.Instruction) {
			if st, ok := in.(*ssa.Store); ok {
				if f, ok := st.Addr.(*ssa.FieldAddr); ok && f.Field == fa.Field && sameObj(f.X, fa.X) {
					written = true
				}
			}
		})
		return !written
	}
	for _, S := range setters {
		for f := range c.P.All {
			if !inModule(f) || len(f.Blocks) == 0 || fnPkgPath(f) == pkgPath(c18CfgPkg) || strings.HasSuffix(fnPkgPath(f), "_test") {
				continue
			}
			for _, call := range Calls(f, func(string) bool { return true }) {
				if StaticCallee(call) != S {
					continue
				}
				args := call.Common().Args
				arg := args[len(args)-1]
				okArg := false
				if k, isK := constString(arg); isK && k != "" {
					okArg = true
				}
				var nonEmpty []Edge
				for _, i := range Ifs(f) {
					cond, t, fe := ifEdges(i)
					b, ok := cond.(*ssa.BinOp)
					if !ok || (b.Op != token.EQL && b.Op != token.NEQ) {
						continue
					}
					for _, pair := range [][2]ssa.Value{{b.X, b.Y}, {b.Y, b.X}} {
						if k, isK := constString(pair[1]); isK && k == "" && same(pair[0], arg) {
							if b.Op == token.NEQ {
								nonEmpty = append(nonEmpty, t)
							} else {
								nonEmpty = append(nonEmpty, fe)
							}
						}
					}
				}
				if len(nonEmpty) > 0 && MustPass(call.(ssa.Instruction), newCut().Edges(nonEmpty...)) {
					okArg = true
				}
				key := FnName(f) + "|" + S.Name()
				c.Check(R4, key+"|only-with-non-empty-store", call.Pos(), okArg, ifelse(okArg, "called only behind \"the value is not empty\"",
					"the credentials store is set without a dominating non-empty test of the value: with an empty value the save deletes the \"credsStore\" key of the user's config file"))
				r := ErrFlow(call, ErrFlowOpts{})
				c.Check(R4, key+"|save-error-surfaces", call.Pos(), r.OK, ifelse(r.OK, r.How, "a failure to save the credentials store into the config file is swallowed (or success is turned into an error): "+r.Detail))
			}
		}
	}
}

func c18R4(c *Ctx) {
	const R4 = "C18.R4.format-guard"
	c.Expect(R4, 5)
	c18Forwarding(c, R4)
	c18R4CredsStoreCallers(c, R4)
	if c.P.Fn("registry/remote/credentials", "FileStore.Put") == nil {
		c.LostAnchor(R4, "(*~/registry/remote/credentials.FileStore).Put")
		return
	}
	// who may call Config.PutCredential: every caller in the module outside the config package, whatever
	// store type it belongs to, refuses when plaintext puts are disabled and validates the credential first
	var callers []*ssa.Function
	for f := range c.P.All {
		if !inModule(f) || len(f.Blocks) == 0 || fnPkgPath(f) == pkgPath(c18CfgPkg) {
			continue
		}
		if len(CallsTo(f, "(*"+c18Cfg+").PutCredential")) > 0 {
			callers = append(callers, f)
		}
	}
	sort.Slice(callers, func(i, j int) bool { return FnName(callers[i]) < FnName(callers[j]) })
	if len(callers) == 0 {
		c.LostAnchor(R4, "a call of Config.PutCredential outside the config package")
		return
	}
	for _, put := range callers {
		pn := FnName(put)
		puts := CallsTo(put, "(*"+c18Cfg+").PutCredential")
		// refusal: the !DisablePut edge of a FileStore, or the AllowPlaintextPut edge of the store options
		_, disF := BoolTests(put, c11FieldReads(put, "~/registry/remote/credentials.FileStore.DisablePut"))
		allowT, _ := BoolTests(put, c11FieldReads(put, "~/registry/remote/credentials.StoreOptions.AllowPlaintextPut"))
		allowed := append(append([]Edge{}, disF...), allowT...)
		for i, p := range puts {
			sfx := ""
			if i > 0 {
				sfx = fmt.Sprintf("#%d", i+1)
			}
			// the validator: a callee handed the very credential that is put, whose body looks for ':' in Username
			credArg := p.Common().Args[len(p.Common().Args)-1]
			var valNil []Edge
			for _, call := range Calls(put, func(string) bool { return true }) {
				g := StaticCallee(call)
				if g == nil || !inModule(g) || ErrResultIndex(g.Signature) < 0 {
					continue
				}
				looks := false
				for _, t := range Calls(g, func(n string) bool {
					return n == "strings.ContainsRune" || n == "strings.Contains" || n == "strings.IndexByte" || n == "strings.IndexRune" || n == "strings.ContainsAny" || n == "strings.Index"
				}) {
					a := t.Common().Args
					colon := false
					if k, ok := constInt(a[1]); ok && k == ':' {
						colon = true
					}
					if s, ok := constString(a[1]); ok && s == ":" {
						colon = true
					}
					if colon && isFieldLoad(a[0], "Username") {
						looks = true
					}
				}
				if !looks {
					continue
				}
				same := false
				for _, a := range call.Common().Args {
					if c11SameLoc(a, credArg) {
						same = true
					}
				}
				if !same {
					continue
				}
				if e := ErrOf(call); e != nil {
					ne, _, _ := NilTests(put, Aliases(e))
					valNil = append(valNil, ne...)
				}
			}
			ok := len(allowed) > 0 && MustPass(p.(ssa.Instruction), newCut().Edges(allowed...))
			c.Check(R4, pn+"|DisablePut-checked"+sfx, p.Pos(), ok, ifelse(ok, "PutCredential is reached only on the plaintext-put-allowed edge (!DisablePut / AllowPlaintextPut)", "PutCredential is reachable although plaintext puts are disabled: plaintext credentials are written against the caller's wish"))
			ok = len(valNil) > 0 && MustPass(p.(ssa.Instruction), newCut().Edges(valNil...))
			c.Check(R4, pn+"|colon-rule-checked"+sfx, p.Pos(), ok, ifelse(ok, "PutCredential is reached only behind the successful username-colon validation of the credential it stores",
				"PutCredential is reachable without the username-colon validation of the credential it stores: base64(user:pass) is then split at the wrong colon and Get returns a different credential"))
		}
	}
}

// c18Forwarding: FileStore.Put / Delete / Get are pure forwarders: every
// nil-error return has passed the matching Config operation with the caller's
// own arguments, and no other mutating Config operation is reachable.
func c18Forwarding(c *Ctx, R4 string) {
	cfgM := "(*" + c18Cfg + ")."
	type fw struct {
		method, want string
		forbid       []string
	}
	for _, x := range []fw{
		{"Put", "PutCredential", []string{"DeleteCredential", "SetCredentialsStore"}},
		{"Delete", "DeleteCredential", []string{"PutCredential", "SetCredentialsStore"}},
		{"Get", "GetCredential", []string{"PutCredential", "DeleteCredential", "SetCredentialsStore"}},
	} {
		fn := c.P.Fn("registry/remote/credentials", "FileStore."+x.method)
		if fn == nil {
			c.LostAnchor(R4, "(*~/registry/remote/credentials.FileStore)."+x.method)
			continue
		}
		tn := FnName(fn)
		calls := CallsTo(fn, cfgM+x.want)
		atoms := c11SuccessAtoms(fn)
		ok := len(calls) > 0 && len(atoms) > 0 && c11AllAtomsPass(atoms, func() *cut { return newCut().Calls(calls) })
		why := ""
		if !ok {
			why = "a successful return of " + x.method + " is reachable without Config." + x.want
		}
		// the caller's own arguments, unchanged
		for _, call := range calls {
			for i, a := range call.Common().Args {
				if i == 0 {
					continue // the Config
				}
				rs := Roots(a)
				if len(rs) != 1 {
					ok, why = false, "an argument of Config."+x.want+" is not the caller's own argument"
					continue
				}
				if p, isP := rs[0].(*ssa.Parameter); !isP || p.Parent() != fn {
					ok, why = false, "an argument of Config."+x.want+" ("+describe(rs[0])+") is not the caller's own argument passed through unchanged"
				}
			}
		}
		for _, fb := range x.forbid {
			name := cfgM + fb
			if reachesCall(fn, 2, func(n string, _ ssa.CallInstruction) bool { return n == name }) {
				ok, why = false, x.method+" can reach Config."+fb
			}
		}
		c.Check(R4, tn+"|forwards-to-"+x.want, fn.Pos(), ok, ifelse(ok, "every successful return has passed Config."+x.want+" with the caller's own arguments; no other mutating Config operation is reachable",
			why+": the file after "+x.method+" is not what the sequential model of Get/Put/Delete prescribes (e.g. Put of an empty credential must still leave an entry that shadows legacy URL keys)"))
	}
}

var c18Mutants = []Mutant{
	// R4 creds-store callers (mutation sweep survivors registry/remote/credentials/store.go|neg-cond|5 and |6; both keep the whole suite green)
	{Name: "creds-store-set-when-nothing-detected", File: "registry/remote/credentials/store.go",
		Old: "\t\tif ds.detectedCredsStore != \"\" {", New: "\t\tif !(ds.detectedCredsStore != \"\") {",
		Expect: "C18.R4.format-guard|(*~/registry/remote/credentials.DynamicStore).Put$1|SetCredentialsStore|only-with-non-empty-store"},
	{Name: "creds-store-save-error-inverted", File: "registry/remote/credentials/store.go",
		Old: "\t\t\tif err := ds.config.SetCredentialsStore(ds.detectedCredsStore); err != nil {", New: "\t\t\tif err := ds.config.SetCredentialsStore(ds.detectedCredsStore); !(err != nil) {",
		Expect: "C18.R4.format-guard|(*~/registry/remote/credentials.DynamicStore).Put$1|SetCredentialsStore|save-error-surfaces"},
	// R7 (the first keeps the repository's tests green)
	{Name: "open-error-taken-for-missing-file", File: "registry/remote/credentials/internal/config/config.go",
		Old: "\t\tif os.IsNotExist(err) {", New: "\t\tif err != nil {",
		Expect: "C18.R7.load-keeps-the-document|~/registry/remote/credentials/internal/config.Load|open-error-surfaces-unless-missing"},
	{Name: "document-decode-error-ignored", File: "registry/remote/credentials/internal/config/config.go",
		Old:    "\tif err := json.NewDecoder(configFile).Decode(&cfg.content); err != nil {\n\t\treturn nil, fmt.Errorf(\"failed to decode config file at %s: %w: %v\", configPath, ErrInvalidConfigFormat, err)\n\t}",
		New:    "\t_ = json.NewDecoder(configFile).Decode(&cfg.content)",
		Expect: "C18.R7.load-keeps-the-document|~/registry/remote/credentials/internal/config.Load|document-decoded-whole"},
	// R6
	{Name: "tokens-swapped-on-write", File: "registry/remote/credentials/internal/config/config.go",
		Old: "\t\tIdentityToken: cred.RefreshToken,\n\t\tRegistryToken: cred.AccessToken,", New: "\t\tIdentityToken: cred.AccessToken,\n\t\tRegistryToken: cred.RefreshToken,",
		Expect: "C18.R6.credential-fields-agree|AccessToken|read-back-from-where-it-is-written"},
	{Name: "decoded-pair-swapped", File: "registry/remote/credentials/internal/config/config.go",
		Old: "\t\tcred.Username, cred.Password, err = decodeAuth(ac.Auth)", New: "\t\tcred.Password, cred.Username, err = decodeAuth(ac.Auth)",
		Expect: "C18.R6.credential-fields-agree|Username,Password|encoded-pair-decoded-in-order"},
	// R1
	{Name: "write-config-in-place", File: "registry/remote/credentials/internal/config/config.go",
		Old:    "\t// overwrite the config file\n\tif err := os.Rename(ingest, cfg.path); err != nil {",
		New:    "\t// overwrite the config file\n\tif err := os.WriteFile(cfg.path, jsonBytes, 0600); err != nil {",
		Expect: "C18.R1.atomic-replace|(*~/registry/remote/credentials/internal/config.Config).saveFile|os.WriteFile"},
	{Name: "temp-file-in-system-tmp", File: "registry/remote/credentials/internal/config/config.go",
		Old:    "\tingest, err := ioutil.Ingest(configDir, bytes.NewReader(jsonBytes))",
		New:    "\tingest, err := ioutil.Ingest(\"\", bytes.NewReader(jsonBytes))",
		Expect: "C18.R1.atomic-replace|~/registry/remote/credentials/internal/ioutil.Ingest|os.CreateTemp"},
	{Name: "close-error-dropped", File: "registry/remote/credentials/internal/ioutil/ioutil.go",
		Old:    "\t\tif err := tempFile.Close(); err != nil && ingestErr == nil {\n\t\t\tingestErr = fmt.Errorf(\"failed to close ingest file: %w\", err)\n\t\t}\n",
		New:    "\t\ttempFile.Close()\n",
		Expect: "C18.R1.atomic-replace|~/registry/remote/credentials/internal/ioutil.Ingest$1|(*os.File).Close"},
	{Name: "temp-file-never-closed", File: "registry/remote/credentials/internal/ioutil/ioutil.go",
		Old:    "\t\tif err := tempFile.Close(); err != nil && ingestErr == nil {\n\t\t\tingestErr = fmt.Errorf(\"failed to close ingest file: %w\", err)\n\t\t}\n",
		New:    "",
		Expect: "C18.R1.atomic-replace|~/registry/remote/credentials/internal/ioutil.Ingest|close-error-captured"},
	{Name: "delete-skipped-for-empty-entry", File: "registry/remote/credentials/internal/config/config.go",
		Old:    "\tif _, ok := cfg.authsCache[serverAddress]; !ok {",
		New:    "\tif v, ok := cfg.authsCache[serverAddress]; !ok || len(v) == 0 {",
		Expect: "C18.R1.atomic-replace|(*~/registry/remote/credentials/internal/config.Config).DeleteCredential|success-implies-saved"},
	{Name: "put-skipped-when-cache-equal", File: "registry/remote/credentials/internal/config/config.go",
		Old:    "\tcfg.authsCache[serverAddress] = authCfgBytes\n\treturn cfg.saveFile()",
		New:    "\tif bytes.Equal(cfg.authsCache[serverAddress], authCfgBytes) {\n\t\treturn nil\n\t}\n\tcfg.authsCache[serverAddress] = authCfgBytes\n\treturn cfg.saveFile()",
		Expect: "C18.R1.atomic-replace|(*~/registry/remote/credentials/internal/config.Config).PutCredential|success-implies-saved"},
	{Name: "copy-error-swallowed", File: "registry/remote/credentials/internal/ioutil/ioutil.go",
		Old:    "\tif _, err := io.Copy(tempFile, content); err != nil {\n\t\treturn \"\", fmt.Errorf(\"failed to ingest: %w\", err)\n\t}\n",
		New:    "\tio.Copy(tempFile, content)\n",
		Expect: "C18.R1.atomic-replace|~/registry/remote/credentials/internal/ioutil.Ingest|"},
	{Name: "ingest-early-success-without-copy", File: "registry/remote/credentials/internal/ioutil/ioutil.go",
		Old:    "\tif _, err := io.Copy(tempFile, content); err != nil {",
		New:    "\tif content == nil {\n\t\treturn\n\t}\n\tif _, err := io.Copy(tempFile, content); err != nil {",
		Expect: "C18.R1.atomic-replace|~/registry/remote/credentials/internal/ioutil.Ingest|success-implies-content-written"},
	{Name: "ingest-error-ignored-before-rename", File: "registry/remote/credentials/internal/config/config.go",
		Old:    "\tingest, err := ioutil.Ingest(configDir, bytes.NewReader(jsonBytes))\n\tif err != nil {\n\t\treturn fmt.Errorf(\"failed to save config file: %w\", err)\n\t}\n",
		New:    "\tingest, _ := ioutil.Ingest(configDir, bytes.NewReader(jsonBytes))\n",
		Expect: "C18.R1.atomic-replace|(*~/registry/remote/credentials/internal/config.Config).saveFile|os.Rename"},
	{Name: "world-readable-temp-file", File: "registry/remote/credentials/internal/ioutil/ioutil.go",
		Old: "tempFile.Chmod(0600)", New: "tempFile.Chmod(0644)",
		Expect: "C18.R1.atomic-replace|~/registry/remote/credentials/internal/ioutil.Ingest|(*os.File).Chmod"},
	{Name: "cleanup-removes-config", File: "registry/remote/credentials/internal/config/config.go",
		Old:    "\t\t\tos.Remove(ingest)\n\t\t}\n\t}()\n\n\t// overwrite",
		New:    "\t\t\tos.Remove(ingest)\n\t\t\tos.Remove(cfg.path)\n\t\t}\n\t}()\n\n\t// overwrite",
		Expect: "C18.R1.atomic-replace|(*~/registry/remote/credentials/internal/config.Config).saveFile$1|os.Remove#2"},
	// R2
	{Name: "put-under-read-lock", File: "registry/remote/credentials/internal/config/config.go",
		Old:    "\tcfg.rwLock.Lock()\n\tdefer cfg.rwLock.Unlock()\n\n\tauthCfg := NewAuthConfig(cred)",
		New:    "\tcfg.rwLock.RLock()\n\tdefer cfg.rwLock.RUnlock()\n\n\tauthCfg := NewAuthConfig(cred)",
		Expect: "C18.R2.guarded-by"},
	{Name: "save-outside-critical-section", File: "registry/remote/credentials/internal/config/config.go",
		Old:    "\tcfg.rwLock.Lock()\n\tdefer cfg.rwLock.Unlock()\n\n\tcfg.credentialsStore = credsStore\n\treturn cfg.saveFile()",
		New:    "\tcfg.rwLock.Lock()\n\tcfg.credentialsStore = credsStore\n\tcfg.rwLock.Unlock()\n\tcfg.rwLock.RLock()\n\tdefer cfg.rwLock.RUnlock()\n\treturn cfg.saveFile()",
		Expect: "C18.R2.guarded-by|(*~/registry/remote/credentials/internal/config.Config).saveFile|file-replaced-under-write-lock"},
	{Name: "get-without-lock", File: "registry/remote/credentials/internal/config/config.go",
		Old:    "\tcfg.rwLock.RLock()\n\tdefer cfg.rwLock.RUnlock()\n\n\tauthCfgBytes, ok := cfg.authsCache[serverAddress]",
		New:    "\tauthCfgBytes, ok := cfg.authsCache[serverAddress]",
		Expect: "C18.R2.guarded-by|(*~/registry/remote/credentials/internal/config.Config).GetCredential"},
	{Name: "delete-unlocks-before-save", File: "registry/remote/credentials/internal/config/config.go",
		Old:    "\tdelete(cfg.authsCache, serverAddress)\n\treturn cfg.saveFile()",
		New:    "\tdelete(cfg.authsCache, serverAddress)\n\tcfg.rwLock.Unlock()\n\tdefer cfg.rwLock.Lock()\n\treturn cfg.saveFile()",
		Expect: "C18.R2.guarded-by|(*~/registry/remote/credentials/internal/config.Config).saveFile"},
	// R3
	{Name: "content-rebuilt-from-known-keys", File: "registry/remote/credentials/internal/config/config.go",
		Old:    "\tcfg.content[configFieldAuths] = authsBytes\n",
		New:    "\tcfg.content = map[string]json.RawMessage{configFieldAuths: authsBytes}\n",
		Expect: "C18.R3.preservation"},
	{Name: "delete-wrong-key", File: "registry/remote/credentials/internal/config/config.go",
		Old:    "\tdelete(cfg.authsCache, serverAddress)\n",
		New:    "\tdelete(cfg.authsCache, ToHostname(serverAddress))\n",
		Expect: "C18.R3.preservation|(*~/registry/remote/credentials/internal/config.Config).DeleteCredential"},
	{Name: "marshal-auths-only", File: "registry/remote/credentials/internal/config/config.go",
		Old:    "\tjsonBytes, err := json.MarshalIndent(cfg.content, \"\", \"\\t\")",
		New:    "\tjsonBytes, err := json.MarshalIndent(map[string]json.RawMessage{configFieldAuths: authsBytes}, \"\", \"\\t\")",
		Expect: "C18.R3.preservation|(*~/registry/remote/credentials/internal/config.Config).saveFile|ingested-bytes"},
	{Name: "auths-refresh-skipped-when-empty", File: "registry/remote/credentials/internal/config/config.go",
		Old:    "\tcfg.content[configFieldAuths] = authsBytes\n",
		New:    "\tif len(cfg.authsCache) > 0 {\n\t\tcfg.content[configFieldAuths] = authsBytes\n\t}\n",
		Expect: "C18.R3.preservation|(*~/registry/remote/credentials/internal/config.Config).saveFile|refreshed-before-marshal:auths"},
	{Name: "copy-through-deferred-flush", File: "registry/remote/credentials/internal/ioutil/ioutil.go",
		Old:    "import (\n\t\"fmt\"\n\t\"io\"\n\t\"os\"\n)\n\n// Ingest writes content into a temporary ingest file with the file name format\n// \"oras_credstore_temp_{randomString}\".\nfunc Ingest(dir string, content io.Reader) (path string, ingestErr error) {\n\ttempFile, err := os.CreateTemp(dir, \"oras_credstore_temp_*\")\n\tif err != nil {\n\t\treturn \"\", fmt.Errorf(\"failed to create ingest file: %w\", err)\n\t}\n\tpath = tempFile.Name()\n\tdefer func() {\n\t\tif err := tempFile.Close(); err != nil && ingestErr == nil {\n\t\t\tingestErr = fmt.Errorf(\"failed to close ingest file: %w\", err)\n\t\t}\n\t\t// remove the temp file in case of error.\n\t\tif ingestErr != nil {\n\t\t\tos.Remove(path)\n\t\t}\n\t}()\n\n\tif err := tempFile.Chmod(0600); err != nil {\n\t\treturn \"\", fmt.Errorf(\"failed to ensure permission: %w\", err)\n\t}\n\tif _, err := io.Copy(tempFile, content); err != nil {",
		New:    "import (\n\t\"bufio\"\n\t\"fmt\"\n\t\"io\"\n\t\"os\"\n)\n\n// Ingest writes content into a temporary ingest file with the file name format\n// \"oras_credstore_temp_{randomString}\".\nfunc Ingest(dir string, content io.Reader) (path string, ingestErr error) {\n\ttempFile, err := os.CreateTemp(dir, \"oras_credstore_temp_*\")\n\tif err != nil {\n\t\treturn \"\", fmt.Errorf(\"failed to create ingest file: %w\", err)\n\t}\n\tpath = tempFile.Name()\n\tdefer func() {\n\t\tif err := tempFile.Close(); err != nil && ingestErr == nil {\n\t\t\tingestErr = fmt.Errorf(\"failed to close ingest file: %w\", err)\n\t\t}\n\t\t// remove the temp file in case of error.\n\t\tif ingestErr != nil {\n\t\t\tos.Remove(path)\n\t\t}\n\t}()\n\n\tif err := tempFile.Chmod(0600); err != nil {\n\t\treturn \"\", fmt.Errorf(\"failed to ensure permission: %w\", err)\n\t}\n\tw := bufio.NewWriter(tempFile)\n\tdefer w.Flush()\n\tif _, err := io.Copy(w, content); err != nil {",
		Expect: "C18.R1.atomic-replace|~/registry/remote/credentials/internal/ioutil.Ingest|copy-destination-is-temp-file"},
	{Name: "copy-through-anonymous-wrapper", File: "registry/remote/credentials/internal/ioutil/ioutil.go",
		Old: "\tif _, err := io.Copy(tempFile, content); err != nil {", New: "\tif _, err := io.Copy(struct{ io.Writer }{tempFile}, content); err != nil {",
		Expect: "C18.R1.atomic-replace|~/registry/remote/credentials/internal/ioutil.Ingest|copy-destination-is-temp-file"},
	{Name: "legacy-key-memo", File: "registry/remote/credentials/internal/config/config.go",
		Old:    "func (cfg *Config) GetCredential(serverAddress string) (auth.Credential, error) {\n\tcfg.rwLock.RLock()\n\tdefer cfg.rwLock.RUnlock()\n\n\tauthCfgBytes, ok := cfg.authsCache[serverAddress]\n",
		New:    "var legacyMemo sync.Map\n\nfunc (cfg *Config) GetCredential(serverAddress string) (auth.Credential, error) {\n\tcfg.rwLock.RLock()\n\tdefer cfg.rwLock.RUnlock()\n\n\tauthCfgBytes, ok := cfg.authsCache[serverAddress]\n\tif cached, hit := legacyMemo.Load(serverAddress); !ok && hit {\n\t\tauthCfgBytes, ok = cached.(json.RawMessage), true\n\t}\n",
		Expect: "C18.R3.preservation|(*~/registry/remote/credentials/internal/config.Config).GetCredential|credentials-read-only-from-auths"},
	// R5
	{Name: "decoder-url-alphabet", File: "registry/remote/credentials/internal/config/config.go",
		Old: "base64.StdEncoding.DecodeString(authStr)", New: "base64.URLEncoding.DecodeString(authStr)",
		Expect: "C18.R5.auth-encoding-agrees|~/registry/remote/credentials/internal/config.decodeAuth|DecodeString"},
	{Name: "encoder-without-padding", File: "registry/remote/credentials/internal/config/config.go",
		Old: "base64.StdEncoding.EncodeToString(", New: "base64.RawStdEncoding.EncodeToString(",
		Expect: "C18.R5.auth-encoding-agrees|~/registry/remote/credentials/internal/config.encodeAuth|EncodeToString"},
	// R4
	{Name: "put-empty-credential-deletes", File: "registry/remote/credentials/file_store.go",
		Old: "\n\treturn fs.config.PutCredential(serverAddress, cred)", New: "\tif cred == auth.EmptyCredential {\n\t\treturn fs.config.DeleteCredential(serverAddress)\n\t}\n\treturn fs.config.PutCredential(serverAddress, cred)",
		Expect: "C18.R4.format-guard|(*~/registry/remote/credentials.FileStore).Put|forwards-to-PutCredential"},
	{Name: "delete-normalises-address", File: "registry/remote/credentials/file_store.go",
		Old: "\treturn fs.config.DeleteCredential(serverAddress)", New: "\treturn fs.config.DeleteCredential(strings.ToLower(serverAddress))",
		Expect: "C18.R4.format-guard|(*~/registry/remote/credentials.FileStore).Delete|forwards-to-DeleteCredential"},
	{Name: "dynamic-store-puts-directly", File: "registry/remote/credentials/store.go",
		Old:    "\tif err := ds.getStore(serverAddress).Put(ctx, serverAddress, cred); err != nil {\n\t\treturn err\n\t}\n",
		New:    "\tif ds.getHelperSuffix(serverAddress) != \"\" || !ds.options.AllowPlaintextPut {\n\t\tif err := ds.getStore(serverAddress).Put(ctx, serverAddress, cred); err != nil {\n\t\t\treturn err\n\t\t}\n\t} else if err := ds.config.PutCredential(serverAddress, cred); err != nil {\n\t\treturn err\n\t}\n",
		Expect: "C18.R4.format-guard|(*~/registry/remote/credentials.DynamicStore).Put|colon-rule-checked"},
	{Name: "validator-applied-to-other-credential", File: "registry/remote/credentials/file_store.go",
		Old: "\tif err := validateCredentialFormat(cred); err != nil {", New: "\tif err := validateCredentialFormat(auth.EmptyCredential); err != nil {",
		Expect: "C18.R4.format-guard|(*~/registry/remote/credentials.FileStore).Put|colon-rule-checked"},
	{Name: "colon-check-dropped", File: "registry/remote/credentials/file_store.go",
		Old:    "\tif err := validateCredentialFormat(cred); err != nil {\n\t\treturn err\n\t}\n",
		New:    "\t_ = validateCredentialFormat\n",
		Expect: "C18.R4.format-guard|(*~/registry/remote/credentials.FileStore).Put|colon-rule-checked"},
	{Name: "disable-put-ignored", File: "registry/remote/credentials/file_store.go",
		Old:    "\tif fs.DisablePut {\n\t\treturn ErrPlaintextPutDisabled\n\t}\n",
		New:    "",
		Expect: "C18.R4.format-guard|(*~/registry/remote/credentials.FileStore).Put|DisablePut-checked"},
}
