package main

// Coverage-review additions for C13 / C15 (option agreement, clone
// exhaustiveness, HEAD/GET agreement of the descriptor generator, Exists).

import (
	"fmt"
	"go/token"
	"go/types"
	"strings"

	"golang.org/x/tools/go/ssa"
)

// c13IsOptionLoad: v is a load of the exported option field `name` of a
// Repository / RepositoryOptions (the Registry's template) value.
func c13IsOptionLoad(v ssa.Value, name string) bool {
	ld, ok := strip(v).(*ssa.UnOp)
	if !ok || ld.Op != token.MUL {
		return false
	}
	fa, ok := ld.X.(*ssa.FieldAddr)
	if !ok || c13FieldNameOf(fa.X.Type(), fa.Field) != name {
		return false
	}
	return c13IsNamed(fa.X.Type(), c13PkgRemote, "Repository") || c13IsNamed(fa.X.Type(), c13PkgRemote, "RepositoryOptions") || c13IsNamed(fa.X.Type(), c13PkgRemote, "Registry")
}

// c13ArgFromOption: every root of v is the option field, or a parameter of fn
// for which every caller in the package passes such a value (depth).
func c13ArgFromOption(p *Prog, fn *ssa.Function, v ssa.Value, name string, depth int) (bool, string) {
	for _, r := range Roots(v) {
		if c13IsOptionLoad(r, name) {
			continue
		}
		prm, isParam := strip(r).(*ssa.Parameter)
		if !isParam || depth <= 0 {
			return false, "the value " + describe(strip(r)) + " in " + FnName(fn) + " is not the " + name + " option"
		}
		idx := -1
		for i, q := range fn.Params {
			if q == prm {
				idx = i
			}
		}
		callers := 0
		for _, rel := range c15Pkgs {
			for _, g := range p.FuncsOfPkg(rel) {
				for _, call := range c13CallsToFn(g, fn) {
					callers++
					if ok, why := c13ArgFromOption(p, g, call.Common().Args[idx], name, depth-1); !ok {
						return false, why
					}
				}
			}
		}
		if callers == 0 {
			return false, "no caller found for the parameter of " + FnName(fn) + " that should carry the " + name + " option"
		}
	}
	return true, ""
}

func init() {
	c13CoverageHook = c13Coverage
	c15CoverageHook = c15Coverage
}

func c13Coverage(c *Ctx) {
	c13PlainHTTP(c)
	c13CloneCarriesOptions(c)
	c13GeneratorMethod(c)
	c13ExistsRule(c)
}

// ---- PlainHTTP reaches every URL ----

func c13PlainHTTP(c *Ctx) {
	const R = "C13.R4.scheme-option-reaches-url"
	c.Expect(R, 12)
	for _, f := range c.P.FuncsOfPkg(c13PkgRemote) {
		n := 0
		for _, ci := range Calls(f, func(string) bool { return true }) {
			call, isCall := ci.(*ssa.Call)
			if !isCall || call.Call.IsInvoke() {
				continue
			}
			sig := call.Call.Signature()
			if sig == nil || sig.Params().Len() < 2 || sig.Results().Len() != 1 || !types.Identical(sig.Params().At(0).Type(), types.Typ[types.Bool]) ||
				!c13IsNamed(sig.Params().At(1).Type(), "registry", "Reference") || !types.Identical(sig.Results().At(0).Type(), types.Typ[types.String]) {
				continue
			}
			n++
			key := fmt.Sprintf("%s|url-builder#%d", FnName(f), n)
			arg := call.Call.Args[0]
			if c13IsURLBuilder(f) {
				// a builder composing another builder passes its own flag on
				ok := len(f.Params) > 0 && Aliases(f.Params[0])[arg]
				c.Check(R, key, call.Pos(), ok, ifelse(ok, "the builder passes its own plainHTTP flag on", "a URL builder calls another with a scheme flag that is not its own parameter"))
				continue
			}
			ok, why := c13ArgFromOption(c.P, f, arg, "PlainHTTP", 2)
			c.Check(R, key, call.Pos(), ok, ifelse(ok, "the URL's scheme follows the PlainHTTP option of this repository / registry", "the URL is built with a scheme that ignores the PlainHTTP option: "+why))
		}
	}
}

// ---- clone() carries every exported option ----

func c13CloneCarriesOptions(c *Ctx) {
	const R = "C13.R3.options-carried-by-clone"
	c.Expect(R, 9)
	T := c.P.Named(c13PkgRemote, "Repository")
	if T == nil {
		c.LostAnchor(R, "~/registry/remote.Repository")
		return
	}
	st := T.Underlying().(*types.Struct)
	// the copier by role: method of *Repository without parameters returning *Repository
	var cloners []*ssa.Function
	for _, f := range c.P.FuncsOfPkg(c13PkgRemote) {
		if f.Parent() == nil && f.Signature.Recv() != nil && c13IsNamed(f.Signature.Recv().Type(), c13PkgRemote, "Repository") &&
			f.Signature.Params().Len() == 0 && f.Signature.Results().Len() == 1 && c13IsPtrTo(f.Signature.Results().At(0).Type(), c13PkgRemote, "Repository") {
			cloners = append(cloners, f)
		}
	}
	if len(cloners) != 1 {
		c.LostAnchor(R, fmt.Sprintf("the repository copier func (r *Repository)() *Repository (found %d)", len(cloners)))
		return
	}
	F := cloners[0]
	recv := Aliases(F.Params[0])
	// the returned object(s)
	var objs []ssa.Value
	for _, a := range RetAtoms(F, 0) {
		objs = append(objs, a.Val)
	}
	for i := 0; i < st.NumFields(); i++ {
		fld := st.Field(i)
		if !fld.Exported() {
			continue
		}
		ok := len(objs) > 0
		for _, obj := range objs {
			carried := false
			al := Aliases(obj)
			AllInstrs(F, func(in ssa.Instruction) {
				s, isStore := in.(*ssa.Store)
				if !isStore {
					return
				}
				fa, isFA := s.Addr.(*ssa.FieldAddr)
				if !isFA || !al[fa.X] || fa.Field != i {
					return
				}
				// the value derives from the same field of the receiver (directly or through a copy helper)
				var from func(v ssa.Value, d int) bool
				from = func(v ssa.Value, d int) bool {
					for _, r := range Roots(v) {
						r = strip(r)
						if ld, isLoad := r.(*ssa.UnOp); isLoad && ld.Op == token.MUL {
							if f2, ok := ld.X.(*ssa.FieldAddr); ok && f2.Field == i && recv[f2.X] {
								return true
							}
						}
						if call, isCall := r.(*ssa.Call); isCall && d > 0 {
							for _, a := range call.Call.Args {
								if from(a, d-1) {
									return true
								}
							}
						}
					}
					return false
				}
				if from(s.Val, 2) {
					carried = true
				}
			})
			if !carried {
				ok = false
			}
		}
		c.Check(R, FnName(F)+"|"+fld.Name(), F.Pos(), ok, ifelse(ok, "the copy made for derived repositories (Registry.Repository, mount fallback) carries this option", "the option "+fld.Name()+" is not carried into the copy: repositories obtained from a Registry, and the source side of a mount fallback, silently ignore it"))
	}
}

// ---- the descriptor generator is told the method of the request that was sent ----

func c13GeneratorMethod(c *Ctx) {
	const R = "C13.R2.generator-method-agrees"
	c.Expect(R, 2)
	for _, g := range c13DescriptorGenerators(c.P) {
		midx := -1
		for i, p := range g.Params {
			if types.Identical(p.Type(), types.Typ[types.String]) {
				midx = i
			}
		}
		if midx < 0 {
			continue
		}
		for _, f := range c.P.FuncsOfPkg(c13PkgRemote) {
			for n, call := range c13CallsToFn(f, g) {
				key := fmt.Sprintf("%s|%s#%d", FnName(f), FnName(g), n+1)
				var agrees func(fn *ssa.Function, arg ssa.Value, depth int) (bool, bool) // (ok, decided)
				agrees = func(fn *ssa.Function, arg ssa.Value, depth int) (bool, bool) {
					sites := c13SendSites(fn)
					if len(sites) == 1 {
						want, okM := c13MethodsOfSite(sites[0], 3)
						req := c13AliasSet(c13RequestArg(sites[0]))
						for _, r := range Roots(arg) {
							r = strip(r)
							if s, isC := constString(r); isC && okM && len(want) == 1 && want[0] == s {
								return true, true
							}
							if ld, isLoad := r.(*ssa.UnOp); isLoad && ld.Op == token.MUL {
								if fa, isFA := ld.X.(*ssa.FieldAddr); isFA && req[fa.X] && c13FieldNameOf(fa.X.Type(), fa.Field) == "Method" {
									return true, true
								}
							}
						}
						return false, true
					}
					// a dispatcher between the exchange and the generator: the method is its parameter
					prm, isParam := strip(arg).(*ssa.Parameter)
					if !isParam || depth <= 0 || len(sites) != 0 {
						return false, false
					}
					idx := -1
					for i, q := range fn.Params {
						if q == prm {
							idx = i
						}
					}
					callers := 0
					for _, h := range c.P.FuncsOfPkg(c13PkgRemote) {
						for _, hc := range c13CallsToFn(h, fn) {
							callers++
							if o, d := agrees(h, hc.Common().Args[idx], depth-1); !d || !o {
								return o, d
							}
						}
					}
					return callers > 0, callers > 0
				}
				ok, decided := agrees(f, call.Common().Args[midx], 2)
				if !decided {
					c.Undecided(R, key, call.Pos(), "cannot relate the method handed to the descriptor generator to the exchange whose response it examines")
					continue
				}
				c.Check(R, key, call.Pos(), ok, ifelse(ok, "the generator is told the method of the request whose response it examines", "the generator is told a method other than that of the request sent: a HEAD response would be hashed as if it had a body (digest of the empty string), or a GET response without digest header rejected"))
			}
		}
	}
}

// ---- Exists: false only for not-found ----

func c13ExistsRule(c *Ctx) {
	const R = "C13.R1.exists-reflects-not-found-only"
	c.Expect(R, 2)
	for _, acc := range []string{"Blobs", "Manifests"} {
		get := c.P.Fn(c13PkgRemote, "Repository."+acc)
		if get == nil {
			continue
		}
		var T *types.Named
		for _, a := range RetAtoms(get, 0) {
			if mi, ok := a.Val.(*ssa.MakeInterface); ok {
				if p, ok := types.Unalias(mi.X.Type()).(*types.Pointer); ok {
					T, _ = types.Unalias(p.Elem()).(*types.Named)
				}
			}
		}
		if T == nil {
			continue
		}
		ms := types.NewMethodSet(types.NewPointer(T))
		for i := 0; i < ms.Len(); i++ {
			obj, isFn := ms.At(i).Obj().(*types.Func)
			if !isFn || obj.Name() != "Exists" {
				continue
			}
			m := c.P.SSA.FuncValue(obj)
			if m == nil || len(m.Blocks) == 0 {
				continue
			}
			// the function that asks the registry: Exists itself or the helper whose verdict it returns
			E := m
			isResolve := func(n string) bool { return strings.HasSuffix(n, ").Resolve") }
			if len(Calls(E, isResolve)) == 0 {
				for _, ci := range Calls(m, func(string) bool { return true }) {
					if h := StaticCallee(ci); h != nil && inModule(h) && len(h.Blocks) > 0 && len(Calls(h, isResolve)) > 0 {
						E = h
					}
				}
			}
			rcs := Calls(E, isResolve)
			if len(rcs) != 1 {
				c.Undecided(R, FnName(m)+"|exists", m.Pos(), "cannot find the single Resolve call behind Exists")
				continue
			}
			rc := rcs[0]
			r := c13ErrFlow(rc, ErrFlowOpts{Tolerated: []string{"~/errdef.ErrNotFound"}})
			ok := r.OK
			why := r.Detail
			if !ok {
				// the error is handed to a helper (bool, error) whose results are returned: judge the helper on its parameter
				if e := ErrOf(rc); e != nil {
					eal := Aliases(e)
					for _, ci := range Calls(E, func(string) bool { return true }) {
						K := StaticCallee(ci)
						kc, isCall := ci.(*ssa.Call)
						if !isCall || K == nil || !inModule(K) || len(K.Blocks) == 0 || K.Signature.Results().Len() != 2 || len(K.Params) != len(kc.Call.Args) {
							continue
						}
						for i, a := range kc.Call.Args {
							if !eal[a] {
								continue
							}
							pal := Aliases(K.Params[i])
							nilK, _, _ := NilTests(K, pal)
							tolK := toleratedEdges(K, pal, []string{"~/errdef.ErrNotFound"})
							good := len(nilK) > 0
							for _, ra := range RetAtoms(K, 1) { // error: the parameter, or nil behind nil / not-found
								if pal[ra.Val] || pal[strip(ra.Val)] {
									continue
								}
								if isNilConst(ra.Val) && !c13AtomReach(K.Blocks[0], 0, ra, newCut().Edges(nilK...).Edges(tolK...)) {
									continue
								}
								good = false
							}
							for _, ra := range RetAtoms(K, 0) { // true only behind the nil edge
								if k, isC := ra.Val.(*ssa.Const); isC && k.Value != nil && k.Value.String() == "false" {
									continue
								}
								if c13AtomReach(K.Blocks[0], 0, ra, newCut().Edges(nilK...)) {
									good = false
								}
							}
							// and the helper's results are what Exists returns
							ret := true
							for _, rr := range Returns(E) {
								if len(rr.Results) != 2 || !(c13RootsIn(rr.Results[0], c13AliasSet(ResultOf(kc, 0))) && c13RootsIn(rr.Results[1], c13AliasSet(ResultOf(kc, 1)))) {
									ret = false
								}
							}
							if good && ret {
								ok, why = true, ""
							}
						}
					}
				}
				if ok {
					c.OK(R, FnName(m)+"|exists", rc.Pos(), "the Resolve error is judged by a helper: true only for nil, false (nil) only for errdef.ErrNotFound, anything else returned")
					continue
				}
			}
			// true only when Resolve succeeded
			if e := ErrOf(rc); e != nil && ok {
				nilE, _, _ := NilTests(E, Aliases(e))
				for _, a := range RetAtoms(E, 0) {
					if k, isC := a.Val.(*ssa.Const); isC && k.Value != nil && k.Value.String() == "false" {
						continue
					}
					if len(nilE) == 0 || c13AtomReach(E.Blocks[0], 0, a, newCut().Edges(nilE...)) {
						ok, why = false, "`true` can be reported although Resolve failed"
					}
				}
			}
			c.Check(R, FnName(m)+"|exists", rc.Pos(), ok, ifelse(ok, "true only after a successful Resolve; false (nil) only for errdef.ErrNotFound; every other failure is returned", "Exists does not reflect the registry: "+why))
		}
	}
}

// ---- C15: the configured MaxMetadataBytes reaches every limiter ----

func c15Coverage(c *Ctx) {
	const R = "C15.R1.limit-is-the-option"
	c.Expect(R, 5)
	roles := map[*ssa.Function]bool{}
	for _, l := range c15Limiters(c.P) {
		roles[l] = true
	}
	for _, l := range c15SizeLimiters(c.P) {
		roles[l] = true
	}
	for _, f := range c.P.FuncsOfPkg(c13PkgRemote) {
		if roles[f] {
			continue
		}
		n := 0
		for _, ci := range Calls(f, func(string) bool { return true }) {
			g := StaticCallee(ci)
			if g == nil || !roles[g] {
				continue
			}
			n++
			args := ci.Common().Args
			ok, why := c13ArgFromOption(c.P, f, args[len(args)-1], "MaxMetadataBytes", 2)
			c.Check(R, fmt.Sprintf("%s|%s#%d", FnName(f), FnName(g), n), ci.Pos(), ok, ifelse(ok, "the limit is the repository's / registry's MaxMetadataBytes option", "the size limit ignores the configured MaxMetadataBytes: "+why))
		}
	}
}

// ---------- mutation-sweep triage additions ----------

func init() {
	c17CoverageHook = c17Coverage
	prev13 := c13CoverageHook
	c13CoverageHook = func(c *Ctx) { prev13(c); c13LocationFixup(c) }
	prev15 := c15CoverageHook
	c15CoverageHook = func(c *Ctx) { prev15(c); c15CallbackDelivers(c) }
}

var c17CoverageHook func(c *Ctx)

func c13CallsNamed(fn *ssa.Function, name string) map[ssa.Value]bool {
	out := map[ssa.Value]bool{}
	for _, ci := range CallsTo(fn, name) {
		if v := ci.Value(); v != nil {
			for a := range Aliases(v) {
				out[a] = true
			}
		}
	}
	return out
}

// c13LocationFixup: the upload Location is used as returned; its Host may be
// rewritten only under the documented work-around: request port 443, same
// host name, Location without port.  Also (C17.R4): the credential of the
// POST is reused for the PUT so that a one-shot body is not lost to a 401.
func c13LocationFixup(c *Ctx) {
	const R = "C13.R4.location-host-fixup-guarded"
	c.Expect(R, 1)
	for _, f := range c.P.FuncsOfPkg(c13PkgRemote) {
		// any rewrite of a URL's host in the package (the fix-up may live in a helper given the Location)
		hostStores := c13FieldStores(f, "net/url", "URL", "Host", nil)
		if len(hostStores) == 0 {
			continue
		}
		fn := FnName(f)
		loc := map[ssa.Value]bool{}
		for _, st := range hostStores {
			for a := range Aliases(st.Addr.(*ssa.FieldAddr).X) {
				loc[a] = true
			}
		}
		ports, hosts := c13CallsNamed(f, "(*net/url.URL).Port"), c13CallsNamed(f, "(*net/url.URL).Hostname")
		locPorts := map[ssa.Value]bool{}
		for _, ci := range CallsTo(f, "(*net/url.URL).Port") {
			if loc[ci.Common().Args[0]] {
				for a := range Aliases(ci.Value()) {
					locPorts[a] = true
				}
			}
		}
		is443 := c13FactEdgesOfConds(f, func(cond ssa.Value) (bool, bool) {
			op, other, ok := c13CmpNorm(cond, ports)
			if s, isC := constString(other); ok && isC && s == "443" {
				return op == token.EQL, op == token.NEQ
			}
			return false, false
		})
		sameHost := c13FactEdgesOfConds(f, func(cond ssa.Value) (bool, bool) {
			op, other, ok := c13CmpNorm(cond, hosts)
			if ok && hosts[other] {
				return op == token.EQL, op == token.NEQ
			}
			return false, false
		})
		noPort := c13FactEdgesOfConds(f, c13EmptyStringClass(locPorts))
		for _, st := range c13FieldStores(f, "net/url", "URL", "Host", func(b ssa.Value) bool { return loc[b] }) {
			ok := len(is443) > 0 && len(sameHost) > 0 && len(noPort) > 0 &&
				MustPass(st, newCut().Edges(is443...)) && MustPass(st, newCut().Edges(sameHost...)) && MustPass(st, newCut().Edges(noPort...))
			c.Check(R, fn+"|Location.Host", st.Pos(), ok, ifelse(ok, "the Location's host is rewritten only when the request port is 443, the host names agree and the Location has no port",
				"the upload Location's host can be rewritten outside the documented work-around (request port 443, same host name, Location without port): the PUT goes to an address the registry did not give"))
		}
	}
}

// c17CredentialReuse (C17.R4): the credential of the initial POST is reused for
// the upload PUT so that a one-shot body is not lost to a 401 challenge.
func c17CredentialReuse(c *Ctx) {
	const RC = "C17.R4.one-shot-body"
	for _, f := range c.P.FuncsOfPkg(c13PkgRemote) {
		if len(CallsTo(f, "(*net/http.Response).Location")) == 0 {
			continue
		}
		fn := FnName(f)
		// credential reuse
		var prevAuth []ssa.Value
		for _, g := range CallsTo(f, "(net/http.Header).Get") {
			if s, isC := constString(g.Common().Args[1]); isC && s == "Authorization" {
				prevAuth = append(prevAuth, g.Value())
			}
		}
		for _, site := range c13SendSites(f) {
			ms, okM := c13MethodsOfSite(site, 2)
			if !okM || len(ms) != 1 || ms[0] != "PUT" {
				continue
			}
			req := c13AliasSet(c13RequestArg(site))
			al := c13AliasSet(prevAuth...)
			ct := newCut().Edges(c13FactEdgesOfConds(f, c13EmptyStringClass(al))...)
			n := 0
			for _, set := range CallsTo(f, "(net/http.Header).Set") {
				a := set.Common().Args
				if s, isC := constString(a[1]); !isC || s != "Authorization" || !al[a[2]] {
					continue
				}
				// on the PUT request's header
				for _, r := range Roots(a[0]) {
					if ld, isLoad := r.(*ssa.UnOp); isLoad {
						if fa, isFA := ld.X.(*ssa.FieldAddr); isFA && req[fa.X] {
							ct.Instr(set.(ssa.Instruction))
							n++
						}
					}
				}
			}
			ok := n > 0 && MustPass(site.(ssa.Instruction), ct)
			c.Check(RC, fn+"|credential-of-initial-request-reused", site.Pos(), ok, ifelse(ok, "the PUT carries the Authorization of the preceding POST when there was one",
				"the upload PUT does not reuse the credential of the initial POST: with an auth client that does not cache tokens the PUT is answered 401 and a one-shot blob body cannot be sent again"))
		}
	}
}

// c15CallbackDelivers: the tag-schema referrers path (no exchange of its own)
// hands every non-empty filtered list to the callback.
func c15CallbackDelivers(c *Ctx) {
	const R3 = "C15.R3.client-side-filter"
	isDescSlice := func(t types.Type) bool {
		s, ok := types.Unalias(t).Underlying().(*types.Slice)
		return ok && c13IsNamed(s.Elem(), c13PkgOCI, "Descriptor")
	}
	for _, f := range c.P.FuncsOfPkg(c13PkgRemote) {
		if len(c13SendSites(f)) > 0 || c13HasParam(f, c13PkgHTTP, "Response") || ErrResultIndex(f.Signature) < 0 {
			continue
		}
		var cbs []ssa.CallInstruction
		for _, call := range Calls(f, func(n string) bool { return strings.HasPrefix(n, "dyn:param:") }) {
			if len(call.Common().Args) == 1 && isDescSlice(call.Common().Args[0].Type()) {
				cbs = append(cbs, call)
			}
		}
		if len(cbs) == 0 {
			continue
		}
		ct := newCut().Calls(cbs)
		direct := map[ssa.Value]bool{}
		errs := map[ssa.Value]bool{}
		for _, cb := range cbs {
			z, _ := c13LenZeroEdges(f, c13AliasSet(cb.Common().Args[0]))
			ct.Edges(z...)
			for a := range c13AliasSet(cb.Value()) {
				direct[a] = true
			}
		}
		for _, ci := range Calls(f, func(string) bool { return true }) {
			if e := ErrOf(ci); e != nil && ErrResultIndex(ci.Common().Signature()) >= 0 {
				for a := range Aliases(e) {
					errs[a] = true
				}
			}
		}
		ct.Edges(toleratedEdges(f, errs, []string{"~/errdef.ErrNotFound"})...) // no referrers index at all
		for a := range c13ToleratedReturns(f, errs, []string{"~/errdef.ErrNotFound"}) {
			direct[a] = true
		}
		bad := c13SuccessEscapes(f, f.Blocks[0], 0, ct, direct)
		c.Check(R3, FnName(f)+"|callback-delivers-nonempty", f.Pos(), bad == nil, ifelse(bad == nil, "success is reported only after the callback received the list, the list was empty, or there is no referrers index",
			"a non-empty referrers list can be dropped: success is returned without calling the callback"))
	}
}

// c17Coverage: RoundTrip touches the response only when the round trip had no
// error (net/http: resp is nil then); Retry-After is honoured.
func c17Coverage(c *Ctx) {
	c17CredentialReuse(c)
	const R2 = "C17.R2.attempt-accounting"
	const R3 = "C17.R3.retry-after-honoured"
	c.Expect(R3, 2)
	if RT := c.P.Fn(c17PkgRetry, "Transport.RoundTrip"); RT != nil {
		for _, S := range c13SendSites(RT) {
			resp, respErr := ResultOf(S, 0), ResultOf(S, 1)
			if resp == nil || respErr == nil {
				continue
			}
			ral, eal := Aliases(resp), Aliases(respErr)
			nilE, _, _ := NilTests(RT, eal)
			ok, n := true, 0
			AllInstrs(RT, func(in ssa.Instruction) {
				switch u := in.(type) {
				case *ssa.FieldAddr:
					if ral[u.X] {
						n++
						if !MustPass(u, newCut().Edges(nilE...)) {
							ok = false
						}
					}
				case *ssa.Call:
					h := StaticCallee(u)
					if h == nil || !inModule(h) || len(h.Blocks) == 0 || len(h.Params) != len(u.Call.Args) {
						return
					}
					ri, ei := -1, -1
					for i, a := range u.Call.Args {
						if ral[a] {
							ri = i
						}
						if eal[a] {
							ei = i
						}
					}
					if ri < 0 {
						return
					}
					n++
					if ei < 0 { // the helper cannot know: the call itself must be on the success side
						if !MustPass(u, newCut().Edges(nilE...)) {
							ok = false
						}
						return
					}
					hn, _, _ := NilTests(h, Aliases(h.Params[ei]))
					hr := Aliases(h.Params[ri])
					AllInstrs(h, func(hin ssa.Instruction) {
						if fa, isFA := hin.(*ssa.FieldAddr); isFA && hr[fa.X] && !MustPass(fa, newCut().Edges(hn...)) {
							ok = false
						}
					})
				}
			})
			if n > 0 {
				c.Check(R2, FnName(RT)+"|response-touched-only-without-error", S.Pos(), ok, ifelse(ok, "the response is dereferenced (Body.Close) only on the edge respErr == nil",
					"the response can be dereferenced although the round trip failed (it is nil then): a transport error makes RoundTrip panic instead of returning the error / retrying"))
			}
		}
	}
	// Retry-After
	for _, f := range c.P.FuncsOfPkg(c17PkgRetry) {
		var hdr ssa.Value
		for _, g := range CallsTo(f, "(net/http.Header).Get") {
			if s, isC := constString(g.Common().Args[1]); isC && s == "Retry-After" {
				hdr = g.Value()
			}
		}
		if hdr == nil || f.Signature.Results().Len() == 0 {
			continue
		}
		hal := Aliases(hdr)
		ra := map[ssa.Value]bool{}
		for _, p := range Calls(f, func(n string) bool { return n == "strconv.ParseInt" || n == "strconv.Atoi" }) {
			if hal[p.Common().Args[0]] {
				for a := range c13AliasSet(ResultOf(p, 0)) {
					ra[a] = true
				}
			}
		}
		fnm := FnName(f)
		if len(ra) == 0 {
			c.Undecided(R3, fnm+"|retry-after-parsed", f.Pos(), "the Retry-After header value is not parsed with strconv.ParseInt/Atoi")
			continue
		}
		var derives func(v ssa.Value, d int) bool
		derives = func(v ssa.Value, d int) bool {
			if ra[v] || d > 5 {
				return ra[v]
			}
			switch u := v.(type) {
			case *ssa.BinOp:
				return derives(u.X, d+1) || derives(u.Y, d+1)
			case *ssa.Convert:
				return derives(u.X, d+1)
			case *ssa.ChangeType:
				return derives(u.X, d+1)
			case *ssa.Phi:
				for _, e := range u.Edges {
					if derives(e, d+1) {
						return true
					}
				}
			}
			return false
		}
		posClass := func(cond ssa.Value) (bool, bool) {
			op, other, ok := c13CmpNorm(cond, ra)
			k, isC := c13ConstInt(other)
			if !ok || !isC {
				return false, false
			}
			switch {
			case op == token.GTR && k == 0, op == token.GEQ && k == 1:
				return true, false
			case op == token.LEQ && k == 0, op == token.LSS && k == 1:
				return false, true
			}
			return false, false
		}
		pos := c13FactEdgesOfConds(f, posClass)
		nonPos := c13FactEdgesOfConds(f, func(cond ssa.Value) (bool, bool) { t, fl := posClass(cond); return fl, t })
		absent := c13FactEdgesOfConds(f, c13EmptyStringClass(hal))
		okPos, okUsed, some := true, true, false
		// start points: the edges status == 429 (entry if the function is only given the header)
		var starts []*ssa.BasicBlock
		st := c13TestsOf(f, c13FieldLoads(f, c13PkgHTTP, "Response", "StatusCode", nil))
		for _, e := range st.eq[429] {
			starts = append(starts, e.To)
		}
		if len(starts) == 0 {
			starts = append(starts, f.Blocks[0])
		}
		for _, a := range RetAtoms(f, 0) {
			if derives(a.Val, 0) {
				some = true
				if len(pos) == 0 || c13AtomReach(f.Blocks[0], 0, a, newCut().Edges(pos...)) {
					okPos = false
				}
				continue
			}
			for _, b := range starts {
				if c13AtomReach(b, 0, a, newCut().Edges(nonPos...).Edges(absent...)) {
					okUsed = false
				}
			}
		}
		c.Check(R3, fnm+"|retry-after-positive-only", f.Pos(), okPos && some, ifelse(okPos && some, "the server's Retry-After is returned as the pause only when it is positive", "the Retry-After value is never used, or is used without having been found positive"))
		c.Check(R3, fnm+"|retry-after-not-ignored", f.Pos(), okUsed, ifelse(okUsed, "after a 429 the computed back-off is used only when Retry-After is absent or not positive", "a positive Retry-After on a 429 can be ignored in favour of the computed back-off"))
	}
}

// ---------- second mutation-sweep triage ----------

func init() {
	prev13 := c13CoverageHook
	c13CoverageHook = func(c *Ctx) { prev13(c); c13Triage2(c) }
	prev15 := c15CoverageHook
	c15CoverageHook = func(c *Ctx) { prev15(c); c15ReadAfterClose(c) }
}

func c13Triage2(c *Ctx) {
	// (a) helpers that perform an exchange and only report an error: success means the exchange happened
	const R = "C13.R1.success-needs-exchange"
	memo := map[*ssa.Function]int{}
	for _, f := range c.P.FuncsOfPkg(c13PkgRemote) {
		if f.Parent() != nil || c13IsForwarder(f) || len(c13SendSites(f)) == 0 || !c13ResultsAre(f, [2]string{"", "error"}) {
			continue
		}
		if n := f.Name(); f.Signature.Recv() != nil && (n == "Mount" || n == "Push" || n == "PushReference" || n == "Delete" || n == "Tag") {
			continue // already an instance of the rule as an exported operation
		}
		bad := c13SuccessWithoutExchange(f, 3, memo)
		detail := "every success path of this exchange helper performs its exchange"
		if bad != nil {
			detail = fmt.Sprintf("the return at %s (error %s) reports success without the request having been sent", c.P.Pos(bad.Ret.Pos()), describe(bad.Val))
		}
		c.Check(R, FnName(f)+"|exchange-before-success", f.Pos(), bad == nil, detail)
	}
	// (b) Predecessors: a failing listing is a failure, not a shorter list
	const RP = "C13.R1.predecessors-surfaces-failure"
	c.Expect(RP, 1)
	if P := c.P.Fn(c13PkgRemote, "Repository.Predecessors"); P != nil {
		for _, ci := range Calls(P, func(string) bool { return true }) {
			g := StaticCallee(ci)
			if g == nil || !inModule(g) || ErrResultIndex(g.Signature) < 0 {
				continue
			}
			r := c13ErrFlow(ci, ErrFlowOpts{})
			c.Check(RP, FnName(P)+"|"+FnName(g), ci.Pos(), r.OK, ifelse(r.OK, "the error of the referrers listing is returned", "a failed referrers listing is reported as a (partial) list of predecessors: "+r.Detail))
		}
	} else {
		c.LostAnchor(RP, "~/registry/remote.Repository.Predecessors")
	}
}

// c15ReadAfterClose: a reader closed by a plain (non-deferred) Close is not
// handed to a consumer afterwards (the read would fail, or — for a body that
// was replaced by an in-memory copy — silently work only in the tests).
func c15ReadAfterClose(c *Ctx) {
	const R = "C15.R1.reader-not-closed-before-read"
	c.Expect(R, 1)
	n := 0
	for _, f := range c.P.FuncsOfPkg(c13PkgRemote) {
		ok, why := true, ""
		some := false
		for _, ci := range Calls(f, func(string) bool { return true }) {
			cl, isCall := ci.(*ssa.Call)
			if !isCall || !cl.Call.IsInvoke() || cl.Call.Method.Name() != "Close" {
				continue
			}
			some = true
			al := Aliases(cl.Call.Value)
			for _, r := range Roots(cl.Call.Value) {
				for a := range Aliases(r) {
					al[a] = true
				}
			}
			for _, use := range Calls(f, func(string) bool { return true }) {
				if use == ci {
					continue
				}
				uses := false
				for _, a := range use.Common().Args {
					if al[a] {
						uses = true
					}
				}
				if use.Common().IsInvoke() && al[use.Common().Value] && use.Common().Method.Name() != "Close" {
					uses = true
				}
				if _, isDefer := use.(*ssa.Defer); isDefer {
					continue
				}
				if uses && Reachable(cl, use.(ssa.Instruction)) {
					ok, why = false, fmt.Sprintf("the reader closed at %s is used by %s afterwards", c.P.Pos(cl.Pos()), CalleeName(use))
				}
			}
		}
		if some {
			n++
			c.Check(R, FnName(f)+"|close-then-read", f.Pos(), ok, ifelse(ok, "no reader is consumed after its explicit Close", why))
		}
	}
	if n == 0 {
		c.OK(R, "~/registry/remote|no-explicit-close", 0, "no plain Close calls in the package")
	}
}
