package main

// Coverage-review additions for C13 / C15 (option agreement, clone
// exhaustiveness, HEAD/GET agreement of the descriptor generator, Exists).

import (
	"fmt"
	"go/token"
	"go/types"
	"strings"

	"golang.org/x/tools/go/ssa"
)

// c13IsOptionLoad: v is a load of the exported option field `name` of a
// Repository / RepositoryOptions (the Registry's template) value.
func c13IsOptionLoad(v ssa.Value, name string) bool {
	ld, ok := strip(v).(*ssa.UnOp)
	if !ok || ld.Op != token.MUL {
		return false
	}
	fa, ok := ld.X.(*ssa.FieldAddr)
	if !ok || c13FieldNameOf(fa.X.Type(), fa.Field) != name {
		return false
	}
	return c13IsNamed(fa.X.Type(), c13PkgRemote, "Repository") || c13IsNamed(fa.X.Type(), c13PkgRemote, "RepositoryOptions") || c13IsNamed(fa.X.Type(), c13PkgRemote, "Registry")
}

// c13ArgFromOption: every root of v is the option field, or a parameter of fn
// for which every caller in the package passes such a value (depth).
func c13ArgFromOption(p *Prog, fn *ssa.Function, v ssa.Value, name string, depth int) (bool, string) {
	for _, r := range Roots(v) {
		if c13IsOptionLoad(r, name) {
			continue
		}
		prm, isParam := strip(r).(*ssa.Parameter)
		if !isParam || depth <= 0 {
			return false, "the value " + describe(strip(r)) + " in " + FnName(fn) + " is not the " + name + " option"
		}
		idx := -1
		for i, q := range fn.Params {
			if q == prm {
				idx = i
			}
		}
		callers := 0
		for _, rel := range c15Pkgs {
			for _, g := range p.FuncsOfPkg(rel) {
				for _, call := range c13CallsToFn(g, fn) {
					callers++
					if ok, why := c13ArgFromOption(p, g, call.Common().Args[idx], name, depth-1); !ok {
						return false, why
					}
				}
			}
		}
		if callers == 0 {
			return false, "no caller found for the parameter of " + FnName(fn) + " that should carry the " + name + " option"
		}
	}
	return true, ""
}

func init() {
	c13CoverageHook = c13Coverage
	c15CoverageHook = c15Coverage
}

func c13Coverage(c *Ctx) {
	c13PlainHTTP(c)
	c13CloneCarriesOptions(c)
	c13GeneratorMethod(c)
	c13ExistsRule(c)
}

// ---- PlainHTTP reaches every URL ----

func c13PlainHTTP(c *Ctx) {
	const R = "C13.R4.scheme-option-reaches-url"
	c.Expect(R, 12)
	for _, f := range c.P.FuncsOfPkg(c13PkgRemote) {
		n := 0
		for _, ci := range Calls(f, func(string) bool { return true }) {
			call, isCall := ci.(*ssa.Call)
			if !isCall || call.Call.IsInvoke() {
				continue
			}
			sig := call.Call.Signature()
			if sig == nil || sig.Params().Len() < 2 || sig.Results().Len() != 1 || !types.Identical(sig.Params().At(0).Type(), types.Typ[types.Bool]) ||
				!c13IsNamed(sig.Params().At(1).Type(), "registry", "Reference") || !types.Identical(sig.Results().At(0).Type(), types.Typ[types.String]) {
				continue
			}
			n++
			key := fmt.Sprintf("%s|url-builder#%d", FnName(f), n)
			arg := call.Call.Args[0]
			if c13IsURLBuilder(f) {
				// a builder composing another builder passes its own flag on
				ok := len(f.Params) > 0 && Aliases(f.Params[0])[arg]
				c.Check(R, key, call.Pos(), ok, ifelse(ok, "the builder passes its own plainHTTP flag on", "a URL builder calls another with a scheme flag that is not its own parameter"))
				continue
			}
			ok, why := c13ArgFromOption(c.P, f, arg, "PlainHTTP", 2)
			c.Check(R, key, call.Pos(), ok, ifelse(ok, "the URL's scheme follows the PlainHTTP option of this repository / registry", "the URL is built with a scheme that ignores the PlainHTTP option: "+why))
		}
	}
}

// ---- clone() carries every exported option ----

func c13CloneCarriesOptions(c *Ctx) {
	const R = "C13.R3.options-carried-by-clone"
	c.Expect(R, 9)
	T := c.P.Named(c13PkgRemote, "Repository")
	if T == nil {
		c.LostAnchor(R, "~/registry/remote.Repository")
		return
	}
	st := T.Underlying().(*types.Struct)
	// the copier by role: method of *Repository without parameters returning *Repository
	var cloners []*ssa.Function
	for _, f := range c.P.FuncsOfPkg(c13PkgRemote) {
		if f.Parent() == nil && f.Signature.Recv() != nil && c13IsNamed(f.Signature.Recv().Type(), c13PkgRemote, "Repository") &&
			f.Signature.Params().Len() == 0 && f.Signature.Results().Len() == 1 && c13IsPtrTo(f.Signature.Results().At(0).Type(), c13PkgRemote, "Repository") {
			cloners = append(cloners, f)
		}
	}
	if len(cloners) != 1 {
		c.LostAnchor(R, fmt.Sprintf("the repository copier func (r *Repository)() *Repository (found %d)", len(cloners)))
		return
	}
	F := cloners[0]
	recv := Aliases(F.Params[0])
	// the returned object(s)
	var objs []ssa.Value
	for _, a := range RetAtoms(F, 0) {
		objs = append(objs, a.Val)
	}
	for i := 0; i < st.NumFields(); i++ {
		fld := st.Field(i)
		if !fld.Exported() {
			continue
		}
		ok := len(objs) > 0
		for _, obj := range objs {
			carried := false
			al := Aliases(obj)
			AllInstrs(F, func(in ssa.Instruction) {
				s, isStore := in.(*ssa.Store)
				if !isStore {
					return
				}
				fa, isFA := s.Addr.(*ssa.FieldAddr)
				if !isFA || !al[fa.X] || fa.Field != i {
					return
				}
				// the value derives from the same field of the receiver (directly or through a copy helper)
				var from func(v ssa.Value, d int) bool
				from = func(v ssa.Value, d int) bool {
					for _, r := range Roots(v) {
						r = strip(r)
						if ld, isLoad := r.(*ssa.UnOp); isLoad && ld.Op == token.MUL {
							if f2, ok := ld.X.(*ssa.FieldAddr); ok && f2.Field == i && recv[f2.X] {
								return true
							}
						}
						if call, isCall := r.(*ssa.Call); isCall && d > 0 {
							for _, a := range call.Call.Args {
								if from(a, d-1) {
									return true
								}
							}
						}
					}
					return false
				}
				if from(s.Val, 2) {
					carried = true
				}
			})
			if !carried {
				ok = false
			}
		}
		c.Check(R, FnName(F)+"|"+fld.Name(), F.Pos(), ok, ifelse(ok, "the copy made for derived repositories (Registry.Repository, mount fallback) carries this option", "the option "+fld.Name()+" is not carried into the copy: repositories obtained from a Registry, and the source side of a mount fallback, silently ignore it"))
	}
}

// ---- the descriptor generator is told the method of the request that was sent ----

func c13GeneratorMethod(c *Ctx) {
	const R = "C13.R2.generator-method-agrees"
	c.Expect(R, 2)
	for _, g := range c13DescriptorGenerators(c.P) {
		midx := -1
		for i, p := range g.Params {
			if types.Identical(p.Type(), types.Typ[types.String]) {
				midx = i
			}
		}
		if midx < 0 {
			continue
		}
		for _, f := range c.P.FuncsOfPkg(c13PkgRemote) {
			for n, call := range c13CallsToFn(f, g) {
				key := fmt.Sprintf("%s|%s#%d", FnName(f), FnName(g), n+1)
				sites := c13SendSites(f)
				if len(sites) != 1 {
					c.Undecided(R, key, call.Pos(), "the caller of the descriptor generator does not perform exactly one exchange")
					continue
				}
				want, okM := c13MethodsOfSite(sites[0], 3)
				req := c13AliasSet(c13RequestArg(sites[0]))
				ok := false
				for _, r := range Roots(call.Common().Args[midx]) {
					r = strip(r)
					if s, isC := constString(r); isC && okM && len(want) == 1 && want[0] == s {
						ok = true
					}
					if ld, isLoad := r.(*ssa.UnOp); isLoad && ld.Op == token.MUL {
						if fa, isFA := ld.X.(*ssa.FieldAddr); isFA && req[fa.X] && c13FieldNameOf(fa.X.Type(), fa.Field) == "Method" {
							ok = true
						}
					}
				}
				c.Check(R, key, call.Pos(), ok, ifelse(ok, "the generator is told the method of the request whose response it examines", "the generator is told a method other than that of the request sent: a HEAD response would be hashed as if it had a body (digest of the empty string), or a GET response without digest header rejected"))
			}
		}
	}
}

// ---- Exists: false only for not-found ----

func c13ExistsRule(c *Ctx) {
	const R = "C13.R1.exists-reflects-not-found-only"
	c.Expect(R, 2)
	for _, acc := range []string{"Blobs", "Manifests"} {
		get := c.P.Fn(c13PkgRemote, "Repository."+acc)
		if get == nil {
			continue
		}
		var T *types.Named
		for _, a := range RetAtoms(get, 0) {
			if mi, ok := a.Val.(*ssa.MakeInterface); ok {
				if p, ok := types.Unalias(mi.X.Type()).(*types.Pointer); ok {
					T, _ = types.Unalias(p.Elem()).(*types.Named)
				}
			}
		}
		if T == nil {
			continue
		}
		ms := types.NewMethodSet(types.NewPointer(T))
		for i := 0; i < ms.Len(); i++ {
			obj, isFn := ms.At(i).Obj().(*types.Func)
			if !isFn || obj.Name() != "Exists" {
				continue
			}
			m := c.P.SSA.FuncValue(obj)
			if m == nil || len(m.Blocks) == 0 {
				continue
			}
			// the function that asks the registry: Exists itself or the helper whose verdict it returns
			E := m
			isResolve := func(n string) bool { return strings.HasSuffix(n, ").Resolve") }
			if len(Calls(E, isResolve)) == 0 {
				for _, ci := range Calls(m, func(string) bool { return true }) {
					if h := StaticCallee(ci); h != nil && inModule(h) && len(h.Blocks) > 0 && len(Calls(h, isResolve)) > 0 {
						E = h
					}
				}
			}
			rcs := Calls(E, isResolve)
			if len(rcs) != 1 {
				c.Undecided(R, FnName(m)+"|exists", m.Pos(), "cannot find the single Resolve call behind Exists")
				continue
			}
			rc := rcs[0]
			r := ErrFlow(rc, ErrFlowOpts{Tolerated: []string{"~/errdef.ErrNotFound"}})
			ok := r.OK
			why := r.Detail
			// true only when Resolve succeeded
			if e := ErrOf(rc); e != nil && ok {
				nilE, _, _ := NilTests(E, Aliases(e))
				for _, a := range RetAtoms(E, 0) {
					if k, isC := a.Val.(*ssa.Const); isC && k.Value != nil && k.Value.String() == "false" {
						continue
					}
					if len(nilE) == 0 || c13AtomReach(E.Blocks[0], 0, a, newCut().Edges(nilE...)) {
						ok, why = false, "`true` can be reported although Resolve failed"
					}
				}
			}
			c.Check(R, FnName(m)+"|exists", rc.Pos(), ok, ifelse(ok, "true only after a successful Resolve; false (nil) only for errdef.ErrNotFound; every other failure is returned", "Exists does not reflect the registry: "+why))
		}
	}
}

// ---- C15: the configured MaxMetadataBytes reaches every limiter ----

func c15Coverage(c *Ctx) {
	const R = "C15.R1.limit-is-the-option"
	c.Expect(R, 5)
	roles := map[*ssa.Function]bool{}
	for _, l := range c15Limiters(c.P) {
		roles[l] = true
	}
	for _, l := range c15SizeLimiters(c.P) {
		roles[l] = true
	}
	for _, f := range c.P.FuncsOfPkg(c13PkgRemote) {
		if roles[f] {
			continue
		}
		n := 0
		for _, ci := range Calls(f, func(string) bool { return true }) {
			g := StaticCallee(ci)
			if g == nil || !roles[g] {
				continue
			}
			n++
			args := ci.Common().Args
			ok, why := c13ArgFromOption(c.P, f, args[len(args)-1], "MaxMetadataBytes", 2)
			c.Check(R, fmt.Sprintf("%s|%s#%d", FnName(f), FnName(g), n), ci.Pos(), ok, ifelse(ok, "the limit is the repository's / registry's MaxMetadataBytes option", "the size limit ignores the configured MaxMetadataBytes: "+why))
		}
	}
}
