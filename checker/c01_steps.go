package main

// Step tables (author A, round 7): `for _, step := range []func() error{a, b, c} { if err := step(); err != nil { return … } }`
// is the straight-line sequence a; b; c.  Recognition is impl-D's c11StepLoops; this file adds what C01.R4 / C03.R5 need:
// the step closures, variables shared with them (captured cells) and the reference-default / same-node checks on cells.

import (
	"go/token"
	"strings"

	"golang.org/x/tools/go/ssa"
)

type c01StepView struct {
	Loop c11StepLoop
	Fns  []*ssa.Function // the step closures, in table order (nil entry: not a closure of the function)
}

func c01StepViews(F *ssa.Function) []c01StepView {
	var out []c01StepView
	for _, sl := range c11StepLoops(F) {
		v := c01StepView{Loop: sl}
		for _, s := range sl.Steps {
			g, _ := c01FuncOfValue(s)
			v.Fns = append(v.Fns, g)
		}
		out = append(out, v)
	}
	return out
}

// c01CapturedCell: the local variable (Alloc of the function that declares it) that v reads — *cell in the declaring
// function, or *freevar in a closure (possibly nested) bound to that cell.
func c01CapturedCell(v ssa.Value) *ssa.Alloc {
	ld, ok := strip(v).(*ssa.UnOp)
	if !ok || ld.Op != token.MUL {
		return nil
	}
	switch x := ld.X.(type) {
	case *ssa.Alloc:
		return x
	case *ssa.FreeVar:
		var cell *ssa.Alloc
		n := 0
		var follow func(fv *ssa.FreeVar, d int)
		follow = func(fv *ssa.FreeVar, d int) {
			for _, b := range freeVarBindings(fv) {
				if a, isA := b.(*ssa.Alloc); isA {
					cell = a
					n++
				} else if fv2, isFV := b.(*ssa.FreeVar); isFV && d < 3 {
					follow(fv2, d+1)
				} else {
					n += 2
				}
			}
		}
		follow(x, 0)
		if n == 1 {
			return cell
		}
	}
	return nil
}

// c01CapturedParam: the parameter v denotes — directly, through its spill copy, or through a closure's capture of it.
func c01CapturedParam(v ssa.Value) *ssa.Parameter {
	if p := c01ParamOf(v); p != nil {
		return p
	}
	if cell := c01CapturedCell(v); cell != nil {
		if sts := c01CellStores(cell); len(sts) == 1 {
			p, _ := sts[0].Val.(*ssa.Parameter)
			return p
		}
	}
	return nil
}

// c01CellStores: every store to the cell, in its function and in the closures that capture it.
func c01CellStores(cell *ssa.Alloc) []*ssa.Store {
	out := storesTo(cell)
	var inClosure func(f *ssa.Function, fv *ssa.FreeVar, d int)
	inClosure = func(f *ssa.Function, fv *ssa.FreeVar, d int) {
		for _, r := range *fv.Referrers() {
			if st, ok := r.(*ssa.Store); ok && st.Addr == ssa.Value(fv) {
				out = append(out, st)
			}
			if mc, ok := r.(*ssa.MakeClosure); ok && d < 3 {
				g := mc.Fn.(*ssa.Function)
				for i, b := range mc.Bindings {
					if b == ssa.Value(fv) {
						inClosure(g, g.FreeVars[i], d+1)
					}
				}
			}
		}
	}
	for _, r := range *cell.Referrers() {
		if mc, ok := r.(*ssa.MakeClosure); ok {
			g := mc.Fn.(*ssa.Function)
			for i, b := range mc.Bindings {
				if b == ssa.Value(cell) {
					inClosure(g, g.FreeVars[i], 0)
				}
			}
		}
	}
	return out
}

// c01SameNode: a and b denote one value — the same SSA value, or reads of one captured variable that is assigned exactly once.
func c01SameNode(a, b ssa.Value) bool {
	if a == nil || b == nil {
		return false
	}
	if c01SameStrip(a, b) {
		return true
	}
	ca, cb := c01CapturedCell(a), c01CapturedCell(b)
	return ca != nil && ca == cb && len(c01CellStores(ca)) == 1
}

// c01CellRefDefault: v reads the captured copy of dstRef of fn at program point `at` of fn (the step loop), and that
// variable holds dstRef, or srcRef exactly when dstRef was empty.
func c01CellRefDefault(fn *ssa.Function, v ssa.Value, at ssa.Instruction, srcRef, dstRef *ssa.Parameter) (bool, string) {
	cell := c01CapturedCell(v)
	if cell == nil || cell.Parent() != fn {
		return false, "the reference used for tagging is not the defaulted destination reference"
	}
	isCellLoad := func(x ssa.Value) bool {
		ld, ok := x.(*ssa.UnOp)
		return ok && ld.Op == token.MUL && ld.X == ssa.Value(cell)
	}
	emptyE, nonEmptyE := c01EmptyStrEdges(fn, isCellLoad)
	if len(emptyE) == 0 {
		return false, "dstRef is never compared with the empty string"
	}
	all := c01CellStores(cell)
	if len(all) != len(storesTo(cell)) {
		return false, "the tagging reference is reassigned inside a closure"
	}
	settled := newCut().Edges(nonEmptyE...)
	sawInit, sawSrc := false, false
	for _, st := range all {
		switch c01CapturedParam(st.Val) {
		case dstRef:
			if st.Block() != fn.Blocks[0] {
				return false, "the tagging reference can be something else than dstRef or srcRef"
			}
			sawInit = true
		case srcRef:
			if !MustPass(st, newCut().Edges(emptyE...)) {
				return false, "srcRef replaces a non-empty dstRef on some path"
			}
			sawSrc = true
			settled.Instr(st)
		default:
			return false, "the tagging reference can be something else than dstRef or srcRef"
		}
	}
	if !sawInit || !sawSrc {
		return false, "the tagging reference is not a choice between dstRef and srcRef"
	}
	if !MustPass(at, settled) {
		return false, "an empty dstRef is kept on some path"
	}
	return true, "reference = dstRef, or srcRef exactly when dstRef is empty"
}

// c01TagsViaSteps: c01TagsGivenNode for an ExtendedCopy whose tail is a step table.  Returns false when no step tags.
func c01TagsViaSteps(c *Ctx, R string, E *ssa.Function, srcRef, dstRef *ssa.Parameter) bool {
	G := c.P.Fn("", "ExtendedCopyGraph")
	for _, sv := range c01StepViews(E) {
		var tagFn *ssa.Function
		var tags []ssa.Instruction
		for _, S := range sv.Fns {
			if S == nil || len(S.Blocks) == 0 {
				continue
			}
			if ts := c01TagEffects(S, func(v ssa.Value) bool {
				ok, _ := c01CellRefDefault(E, v, sv.Loop.Call, srcRef, dstRef)
				return ok
			}); len(ts) > 0 {
				tagFn, tags = S, ts
			}
		}
		if tagFn == nil {
			continue
		}
		// every step ran before a successful return, and the tagging step succeeds only after tagging
		ok := true
		for _, r := range Returns(E) {
			if !c01IsErrorReturn(r, 1) && !MustPass(r, newCut().Edges(sv.Loop.Done)) {
				ok = false
			}
		}
		for _, r := range Returns(tagFn) {
			if !c01IsErrorReturn(r, ErrResultIndex(tagFn.Signature)) && !MustPass(r, newCut().Instr(tags...)) {
				ok = false
			}
		}
		// the loop hands a failing step's error on
		if e := ErrOf(sv.Loop.Call); e == nil {
			ok = false
		} else if _, nonNil, _ := NilTests(E, Aliases(e)); len(nonNil) == 0 {
			ok = false
		} else {
			for _, ne := range nonNil {
				if c01SuccessReturnFrom(E, ne, nil, nil) != nil {
					ok = false
				}
			}
		}
		c.Check(R, "~.ExtendedCopy|tags-node-with-defaulted-reference", tags[0].Pos(), ok,
			ifelse(ok, "every successful return follows the exhausted step table whose tagging step calls dst.Tag(ctx, node, ref) with ref = dstRef, or srcRef exactly when dstRef is empty", "a successful return of ExtendedCopy is not preceded by tagging the node"))
		// node tagged = node resolved = node copied = node returned
		var node ssa.Value
		for _, t := range tags {
			for _, a := range t.(ssa.CallInstruction).Common().Args {
				if c01IsOCIDescriptor(a.Type()) {
					node = a
				}
			}
		}
		cell := c01CapturedCell(node)
		resolved := false
		if cell != nil {
			sts := c01CellStores(cell)
			resolved = len(sts) == 1
			for _, st := range sts {
				okSt := false
				for _, r := range Roots(st.Val) {
					if ex, isEx := r.(*ssa.Extract); isEx && ex.Index == 0 {
						if call, isCall := ex.Tuple.(*ssa.Call); isCall && strings.HasSuffix(CalleeName(call), ").Resolve") {
							if c01CapturedParam(call.Call.Args[len(call.Call.Args)-1]) == srcRef {
								okSt = true
							}
						}
					}
				}
				if !okSt {
					resolved = false
				}
				// the assignment happens before the tagging step: in E itself before the loop, or in an earlier step
				if st.Parent() != E {
					before := false
					for _, S := range sv.Fns {
						if S == tagFn {
							break
						}
						if S == st.Parent() {
							before = true
						}
					}
					if !before {
						resolved = false
					}
				} else if !MustPass(sv.Loop.Call, newCut().Instr(st)) {
					resolved = false
				}
			}
		}
		okNode := true
		for _, r := range Returns(E) {
			if !c01IsErrorReturn(r, 1) && !c01SameNode(r.Results[0], node) {
				okNode = false
			}
		}
		copied := false
		for _, S := range sv.Fns {
			if S == nil || S == tagFn {
				if S == tagFn {
					break // copied before tagged
				}
				continue
			}
			for _, call := range Calls(S, func(string) bool { return true }) {
				if G != nil && StaticCallee(call) == G {
					for _, a := range call.Common().Args {
						if c01IsOCIDescriptor(a.Type()) && c01SameNode(a, node) {
							copied = true
						}
					}
				}
			}
		}
		c.Check(R, "~.ExtendedCopy|tagged-node-is-resolved-copied-returned", E.Pos(), okNode && resolved && copied,
			ifelse(okNode && resolved && copied, "the tagged descriptor is src.Resolve(srcRef), is the node handed to ExtendedCopyGraph by an earlier step and is the one returned", "ExtendedCopy tags, copies or returns something else than the node resolved from srcRef"))
		return true
	}
	return false
}
