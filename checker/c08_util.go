package main

// Helpers shared by C08 and C10 (both authored together): role-based anchors
// inside content/oci, AutoSaveIndex edges, tag-map mutation sites, boolean
// flag resolution after a program point, nil-return search after a point.

import (
	"fmt"
	"go/token"
	"go/types"
	"sort"
	"strings"

	"golang.org/x/tools/go/ssa"
)

const (
	c08Pkg       = "content/oci"
	c08nResTag   = "(*~/internal/resolver.Memory).Tag"
	c08nResUntag = "(*~/internal/resolver.Memory).Untag"
	c08nResMap   = "(*~/internal/resolver.Memory).Map"
)

var c08FileWriters = map[string]bool{
	"os.WriteFile": true, "os.Create": true, "os.OpenFile": true, "os.Rename": true, "os.CreateTemp": true,
	"io/ioutil.WriteFile": true, "(*os.Root).Create": true, "(*os.Root).OpenFile": true,
}

// c08InPlaceWriters: calls that open an existing path for writing / truncate it (argument 0 is the path).
var c08InPlaceWriters = map[string]bool{
	"os.WriteFile": true, "os.Create": true, "os.OpenFile": true, "io/ioutil.WriteFile": true, "os.Truncate": true,
}

type c08Roles struct {
	store       *types.Named
	savers      map[*ssa.Function]bool // saveIndex role: projects the resolver into s.index.Manifests and writes the file
	indexWriter map[*ssa.Function]bool // writeIndexFile role: marshals s.index and writes s.indexPath
	dirty       map[*ssa.Function]bool // unexported helpers that mutate the tag map and return nil without saving
	autoSavers  map[*ssa.Function]bool // helpers that do nothing but "save if AutoSaveIndex": a nil error means saved or AutoSaveIndex off
}

// c08FindRoles resolves the unexported helpers of oci.Store by what they do.
func c08FindRoles(c *Ctx, rule string) *c08Roles {
	r := &c08Roles{store: c.P.Named(c08Pkg, "Store"), savers: map[*ssa.Function]bool{}, indexWriter: map[*ssa.Function]bool{}, dirty: map[*ssa.Function]bool{}, autoSavers: map[*ssa.Function]bool{}}
	if r.store == nil {
		c.LostAnchor(rule, "~/content/oci.Store")
		return nil
	}
	// the string field that holds the path of index.json, by what is assigned to it
	for _, f := range c09FuncsOfPkg(c.P, c08Pkg) {
		AllInstrs(f, func(in ssa.Instruction) {
			st, ok := in.(*ssa.Store)
			if !ok {
				return
			}
			fa, ok := st.Addr.(*ssa.FieldAddr)
			if !ok {
				return
			}
			pt, ok := fa.X.Type().Underlying().(*types.Pointer)
			if !ok || !types.Identical(pt.Elem(), r.store) {
				return
			}
			for _, rt := range Roots(st.Val) {
				if call, ok := rt.(*ssa.Call); ok && len(call.Call.Args) == 1 && (CalleeName(call) == "path/filepath.Join" || CalleeName(call) == "path.Join") && c10LastJoinElem(call.Call.Args[0]) == "index.json" {
					c09RoleOverride["oci.Store.indexPath"] = r.store.Underlying().(*types.Struct).Field(fa.Field).Name()
				}
			}
		})
	}
	for _, f := range []string{"AutoSaveIndex", "tagResolver", "index", "indexPath"} {
		if !c09HasField(r.store, f) {
			c.LostAnchor(rule, "~/content/oci.Store."+f)
			return nil
		}
	}
	for _, f := range c09FuncsOfPkg(c.P, c08Pkg) {
		storesManifests, usesIndexPath := false, false
		AllInstrs(f, func(in ssa.Instruction) {
			switch u := in.(type) {
			case *ssa.Store:
				if fa, ok := u.Addr.(*ssa.FieldAddr); ok && strings.HasSuffix(fieldName(fa.X.Type(), fa.Field), "ocispec.Index.Manifests") && !pathIsFresh(accessPath(fa.X)) {
					storesManifests = true
				}
			case ssa.CallInstruction:
				if c08FileWriters[CalleeName(u)] {
					for _, a := range u.Common().Args {
						if c08DerivesFromField(a, r.store, "indexPath") {
							usesIndexPath = true
						}
					}
				}
			}
		})
		if !usesIndexPath {
			// the path is a parameter (writeJSONFile(path, …)): judged by what the call sites pass
			for _, call := range Calls(f, func(n string) bool { return c08FileWriters[n] }) {
				for _, a := range call.Common().Args {
					if pf, _ := c09ParamOf(a); pf != f {
						continue
					}
					if os, ok := c09Origins(c.P, a, 2, nil); ok {
						for _, o := range os {
							if c08DerivesFromField(o, r.store, "indexPath") {
								usesIndexPath = true
							}
						}
					}
				}
			}
		}
		if usesIndexPath {
			r.indexWriter[f] = true
		}
		if storesManifests && f.Signature.Recv() != nil && reachesCall(f, 3, func(n string, _ ssa.CallInstruction) bool { return c08FileWriters[n] }) {
			r.savers[f] = true
		}
	}
	// a function that hands the index path to an index writer is one too (writeIndexFile -> writeJSONFile)
	for round := 0; round < 2; round++ {
		for _, f := range c09FuncsOfPkg(c.P, c08Pkg) {
			if r.indexWriter[f] {
				continue
			}
			for _, call := range Calls(f, func(string) bool { return true }) {
				if g := StaticCallee(call); g != nil && r.indexWriter[g] {
					for _, a := range call.Common().Args {
						if c08DerivesFromField(a, r.store, "indexPath") {
							r.indexWriter[f] = true
						}
					}
				}
			}
		}
	}
	if len(r.savers) == 0 {
		c.LostAnchor(rule, "saveIndex role (method of oci.Store that assigns s.index.Manifests and reaches a file write)")
		return nil
	}
	if len(r.indexWriter) == 0 {
		c.LostAnchor(rule, "writeIndexFile role (method of oci.Store that writes s.indexPath)")
		return nil
	}
	// `autoSaveIndex()`-style helpers (fixpoint: a wrapper of such a helper is one too): no change of the
	// tag map inside, and every nil-error return has passed a successful save or the AutoSaveIndex==false edge
	for changed := true; changed; {
		changed = false
		for _, f := range c09FuncsOfPkg(c.P, c08Pkg) {
			if c09IsYieldBody(f) || r.savers[f] || r.autoSavers[f] || r.indexWriter[f] || ErrResultIndex(f.Signature) < 0 || len(c08SaveCalls(f, r)) == 0 || len(c08Mutations(f, r)) > 0 {
				continue
			}
			_, off := c08AutoSaveEdges(f, r.store)
			ct := newCut().Edges(off...)
			c08SaveSuccessCut(f, r, ct)
			if c08NilReturnFrom(f.Blocks[0], 0, ct) == nil {
				r.autoSavers[f] = true
				changed = true
			}
		}
	}
	return r
}

// c08DerivesFromField: v is computed from a load of <named>.<field>.
func c08DerivesFromField(v ssa.Value, named *types.Named, field string) bool {
	seen := map[ssa.Value]bool{}
	var rec func(v ssa.Value, d int) bool
	rec = func(v ssa.Value, d int) bool {
		if v == nil || d > 8 || seen[v] {
			return false
		}
		seen[v] = true
		switch u := v.(type) {
		case *ssa.UnOp:
			if u.Op == token.MUL && c09IsFieldAddrOf(u.X, named, field) {
				return true
			}
			if a, ok := u.X.(*ssa.Alloc); ok && u.Op == token.MUL {
				for _, s := range storesTo(a) {
					if rec(s.Val, d+1) {
						return true
					}
				}
				return false
			}
			return rec(u.X, d+1)
		case *ssa.Phi:
			for _, e := range u.Edges {
				if rec(e, d+1) {
					return true
				}
			}
		case *ssa.Call:
			for _, a := range u.Call.Args {
				if rec(a, d+1) {
					return true
				}
			}
		case *ssa.Slice:
			return rec(u.X, d+1)
		case *ssa.Alloc:
			for _, ref := range *u.Referrers() {
				if ia, ok := ref.(*ssa.IndexAddr); ok {
					for _, r2 := range *ia.Referrers() {
						if s, ok := r2.(*ssa.Store); ok && s.Addr == ia && rec(s.Val, d+1) {
							return true
						}
					}
				}
			}
		case *ssa.Extract:
			return rec(u.Tuple, d+1)
		case *ssa.ChangeType:
			return rec(u.X, d+1)
		case *ssa.Convert:
			return rec(u.X, d+1)
		case *ssa.BinOp:
			return rec(u.X, d+1) || rec(u.Y, d+1)
		}
		return false
	}
	return rec(v, 0)
}

// c08StoreFieldLoads: every load of (*Store).<field> in fn (any base) with its aliases.
func c08StoreFieldLoads(fn *ssa.Function, store *types.Named, field string) map[ssa.Value]bool {
	out := map[ssa.Value]bool{}
	AllInstrs(fn, func(in ssa.Instruction) {
		if u, ok := in.(*ssa.UnOp); ok && u.Op == token.MUL && c09IsFieldAddrOf(u.X, store, field) {
			for a := range Aliases(u) {
				out[a] = true
			}
		}
	})
	return out
}

// c08AutoSaveEdges: edges on which s.AutoSaveIndex was found true / false.
func c08AutoSaveEdges(fn *ssa.Function, store *types.Named) (on, off []Edge) {
	return BoolTests(fn, c08StoreFieldLoads(fn, store, "AutoSaveIndex"))
}

// c08SaveCalls: calls in fn to a saver.
func c08SaveCalls(fn *ssa.Function, r *c08Roles) []ssa.CallInstruction {
	var out []ssa.CallInstruction
	for _, call := range Calls(fn, func(string) bool { return true }) {
		if g := StaticCallee(call); g != nil && (r.savers[g] || r.autoSavers[g]) {
			if _, isDefer := call.(*ssa.Defer); !isDefer {
				out = append(out, call)
			}
		}
	}
	return out
}

// c08SaveSuccessCut: program points after which the index file holds the
// current tag map: the nil edge of a save call's error; when the error is not
// tested in fn (returned as is) the call itself.
func c08SaveSuccessCut(fn *ssa.Function, r *c08Roles, ct *cut) {
	for _, sc := range c08SaveCalls(fn, r) {
		e := ErrOf(sc)
		if e == nil {
			continue // error discarded: the save may have failed silently — no cut
		}
		ne, _, ifs := NilTests(fn, Aliases(e))
		if len(ifs) > 0 {
			ct.Edges(ne...)
		} else if ErrFlow(sc, ErrFlowOpts{}).OK {
			ct.Instr(sc.(ssa.Instruction)) // returned as is: nothing else runs after a failed save
		}
	}
}

// c08Mutations: instructions of fn after which the in-memory tag map differs
// from the file: resolver Tag/Untag on s.tagResolver, replacement of
// s.tagResolver, calls of dirty helpers.
func c08Mutations(fn *ssa.Function, r *c08Roles) []ssa.Instruction {
	resolver := c08StoreFieldLoads(fn, r.store, "tagResolver")
	var out []ssa.Instruction
	AllInstrs(fn, func(in ssa.Instruction) {
		switch u := in.(type) {
		case *ssa.Store:
			if c09IsFieldAddrOf(u.Addr, r.store, "tagResolver") && !pathIsFresh(accessPath(u.Addr.(*ssa.FieldAddr).X)) {
				out = append(out, in)
			}
		case *ssa.Call:
			n := CalleeName(u)
			if (n == c08nResTag || n == c08nResUntag) && len(u.Call.Args) > 0 && resolver[u.Call.Args[0]] {
				out = append(out, in)
			}
			if g := StaticCallee(u); g != nil && r.dirty[g] {
				out = append(out, in)
			}
			// a range-over-func loop whose body changes the tag map: the loop statement is the change
			if _, body, isRF := c09RangeFuncCall(in); isRF && len(c08Mutations(body, r)) > 0 {
				out = append(out, in)
			}
		}
	})
	return out
}

func c08MutationLabel(in ssa.Instruction) string {
	switch u := in.(type) {
	case *ssa.Store:
		return "s.tagResolver="
	case ssa.CallInstruction:
		if _, body, isRF := c09RangeFuncCall(in); isRF {
			return "range-over-func:" + FnName(body)
		}
		return CalleeName(u)
	}
	return "?"
}

// c08InfeasibleAfter: out-edges of Ifs on a boolean phi that cannot be taken
// on any path that starts after M, because every assignment of the flag that
// can reach the test after M is the same constant (the `untagged := false;
// … untagged = true` idiom).
func c08InfeasibleAfter(M ssa.Instruction, r *c08Roles) []Edge {
	fn := M.Parent()
	var out []Edge
	// M runs inside `for … := range S`: S is not empty afterwards
	for _, l := range Loops(fn) {
		if ranged, _, _, _, ok := l.RangeIndex(); ok && l.Contains(M) {
			out = append(out, c08LenZeroEdges(fn, ranged)...)
		}
	}
	for _, i := range Ifs(fn) {
		cond, t, f := ifEdges(i)
		if val, known := c08BoolKnownAfter(M, cond, i); known {
			if val {
				out = append(out, f)
			} else {
				out = append(out, t)
			}
		}
	}
	// a counter incremented after M (`untagged++ … if untagged > 0`)
	for _, i := range Ifs(fn) {
		cond, t, f := ifEdges(i)
		bo, ok := cond.(*ssa.BinOp)
		if !ok {
			continue
		}
		k, isC := constInt(bo.Y)
		if !isC || !c08CounterPositiveAfter(M, bo.X, i) {
			continue
		}
		switch {
		case bo.Op == token.GTR && k == 0, bo.Op == token.NEQ && k == 0, bo.Op == token.GEQ && k == 1:
			out = append(out, f)
		case bo.Op == token.EQL && k == 0, bo.Op == token.LSS && k == 1, bo.Op == token.LEQ && k == 0:
			out = append(out, t)
		}
	}
	// M is a range-over-func loop whose body changes the tag map
	if seq, body, isRF := c09RangeFuncCall(M); isRF && r != nil {
		// `changed := false; for … := range seq { mutate(); changed = true }; if changed …`
		for _, i := range Ifs(fn) {
			cond, _, f := ifEdges(i)
			ld, ok := cond.(*ssa.UnOp)
			if !ok || ld.Op != token.MUL {
				continue
			}
			cell, ok := ld.X.(*ssa.Alloc)
			if !ok || !c08BodySetsCell(body, cell, r) {
				continue
			}
			clobbered := false
			for _, st := range storesTo(cell) {
				if Reachable(M, st) && Reachable(st, i) {
					clobbered = true
				}
			}
			if !clobbered && Reachable(M, i) {
				out = append(out, f)
			}
		}
		// the body ran, so the collection it ranges over is not empty: maps.Keys(m) / maps.All(m) / slices.Values(s)
		if mk, isCall := c09Resolved(seq).(*ssa.Call); isCall && len(mk.Call.Args) == 1 {
			switch CalleeName(mk) {
			case "maps.Keys", "maps.Values", "maps.All", "slices.Values", "slices.All":
				out = append(out, c08LenZeroEdges(fn, mk.Call.Args[0])...)
			}
		}
	}
	// M is a call of a helper that reports, in a bool result, whether it changed the
	// tag map (`untagged := s.untagAll(target)`): relative to "a change happened at
	// M" the result is true, so the edges on which it is false are infeasible
	if call, ok := M.(*ssa.Call); ok && r != nil {
		if g := StaticCallee(call); g != nil && len(g.Blocks) > 0 && fnPkgPath(g) == fnPkgPath(fn) {
			res := g.Signature.Results()
			for idx := 0; idx < res.Len(); idx++ {
				if !types.Identical(res.At(idx).Type(), types.Typ[types.Bool]) || !c08ChangeImpliesTrue(g, idx, r) {
					continue
				}
				if v := ResultOf(call, idx); v != nil {
					_, fe := BoolTests(fn, Aliases(v))
					out = append(out, fe...)
				}
			}
		}
	}
	return out
}

// c08BoolKnownAfter: the boolean v, used at `use`, has one known constant value
// on every path that starts just after M: v is a constant, or a phi that is
// re-evaluated on every path from M to the use and all of whose incoming edges
// that can be taken after M carry the same constant.
func c08BoolKnownAfter(M ssa.Instruction, v ssa.Value, use ssa.Instruction) (val, known bool) {
	if cst, isConst := v.(*ssa.Const); isConst && cst.Value != nil {
		return cst.Value.String() == "true", true
	}
	phi, ok := v.(*ssa.Phi)
	if !ok {
		return false, false
	}
	if reach(M.Block(), instrIndex(M)+1, use, newCut().Instr(phi)) {
		return false, false
	}
	// edges that can be taken after M before control first arrives at the use
	after := func(to ssa.Instruction) bool { return reach(M.Block(), instrIndex(M)+1, to, newCut().Instr(use)) }
	vals := map[bool]bool{}
	for k, p := range phi.Block().Preds {
		term := p.Instrs[len(p.Instrs)-1]
		if !(p == M.Block() || after(term)) {
			continue // this edge cannot be taken after M
		}
		e := phi.Edges[k]
		if e == ssa.Value(phi) {
			continue
		}
		cst, isConst := e.(*ssa.Const)
		if !isConst || cst.Value == nil {
			return false, false
		}
		vals[cst.Value.String() == "true"] = true
	}
	if len(vals) != 1 {
		return false, false
	}
	return vals[true], true
}

// c08BodySetsCell: whenever the loop body (a range-over-func closure) changes
// the tag map it sets the captured bool cell to true, and never to anything else.
func c08BodySetsCell(body *ssa.Function, cell *ssa.Alloc, r *c08Roles) bool {
	var fv *ssa.FreeVar
	for _, f := range body.FreeVars {
		for _, b := range freeVarBindings(f) {
			if b == ssa.Value(cell) {
				fv = f
			}
		}
	}
	if fv == nil {
		return false
	}
	var trueStores []ssa.Instruction
	bad := false
	AllInstrs(body, func(in ssa.Instruction) {
		if st, ok := in.(*ssa.Store); ok && st.Addr == ssa.Value(fv) {
			if cst, isC := st.Val.(*ssa.Const); isC && cst.Value != nil && cst.Value.String() == "true" {
				trueStores = append(trueStores, st)
			} else {
				bad = true
			}
		}
	})
	muts := c08Mutations(body, r)
	if bad || len(trueStores) == 0 || len(muts) == 0 {
		return false
	}
	for _, m := range muts {
		for _, ret := range Returns(body) {
			if reach(m.Block(), instrIndex(m)+1, ret, nil) && !MustPassBetween(m, ret, newCut().Instr(trueStores...)) {
				return false
			}
		}
	}
	return true
}

// c08CounterPositiveAfter: v (tested at use) is a counter that starts at a
// constant >= 0, is only ever incremented, and is incremented (and re-read) on
// every path from M to the use: it is >= 1 there.
func c08CounterPositiveAfter(M ssa.Instruction, v ssa.Value, use ssa.Instruction) bool {
	phi, ok := v.(*ssa.Phi)
	if !ok {
		return false
	}
	if b, isBasic := phi.Type().Underlying().(*types.Basic); !isBasic || b.Info()&types.IsInteger == 0 {
		return false
	}
	// the closure of phis / increments feeding the counter: monotone, non-negative
	member := map[ssa.Value]bool{}
	var incs []ssa.Instruction
	var walk func(x ssa.Value, d int) bool
	walk = func(x ssa.Value, d int) bool {
		if member[x] {
			return true
		}
		if d > 6 {
			return false
		}
		switch u := x.(type) {
		case *ssa.Const:
			k, isC := constInt(u)
			return isC && k >= 0
		case *ssa.Phi:
			member[u] = true
			for _, e := range u.Edges {
				if !walk(e, d+1) {
					return false
				}
			}
			return true
		case *ssa.BinOp:
			c, isC := constInt(u.Y)
			if u.Op != token.ADD || !isC || c < 0 {
				return false
			}
			member[u] = true
			if c >= 1 {
				incs = append(incs, u)
			}
			return walk(u.X, d+1)
		}
		return false
	}
	if !walk(phi, 0) || len(incs) == 0 {
		return false
	}
	// every path from M to the use increments …
	if !MustPassBetween(M, use, newCut().Instr(incs...)) {
		return false
	}
	// … and the tested value is re-read after the increment
	for _, inc := range incs {
		if reach(inc.Block(), instrIndex(inc)+1, use, newCut().Instr(phi)) {
			return false
		}
	}
	return true
}

// c08ChangeImpliesTrue: whenever g changes the tag map, its bool result idx is
// true: from every mutation in g, every reachable Return carries a value known
// to be true after that mutation.
func c08ChangeImpliesTrue(g *ssa.Function, idx int, r *c08Roles) bool {
	muts := c08Mutations(g, r)
	if len(muts) == 0 {
		return false
	}
	for _, M := range muts {
		for _, ret := range Returns(g) {
			if !reach(M.Block(), instrIndex(M)+1, ret, nil) {
				continue
			}
			v := ret.Results[idx]
			// named result kept in a cell (deferred closures): resolve through the reaching stores
			if a := cellOf(v); a != nil {
				var trueStores, otherStores []ssa.Instruction
				for _, st := range storesTo(a) {
					if cst, isConst := st.Val.(*ssa.Const); isConst && cst.Value != nil && cst.Value.String() == "true" {
						trueStores = append(trueStores, st)
					} else {
						otherStores = append(otherStores, st)
					}
				}
				if len(trueStores) == 0 || len(closureWriters(a)) > 0 || !MustPassBetween(M, ret, newCut().Instr(trueStores...)) {
					return false
				}
				for _, ts := range trueStores {
					for _, os := range otherStores {
						if Reachable(ts, os) {
							return false
						}
					}
				}
				continue
			}
			if val, known := c08BoolKnownAfter(M, v, ret); !(known && val) {
				return false
			}
		}
	}
	return true
}

// c08NilReturnAfter: a Return reachable from just after M without hitting the
// cut whose error result may be nil there; nil if none.
func c08NilReturnAfter(M ssa.Instruction, ct *cut) *ssa.Return {
	return c08NilReturnFrom(M.Block(), instrIndex(M)+1, ct)
}

// c08NilReturnFrom: the same search starting at instruction index `start` of block b0.
func c08NilReturnFrom(b0 *ssa.BasicBlock, start int, ct *cut) *ssa.Return {
	fn := b0.Parent()
	errIdx := ErrResultIndex(fn.Signature)
	type state struct{ b, pred *ssa.BasicBlock }
	visited := map[state]bool{}
	var bad *ssa.Return
	var walk func(b, pred *ssa.BasicBlock, from int)
	walk = func(b, pred *ssa.BasicBlock, from int) {
		if bad != nil {
			return
		}
		if from == 0 {
			if visited[state{b, pred}] {
				return
			}
			visited[state{b, pred}] = true
		}
		for i := from; i < len(b.Instrs); i++ {
			in := b.Instrs[i]
			if ct.instrs[in] {
				return
			}
			r, ok := in.(*ssa.Return)
			if !ok {
				continue
			}
			if errIdx < 0 {
				bad = r
				return
			}
			for _, val := range resolveAt(r.Results[errIdx], b, pred, r, map[ssa.Value]bool{}) {
				if ErrNilStatus(val, 0) == NonNil {
					continue
				}
				if _, isZero := val.(zeroMarker); !isZero {
					if _, isConst := val.(*ssa.Const); !isConst {
						// an error value: nil only off the non-nil side of its own test
						_, nonNil, _ := NilTests(fn, Aliases(val))
						if len(nonNil) > 0 && MustPass(r, newCut().Edges(nonNil...)) {
							continue
						}
					}
				}
				bad = r
				return
			}
			return
		}
		for _, s := range b.Succs {
			if ct.edges[Edge{b, s}] {
				continue
			}
			walk(s, b, 0)
		}
	}
	walk(b0, nil, start)
	return bad
}

// c08Unsaved: a tag-map mutation of f from which a Return with a possibly nil
// error is reachable without passing a save call, the AutoSaveIndex==false
// edge, or an edge that is infeasible after the mutation.
func c08Unsaved(f *ssa.Function, r *c08Roles) (ssa.Instruction, *ssa.Return) {
	_, off := c08AutoSaveEdges(f, r.store)
	saves := c08SaveCalls(f, r)
	for _, M := range c08Mutations(f, r) {
		M := M
		mkCut := func() *cut { return newCut().Calls(saves).Edges(off...).Edges(c08InfeasibleAfter(M, r)...) }
		if ret := c08NilReturnAfter(M, mkCut()); ret != nil {
			// a save that runs under a condition the rule does not understand is
			// reported at the function itself (Undecided), not pushed to callers
			if len(c08BlamedGuards(f, r, M, mkCut, func(ct *cut) bool { return c08NilReturnAfter(M, ct) != nil })) > 0 {
				continue
			}
			return M, ret
		}
	}
	return nil, nil
}

// c08ComputeDirty: unexported helpers that leave the obligation to save to
// their callers (fixpoint over the package).
func c08ComputeDirty(p *Prog, r *c08Roles) {
	for changed := true; changed; {
		changed = false
		for _, f := range c09FuncsOfPkg(p, c08Pkg) {
			if c09IsYieldBody(f) || r.dirty[f] || r.savers[f] || f.Object() == nil || f.Object().Exported() {
				continue
			}
			if m, _ := c08Unsaved(f, r); m != nil {
				r.dirty[f] = true
				changed = true
			}
		}
	}
}

// c08BlamedGuards: when a bad path exists after M, the conditions that decide
// whether a save call runs and that the rule cannot relate to the mutation
// (not AutoSaveIndex, not an error test, not a resolved flag): cutting the
// non-save edge of such a condition removes every bad path.  The caller then
// reports Undecided (naming the condition) instead of a violation.
func c08BlamedGuards(f *ssa.Function, r *c08Roles, M ssa.Instruction, mkCut func() *cut, bad func(ct *cut) bool) []string {
	saves := c08SaveCalls(f, r)
	auto := c08StoreFieldLoads(f, r.store, "AutoSaveIndex")
	infeasible := map[Edge]bool{}
	for _, e := range c08InfeasibleAfter(M, r) {
		infeasible[e] = true
	}
	after := func(to ssa.Instruction, ct *cut) bool { return reach(M.Block(), instrIndex(M)+1, to, ct) }
	var out []string
	for _, i := range Ifs(f) {
		cond, t, fe := ifEdges(i)
		if auto[cond] || infeasible[t] || infeasible[fe] {
			continue
		}
		if _, isConst := cond.(*ssa.Const); isConst {
			continue
		}
		if bo, ok := cond.(*ssa.BinOp); ok && (isNilConst(bo.X) || isNilConst(bo.Y)) && (isErrorType(bo.X.Type()) || isErrorType(bo.Y.Type())) {
			continue
		}
		if !after(i, nil) {
			continue
		}
		for _, pair := range [][2]Edge{{t, fe}, {fe, t}} {
			saveSide, other := pair[0], pair[1]
			guards := false
			for _, sc := range saves {
				in := sc.(ssa.Instruction)
				if after(in, nil) && !after(in, newCut().Edges(saveSide)) {
					guards = true
				}
			}
			if !guards {
				continue
			}
			ct := mkCut()
			ct.Edges(other)
			if !bad(ct) {
				out = append(out, c09Trunc(cond.String())+" at "+f.Prog.Fset.Position(i.Pos()).String())
			}
		}
	}
	return out
}

// c08LenZeroEdges: like lenZeroEdges, but also accepts the identical SSA value
// (a phi has several roots, so SameValue refuses it).
func c08LenZeroEdges(fn *ssa.Function, S ssa.Value) []Edge {
	var out []Edge
	for _, i := range Ifs(fn) {
		cond, t, f := ifEdges(i)
		bo, ok := cond.(*ssa.BinOp)
		if !ok {
			continue
		}
		ln, ok := bo.X.(*ssa.Call)
		if !ok || CalleeName(ln) != "builtin:len" || !(ln.Call.Args[0] == S || SameValue(ln.Call.Args[0], S)) {
			continue
		}
		k, ok := constInt(bo.Y)
		if !ok {
			continue
		}
		switch {
		case bo.Op == token.NEQ && k == 0, bo.Op == token.GTR && k == 0, bo.Op == token.GEQ && k == 1:
			out = append(out, f)
		case bo.Op == token.EQL && k == 0, bo.Op == token.LSS && k == 1, bo.Op == token.LEQ && k == 0:
			out = append(out, t)
		}
	}
	return out
}

// ---------- success promises persistence ----------

// c08SuccessCut adds the points after which a call to a function in `targets`
// has succeeded: the nil edge of its error, or the call itself when its error
// is returned as is.
func c08SuccessCut(fn *ssa.Function, targets map[*ssa.Function]bool, ct *cut) {
	for _, call := range Calls(fn, func(string) bool { return true }) {
		g := StaticCallee(call)
		if _, isCall := call.(*ssa.Call); !isCall || g == nil || !targets[g] {
			continue
		}
		e := ErrOf(call)
		if e == nil {
			continue
		}
		ne, _, ifs := NilTests(fn, Aliases(e))
		if len(ifs) > 0 {
			ct.Edges(ne...)
		} else if ErrFlow(call, ErrFlowOpts{}).OK {
			ct.Instr(call.(ssa.Instruction))
		}
	}
}

// c08Promise is one "a nil error means the tag map is on disk" obligation.
type c08Promise struct {
	Fn   *ssa.Function
	What string      // construct suffix
	Bad  *ssa.Return // a nil-error return reachable from entry without a successful save (AutoSaveIndex on)
	Why  string
}

// c08PersistPromises: for the operations whose success promises that the tag
// map is persisted — the helper(s) that tag on s.tagResolver (reached from
// Store.Tag and from Store.Push of a manifest), Store.Untag, and Store.Tag /
// Store.Push through those helpers — every return with a nil error passes,
// from function entry, a successful save or the AutoSaveIndex==false edge,
// whether or not the in-memory map changed on that path (an earlier failed
// save, or a period with AutoSaveIndex off, may have left the file behind).
func c08PersistPromises(p *Prog, r *c08Roles) (out []c08Promise, lost []string) {
	helpers := map[*ssa.Function]bool{}
	for _, f := range c09FuncsOfPkg(p, c08Pkg) {
		if c09IsYieldBody(f) || f.Signature.Recv() == nil || r.savers[f] {
			continue
		}
		for _, m := range c08Mutations(f, r) {
			if call, ok := m.(ssa.CallInstruction); ok && CalleeName(call) == c08nResTag {
				helpers[f] = true
			}
		}
	}
	if len(helpers) == 0 {
		lost = append(lost, "tag helper (method of oci.Store that calls resolver.Memory.Tag on s.tagResolver)")
	}
	eval := func(f *ssa.Function, what string, extra func(ct *cut)) {
		_, off := c08AutoSaveEdges(f, r.store)
		ct := newCut().Edges(off...)
		c08SaveSuccessCut(f, r, ct)
		if extra != nil {
			extra(ct)
		}
		pr := c08Promise{Fn: f, What: what}
		pr.Bad = c08NilReturnFrom(f.Blocks[0], 0, ct)
		out = append(out, pr)
	}
	push := p.Fn(c08Pkg, "Store.Push")
	notManifest := func(f *ssa.Function) func(ct *cut) {
		return func(ct *cut) {
			_, nm, _ := CallTests(f, "~/internal/descriptor.IsManifest", nil)
			ct.Edges(nm...)
		}
	}
	for f := range helpers {
		if f == push { // the tag helper inlined into Push: only manifests are tagged
			eval(f, "manifest-success-implies-index-saved", notManifest(f))
			continue
		}
		eval(f, "success-implies-index-saved", nil)
	}
	viaHelpers := func(f *ssa.Function) func(ct *cut) {
		return func(ct *cut) { c08SuccessCut(f, helpers, ct) }
	}
	if f := p.Fn(c08Pkg, "Store.Untag"); f == nil {
		lost = append(lost, "~/content/oci.Store.Untag")
	} else {
		eval(f, "success-implies-index-saved", nil)
	}
	// the explicit save (the only persistence there is with AutoSaveIndex off): unconditional
	if f := p.Fn(c08Pkg, "Store.SaveIndex"); f == nil {
		lost = append(lost, "~/content/oci.Store.SaveIndex")
	} else {
		ct := newCut()
		c08SaveSuccessCut(f, r, ct)
		pr := c08Promise{Fn: f, What: "explicit-save-success-implies-index-saved"}
		pr.Bad = c08NilReturnFrom(f.Blocks[0], 0, ct)
		out = append(out, pr)
	}
	if f := p.Fn(c08Pkg, "Store.Tag"); f == nil {
		lost = append(lost, "~/content/oci.Store.Tag")
	} else if !helpers[f] {
		eval(f, "success-implies-index-saved", viaHelpers(f))
	}
	if f := push; f == nil {
		lost = append(lost, "~/content/oci.Store.Push")
	} else if !helpers[f] {
		eval(f, "manifest-success-implies-index-saved", func(ct *cut) {
			c08SuccessCut(f, helpers, ct)
			notManifest(f)(ct)
		})
	}
	return
}

// ---------- index critical section ----------

type c08CritSec struct {
	Fn       *ssa.Function
	Key      string
	Pos      token.Pos
	OK       bool
	How, Why string
}

// c08HeldUp: a mutex field `field` of the store is held in write mode at `at`
// — in at's function, or at every call site of that (unexported) function.
func c08HeldUp(p *Prog, at ssa.Instruction, field string, depth int) bool {
	fn := at.Parent()
	for path, mode := range heldAt(fn, heldSet{})[at] {
		if mode >= modeW && strings.HasSuffix(path, "."+field) {
			return true
		}
	}
	if depth <= 0 {
		return false
	}
	sites, closed := c09CallSites(p, fn)
	if !closed || len(sites) == 0 {
		return false
	}
	for _, cs := range sites {
		if _, isCall := cs.(*ssa.Call); !isCall || !c08HeldUp(p, cs.(ssa.Instruction), field, depth-1) {
			return false
		}
	}
	return true
}

// c08IndexCriticalSections: in the index save role, the read of the tag map
// that feeds the manifests (tagResolver.Map()), the assignment of
// s.index.Manifests and the file write happen under one and the same exclusive
// hold of a mutex of the store (the index lock: the mutex field held in write
// mode at the file write) with no release in between.
func c08IndexCriticalSections(p *Prog, r *c08Roles) []c08CritSec {
	var out []c08CritSec
	st, _ := r.store.Underlying().(*types.Struct)
	for S := range r.savers {
		cs := c08CritSec{Fn: S, Key: FnName(S) + "|snapshot-assignment-write-one-critical-section", Pos: S.Pos()}
		// the three kinds of points, as instructions of S (a helper call stands for what it contains)
		var snaps, assigns, writes []ssa.Instruction
		containsMap := func(g *ssa.Function) bool {
			for _, h := range c09ReachableInPkg(g, 2) {
				res := c08StoreFieldLoads(h, r.store, "tagResolver")
				for _, mc := range Calls(h, func(n string) bool {
					return n == c08nResMap || n == "(*~/internal/resolver.Memory).TagSet" || n == "(*~/internal/resolver.Memory).Resolve"
				}) {
					if res[mc.Common().Args[0]] {
						return true
					}
				}
			}
			return false
		}
		res := c08StoreFieldLoads(S, r.store, "tagResolver")
		AllInstrs(S, func(in ssa.Instruction) {
			switch u := in.(type) {
			case *ssa.Store:
				if fa, ok := u.Addr.(*ssa.FieldAddr); ok && strings.HasSuffix(fieldName(fa.X.Type(), fa.Field), "ocispec.Index.Manifests") {
					assigns = append(assigns, in)
				}
			case *ssa.Call:
				n := CalleeName(u)
				g := StaticCallee(u)
				switch {
				case (n == c08nResMap || n == "(*~/internal/resolver.Memory).TagSet") && len(u.Call.Args) > 0 && res[u.Call.Args[0]]:
					snaps = append(snaps, in)
				case g != nil && r.indexWriter[g], c08FileWriters[n]:
					writes = append(writes, in)
				case g != nil && g != S && fnPkgPath(g) == pkgPath(c08Pkg) && len(g.Blocks) > 0 && containsMap(g):
					snaps = append(snaps, in)
				}
			}
		})
		if len(snaps) == 0 || len(writes) == 0 || len(assigns) == 0 || st == nil {
			cs.OK, cs.Why = false, "the snapshot of the tag map, the assignment of s.index.Manifests or the file write was not found in the index save function"
			out = append(out, cs)
			continue
		}
		// the index lock: a mutex field of the store held exclusively at every file write
		lock := ""
		for i := 0; i < st.NumFields(); i++ {
			tn := st.Field(i).Type().String()
			if tn != "sync.Mutex" && tn != "sync.RWMutex" {
				continue
			}
			all := true
			for _, w := range writes {
				all = all && c08HeldUp(p, w, st.Field(i).Name(), 2)
			}
			if all {
				lock = st.Field(i).Name()
			}
		}
		if lock == "" {
			cs.OK, cs.Why, cs.Pos = false, "index.json is written without an exclusively held mutex of the store", writes[0].Pos()
			out = append(out, cs)
			continue
		}
		cs.OK = true
		for _, pt := range append(append([]ssa.Instruction{}, snaps...), assigns...) {
			if !c08HeldUp(p, pt, lock, 2) {
				cs.OK, cs.Pos = false, pt.Pos()
				cs.Why = "s." + lock + " is not held at " + p.Pos(pt.Pos()) + " where the tag map is read / s.index.Manifests is assigned, although it guards the file write: the snapshot is taken outside the critical section"
			}
		}
		// no release of the lock between the snapshot and the write
		if cs.OK {
			AllInstrs(S, func(in ssa.Instruction) {
				call, ok := in.(*ssa.Call)
				if !ok {
					return
				}
				if op, recv := lockOp(call); (op == "U" || op == "RU") && strings.HasSuffix(accessPath(recv), "."+lock) {
					for _, sn := range snaps {
						for _, w := range writes {
							if Reachable(sn, in) && Reachable(in, w) {
								cs.OK, cs.Pos = false, in.Pos()
								cs.Why = "s." + lock + " is released at " + p.Pos(in.Pos()) + " between the snapshot of the tag map and the file write"
							}
						}
					}
				}
			})
		}
		cs.How = "the tag map is read, s.index.Manifests assigned and index.json written under one exclusive hold of s." + lock
		out = append(out, cs)
	}
	return out
}

// ---------- path search with nil facts ----------

// c08PathExists: is there a path from instruction index idx of block b0 to
// `target` (nil: to any Return whose error result is not known non-nil, or —
// when headers is given — to one of those loop headers) that avoids the cut,
// taking into account what earlier branches established about error values:
// once `v != nil` (or `v == nil`) was decided, later tests of v — also through
// phis that merely carry v (`if err == nil { err = g() }; if err != nil {…}`) —
// follow the same answer.  nonNil seeds the facts.
func c08PathExists(b0 *ssa.BasicBlock, idx int, target ssa.Instruction, toNilReturn bool, ct *cut, nonNil []ssa.Value) bool {
	fn := b0.Parent()
	errIdx := ErrResultIndex(fn.Signature)
	type facts map[ssa.Value]bool // true: non-nil, false: nil
	keyOf := func(b *ssa.BasicBlock, f facts) string {
		var ks []string
		for v, nn := range f {
			ks = append(ks, v.Name()+ifelse(nn, "+", "-"))
		}
		sort.Strings(ks)
		return fmt.Sprint(b.Index, ks)
	}
	seen := map[string]bool{}
	budget := 20000
	var walk func(b *ssa.BasicBlock, pred *ssa.BasicBlock, from int, f facts) bool
	walk = func(b *ssa.BasicBlock, pred *ssa.BasicBlock, from int, f facts) bool {
		budget--
		if budget < 0 {
			return true // give up: assume a path exists (the caller reports)
		}
		if from == 0 {
			// phis carry facts
			nf := facts{}
			for v, nn := range f {
				nf[v] = nn
			}
			if pred != nil {
				for _, in := range b.Instrs {
					phi, ok := in.(*ssa.Phi)
					if !ok {
						break
					}
					for k, p := range b.Preds {
						if p == pred {
							op := phi.Edges[k]
							if nn, known := f[op]; known {
								nf[phi] = nn
							} else if c, isC := op.(*ssa.Const); isC && c.Value == nil {
								nf[phi] = false
							} else if ErrNilStatus(op, 0) == NonNil {
								nf[phi] = true
							} else {
								delete(nf, phi)
							}
						}
					}
				}
			}
			f = nf
			k := keyOf(b, f)
			if seen[k] {
				return false
			}
			seen[k] = true
		}
		for i := from; i < len(b.Instrs); i++ {
			in := b.Instrs[i]
			if target != nil && in == target {
				return true
			}
			if ct != nil && ct.instrs[in] {
				return false
			}
			if r, ok := in.(*ssa.Return); ok {
				if !toNilReturn || errIdx < 0 {
					return false
				}
				v := r.Results[errIdx]
				if nn, known := f[v]; known && nn {
					return false
				}
				if ErrNilStatus(v, 0) == NonNil {
					return false
				}
				return true
			}
		}
		var next []*ssa.BasicBlock
		if ifi, ok := b.Instrs[len(b.Instrs)-1].(*ssa.If); ok {
			cond, t, fe := ifEdges(ifi)
			decided := false
			if bo, isBo := cond.(*ssa.BinOp); isBo && (bo.Op == token.EQL || bo.Op == token.NEQ) {
				var x ssa.Value
				if isNilConst(bo.Y) {
					x = bo.X
				} else if isNilConst(bo.X) {
					x = bo.Y
				}
				if x != nil {
					nilE, nonE := t, fe
					if bo.Op == token.NEQ {
						nilE, nonE = fe, t
					}
					if nn, known := f[x]; known {
						decided = true
						e := nilE
						if nn {
							e = nonE
						}
						if ct == nil || !ct.edges[e] {
							return walk(e.To, b, 0, f)
						}
						return false
					}
					// unknown: both, recording the fact
					for _, br := range []struct {
						e  Edge
						nn bool
					}{{nilE, false}, {nonE, true}} {
						if ct != nil && ct.edges[br.e] {
							continue
						}
						nf := facts{}
						for v, q := range f {
							nf[v] = q
						}
						nf[x] = br.nn
						if walk(br.e.To, b, 0, nf) {
							return true
						}
					}
					return false
				}
			}
			if !decided {
				next = b.Succs
			}
		} else {
			next = b.Succs
		}
		for _, sb := range next {
			if ct != nil && ct.edges[Edge{b, sb}] {
				continue
			}
			if walk(sb, b, 0, f) {
				return true
			}
		}
		return false
	}
	f0 := facts{}
	for _, v := range nonNil {
		for a := range Aliases(v) {
			if _, isPhi := a.(*ssa.Phi); !isPhi {
				f0[a] = true
			}
		}
	}
	return walk(b0, nil, idx, f0)
}
