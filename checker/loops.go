package main

// Natural loops, range-loop recognition, E7 loop progress, reaches-effect.

import (
	"go/token"
	"go/types"
	"strings"

	"golang.org/x/tools/go/ssa"
)

type Loop struct {
	Header *ssa.BasicBlock
	Backs  []Edge
	Blocks map[*ssa.BasicBlock]bool
	Exits  []Edge
}

// Loops returns the natural loops of fn (one per header).
func Loops(fn *ssa.Function) []*Loop {
	byHeader := map[*ssa.BasicBlock]*Loop{}
	var order []*ssa.BasicBlock
	for _, b := range fn.Blocks {
		for _, s := range b.Succs {
			if s.Dominates(b) { // back edge b->s
				l := byHeader[s]
				if l == nil {
					l = &Loop{Header: s, Blocks: map[*ssa.BasicBlock]bool{s: true}}
					byHeader[s] = l
					order = append(order, s)
				}
				l.Backs = append(l.Backs, Edge{b, s})
				// collect body: predecessors-closure from b up to header
				stack := []*ssa.BasicBlock{b}
				for len(stack) > 0 {
					x := stack[len(stack)-1]
					stack = stack[:len(stack)-1]
					if l.Blocks[x] {
						continue
					}
					l.Blocks[x] = true
					stack = append(stack, x.Preds...)
				}
			}
		}
	}
	var out []*Loop
	for _, h := range order {
		l := byHeader[h]
		for b := range l.Blocks {
			for _, s := range b.Succs {
				if !l.Blocks[s] {
					l.Exits = append(l.Exits, Edge{b, s})
				}
			}
		}
		out = append(out, l)
	}
	return out
}

func (l *Loop) Contains(in ssa.Instruction) bool { return l.Blocks[in.Block()] }

// RangeIndex: if l is a `for i, x := range slice` loop (SSA rangeindex
// lowering), returns the ranged slice/array value, the index value used in
// the body, the body-entry edge and the exit edge.
func (l *Loop) RangeIndex() (ranged ssa.Value, idx ssa.Value, body, exit Edge, ok bool) {
	h := l.Header
	if len(h.Instrs) == 0 {
		return
	}
	ifi, isIf := h.Instrs[len(h.Instrs)-1].(*ssa.If)
	if !isIf {
		return
	}
	bo, isBin := ifi.Cond.(*ssa.BinOp)
	if !isBin || bo.Op != token.LSS {
		return
	}
	inc, isInc := bo.X.(*ssa.BinOp)
	if !isInc || inc.Op != token.ADD {
		return
	}
	phi, isPhi := inc.X.(*ssa.Phi)
	if !isPhi || phi.Block() != h || phi.Comment != "rangeindex" {
		return
	}
	// bound: len(x)
	ln, isCall := bo.Y.(*ssa.Call)
	if !isCall || CalleeName(ln) != "builtin:len" {
		return
	}
	return ln.Call.Args[0], inc, Edge{h, h.Succs[0]}, Edge{h, h.Succs[1]}, true
}

// RangeMap: `for k, v := range m` (SSA range/next lowering).
func (l *Loop) RangeMap() (ranged ssa.Value, next *ssa.Next, body, exit Edge, ok bool) {
	h := l.Header
	for _, in := range h.Instrs {
		if n, isNext := in.(*ssa.Next); isNext {
			r, isRange := n.Iter.(*ssa.Range)
			if !isRange {
				return
			}
			ifi, isIf := h.Instrs[len(h.Instrs)-1].(*ssa.If)
			if !isIf {
				return
			}
			_ = ifi
			return r.X, n, Edge{h, h.Succs[0]}, Edge{h, h.Succs[1]}, true
		}
	}
	return
}

// IsBoundedRange reports whether the loop is a range loop over a slice, array,
// map, integer or string (bounded by the ranged value's length at loop entry).
func (l *Loop) IsBoundedRange() bool {
	if _, _, _, _, ok := l.RangeIndex(); ok {
		return true
	}
	if _, _, _, _, ok := l.RangeMap(); ok {
		return true
	}
	return false
}

// reachesCall reports whether fn, or a function it statically calls or
// creates a closure for (to the given depth), contains a call satisfying pred.
func reachesCall(fn *ssa.Function, depth int, pred func(name string, c ssa.CallInstruction) bool) bool {
	seen := map[*ssa.Function]bool{}
	var rec func(f *ssa.Function, d int) bool
	rec = func(f *ssa.Function, d int) bool {
		if f == nil || seen[f] || len(f.Blocks) == 0 {
			return false
		}
		seen[f] = true
		for _, b := range f.Blocks {
			for _, in := range b.Instrs {
				switch x := in.(type) {
				case ssa.CallInstruction:
					if pred(CalleeName(x), x) {
						return true
					}
					if d > 0 {
						if g := StaticCallee(x); g != nil && rec(g, d-1) {
							return true
						}
					}
				case *ssa.MakeClosure:
					if d > 0 && rec(x.Fn.(*ssa.Function), d-1) {
						return true
					}
				}
			}
		}
		return false
	}
	return rec(fn, depth)
}

// inModule reports whether the function belongs to the repository.
func inModule(f *ssa.Function) bool { return strings.HasPrefix(fnPkgPath(f), Mod) }

// isChanRecvOf reports whether select state s receives from (an alias of) ch.
func selectRecvIndex(sel *ssa.Select, ch map[ssa.Value]bool) int {
	for i, st := range sel.States {
		if st.Dir == types.RecvOnly && ch[st.Chan] {
			return i
		}
	}
	return -1
}

// selectCaseEdge returns the edge taken when the select's chosen index == k.
func selectCaseEdge(sel *ssa.Select, k int) (Edge, bool) {
	var idxVal ssa.Value
	for _, r := range *sel.Referrers() {
		if e, ok := r.(*ssa.Extract); ok && e.Index == 0 {
			idxVal = e
		}
	}
	if idxVal == nil {
		return Edge{}, false
	}
	for _, r := range *idxVal.Referrers() {
		bo, ok := r.(*ssa.BinOp)
		if !ok || bo.Op != token.EQL {
			continue
		}
		if n, ok := constInt(bo.Y); !ok || int(n) != k {
			continue
		}
		for _, r2 := range *bo.Referrers() {
			if ifi, ok := r2.(*ssa.If); ok {
				return Edge{ifi.Block(), ifi.Block().Succs[0]}, true
			}
		}
	}
	return Edge{}, false
}
