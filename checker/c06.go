package main

// C06 — built-in Targets behave as content map + tag map.
//
// R1 guarded-by (lockset, frozen guard table; unsafeStore only under W)
// R2 refuse-before-mutate (already-exists / duplicate-name / not-found /
//    missing-reference / digest-untag refusals happen before any state change)

import (
	"fmt"
	"go/token"
	"go/types"
	"strings"

	"golang.org/x/tools/go/ssa"
)

func init() {
	register(&propDef{
		ID: "C06",
		Explain: "Decided: (R1) every access to resolver.Memory.{index,tags}, graph.Memory.{nodes,predecessors,successors}, oci.Store.{storage,tagResolver,graph} (under s.sync), oci.Store.index (under indexLock) and " +
			"file.nameStatus.exists happens with the guarding mutex held in a sufficient mode on every path (locally or in every caller); the lock-free unsafeStore view is constructed and used only where s.sync is held exclusively and does not escape; blobs are removed (storage.Delete, os.Remove) only with s.sync held exclusively; " +
			"(R2) refusals precede mutation: cas.Memory.Push returns ErrAlreadyExists on both detection points without storing and returns nil only when LoadOrStore stored; oci.Storage.Push returns ErrAlreadyExists on a Stat hit of the very rename target " +
			"before any file is created; file.Store.push/Add return ErrDuplicateName before any file effect, keep the per-name lock from the check through every content effect and mark the name only after success; Tag in the three stores reaches the resolver only on the Exists==true edge and reports ErrNotFound otherwise; " +
			"resolver.Memory.Resolve reports ErrNotFound for unknown references; empty references are rejected with ErrMissingReference before state is touched; oci.Store.Untag refuses a digest reference before untagging. " +
			"NOT decided (not applicable to static analysis): equivalence with a reference model over histories, linearizability, byte-exact Fetch results.",
		Run:     runC06,
		Mutants: c06Mutants,
	})
}

func runC06(c *Ctx) {
	c05SetRoles(c, "C06.anchors", "cas.content", "file.digestToPath", "file.status.exists", "file.status.lock", "resolver.lock", "resolver.index", "resolver.tags", "graph.lock", "graph.nodes", "graph.predecessors", "graph.successors", "oci.sync", "oci.indexLock", "oci.storage", "oci.tagResolver", "oci.graph", "oci.index")
	c06R1(c)
	c06R2Memory(c)
	c06R2OCIStorage(c)
	c06R2File(c)
	c06R2Tag(c)
	c06R2Resolve(c)
	c06R2EmptyRef(c)
	c06R2Untag(c)
	c06R2ResolverMaps(c)
	c05Wrappers(c, "C06.R2.refuse-before-mutate", true)
	c06R3Absent(c)
	c06R4Agreement(c)
}

// ---------------------------------------------------------------- R1

const c06UnsafeWhy = "lock-free view used by Delete: every unsafeStore is constructed where s.sync is held in W mode and does not escape (proved by the unsafeStore-construction obligation)"

// c06ConstructionExempt is filled per run: unexported methods of oci.Store
// that are provably called only on a store still private to its constructor.
var c06ConstructionExempt map[string]string

func c06GuardSpecs() []GuardSpec {
	return []GuardSpec{
		{Type: "~/internal/resolver.Memory", Fields: []string{c05Cur.F("resolver.index"), c05Cur.F("resolver.tags")}, Lock: c05Cur.F("resolver.lock")},
		{Type: "~/content/oci.Store", Fields: []string{c05Cur.F("oci.storage"), c05Cur.F("oci.tagResolver"), c05Cur.F("oci.graph")}, Lock: c05Cur.F("oci.sync"), Exempt: c06UnsafeExempt()},
		{Type: "~/content/oci.Store", Fields: []string{c05Cur.F("oci.index")}, Lock: c05Cur.F("oci.indexLock"), Exempt: c06ConstructionExempt},
		{Type: c05Cur.T("file.nameStatus"), Fields: []string{c05Cur.F("file.status.exists")}, Lock: c05Cur.F("file.status.lock")},
	}
}

// c06WithLockExempts adds two justified exemptions to the guard specs, both
// about code the shared lockset engine cannot attribute to a lock holder:
//   - dead code: an unexported function that nothing calls or references;
//   - a closure that runs synchronously inside its parent: it is created where
//     the parent holds the lock in a sufficient mode (until its return) and is
//     only called, or handed to a call, there — never `go`, never stored.
//
// Each closure exemption is recorded as an obligation of its own.
func c06WithLockExempts(c *Ctx, R string, specs []GuardSpec, pkgs []string) []GuardSpec {
	all := c05ModuleFuncs(c.P)
	referenced := map[*ssa.Function]bool{}
	for _, f := range all {
		AllInstrs(f, func(in ssa.Instruction) {
			for _, op := range in.Operands(nil) {
				if g, ok := (*op).(*ssa.Function); ok {
					referenced[g] = true
				}
			}
			if mc, ok := in.(*ssa.MakeClosure); ok {
				referenced[mc.Fn.(*ssa.Function)] = true
			}
		})
	}
	var fns []*ssa.Function
	for _, p := range pkgs {
		fns = append(fns, c05FuncsOfPkg(c.P, p)...)
	}
	out := make([]GuardSpec, len(specs))
	for i, sp := range specs {
		ex := map[string]string{}
		for k, v := range sp.Exempt {
			ex[k] = v
		}
		fields := map[string]bool{}
		for _, f := range sp.Fields {
			fields[f] = true
		}
		for _, f := range fns {
			accs := fieldAccesses(f, sp.Type, fields)
			if len(accs) == 0 {
				continue
			}
			if f.Parent() == nil {
				if !referenced[f] && f.Object() != nil && !f.Object().Exported() && f.Name() != "init" {
					ex[FnName(f)] = "dead code: nothing calls or references this unexported function"
				} else if why, ok := c06CalledUnderLock(all, f, accs, sp.Lock, 0); ok {
					ex[FnName(f)] = why
					c.OK(R, FnName(f)+"|"+sp.Type+"|every-caller-holds-lock", f.Pos(), why)
				} else if site := c06CalledFromYieldBody(all, f); site != nil && func() bool {
					// only when f relies on its callers for the lock
					held := heldAt(f, heldSet{})
					for _, a := range accs {
						if ap := accessPath(a.Base); held[a.At][ap+"."+sp.Lock] < a.Mode && !pathIsFresh(ap) {
							return true
						}
					}
					return false
				}() {
					// a call from the body of a range-over-func loop is invisible to the shared LockCheck (synthetic
					// functions are not enumerated): fail closed here
					c.Violation(R, FnName(f)+"|"+sp.Type+"|called-from-loop-body-without-lock", site.Pos(),
						FnName(f)+" touches "+sp.Type+" state and is called from the body of a range-over-func loop ("+FnName(site.Parent())+") that is not shown to run while "+sp.Lock+" is held")
				}
				continue
			}
			// closure
			okAll := true
			need := modeR
			why := ""
			for _, a := range accs {
				if a.Mode > need {
					need = a.Mode
				}
				w, ok := c06ClosureUnderLock(all, f, a.Base, sp.Lock, a.Mode, 0)
				if !ok {
					okAll = false
				}
				why = w
			}
			if okAll {
				ex[FnName(f)] = "closure that runs only " + why
				c.OK(R, FnName(f)+"|"+sp.Type+"|closure-runs-under-parents-lock", f.Pos(), "runs only "+why+" ("+modeName(need, "read", "write")+" mode); never started as a goroutine or stored")
			} else if f.Synthetic == c05YieldSynthetic {
				// the body of a range-over-func statement: the shared LockCheck does not enumerate synthetic
				// functions, so an access here that is not proved to run under the lock is reported from here
				held := heldAt(f, heldSet{})
				for _, a := range accs {
					if held[a.At][accessPath(a.Base)+"."+sp.Lock] >= a.Mode {
						continue
					}
					if _, ok := c06ClosureUnderLock(all, f, a.Base, sp.Lock, a.Mode, 0); ok {
						continue
					}
					c.Violation(R, FnName(f)+"|"+sp.Type+"."+a.Field+"|"+modeName(a.Mode, "R", "W"), a.At.Pos(),
						modeName(a.Mode, "read", "write")+" of "+sp.Type+"."+a.Field+" in the body of a range-over-func loop that is not shown to run while "+sp.Lock+" is held: a concurrent operation can interleave")
				}
			}
		}
		sp.Exempt = ex
		out[i] = sp
	}
	return out
}

// c06ClosureUnderLock: every execution of closure f happens while the lock of
// the guarded object `base` (a captured variable of f) is held in at least
// `mode`:
//   - f is created and only called / passed to calls (never stored, returned,
//     started as a goroutine) at points where its parent holds the lock, or
//     the parent is itself such a closure (range-over-func bodies);
//   - f is an iterator that an unexported function returns, and every caller
//     consumes the iterator on the spot (range-over-func statement, slices.* /
//     maps.* collectors) while holding the lock of the object it passed.
func c06ClosureUnderLock(all []*ssa.Function, f *ssa.Function, base ssa.Value, lock string, mode lockMode, d int) (string, bool) {
	par := f.Parent()
	if par == nil || d > 3 {
		return "", false
	}
	ld, ok := base.(*ssa.UnOp)
	if !ok || ld.Op != token.MUL {
		return "", false
	}
	fv, ok := ld.X.(*ssa.FreeVar)
	if !ok || fv.Parent() != f {
		return "", false
	}
	bs := freeVarBindings(fv)
	if len(bs) != 1 {
		return "", false
	}
	var pbase ssa.Value
	switch b := bs[0].(type) {
	case *ssa.Alloc:
		pbase = c05SingleStoredValue(b)
	case *ssa.FreeVar:
		pbase = &ssa.UnOp{Op: token.MUL, X: b}
	}
	if pbase == nil {
		return "", false
	}
	var mc *ssa.MakeClosure
	AllInstrs(par, func(in ssa.Instruction) {
		if m, ok := in.(*ssa.MakeClosure); ok && m.Fn == ssa.Value(f) {
			mc = m
		}
	})
	if mc == nil {
		return "", false
	}
	// uses of a function value, looking through representation changes and through a local variable that holds
	// nothing else (`keep := func(...)`): calls in the parent, and calls from other closures of the parent that
	// captured the variable (nested)
	var nested []*ssa.Function
	var usesOf func(v ssa.Value) (calls []ssa.Instruction, returned, other bool)
	usesOf = func(v ssa.Value) (calls []ssa.Instruction, returned, other bool) {
		for _, r := range *v.Referrers() {
			switch u := r.(type) {
			case *ssa.Call:
				calls = append(calls, u)
			case *ssa.DebugRef:
			case *ssa.Return:
				returned = true
			case *ssa.ChangeType:
				c2, r2, o2 := usesOf(u)
				calls = append(calls, c2...)
				returned = returned || r2
				other = other || o2
			case *ssa.Store:
				// an element of a step table: called (only) by the table's loop, in this function
				if u.Val == v {
					isStep := false
					for _, t := range c05StepTables(par) {
						for _, sv := range t.Steps {
							if sv == v || sv == strip(v) {
								calls = append(calls, t.Call)
								isStep = true
							}
						}
					}
					if isStep {
						continue
					}
				}
				cell, isCell := u.Addr.(*ssa.Alloc)
				if !isCell || u.Val != v || len(storesTo(cell)) != 1 {
					other = true
					continue
				}
				for _, cr := range *cell.Referrers() {
					switch cu := cr.(type) {
					case *ssa.Store, *ssa.DebugRef:
					case *ssa.UnOp:
						c2, r2, o2 := usesOf(cu)
						calls = append(calls, c2...)
						returned = returned || r2
						other = other || o2
					case *ssa.MakeClosure:
						g := cu.Fn.(*ssa.Function)
						for i, bnd := range cu.Bindings {
							if bnd != ssa.Value(cell) {
								continue
							}
							for _, fr := range *g.FreeVars[i].Referrers() {
								ld, isLd := fr.(*ssa.UnOp)
								if !isLd {
									if _, dbg := fr.(*ssa.DebugRef); !dbg {
										other = true
									}
									continue
								}
								for _, lr := range *ld.Referrers() {
									if call, isCall := lr.(*ssa.Call); !isCall || call.Call.Value != ssa.Value(ld) {
										if _, dbg := lr.(*ssa.DebugRef); !dbg {
											other = true
										}
									}
								}
							}
						}
						nested = append(nested, g)
					default:
						other = true
					}
				}
			default:
				other = true
			}
		}
		return
	}
	uses, returned, other := usesOf(mc)
	if other {
		return "", false
	}
	if !returned {
		held := heldAt(par, heldSet{})
		lp := accessPath(pbase) + "." + lock
		callersHold := -1 // unknown
		// under: every point of the parent in `ats` lies where the lock is held — locally, or (for an unexported
		// parent that relies on its callers for the lock of its own parameter) in every caller
		under := func(ats []ssa.Instruction) (string, bool) {
			okHeld := true
			for _, at := range ats {
				if held[at][lp] < mode {
					okHeld = false
				}
			}
			if okHeld {
				return "synchronously inside " + FnName(par) + " while it holds " + lock, true
			}
			if par.Parent() != nil {
				if w, ok := c06ClosureUnderLock(all, par, pbase, lock, mode, d+1); ok {
					return "synchronously inside " + FnName(par) + ", which runs only " + w, true
				}
				return "", false
			}
			if callersHold < 0 {
				callersHold = 0
				if prm := c05ParamOf(pbase); prm != nil && prm.Parent() == par {
					for i, q := range par.Params {
						if q == prm {
							if ok, _ := c06CallersHold(all, par, i, lock, mode, d+1); ok {
								callersHold = 1
							}
						}
					}
				}
			}
			if callersHold == 1 {
				return "synchronously inside " + FnName(par) + ", every caller of which holds " + lock, true
			}
			return "", false
		}
		why, ok := under(append([]ssa.Instruction{mc}, uses...))
		if !ok {
			return "", false
		}
		// closures of the parent that call f through the captured variable must themselves run only under the lock
		for _, g := range nested {
			var gmc *ssa.MakeClosure
			AllInstrs(par, func(in ssa.Instruction) {
				if m, isM := in.(*ssa.MakeClosure); isM && m.Fn == ssa.Value(g) {
					gmc = m
				}
			})
			if gmc == nil || g.Parent() != par || d > 2 {
				return "", false
			}
			n0 := len(nested)
			gu, gret, goth := usesOf(gmc)
			if gret || goth || len(nested) != n0 {
				return "", false
			}
			if _, ok := under(append([]ssa.Instruction{gmc}, gu...)); !ok {
				return "", false
			}
		}
		return why, true
	}
	if len(uses) > 0 || par.Parent() != nil {
		return "", false
	}
	prm, ok := pbase.(*ssa.Parameter)
	if !ok || par.Object() == nil || par.Object().Exported() {
		return "", false
	}
	idx := -1
	for i, q := range par.Params {
		if q == prm {
			idx = i
		}
	}
	if idx < 0 {
		return "", false
	}
	n, good := 0, true
	for _, g := range all {
		var held map[ssa.Instruction]heldSet
		AllInstrs(g, func(in ssa.Instruction) {
			for _, op := range in.Operands(nil) {
				if *op == ssa.Value(par) {
					if ci, isCall := in.(ssa.CallInstruction); !isCall || ci.Common().Value != ssa.Value(par) {
						good = false // used as a value
					}
				}
			}
			ci, isCall := in.(ssa.CallInstruction)
			if !isCall {
				return
			}
			callee := StaticCallee(ci)
			if callee == nil || (callee != par && callee.Origin() != par) {
				return
			}
			cs, isC := in.(*ssa.Call)
			if !isC || idx >= len(cs.Call.Args) {
				good = false
				return
			}
			n++
			cu, ret, oth := usesOf(cs)
			if ret || oth || len(cu) == 0 {
				good = false
				return
			}
			if held == nil {
				held = heldAt(g, heldSet{})
			}
			lp := accessPath(cs.Call.Args[idx]) + "." + lock
			for _, u := range cu {
				uc := u.(*ssa.Call)
				consumed := strip(uc.Call.Value) == ssa.Value(cs) || func() bool {
					if cv, isCT := uc.Call.Value.(*ssa.ChangeType); isCT && strip(cv) == ssa.Value(cs) {
						return true
					}
					h := StaticCallee(uc)
					return h != nil && (fnPkgPath(h) == "slices" || fnPkgPath(h) == "maps")
				}()
				if !consumed || held[u][lp] < mode {
					good = false
				}
			}
		})
	}
	if !good || n == 0 {
		return "", false
	}
	return "as an iterator that every caller of " + FnName(par) + " consumes on the spot while holding " + lock, true
}

// c06CalledFromYieldBody: a static call of f located in the body of a range-over-func loop.
func c06CalledFromYieldBody(all []*ssa.Function, f *ssa.Function) ssa.Instruction {
	var site ssa.Instruction
	for _, g := range all {
		if g.Synthetic != c05YieldSynthetic {
			continue
		}
		AllInstrs(g, func(in ssa.Instruction) {
			if ci, ok := in.(ssa.CallInstruction); ok && StaticCallee(ci) == f && site == nil {
				site = in
			}
		})
	}
	return site
}

// c06CalledUnderLock: unexported function f (never used as a value) touches
// the guarded fields of one of its parameters, and every call of f happens
// while the lock of the object passed is held: in the caller itself, in a
// closure that runs only under that lock (c06ClosureUnderLock), or in the
// callers of an unexported caller that passes its own parameter on.  Only
// claimed when some call comes from a closure — plain caller chains are
// LockCheck's own business.
func c06CalledUnderLock(all []*ssa.Function, f *ssa.Function, accs []fieldAccess, lock string, depth int) (string, bool) {
	if f.Object() == nil || f.Object().Exported() || depth > 2 {
		return "", false
	}
	need := modeR
	pidx := -1
	for _, a := range accs {
		if a.Mode > need {
			need = a.Mode
		}
		p := c05ParamOf(a.Base)
		if p == nil || p.Parent() != f {
			return "", false
		}
		for i, q := range f.Params {
			if q == p {
				if pidx >= 0 && pidx != i {
					return "", false
				}
				pidx = i
			}
		}
	}
	if pidx < 0 {
		return "", false
	}
	ok, via := c06CallersHold(all, f, pidx, lock, need, 0)
	if !ok || !via {
		return "", false
	}
	return "every call of " + FnName(f) + " happens while " + lock + " of the object passed is held (" + modeName(need, "read", "write") + " mode), some from closures that run only under that lock", true
}

// c06CallersHold: every static call of unexported function f (never used as
// a value) passes as argument #pidx an object whose lock is held at the call:
// in the caller itself, in a closure that runs only under that lock, or —
// when an unexported caller passes its own parameter on — in its callers.
// viaClosure: some call site is in a closure.
func c06CallersHold(all []*ssa.Function, f *ssa.Function, pidx int, lock string, need lockMode, d int) (bool, bool) {
	if d > 3 || f.Object() == nil || f.Object().Exported() {
		return false, false
	}
	n, good, via := 0, true, false
	for _, g := range all {
		var held map[ssa.Instruction]heldSet
		AllInstrs(g, func(in ssa.Instruction) {
			ci, isCall := in.(ssa.CallInstruction)
			if !isCall || StaticCallee(ci) != f {
				for _, op := range in.Operands(nil) {
					if *op == ssa.Value(f) && !(isCall && ci.Common().Value == ssa.Value(f)) {
						good = false // used as a value
					}
				}
				return
			}
			n++
			if _, plain := in.(*ssa.Call); !plain || pidx >= len(ci.Common().Args) {
				good = false
				return
			}
			arg := ci.Common().Args[pidx]
			ap := accessPath(arg) + "." + lock
			if held == nil {
				held = heldAt(g, heldSet{})
			}
			if held[in][ap] >= need || pathIsFresh(ap) {
				return
			}
			if g.Parent() != nil {
				if _, ok := c06ClosureUnderLock(all, g, arg, lock, need, d+1); ok {
					via = true
					return
				}
				good = false
				return
			}
			if p := c05ParamOf(arg); p != nil && p.Parent() == g {
				for i, q := range g.Params {
					if q == p {
						ok, v := c06CallersHold(all, g, i, lock, need, d+1)
						if !ok {
							good = false
						}
						via = via || v
						return
					}
				}
			}
			good = false
		})
	}
	return good && n > 0, via
}

// c06UnsafeExempt: the methods of the lock-free view type (found by role: the
// struct that wraps a *Store) that read the store's fields without s.sync.
func c06UnsafeExempt() map[string]string {
	out := map[string]string{}
	t := c05Cur.T("oci.unsafeStore")
	if t == "" {
		return out
	}
	// every declared method of the view, whatever its receiver form (T or *T)
	for _, f := range c05FuncsOfPkg(c05Cur.p, "content/oci") {
		if f.Parent() != nil || f.Synthetic != "" || f.Signature.Recv() == nil {
			continue
		}
		rt := f.Signature.Recv().Type()
		if pt, ok := rt.(*types.Pointer); ok {
			rt = pt.Elem()
		}
		if n, ok := rt.(*types.Named); ok && n.Obj().Pkg() != nil && short(n.Obj().Pkg().Path()+"."+n.Obj().Name()) == t {
			out[FnName(f)] = c06UnsafeWhy
		}
	}
	return out
}

func c06GraphSpec() GuardSpec {
	return GuardSpec{Type: "~/internal/graph.Memory", Fields: []string{c05Cur.F("graph.nodes"), c05Cur.F("graph.predecessors"), c05Cur.F("graph.successors")}, Lock: c05Cur.F("graph.lock")}
}

func c06R1(c *Ctx) {
	const R = "C06.R1.guarded-by"
	c06ConstructionExempt = map[string]string{}
	for f := range c06ConstructionOnlyFns(c) {
		c06ConstructionExempt[FnName(f)] = "construction: only called (statically, not via go/defer, never as a value) on a store that is still private to its constructor"
	}
	c.Expect(R, 55) // 67 on the pinned tree; an accessor method contributes 1-3 obligations
	// anchors: guarded fields and their mutexes must exist
	for _, sp := range append(c06GuardSpecs(), c06GraphSpec()) {
		i := strings.LastIndex(sp.Type, ".")
		if i < 0 {
			c.LostAnchor(R, "guarded type of the lock specification (state role no longer resolves)")
			continue
		}
		n := c.P.Named(sp.Type[:i], sp.Type[i+1:])
		if n == nil {
			c.LostAnchor(R, sp.Type)
			continue
		}
		st, _ := n.Underlying().(*types.Struct)
		have := map[string]bool{}
		for j := 0; st != nil && j < st.NumFields(); j++ {
			have[st.Field(j).Name()] = true
		}
		for _, f := range append(append([]string{}, sp.Fields...), sp.Lock) {
			if !have[f] {
				c.LostAnchor(R, sp.Type+"."+f)
			}
		}
	}
	pkgs := []string{"internal/resolver", "internal/graph", "content/oci", "content/file", "content/memory"}
	LockCheck(c, R, c06WithLockExempts(c, R, append(c06GuardSpecs(), c06GraphSpec()), pkgs), pkgs)
	c06UnsafeStore(c, R)
	c06BlobRemovalExclusive(c, R)
}

// c06BlobRemovalExclusive: in the methods of oci.Store, removing blobs
// (storage.Delete, os.Remove) happens only with s.sync held exclusively,
// locally or in every static caller (Delete -> delete).
// c06StoreLockHeld returns a decision procedure: is <receiver>.sync held in
// W mode at instruction `at` of method f of oci.Store — locally, or at every
// static call site of f (transitively, unexported helpers only)?
func c06StoreLockHeld(c *Ctx) func(f *ssa.Function, at ssa.Instruction, depth int) (bool, string) {
	fns := c05FuncsOfPkg(c.P, "content/oci")
	heldC := map[*ssa.Function]map[ssa.Instruction]heldSet{}
	held := func(f *ssa.Function) map[ssa.Instruction]heldSet {
		if h, ok := heldC[f]; ok {
			return h
		}
		h := heldAt(f, heldSet{})
		heldC[f] = h
		return h
	}
	var holds func(f *ssa.Function, at ssa.Instruction, depth int) (bool, string)
	holds = func(f *ssa.Function, at ssa.Instruction, depth int) (bool, string) {
		if len(f.Params) == 0 {
			return false, "no receiver"
		}
		lp := "P:" + f.Params[0].Name() + "." + c05Cur.F("oci.sync")
		if at != nil && held(f)[at][lp] >= modeW {
			return true, ""
		}
		if depth > 3 {
			return false, "caller chain too deep"
		}
		if f.Object() != nil && f.Object().Exported() {
			return false, FnName(f) + " is exported and does not hold " + lp + " exclusively"
		}
		n := 0
		for _, g := range fns {
			for _, call := range Calls(g, func(string) bool { return true }) {
				if StaticCallee(call) != f {
					continue
				}
				n++
				if _, isPlain := call.(*ssa.Call); !isPlain {
					return false, "called via go/defer from " + FnName(g)
				}
				if len(g.Params) == 0 || c05ParamOf(call.Common().Args[0]) != g.Params[0] {
					return false, "called from " + FnName(g) + " on a different store value"
				}
				if ok, why := holds(g, call.(ssa.Instruction), depth+1); !ok {
					return false, why
				}
			}
		}
		if n == 0 {
			return false, FnName(f) + " has no static caller holding the lock"
		}
		return true, ""
	}
	return holds
}

func c06BlobRemovalExclusive(c *Ctx, R string) {
	fns := c05FuncsOfPkg(c.P, "content/oci")
	holds := c06StoreLockHeld(c)
	n := 0
	for _, f := range fns {
		if f.Signature.Recv() == nil || !strings.HasSuffix(f.Signature.Recv().Type().String(), "content/oci.Store") {
			continue
		}
		for _, call := range CallsTo(f, "(*~/content/oci.Storage).Delete", "os.Remove", "os.RemoveAll") {
			n++
			ok, why := holds(f, call.(ssa.Instruction), 0)
			c.Check(R, FnName(f)+"|"+CalleeName(call)+"|blob-removal-under-exclusive-lock", call.Pos(), ok,
				ifelse(ok, "s.sync is held in W mode (locally or in every caller) where blobs are removed", "blobs are removed without exclusive access to the store ("+why+"): a concurrent Fetch/Push/Tag observes content that vanishes mid-operation"))
		}
	}
	if n == 0 {
		c.OK(R, "~/content/oci.Store|blob-removal-under-exclusive-lock", token.NoPos, "the OCI store never removes blobs")
	}
}

// c06UnsafeStore proves the exemption of unsafeStore.{Fetch,Predecessors}:
// every unsafeStore value is built from a *Store whose sync mutex is held in
// W mode at that point, and the value only flows into synchronous calls.
func c06UnsafeStore(c *Ctx, R string) {
	var us *types.Named
	if t := c05Cur.T("oci.unsafeStore"); t != "" {
		us = c.P.Named("content/oci", t[strings.LastIndex(t, ".")+1:])
	}
	if us == nil {
		c.OK(R, "unsafeStore|absent", token.NoPos, "no lock-free store view exists")
		return
	}
	n := 0
	holds := c06StoreLockHeld(c)
	for _, f := range c05ModuleFuncs(c.P) {
		var held map[ssa.Instruction]heldSet
		AllInstrs(f, func(in ssa.Instruction) {
			al, ok := in.(*ssa.Alloc)
			if !ok {
				return
			}
			pt, ok := al.Type().(*types.Pointer)
			if !ok || !types.Identical(pt.Elem(), us) {
				return
			}
			n++
			if held == nil {
				held = heldAt(f, heldSet{})
			}
			key := FnName(f) + "|unsafeStore-constructed-under-exclusive-lock"
			// the embedded *Store stored into the literal; where the view (pointer or copied value) flows
			var inner ssa.Value
			var uses []*ssa.Call
			escapes := ""
			var flows func(v ssa.Value, d int)
			flows = func(v ssa.Value, d int) {
				for _, r := range *v.Referrers() {
					switch u := r.(type) {
					case *ssa.FieldAddr:
						for _, r2 := range *u.Referrers() {
							if st, ok := r2.(*ssa.Store); ok && st.Addr == ssa.Value(u) {
								inner = st.Val
							}
						}
					case *ssa.MakeInterface:
						if d < 4 {
							flows(u, d+1)
						}
					case *ssa.ChangeType:
						if d < 4 {
							flows(u, d+1)
						}
					case *ssa.UnOp:
						// the literal is used by value: follow the copy
						if u.Op == token.MUL && u.X == v && d < 4 {
							flows(u, d+1)
						} else {
							escapes = fmt.Sprintf("used by %T", u)
						}
					case *ssa.Call:
						uses = append(uses, u)
					case *ssa.DebugRef:
					default:
						if _, isIface := v.(*ssa.MakeInterface); isIface {
							escapes = fmt.Sprintf("converted to an interface that flows into %T", u)
						} else {
							escapes = fmt.Sprintf("used by %T", u)
						}
					}
				}
			}
			flows(al, 0)
			if inner == nil {
				c.Undecided(R, key, al.Pos(), "cannot find the *Store embedded into the unsafeStore literal")
				return
			}
			lp := accessPath(inner) + "." + c05Cur.F("oci.sync")
			heldHere := func(at ssa.Instruction) bool {
				if held[at][lp] >= modeW {
					return true
				}
				// an unexported helper of the store: every caller holds the lock on the same store
				if len(f.Params) > 0 && strip(inner) == ssa.Value(f.Params[0]) {
					ok, _ := holds(f, at, 0)
					return ok
				}
				return false
			}
			ok = heldHere(al) && escapes == ""
			for _, u := range uses {
				if !heldHere(u) {
					ok = false
				}
			}
			c.Check(R, key, al.Pos(), ok,
				ifelse(ok, lp+" is held in W mode where the lock-free view is created and at every call it is handed to; the view only flows into synchronous calls",
					ifelse(escapes != "", "the lock-free view escapes the critical section: "+escapes, "a lock-free unsafeStore is created without holding "+lp+" exclusively: its Fetch/Predecessors race with Delete/GC")))
		})
	}
	if n == 0 {
		c.OK(R, "unsafeStore|never-constructed", token.NoPos, "the lock-free view is never constructed")
	}
}

// c06ConstructionOnly: fn is only called (statically) with a receiver that is
// fresh in the caller (object under construction), never exported, never
// stored as a method value.
// c06ConstructionOnlyFns: the unexported functions of content/oci that are
// only ever called on a receiver still under construction in the caller
// (never exported, never via go/defer, never taken as a value).
func c06ConstructionOnlyFns(c *Ctx) map[*ssa.Function]bool {
	out := map[*ssa.Function]bool{}
	all := c05ModuleFuncs(c.P)
	for _, fn := range c05FuncsOfPkg(c.P, "content/oci") {
		if fn.Parent() != nil || fn.Object() == nil || fn.Object().Exported() || fn.Signature.Recv() == nil {
			continue
		}
		ok, ncall := true, 0
		for _, f := range all {
			AllInstrs(f, func(in ssa.Instruction) {
				call, isCall := in.(ssa.CallInstruction)
				if isCall && StaticCallee(call) == fn {
					ncall++
					if _, isPlain := in.(*ssa.Call); !isPlain || !(pathIsFresh(accessPath(call.Common().Args[0])) || c06FreshThroughStep(f, call.Common().Args[0])) {
						ok = false
					}
					return
				}
				for _, op := range in.Operands(nil) {
					if *op == ssa.Value(fn) && !(isCall && call.Common().Value == ssa.Value(fn)) {
						ok = false
					}
				}
			})
		}
		if ok && ncall > 0 {
			out[fn] = true
		}
	}
	return out
}

// ---------------------------------------------------------------- R2 helpers

// c06Wraps: every value v may denote is the sentinel, or an error that wraps
// it so that errors.Is finds it: fmt.Errorf with the sentinel under a %w verb,
// or an in-module error constructor all of whose results are such errors
// (the sentinel may be handed to the constructor as an argument).
func c06Wraps(fn *ssa.Function, v ssa.Value, sentinel string) bool {
	return c06WrapsV(v, func(x ssa.Value) bool { return sentinelOf(strip(x)) == sentinel }, 0)
}

func c06WrapsV(v ssa.Value, isSentinel func(ssa.Value) bool, depth int) bool {
	rs := Roots(v)
	if len(rs) == 0 || depth > 3 {
		return false
	}
	for _, r := range rs {
		r = strip(r)
		if isSentinel(r) {
			continue
		}
		call, ok := r.(*ssa.Call)
		if !ok {
			return false
		}
		if CalleeName(call) == "fmt.Errorf" {
			if !c06ErrorfWraps(call, isSentinel, depth) {
				return false
			}
			continue
		}
		h := StaticCallee(call)
		if h == nil || !inModule(h) || len(h.Blocks) == 0 {
			return false
		}
		idx := ErrResultIndex(h.Signature)
		if idx < 0 {
			return false
		}
		inner := func(x ssa.Value) bool {
			x = strip(x)
			if p, isP := x.(*ssa.Parameter); isP {
				for i, q := range h.Params {
					if q == p && i < len(call.Call.Args) {
						return c06WrapsV(call.Call.Args[i], isSentinel, depth+1)
					}
				}
				return false
			}
			if u, isU := x.(*ssa.UnOp); isU {
				if _, isG := u.X.(*ssa.Global); isG {
					return isSentinel(x)
				}
			}
			return false
		}
		atoms := RetAtoms(h, idx)
		if len(atoms) == 0 {
			return false
		}
		for _, a := range atoms {
			if !c06WrapsV(a.Val, inner, depth+1) {
				return false
			}
		}
	}
	return true
}

// c06ErrorfWraps: fmt.Errorf(format, args...) with a constant format in which
// an argument that is (or wraps) the sentinel sits under a %w verb.
func c06ErrorfWraps(call *ssa.Call, isSentinel func(ssa.Value) bool, depth int) bool {
	format, ok := constString(call.Call.Args[0])
	if !ok {
		return false
	}
	var verbs []byte
	for i := 0; i < len(format); i++ {
		if format[i] != '%' {
			continue
		}
		i++
		for i < len(format) && strings.IndexByte("+-# 0123456789.*[]", format[i]) >= 0 {
			i++
		}
		if i < len(format) && format[i] != '%' {
			verbs = append(verbs, format[i])
		}
	}
	elems := c05VariadicElems(variadicArg(call))
	for i, e := range elems {
		if i >= len(verbs) || verbs[i] != 'w' {
			continue
		}
		if isSentinel(strip(e)) || c06WrapsV(e, isSentinel, depth+1) {
			return true
		}
	}
	return false
}

// c06HelperWraps is kept for callers that only need the constructor case.
func c06HelperWraps(v ssa.Value, sentinel string, depth int) bool {
	if _, ok := strip(v).(*ssa.Call); !ok {
		return false
	}
	return c06WrapsV(v, func(x ssa.Value) bool { return sentinelOf(strip(x)) == sentinel }, depth)
}

type c06Ret struct {
	Ret  *ssa.Return
	Vals []ssa.Value
}

// c06ReturnsFrom lists the Returns reachable from edge e (not crossing cut)
// with the error values they may carry on those paths.
func c06ReturnsFrom(fn *ssa.Function, e Edge, ct *cut) []c06Ret {
	idx := ErrResultIndex(fn.Signature)
	var out []c06Ret
	seen := map[*ssa.Return]map[*ssa.BasicBlock]bool{}
	c05ReachF(e.To, 0, e.From, nil, ct, c05EdgeFacts(e), func(r *ssa.Return, pred *ssa.BasicBlock) {
		if seen[r] == nil {
			seen[r] = map[*ssa.BasicBlock]bool{}
		}
		if seen[r][pred] {
			return
		}
		seen[r][pred] = true
		var vals []ssa.Value
		if idx >= 0 {
			vals = resolveAt(r.Results[idx], r.Block(), pred, r, map[ssa.Value]bool{})
		}
		out = append(out, c06Ret{r, vals})
	})
	return out
}

// c06RefusalOK: from each edge, every reachable return carries an error
// wrapping sentinel, and none of the `effects` is reachable.
func c06Refusal(c *Ctx, fn *ssa.Function, edges []Edge, sentinel string, effects []ssa.Instruction) (bool, string) {
	if len(edges) == 0 {
		return false, "the refusing test is no longer present"
	}
	for _, e := range edges {
		for _, eff := range effects {
			if reach(e.To, 0, eff, nil) {
				return false, fmt.Sprintf("after the refusing condition (edge %s) the effect at %s is still reachable", e, c.P.Pos(eff.Pos()))
			}
		}
		rets := c06ReturnsFrom(fn, e, nil)
		if len(rets) == 0 {
			return false, "no return reachable from the refusing edge"
		}
		for _, r := range rets {
			if len(r.Vals) == 0 {
				return false, "return without error value"
			}
			for _, v := range r.Vals {
				if !c06Wraps(fn, v, sentinel) {
					return false, fmt.Sprintf("the return at %s yields %s, not an error wrapping %s", c.P.Pos(r.Ret.Pos()), describe(v), sentinel)
				}
			}
		}
	}
	return true, "every path from the refusing edge returns an error wrapping " + sentinel + " and reaches no effect"
}

// c06FsEffectCalls: calls in fn that create/modify files, directly or through
// an in-module callee (depth 3).
func c06FsEffectCalls(fn *ssa.Function, isEffect func(string) bool) []ssa.Instruction {
	var out []ssa.Instruction
	for _, call := range Calls(fn, func(string) bool { return true }) {
		if _, isDefer := call.(*ssa.Defer); isDefer {
			continue
		}
		n := CalleeName(call)
		if isEffect(n) {
			out = append(out, call.(ssa.Instruction))
			continue
		}
		if g := StaticCallee(call); g != nil && inModule(g) && reachesCall(g, 3, func(n string, _ ssa.CallInstruction) bool { return isEffect(n) }) {
			out = append(out, call.(ssa.Instruction))
		}
	}
	return out
}

func c06Fn(c *Ctx, R, pkg, name string) *ssa.Function {
	f := c.P.Fn(pkg, name)
	if f == nil || len(f.Blocks) == 0 {
		c.LostAnchor(R, pkg+"."+name)
		return nil
	}
	return f
}

// ---------------------------------------------------------------- R2: cas.Memory.Push

func c06R2Memory(c *Ctx) {
	const R = "C06.R2.refuse-before-mutate"
	c.Expect(R, 36) // 38 on the pinned tree
	fn := c06Fn(c, R, "internal/cas", "Memory.Push")
	if fn == nil {
		return
	}
	tn := FnName(fn)
	onMap := func(call ssa.CallInstruction) bool {
		a := call.Common().Args
		return len(a) > 0 && c05IsFieldAddrOf(a[0], "~/internal/cas.Memory", c05Cur.F("cas.content"))
	}
	// operations on the map, sync.Map's own or forwarded by a thin wrapper type
	mapCalls := func(g *ssa.Function, method string) []*c05MapView {
		var out []*c05MapView
		for _, call := range Calls(g, func(string) bool { return true }) {
			if mv := c05MapOp(call); mv != nil && mv.Name == method && onMap(call) {
				out = append(out, mv)
			}
		}
		return out
	}
	// instructions of Push that write the map, directly or through a helper
	var writers []ssa.Instruction
	for _, call := range Calls(fn, func(string) bool { return true }) {
		n := c05MapOpName(call)
		if onMap(call) && (c05SyncMapWriters[n] || c05SyncMapRemovers[n]) {
			writers = append(writers, call.(ssa.Instruction))
		} else if h := c05Helper(call, fn); h != nil && reachesCall(h, 2, func(_ string, cc ssa.CallInstruction) bool {
			n := c05MapOpName(cc)
			return onMap(cc) && (c05SyncMapWriters[n] || c05SyncMapRemovers[n])
		}) {
			writers = append(writers, call.(ssa.Instruction))
		}
	}
	resultFact := func(method string, idx int) c05BoolFact {
		return func(g *ssa.Function) (te, fe []Edge, isVal func(ssa.Value) bool) {
			vals := map[ssa.Value]bool{}
			for _, mv := range mapCalls(g, method) {
				r := mv.Ok
				if idx == 0 {
					r = mv.Value
				}
				if r != nil {
					for a := range Aliases(r) {
						vals[a] = true
					}
				}
			}
			te, fe = BoolTests(g, vals)
			return te, fe, func(v ssa.Value) bool { return vals[v] }
		}
	}
	// fast check (optional optimisation): if present it must refuse correctly
	if present, _ := c05BoolEdges(fn, resultFact("(*sync.Map).Load", 1), 0); len(present) > 0 {
		ok, why := c06Refusal(c, fn, present, "~/errdef.ErrAlreadyExists", writers)
		c.Check(R, tn+"|fast-check-refuses", fn.Pos(), ok, why)
	}
	nLOS := 0
	for _, e := range c05TreeEnvs(c05Root(fn), 3) {
		for _, mv := range mapCalls(e.Fn, "(*sync.Map).LoadOrStore") {
			nLOS++
			if mv.Ok == nil {
				c.Violation(R, tn+"|loaded-branch-refuses", mv.Call.Pos(), "the `loaded` result of LoadOrStore is discarded: a push of existing content reports success")
			}
		}
	}
	if nLOS == 0 {
		c.Undecided(R, tn+"|loaded-branch-refuses", fn.Pos(), "Push no longer publishes with LoadOrStore (neither itself nor in a helper): the atomic refuse-or-store step is not recognised")
		return
	}
	loaded, stored := c05BoolEdges(fn, resultFact("(*sync.Map).LoadOrStore", 1), 0)
	ok, why := c06Refusal(c, fn, loaded, "~/errdef.ErrAlreadyExists", nil)
	c.Check(R, tn+"|loaded-branch-refuses", fn.Pos(), ok, why)
	ok2 := len(stored) > 0
	for _, a := range c05MaybeNilAtoms(fn) {
		if !c05AtomMustPass(a, newCut().Edges(stored...)) {
			ok2 = false
		}
	}
	c.Check(R, tn+"|nil-only-when-stored", fn.Pos(), ok2,
		ifelse(ok2, "every nil return lies behind the loaded==false edge of LoadOrStore", "Push can return nil although LoadOrStore did not store (existing content reported as freshly pushed)"))
}

// ---------------------------------------------------------------- R2: oci.Storage.Push

func c06R2OCIStorage(c *Ctx) {
	const R = "C06.R2.refuse-before-mutate"
	fn := c06Fn(c, R, "content/oci", "Storage.Push")
	if fn == nil {
		return
	}
	tn := FnName(fn)
	isCreate := func(n string) bool { return c05Creators[n] && n != "os.MkdirAll" && n != "os.Mkdir" }
	effects := c06FsEffectCalls(fn, isCreate)
	// the publication target: destination of the rename in Push or in a helper it calls
	var target ssa.Value
	for _, e := range c05TreeEnvs(c05Root(fn), 3) {
		for _, rn := range CallsTo(e.Fn, "os.Rename") {
			if w, at := e.up(rn.Common().Args[1]); at.isRoot() {
				target = w
			}
		}
	}
	if target == nil {
		c.LostAnchor(R, tn+": os.Rename whose destination is computed in Push")
		return
	}
	var hit []Edge
	var stat ssa.CallInstruction
	for _, sc := range CallsTo(fn, "os.Stat", "os.Lstat") {
		if SameValue(sc.Common().Args[0], target) {
			stat = sc
			hit = append(hit, c05NilEdgesOf(sc)...)
		}
	}
	if stat == nil {
		// the existence check extracted into a helper that receives the target (checkVacant(target, expected)): the helper
		// refuses on its Stat hit, returns nil only behind the Stat miss, Push returns its error and goes on only when nil
		for _, hc := range Calls(fn, func(string) bool { return true }) {
			h := c05Helper(hc, fn)
			if h == nil || ErrResultIndex(h.Signature) < 0 || ErrOf(hc) == nil {
				continue
			}
			type cand struct{ i int }
			var cands []cand
			for i, a := range hc.Common().Args {
				if SameValue(a, target) && i < len(h.Params) {
					cands = append(cands, cand{i})
				}
			}
			// ... or the helper computes the target itself and hands it back (prepareTarget(desc) (string, error))
			if r0 := ResultOf(hc, 0); r0 != nil && h.Signature.Results().Len() == 2 && (SameValue(r0, target) || derivesFromAny(target, Aliases(r0), 0)) {
				cands = append(cands, cand{-1})
			}
			for _, cd := range cands {
				i := cd.i
				var hHit, hMiss []Edge
				var hStat ssa.CallInstruction
				for _, sc := range CallsTo(h, "os.Stat", "os.Lstat") {
					onTarget := false
					if i >= 0 {
						onTarget = c05ParamOf(sc.Common().Args[0]) == h.Params[i]
					} else {
						for _, at := range RetAtoms(h, 0) {
							if SameValue(sc.Common().Args[0], at.Val) {
								onTarget = true
							}
						}
					}
					if onTarget {
						hStat = sc
						hHit = append(hHit, c05NilEdgesOf(sc)...)
						_, m, _ := NilTests(h, Aliases(ErrOf(sc)))
						hMiss = append(hMiss, m...)
					}
				}
				if hStat == nil {
					continue
				}
				ok, why := c06Refusal(c, h, hHit, "~/errdef.ErrAlreadyExists", c06FsEffectCalls(h, isCreate))
				if ok {
					if r := c05ErrFlow(hc, ErrFlowOpts{}); !r.OK {
						ok, why = false, "the refusal of "+FnName(h)+" is not returned by Push: "+r.Detail
					}
				}
				c.Check(R, tn+"|existing-blob-refused", hStat.Pos(), ok, why)
				ok2 := c05DeferKeepsError(h) == ""
				for _, at := range c05MaybeNilAtoms(h) {
					if !c05AtomMustPass(at, newCut().Edges(hMiss...)) {
						ok2 = false
					}
				}
				bad := ""
				for _, e := range effects {
					if !MustPass(e, newCut().Edges(c05NilEdgesOf(hc)...)) {
						ok2 = false
						bad = c.P.Pos(e.Pos())
					}
				}
				c.Check(R, tn+"|effects-only-after-stat-miss", hStat.Pos(), ok2 && len(effects) > 0,
					ifelse(ok2, fmt.Sprintf("%d file-creating effect(s) all lie behind the nil result of %s, which it gives only behind the Stat error edge", len(effects), FnName(h)), "a file-creating effect "+bad+" is reachable without the existence check"))
				return
			}
		}
		// Push's sequence as a first-error table of step closures: the existence check (helper receiving the target) is
		// made by a step that hands the helper's refusal back, the loop returns the first error, and every
		// file-creating effect sits in a later step (or behind the exhausted table)
		for _, sl := range c09StepLoops(fn) {
			fns := c09StepFns(sl)
			for i, g := range fns {
				for _, hc := range Calls(g, func(string) bool { return true }) {
					h := c05Helper(hc, g)
					if _, isCall := hc.(*ssa.Call); !isCall || h == nil || h.Parent() != nil || ErrResultIndex(h.Signature) < 0 || ErrOf(hc) == nil {
						continue
					}
					for pi, a := range hc.Common().Args {
						if pi >= len(h.Params) || !(c09Resolved(a) == target || c09SameKey(a, target)) {
							continue
						}
						var hHit, hMiss []Edge
						var hStat ssa.CallInstruction
						for _, sc := range CallsTo(h, "os.Stat", "os.Lstat") {
							if c05ParamOf(sc.Common().Args[0]) == h.Params[pi] {
								hStat = sc
								hHit = append(hHit, c05NilEdgesOf(sc)...)
								_, m, _ := NilTests(h, Aliases(ErrOf(sc)))
								hMiss = append(hMiss, m...)
							}
						}
						if hStat == nil {
							continue
						}
						ok, why := c06Refusal(c, h, hHit, "~/errdef.ErrAlreadyExists", c06FsEffectCalls(h, isCreate))
						if ok {
							if r := c05ErrFlow(hc, ErrFlowOpts{}); !r.OK {
								ok, why = false, "the refusal of "+FnName(h)+" is not returned by its step: "+r.Detail
							} else if r := c05ErrFlow(sl.Call, ErrFlowOpts{}); !r.OK {
								ok, why = false, "the error of a step is not returned by Push: "+r.Detail
							}
						}
						c.Check(R, tn+"|existing-blob-refused", hStat.Pos(), ok, why)
						ok2 := c05DeferKeepsError(h) == ""
						for _, at := range c05MaybeNilAtoms(h) {
							if !c05AtomMustPass(at, newCut().Edges(hMiss...)) {
								ok2 = false
							}
						}
						// the step reports success only when the helper did
						ct := newCut()
						c09SuccessCut(g, []ssa.Instruction{hc.(ssa.Instruction)}, ct)
						if okS, _ := c09SuccessImplies(g, ct); !okS {
							ok2 = false
						}
						n, bad := 0, ""
						for k, gk := range fns {
							for _, e := range c06FsEffectCalls(gk, isCreate) {
								n++
								if k <= i {
									ok2, bad = false, c.P.Pos(e.Pos())
								}
							}
						}
						for _, e := range effects {
							n++
							if !MustPass(e, newCut().Edges(sl.Done)) {
								ok2, bad = false, c.P.Pos(e.Pos())
							}
						}
						c.Check(R, tn+"|effects-only-after-stat-miss", hStat.Pos(), ok2 && n > 0,
							ifelse(ok2, fmt.Sprintf("%d file-creating effect(s) all lie in steps behind the one that runs %s, which returns nil only behind the Stat error edge", n, FnName(h)), "a file-creating effect "+bad+" is reachable without the existence check"))
						return
					}
				}
			}
		}
		c.Violation(R, tn+"|existing-blob-refused", fn.Pos(), "Push does not Stat the rename target any more: pushing an existing blob is not refused up front")
		return
	}
	ok, why := c06Refusal(c, fn, hit, "~/errdef.ErrAlreadyExists", effects)
	c.Check(R, tn+"|existing-blob-refused", stat.Pos(), ok, why)
	// every file-creating effect lies behind the Stat-miss edge
	_, miss, _ := NilTests(fn, Aliases(ErrOf(stat)))
	ok2 := true
	bad := ""
	for _, e := range effects {
		if !MustPass(e, newCut().Edges(miss...)) {
			ok2 = false
			bad = c.P.Pos(e.Pos())
		}
	}
	c.Check(R, tn+"|effects-only-after-stat-miss", stat.Pos(), ok2 && len(effects) > 0,
		ifelse(ok2, fmt.Sprintf("%d file-creating effect(s) all lie behind the Stat error edge", len(effects)), "a file-creating effect at "+bad+" is reachable without the existence check"))
}

// ---------------------------------------------------------------- R2: file store

func c06R2File(c *Ctx) {
	const R = "C06.R2.refuse-before-mutate"
	isFs := func(n string) bool { return fsMutators[n] && n != "(*os.File).Close" }
	writers := c05ExistsWriters(c, false)
	if len(writers) < 2 {
		c.LostAnchor(R, "functions of ~/content/file that claim a name (Push side and Add)")
	}
	for _, fn := range writers {
		tn := FnName(fn)
		effects := c06FsEffectCalls(fn, isFs)
		// also calls that record digests (Add computes and records without fs mutation for plain files)
		for _, call := range Calls(fn, func(string) bool { return true }) {
			if g := StaticCallee(call); g != nil && inModule(g) && reachesCall(g, 3, func(n string, cc ssa.CallInstruction) bool {
				return c05SyncMapWriters[n] && len(cc.Common().Args) > 0 && c05IsFieldAddrOf(cc.Common().Args[0], "~/content/file.Store", c05Cur.F("file.digestToPath"))
			}) {
				dup := false
				for _, e := range effects {
					if e == call.(ssa.Instruction) {
						dup = true
					}
				}
				if !dup {
					effects = append(effects, call.(ssa.Instruction))
				}
			}
		}
		// "the name is already claimed": a test of nameStatus.exists, here or in a boolean helper
		claimed := func(g *ssa.Function) (te, fe []Edge, isVal func(ssa.Value) bool) {
			isLoad := func(v ssa.Value) bool {
				u, ok := v.(*ssa.UnOp)
				return ok && u.Op == token.MUL && c05IsFieldAddrOf(u.X, c05Cur.T("file.nameStatus"), c05Cur.F("file.status.exists"))
			}
			for _, i := range Ifs(g) {
				cond, t, f := ifEdges(i)
				if isLoad(cond) {
					te, fe = append(te, t), append(fe, f)
				}
			}
			return te, fe, isLoad
		}
		dupE, freeE := c05BoolEdges(fn, claimed, 0)
		// the per-name lock: receivers of Lock() on a nameStatus
		statusBases := map[string]bool{}
		for _, call := range CallsTo(fn, "(*sync.RWMutex).Lock", "(*sync.Mutex).Lock") {
			if fa, ok := call.Common().Args[0].(*ssa.FieldAddr); ok && c05Cur.T("file.nameStatus") != "" && strings.HasPrefix(fieldName(fa.X.Type(), fa.Field), c05Cur.T("file.nameStatus")+".") {
				statusBases[accessPath(fa.X)] = true
			}
		}
		ok, why := c06Refusal(c, fn, dupE, "~/content/file.ErrDuplicateName", effects)
		c.Check(R, tn+"|duplicate-name-refused", fn.Pos(), ok, why)
		ok2, bad := len(effects) > 0, ""
		for _, e := range effects {
			if !MustPass(e, newCut().Edges(freeE...)) {
				ok2, bad = false, c.P.Pos(e.Pos())
			}
		}
		c.Check(R, tn+"|effects-only-for-free-name", fn.Pos(), ok2,
			ifelse(ok2, fmt.Sprintf("%d content effect(s) all lie behind the exists==false edge", len(effects)), "a content effect at "+bad+" is reachable without the duplicate-name check"))
		// check-then-act is atomic per name: the status lock taken for the check is still held (W) at every content effect
		held := heldAt(fn, heldSet{})
		ok3, bad3 := len(statusBases) > 0, "no nameStatus lock found"
		for _, e := range effects {
			okE := false
			for b := range statusBases {
				if held[e][b+"."+c05Cur.F("file.status.lock")] >= modeW {
					okE = true
				}
			}
			if !okE {
				ok3, bad3 = false, "the per-name lock is not held exclusively at the content effect at "+c.P.Pos(e.Pos())+": two concurrent pushes of one name both pass the duplicate check and both write"
			}
		}
		c.Check(R, tn+"|effects-under-name-lock", fn.Pos(), ok3, ifelse(ok3, "the per-name lock is held in W mode from the duplicate check through every content effect", bad3))
	}
	c05ExistsAfterSuccess(c, R, c05ExistsWriters(c, false))
}

// ---------------------------------------------------------------- R2: Tag

func c06R2Tag(c *Ctx) {
	const R = "C06.R2.refuse-before-mutate"
	type t struct{ pkg, name string }
	isTagEffect := func(n string) bool {
		return n == "(~/content.Tagger).Tag" || n == "(*~/internal/resolver.Memory).Tag" || n == "(~/content.TagResolver).Tag"
	}
	for _, x := range []t{{"content/memory", "Store.Tag"}, {"content/oci", "Store.Tag"}, {"content/file", "Store.Tag"}} {
		fn := c06Fn(c, R, x.pkg, x.name)
		if fn == nil {
			continue
		}
		tn := FnName(fn)
		descParam := c07DescParam(fn)
		root := c05Root(fn)
		envs := c05TreeEnvs(root, 3)
		// existence checks of the descriptor being tagged, at any level of the call tree
		existsIn := func(e *c05Env) []ssa.CallInstruction {
			var out []ssa.CallInstruction
			for _, call := range Calls(e.Fn, func(n string) bool { return strings.HasSuffix(n, ").Exists") }) {
				if _, isDefer := call.(*ssa.Defer); isDefer {
					continue
				}
				for _, a := range call.Common().Args {
					if c05IsOCIDescriptor(a.Type()) && descParam != nil {
						if w, at := e.up(a); at.isRoot() && c05ParamOf(w) == descParam {
							out = append(out, call)
						}
					}
				}
			}
			return out
		}
		present := c05PassSpec{Success: true, Edges: func(e *c05Env) []Edge {
			var out []Edge
			for _, ex := range existsIn(e) {
				if v := ResultOf(ex, 0); v != nil {
					te, _ := BoolTests(e.Fn, Aliases(v))
					out = append(out, te...)
				}
			}
			return out
		}}
		noErr := c05PassSpec{Success: true, Edges: func(e *c05Env) []Edge {
			var out []Edge
			for _, ex := range existsIn(e) {
				out = append(out, c05NilEdgesOf(ex)...)
			}
			return out
		}}
		nExists, nTags := 0, 0
		var firstExists, firstTag token.Pos
		ok := true
		effectsAt := map[*c05Env][]ssa.Instruction{}
		for _, e := range envs {
			if ex := existsIn(e); len(ex) > 0 {
				nExists += len(ex)
				if !firstExists.IsValid() || e.isRoot() {
					firstExists = ex[0].Pos()
				}
			}
			for _, call := range Calls(e.Fn, isTagEffect) {
				if _, isDefer := call.(*ssa.Defer); isDefer {
					continue
				}
				nTags++
				if !firstTag.IsValid() || e.isRoot() {
					firstTag = call.Pos()
				}
				for _, sp := range []c05PassSpec{present, noErr} {
					dominated := false
					var tgt ssa.Instruction = call.(ssa.Instruction)
					for lv := e; lv != nil; lv = lv.Parent {
						ct := c05PassCut(lv, sp)
						if (len(ct.edges) > 0 || len(ct.instrs) > 0) && MustPass(tgt, ct) {
							dominated = true
						}
						if lv.Call == nil {
							break
						}
						tgt = lv.Call.(ssa.Instruction)
					}
					if !dominated {
						ok = false
					}
				}
				var tgt ssa.Instruction = call.(ssa.Instruction)
				for lv := e; lv != nil; lv = lv.Parent {
					effectsAt[lv] = append(effectsAt[lv], tgt)
					if lv.Call == nil {
						break
					}
					tgt = lv.Call.(ssa.Instruction)
				}
			}
		}
		if nExists == 0 || nTags == 0 {
			c.Violation(R, tn+"|tag-only-existing-content", fn.Pos(), ifelse(nExists == 0, "Tag no longer checks that the described content exists (neither itself nor in a helper it calls)", "Tag no longer reaches the tag resolver"))
			continue
		}
		c.Check(R, tn+"|tag-only-existing-content", firstTag, ok,
			ifelse(ok, "the resolver's Tag lies behind Exists()==true with a nil error", "a reference can be tagged although the content's existence was not established (Resolve would name content that Fetch cannot deliver)"))
		ok2, why := true, "absent content yields an error wrapping ErrNotFound and reaches no tag effect"
		nRefusals := 0
		for _, e := range envs {
			var absent []Edge
			for _, ex := range existsIn(e) {
				if v := ResultOf(ex, 0); v != nil {
					_, fe := BoolTests(e.Fn, Aliases(v))
					absent = append(absent, fe...)
				}
			}
			if len(absent) == 0 {
				continue // the answer is merely forwarded at this level
			}
			nRefusals++
			if o, w := c06Refusal(c, e.Fn, absent, "~/errdef.ErrNotFound", effectsAt[e]); !o {
				ok2, why = false, w
			}
			for lv := e; lv.Parent != nil && lv.Call != nil; lv = lv.Parent {
				if ErrOf(lv.Call) == nil {
					ok2, why = false, "the verdict of "+FnName(lv.Fn)+" is discarded"
				} else if r := c05ErrFlow(lv.Call, ErrFlowOpts{}); !r.OK {
					ok2, why = false, r.Detail
				}
			}
		}
		if nRefusals == 0 {
			ok2, why = false, "the result of the existence check is never tested"
		}
		c.Check(R, tn+"|absent-content-is-not-found", firstExists, ok2, why)
	}
}

// ---------------------------------------------------------------- R2: Resolve

func c06R2Resolve(c *Ctx) {
	const R = "C06.R2.refuse-before-mutate"
	fn := c06Fn(c, R, "internal/resolver", "Memory.Resolve")
	if fn != nil && len(fn.Params) >= 3 {
		ref := fn.Params[len(fn.Params)-1]
		var missing []Edge
		AllInstrs(fn, func(in ssa.Instruction) {
			lk, ok := in.(*ssa.Lookup)
			if !ok || !lk.CommaOk || strip(lk.Index) != ssa.Value(ref) {
				return
			}
			if u, ok := lk.X.(*ssa.UnOp); !ok || !c05IsFieldAddrOf(u.X, "~/internal/resolver.Memory", c05Cur.F("resolver.index")) {
				return
			}
			for _, r := range *lk.Referrers() {
				if e, ok := r.(*ssa.Extract); ok && e.Index == 1 {
					_, fe := BoolTests(fn, Aliases(e))
					missing = append(missing, fe...)
				}
			}
		})
		ok, why := c06Refusal(c, fn, missing, "~/errdef.ErrNotFound", nil)
		c.Check(R, FnName(fn)+"|unknown-reference-is-not-found", fn.Pos(), ok, why)
	}
	// the stores hand the resolver's verdict on (Resolve itself or a helper it delegates to)
	type t struct {
		pkg, name string
		tol       []string
	}
	for _, x := range []t{{"content/memory", "Store.Resolve", nil}, {"content/file", "Store.Resolve", nil}, {"content/oci", "Store.Resolve", []string{"~/errdef.ErrNotFound"}}, {"content/oci", "ReadOnlyStore.Resolve", []string{"~/errdef.ErrNotFound"}}} {
		f := c06Fn(c, R, x.pkg, x.name)
		if f == nil {
			continue
		}
		n := 0
		for _, e := range c05TreeEnvs(c05Root(f), 3) {
			g := e.Fn
			for _, call := range Calls(g, func(n string) bool {
				return n == "(~/content.Resolver).Resolve" || n == "(*~/internal/resolver.Memory).Resolve"
			}) {
				n++
				r := c05ErrFlow(call, ErrFlowOpts{Tolerated: x.tol})
				okTol := true
				detail := r.How + r.Detail
				if r.OK && len(x.tol) > 0 {
					// the tolerated branch (blob lookup by digest) must itself end in resolveBlob's verdict
					al := Aliases(ErrOf(call))
					for _, te := range toleratedEdges(g, al, x.tol) {
						for _, rt := range c06ReturnsFrom(g, te, nil) {
							for _, v := range rt.Vals {
								if ErrNilStatus(v, 0) == IsNil {
									okTol = false
									detail = "after ErrNotFound from the tag resolver a path returns nil without consulting the blob store"
								}
							}
						}
					}
				}
				// the helper's verdict must reach Resolve's caller
				for lv := e; lv.Parent != nil && lv.Call != nil; lv = lv.Parent {
					if ErrOf(lv.Call) == nil {
						okTol, detail = false, "the result of "+FnName(lv.Fn)+" is discarded"
					} else if rr := c05ErrFlow(lv.Call, ErrFlowOpts{}); !rr.OK {
						okTol, detail = false, rr.Detail
					}
				}
				c.Check(R, FnName(f)+"|resolver-verdict-returned", call.Pos(), r.OK && okTol, detail)
			}
		}
		if n == 0 {
			c.Violation(R, FnName(f)+"|resolver-verdict-returned", f.Pos(), "Resolve no longer consults the tag resolver")
		}
	}
}

// ---------------------------------------------------------------- R2: resolver.Memory map semantics

// c06R2ResolverMaps: Tag always (re)binds index[reference] = desc ("Resolve
// returns the descriptor most recently tagged"); Untag of a known reference
// always removes index[reference].
func c06R2ResolverMaps(c *Ctx) {
	const R = "C06.R2.refuse-before-mutate"
	isIndex := func(v ssa.Value) bool {
		u, ok := v.(*ssa.UnOp)
		return ok && u.Op == token.MUL && c05IsFieldAddrOf(u.X, "~/internal/resolver.Memory", c05Cur.F("resolver.index"))
	}
	if fn := c06Fn(c, R, "internal/resolver", "Memory.Tag"); fn != nil {
		var ref, desc *ssa.Parameter
		for _, p := range fn.Params {
			if b, ok := p.Type().Underlying().(*types.Basic); ok && b.Kind() == types.String {
				ref = p
			}
			if c05IsOCIDescriptor(p.Type()) {
				desc = p
			}
		}
		var upd []ssa.Instruction
		AllInstrs(fn, func(in ssa.Instruction) {
			if mu, ok := in.(*ssa.MapUpdate); ok && isIndex(mu.Map) && ref != nil && strip(mu.Key) == ssa.Value(ref) && c05ParamOf(mu.Value) == desc && desc != nil {
				upd = append(upd, mu)
			}
		})
		ok := len(upd) > 0
		for _, a := range c05MaybeNilAtoms(fn) {
			if ok && !c05AtomMustPass(a, newCut().Instr(upd...)) {
				ok = false
			}
		}
		c.Check(R, FnName(fn)+"|tag-rebinds-reference", fn.Pos(), ok,
			ifelse(ok, "every successful Tag stores index[reference] = desc", "Tag can succeed without binding the reference to the new descriptor: Resolve keeps returning an older descriptor (or nothing)"))
	}
	// the inverse map: an entry tags[digest] is dropped only when its set has become empty — dropping it earlier loses the
	// other tags of that digest (TagSet/isTagged then call a tagged manifest untagged: Delete/GC remove live content)
	isTags := func(v ssa.Value) bool {
		u, ok := v.(*ssa.UnOp)
		return ok && u.Op == token.MUL && c05IsFieldAddrOf(u.X, "~/internal/resolver.Memory", c05Cur.F("resolver.tags"))
	}
	for _, name := range []string{"Memory.Tag", "Memory.Untag"} {
		fn := c.P.Fn("internal/resolver", name)
		if fn == nil || len(fn.Blocks) == 0 {
			continue
		}
		for _, e := range c05TreeEnvs(c05Root(fn), 2) {
			g := e.Fn
			for _, call := range CallsTo(g, "builtin:delete") {
				a := call.Common().Args
				if !isTags(a[0]) {
					if w, _ := e.up(a[0]); !isTags(w) {
						continue
					}
				}
				// the sets looked up under the same key in this function
				var zero []Edge
				AllInstrs(g, func(in ssa.Instruction) {
					lk, isL := in.(*ssa.Lookup)
					if !isL || !c06SameKey(lk.Index, a[1]) {
						return
					}
					if w, _ := e.up(lk.X); !isTags(lk.X) && !isTags(w) {
						return
					}
					var setv ssa.Value = lk
					if lk.CommaOk {
						for _, r := range *lk.Referrers() {
							if ex, isE := r.(*ssa.Extract); isE && ex.Index == 0 {
								setv = ex
							}
						}
					}
					zero = append(zero, lenZeroEdges(g, setv)...)
				})
				ok := len(zero) > 0 && MustPass(call.(ssa.Instruction), newCut().Edges(zero...))
				c.Check(R, FnName(fn)+"|tag-set-entry-dropped-only-when-empty", call.Pos(), ok,
					ifelse(ok, "delete(tags, digest) lies behind len(tags[digest]) == 0", "the inverse entry tags[digest] can be dropped while other references still tag that digest: TagSet reports a tagged manifest as untagged (Delete / GC remove live content)"))
			}
		}
	}
	if fn := c06Fn(c, R, "internal/resolver", "Memory.Untag"); fn != nil && len(fn.Params) >= 2 {
		ref := fn.Params[len(fn.Params)-1]
		var present []Edge
		AllInstrs(fn, func(in ssa.Instruction) {
			lk, ok := in.(*ssa.Lookup)
			if !ok || !lk.CommaOk || !isIndex(lk.X) || strip(lk.Index) != ssa.Value(ref) {
				return
			}
			for _, r := range *lk.Referrers() {
				if e, ok := r.(*ssa.Extract); ok && e.Index == 1 {
					te, _ := BoolTests(fn, Aliases(e))
					present = append(present, te...)
				}
			}
		})
		var dels []ssa.Instruction
		for _, call := range CallsTo(fn, "builtin:delete") {
			a := call.Common().Args
			if isIndex(a[0]) && strip(a[1]) == ssa.Value(ref) {
				dels = append(dels, call.(ssa.Instruction))
			}
		}
		ok := len(dels) > 0
		if len(present) > 0 {
			for _, e := range present {
				for _, r := range Returns(fn) {
					if reach(e.To, 0, r, newCut().Instr(dels...)) {
						ok = false
					}
				}
			}
		} else {
			for _, r := range Returns(fn) {
				if ReachableFromEntry(r) && !MustPass(r, newCut().Instr(dels...)) {
					ok = false
				}
			}
		}
		c.Check(R, FnName(fn)+"|untag-removes-reference", fn.Pos(), ok,
			ifelse(ok, "Untag of a known reference always deletes index[reference]", "Untag can return without removing index[reference]: Resolve still succeeds for an untagged reference"))
	}
}

// ---------------------------------------------------------------- R2: empty reference

// c06EmptyGuards returns the edges on which string parameter p is known
// non-empty and those on which it is known empty; direct tests and nil-edges
// of an in-module validator g(p) that refuses "" with ErrMissingReference.
func c06EmptyGuards(c *Ctx, fn *ssa.Function, p *ssa.Parameter) (nonEmpty, empty []Edge, via string) {
	isP := func(v ssa.Value) bool { return strip(v) == ssa.Value(p) }
	eq, ne := c05EmptyStrEdges(fn, isP)
	nonEmpty, empty = append(nonEmpty, ne...), append(empty, eq...)
	if len(eq) > 0 {
		via = "inline test"
	}
	for _, call := range Calls(fn, func(string) bool { return true }) {
		g := StaticCallee(call)
		if g == nil || !inModule(g) || len(call.Common().Args) != 1 || !isP(call.Common().Args[0]) || ErrOf(call) == nil || len(g.Params) != 1 {
			continue
		}
		geq, _ := c05EmptyStrEdges(g, func(v ssa.Value) bool { return strip(v) == ssa.Value(g.Params[0]) })
		if ok, _ := c06Refusal(c, g, geq, "~/errdef.ErrMissingReference", nil); !ok {
			continue
		}
		nilE, nonNilE, _ := NilTests(fn, Aliases(ErrOf(call)))
		nonEmpty = append(nonEmpty, nilE...)
		_ = nonNilE
		via = "validator " + FnName(g)
	}
	return
}

func c06R2EmptyRef(c *Ctx) {
	const R = "C06.R2.refuse-before-mutate"
	type t struct{ pkg, name string }
	touch := func(n string) bool {
		return hasPrefixAny(n, "(~/content.Resolver).", "(~/content.Tagger).", "(*~/internal/resolver.Memory).", "(~/content.TagResolver).")
	}
	for _, x := range []t{{"content/file", "Store.Resolve"}, {"content/file", "Store.Tag"}, {"content/oci", "Store.Resolve"}, {"content/oci", "Store.Tag"}, {"content/oci", "Store.Untag"}, {"content/oci", "ReadOnlyStore.Resolve"}} {
		fn := c06Fn(c, R, x.pkg, x.name)
		if fn == nil {
			continue
		}
		tn := FnName(fn)
		var ref *ssa.Parameter
		for _, p := range fn.Params {
			if b, ok := p.Type().Underlying().(*types.Basic); ok && b.Kind() == types.String {
				ref = p
			}
		}
		if ref == nil {
			c.LostAnchor(R, tn+": reference parameter")
			continue
		}
		root := c05Root(fn)
		envs := c05TreeEnvs(root, 3)
		// the reference as seen at each level of the call tree
		localRef := func(e *c05Env) *ssa.Parameter {
			if e.isRoot() {
				return ref
			}
			for _, q := range e.Fn.Params {
				if w, at := e.up(q); at.isRoot() && w == ssa.Value(ref) {
					return q
				}
			}
			return nil
		}
		type guard struct {
			nonEmpty, empty []Edge
			via             string
		}
		guards := map[*c05Env]guard{}
		for _, e := range envs {
			if q := localRef(e); q != nil {
				ne, em, via := c06EmptyGuards(c, e.Fn, q)
				guards[e] = guard{ne, em, via}
			}
		}
		nt := 0
		ok, bad, via := true, "the empty reference is no longer rejected", ""
		touchesAt := map[*c05Env][]ssa.Instruction{}
		for _, e := range envs {
			for _, call := range Calls(e.Fn, touch) {
				if _, isDefer := call.(*ssa.Defer); isDefer {
					continue
				}
				nt++
				// every level up to the root sees this access through the call that leads to it
				var tgt ssa.Instruction = call.(ssa.Instruction)
				dominated := false
				for lv := e; lv != nil; lv = lv.Parent {
					touchesAt[lv] = append(touchesAt[lv], tgt)
					if g, has := guards[lv]; has && len(g.nonEmpty) > 0 && MustPass(tgt, newCut().Edges(g.nonEmpty...)) {
						dominated = true
						via = g.via
					}
					if lv.Call == nil {
						break
					}
					tgt = lv.Call.(ssa.Instruction)
				}
				if !dominated {
					ok, bad = false, "the tag state is consulted/modified at "+c.P.Pos(call.Pos())+" although the reference may be empty"
				}
			}
		}
		if nt == 0 {
			ok, bad = false, "the operation no longer touches the tag state (anchor shape lost)"
		}
		if ok {
			for e, g := range guards {
				if len(g.empty) == 0 {
					continue
				}
				if ok2, why := c06Refusal(c, e.Fn, g.empty, "~/errdef.ErrMissingReference", touchesAt[e]); !ok2 {
					ok, bad = false, why
				}
			}
		}
		c.Check(R, tn+"|empty-reference-rejected-first", fn.Pos(), ok,
			ifelse(ok, fmt.Sprintf("%d tag-state access(es) lie behind the non-empty edge (%s); \"\" yields ErrMissingReference", nt, via), bad))
	}
}

// ---------------------------------------------------------------- R2: Untag of a digest

func c06R2Untag(c *Ctx) {
	const R = "C06.R2.refuse-before-mutate"
	fn := c06Fn(c, R, "content/oci", "Store.Untag")
	if fn == nil {
		return
	}
	tn := FnName(fn)
	var ref *ssa.Parameter
	for _, p := range fn.Params {
		if b, ok := p.Type().Underlying().(*types.Basic); ok && b.Kind() == types.String {
			ref = p
		}
	}
	resolves := CallsTo(fn, "(*~/internal/resolver.Memory).Resolve", "(~/content.Resolver).Resolve")
	untags := CallsTo(fn, "(*~/internal/resolver.Memory).Untag")
	if ref == nil || len(resolves) == 0 || len(untags) == 0 {
		c.LostAnchor(R, tn+": reference parameter / Resolve / Untag")
		return
	}
	// reference == resolved.Digest.String()
	isDigestStr := func(v ssa.Value) bool {
		call, ok := strip(v).(*ssa.Call)
		if !ok || (CalleeName(call) != "(digest.Digest).String" && CalleeName(call) != "builtin:string") {
			if cv, isConv := v.(*ssa.Convert); isConv {
				return c06IsResolvedDigest(cv.X, resolves)
			}
			return false
		}
		return c06IsResolvedDigest(call.Call.Args[0], resolves)
	}
	eq, ne := c05EqEdges(fn, func(v ssa.Value) bool { return strip(v) == ssa.Value(ref) }, isDigestStr)
	var ut []ssa.Instruction
	for _, u := range untags {
		ut = append(ut, u.(ssa.Instruction))
	}
	ok, why := c06Refusal(c, fn, eq, "~/errdef.ErrInvalidReference", ut)
	c.Check(R, tn+"|digest-reference-refused", fn.Pos(), ok, why)
	ok2 := len(ne) > 0
	for _, u := range ut {
		if !MustPass(u, newCut().Edges(ne...)) {
			ok2 = false
		}
		for _, rs := range resolves {
			if !MustPass(u, newCut().Edges(c05NilEdgesOf(rs)...)) {
				ok2 = false
			}
		}
	}
	c.Check(R, tn+"|untag-only-resolved-tags", fn.Pos(), ok2,
		ifelse(ok2, "tagResolver.Untag lies behind a successful Resolve and the reference!=digest edge", "the by-digest entry of a manifest can be untagged (the manifest then disappears from index.json while still stored) or an unknown tag is untagged silently"))
}

func c06IsResolvedDigest(v ssa.Value, resolves []ssa.CallInstruction) bool {
	for _, r := range Roots(v) {
		u, ok := strip(r).(*ssa.UnOp)
		if !ok {
			return false
		}
		fa, ok := u.X.(*ssa.FieldAddr)
		if !ok || c05FieldNameOf(fa.X.Type(), fa.Field) != "Digest" {
			return false
		}
		al, ok := fa.X.(*ssa.Alloc)
		if !ok {
			return false
		}
		sv := c05SingleStoredValue(al)
		e, ok := sv.(*ssa.Extract)
		if !ok || e.Index != 0 {
			return false
		}
		found := false
		for _, rs := range resolves {
			if e.Tuple == rs.Value() {
				found = true
			}
		}
		if !found {
			return false
		}
	}
	return true
}

var c06Mutants = []Mutant{
	// mutation-sweep survivors (test-green)
	{Name: "resolver-tag-drops-nonempty-old-tagset", File: "internal/resolver/memory.go", Old: "\t\t\tif len(oldTagSet) == 0 {", New: "\t\t\tif len(oldTagSet) != 0 {", Expect: "C06.R2.refuse-before-mutate|(*~/internal/resolver.Memory).Tag|tag-set-entry-dropped-only-when-empty"},
	{Name: "resolver-untag-drops-nonempty-tagset", File: "internal/resolver/memory.go", Old: "\tif len(tagSet) == 0 {", New: "\tif len(tagSet) != 0 {", Expect: "C06.R2.refuse-before-mutate|(*~/internal/resolver.Memory).Untag|tag-set-entry-dropped-only-when-empty"},
	// R4 (keeps the repository's tests green)
	{Name: "memory-tag-truncates-long-reference", File: "content/memory/memory.go", Old: "\treturn s.resolver.Tag(ctx, desc, reference)", New: "\tif len(reference) > 128 {\n\t\treference = reference[:128]\n\t}\n\treturn s.resolver.Tag(ctx, desc, reference)", Expect: "C06.R4.tag-map-agreement|(*~/content/memory.Store).Tag|binds-callers-reference-to-callers-descriptor"},
	// R3 (both keep the repository's tests green)
	{Name: "file-fetch-missing-file-reports-raw-error", File: "content/file/file.go", Old: "\t\t\tif os.IsNotExist(err) {\n\t\t\t\treturn nil, fmt.Errorf(\"%s: %s: %w\", target.Digest, target.MediaType, errdef.ErrNotFound)\n\t\t\t}\n\t\t\treturn nil, err\n\t\t}\n\n\t\treturn fp, nil", New: "\t\t\treturn nil, err\n\t\t}\n\n\t\treturn fp, nil", Expect: "C06.R3.absent-reports-not-found|(*~/content/file.Store).Fetch|os.Open"},
	{Name: "oci-resolve-blob-missing-reports-stat-error", File: "content/oci/readonlyoci.go", Old: "\t\tif errors.Is(err, fs.ErrNotExist) {\n\t\t\treturn ocispec.Descriptor{}, errdef.ErrNotFound\n\t\t}\n\t\treturn ocispec.Descriptor{}, err\n\t}\n\n\treturn ocispec.Descriptor{\n\t\tMediaType: descriptor.DefaultMediaType,", New: "\t\treturn ocispec.Descriptor{}, fmt.Errorf(\"failed to stat blob %s: %w\", dgst, err)\n\t}\n\n\treturn ocispec.Descriptor{\n\t\tMediaType: descriptor.DefaultMediaType,", Expect: "C06.R3.absent-reports-not-found|~/content/oci.resolveBlob|io/fs.Stat"},
	// R1
	{Name: "graph-yield-body-reads-nodes-unlocked", File: "internal/graph/memory.go", Old: "\tfor k := range set {\n\t\tres = append(res, m.nodes[k])\n\t}\n", New: "\tm.lock.RUnlock()\n\tfor k := range func(yield func(descriptor.Descriptor) bool) {\n\t\tfor k := range set {\n\t\t\tif !yield(k) {\n\t\t\t\treturn\n\t\t\t}\n\t\t}\n\t} {\n\t\tres = append(res, m.nodes[k])\n\t}\n\tm.lock.RLock()\n", Expect: "C06.R1.guarded-by|(*~/internal/graph.Memory).Predecessors$"},
	{Name: "resolver-tag-under-read-lock", File: "internal/resolver/memory.go", Old: "func (m *Memory) Tag(_ context.Context, desc ocispec.Descriptor, reference string) error {\n\tm.lock.Lock()\n\tdefer m.lock.Unlock()\n", New: "func (m *Memory) Tag(_ context.Context, desc ocispec.Descriptor, reference string) error {\n\tm.lock.RLock()\n\tdefer m.lock.RUnlock()\n", Expect: "C06.R1.guarded-by|(*~/internal/resolver.Memory).Tag|"},
	{Name: "resolver-map-without-lock", File: "internal/resolver/memory.go", Old: "\tm.lock.RLock()\n\tdefer m.lock.RUnlock()\n\n\treturn maps.Clone(m.index)", New: "\treturn maps.Clone(m.index)", Expect: "C06.R1.guarded-by|(*~/internal/resolver.Memory).Map|"},
	{Name: "oci-delete-under-read-lock", File: "content/oci/oci.go", Old: "\ts.sync.Lock()\n\tdefer s.sync.Unlock()\n\n\tdeleteQueue := []ocispec.Descriptor{target}", New: "\ts.sync.RLock()\n\tdefer s.sync.RUnlock()\n\n\tdeleteQueue := []ocispec.Descriptor{target}", Expect: "C06.R1.guarded-by|(*~/content/oci.Store).Delete|unsafeStore-constructed-under-exclusive-lock"},
	{Name: "oci-gc-under-read-lock", File: "content/oci/oci.go", Old: "\ts.sync.Lock()\n\tdefer s.sync.Unlock()\n\n\t// get reachable nodes by reloading the index", New: "\ts.sync.RLock()\n\tdefer s.sync.RUnlock()\n\n\t// get reachable nodes by reloading the index", Expect: "C06.R1.guarded-by|(*~/content/oci.Store).gcIndex|"},
	{Name: "oci-fetch-without-lock", File: "content/oci/oci.go", Old: "\ts.sync.RLock()\n\tdefer s.sync.RUnlock()\n\n\treturn s.storage.Fetch(ctx, target)", New: "\treturn s.storage.Fetch(ctx, target)", Expect: "C06.R1.guarded-by|(*~/content/oci.Store).Fetch|"},
	{Name: "oci-predecessors-via-unsafe-view", File: "content/oci/oci.go", Old: "\ts.sync.RLock()\n\tdefer s.sync.RUnlock()\n\n\treturn s.graph.Predecessors(ctx, node)", New: "\ts.sync.RLock()\n\tdefer s.sync.RUnlock()\n\n\treturn (&unsafeStore{s}).Predecessors(ctx, node)", Expect: "C06.R1.guarded-by|(*~/content/oci.Store).Predecessors|unsafeStore-constructed-under-exclusive-lock"},
	{Name: "oci-saveindex-without-indexlock", File: "content/oci/oci.go", Old: "\ts.indexLock.Lock()\n\tdefer s.indexLock.Unlock()\n\n", New: "", Expect: "C06.R1.guarded-by|(*~/content/oci.Store).saveIndex|~/content/oci.Store.index"},
	{Name: "file-nameexists-without-lock", File: "content/file/file.go", Old: "\tstatus.RLock()\n\tdefer status.RUnlock()\n\n", New: "", Expect: "C06.R1.guarded-by|(*~/content/file.Store).nameExists|"},
	{Name: "file-push-unlocks-before-marking", File: "content/file/file.go", Old: "\t// update the name status as existed\n\tstatus.exists = true\n\treturn nil\n}\n\n// restoreDuplicates", New: "\t// update the name status as existed\n\tstatus.Unlock()\n\tstatus.exists = true\n\tstatus.Lock()\n\treturn nil\n}\n\n// restoreDuplicates", Expect: "C06.R1.guarded-by|(*~/content/file.Store).push|"},
	{Name: "graph-exists-without-lock", File: "internal/graph/memory.go", Old: "\tm.lock.RLock()\n\tdefer m.lock.RUnlock()\n\n\tnodeKey := descriptor.FromOCI(node)\n\t_, exists := m.nodes[nodeKey]", New: "\tnodeKey := descriptor.FromOCI(node)\n\t_, exists := m.nodes[nodeKey]", Expect: "C06.R1.guarded-by|(*~/internal/graph.Memory).Exists|"},
	{Name: "oci-delete-shared-lock-no-referrers", File: "content/oci/oci.go", Old: "\ts.sync.Lock()\n\tdefer s.sync.Unlock()\n\n\tdeleteQueue := []ocispec.Descriptor{target}\n\tfor len(deleteQueue) > 0 {\n\t\thead := deleteQueue[0]\n\t\tdeleteQueue = deleteQueue[1:]\n\n\t\t// get referrers if applicable\n\t\tif s.AutoGC && descriptor.IsManifest(head) {\n\t\t\treferrers, err := registry.Referrers(ctx, &unsafeStore{s}, head, \"\")", New: "\ts.sync.RLock()\n\tdefer s.sync.RUnlock()\n\n\tdeleteQueue := []ocispec.Descriptor{target}\n\tfor len(deleteQueue) > 0 {\n\t\thead := deleteQueue[0]\n\t\tdeleteQueue = deleteQueue[1:]\n\n\t\t// get referrers if applicable\n\t\tif s.AutoGC && descriptor.IsManifest(head) {\n\t\t\treferrers, err := registry.Referrers(ctx, s, head, \"\")", Expect: "C06.R1.guarded-by|(*~/content/oci.Store).delete|(*~/content/oci.Storage).Delete|blob-removal-under-exclusive-lock"},
	{Name: "file-push-releases-name-lock-while-writing", File: "content/file/file.go", Old: "\tif needUnpack := expected.Annotations[AnnotationUnpack]; needUnpack == \"true\" && !s.SkipUnpack {\n\t\terr = s.pushDir(name, target, expected, content)\n\t} else {\n\t\terr = s.pushFile(target, expected, content)\n\t}\n", New: "\tstatus.Unlock()\n\tif needUnpack := expected.Annotations[AnnotationUnpack]; needUnpack == \"true\" && !s.SkipUnpack {\n\t\terr = s.pushDir(name, target, expected, content)\n\t} else {\n\t\terr = s.pushFile(target, expected, content)\n\t}\n\tstatus.Lock()\n", Expect: "C06.R2.refuse-before-mutate|(*~/content/file.Store).push|effects-under-name-lock"},
	// R2
	{Name: "memory-existing-reported-as-pushed", File: "internal/cas/memory.go", Old: "\tif _, exists := m.content.LoadOrStore(key, value); exists {\n\t\treturn fmt.Errorf(\"%s: %s: %w\", key.Digest, key.MediaType, errdef.ErrAlreadyExists)\n\t}\n\treturn nil", New: "\tm.content.LoadOrStore(key, value)\n\treturn nil", Expect: "C06.R2.refuse-before-mutate|(*~/internal/cas.Memory).Push|"},
	{Name: "memory-loaded-error-not-wrapped", File: "internal/cas/memory.go", Old: "\tif _, exists := m.content.LoadOrStore(key, value); exists {\n\t\treturn fmt.Errorf(\"%s: %s: %w\", key.Digest, key.MediaType, errdef.ErrAlreadyExists)", New: "\tif _, exists := m.content.LoadOrStore(key, value); exists {\n\t\treturn fmt.Errorf(\"%s: %s: %v\", key.Digest, key.MediaType, errdef.ErrAlreadyExists)", Expect: "C06.R2.refuse-before-mutate|(*~/internal/cas.Memory).Push|loaded-branch-refuses"},
	{Name: "memory-fast-check-returns-nil", File: "internal/cas/memory.go", Old: "\tif _, exists := m.content.Load(key); exists {\n\t\treturn fmt.Errorf(\"%s: %s: %w\", key.Digest, key.MediaType, errdef.ErrAlreadyExists)\n\t}\n\n\t// read and try", New: "\tif _, exists := m.content.Load(key); exists {\n\t\treturn nil\n\t}\n\n\t// read and try", Expect: "C06.R2.refuse-before-mutate|(*~/internal/cas.Memory).Push|fast-check-refuses"},
	{Name: "oci-storage-no-existence-check", File: "content/oci/storage.go", Old: "\tif _, err := os.Stat(target); err == nil {\n\t\treturn fmt.Errorf(\"%s: %s: %w\", expected.Digest, expected.MediaType, errdef.ErrAlreadyExists)\n\t} else if !os.IsNotExist(err) {\n\t\treturn err\n\t}\n", New: "", Expect: "C06.R2.refuse-before-mutate|(*~/content/oci.Storage).Push|existing-blob-refused"},
	{Name: "oci-storage-ingest-before-check", File: "content/oci/storage.go", Old: "\tif _, err := os.Stat(target); err == nil {\n\t\treturn fmt.Errorf(\"%s: %s: %w\", expected.Digest, expected.MediaType, errdef.ErrAlreadyExists)\n\t} else if !os.IsNotExist(err) {\n\t\treturn err\n\t}\n\n\tif err := ensureDir(filepath.Dir(target)); err != nil {\n\t\treturn err\n\t}\n\n\t// write the content to a temporary ingest file.\n\tingest, err := s.ingest(expected, content)\n\tif err != nil {\n\t\treturn err\n\t}\n", New: "\tif err := ensureDir(filepath.Dir(target)); err != nil {\n\t\treturn err\n\t}\n\n\t// write the content to a temporary ingest file.\n\tingest, err := s.ingest(expected, content)\n\tif err != nil {\n\t\treturn err\n\t}\n\tif _, err := os.Stat(target); err == nil {\n\t\treturn fmt.Errorf(\"%s: %s: %w\", expected.Digest, expected.MediaType, errdef.ErrAlreadyExists)\n\t} else if !os.IsNotExist(err) {\n\t\treturn err\n\t}\n", Expect: "C06.R2.refuse-before-mutate|(*~/content/oci.Storage).Push|effects-only-after-stat-miss"},
	{Name: "file-push-duplicate-name-overwrites", File: "content/file/file.go", Old: "\tif status.exists {\n\t\treturn fmt.Errorf(\"%s: %w\", name, ErrDuplicateName)\n\t}\n\n\ttarget, err := s.resolveWritePath(name)", New: "\ttarget, err := s.resolveWritePath(name)", Expect: "C06.R2.refuse-before-mutate|(*~/content/file.Store).push|"},
	{Name: "file-add-marks-name-before-stat", File: "content/file/file.go", Old: "\tif path == \"\" {\n\t\tpath = name\n\t}\n", New: "\tstatus.exists = true\n\tif path == \"\" {\n\t\tpath = name\n\t}\n", Expect: "C06.R2.refuse-before-mutate|(*~/content/file.Store).Add|exists-set-only-after-success"},
	{Name: "memory-tag-absent-content", File: "content/memory/memory.go", Old: "\tif !exists {\n\t\treturn fmt.Errorf(\"%s: %s: %w\", desc.Digest, desc.MediaType, errdef.ErrNotFound)\n\t}\n\treturn s.resolver.Tag(ctx, desc, reference)", New: "\tif !exists && reference == \"\" {\n\t\treturn fmt.Errorf(\"%s: %s: %w\", desc.Digest, desc.MediaType, errdef.ErrNotFound)\n\t}\n\treturn s.resolver.Tag(ctx, desc, reference)", Expect: "C06.R2.refuse-before-mutate|(*~/content/memory.Store).Tag|tag-only-existing-content"},
	{Name: "file-tag-ignores-exists-error", File: "content/file/file.go", Old: "\texists, err := s.Exists(ctx, desc)\n\tif err != nil {\n\t\treturn err\n\t}\n\tif !exists {\n\t\treturn fmt.Errorf(\"%s: %s: %w\", desc.Digest, desc.MediaType, errdef.ErrNotFound)\n\t}\n\n\treturn s.resolver.Tag(ctx, desc, ref)", New: "\texists, err := s.Exists(ctx, desc)\n\tif !exists && err == nil {\n\t\treturn fmt.Errorf(\"%s: %s: %w\", desc.Digest, desc.MediaType, errdef.ErrNotFound)\n\t}\n\n\treturn s.resolver.Tag(ctx, desc, ref)", Expect: "C06.R2.refuse-before-mutate|(*~/content/file.Store).Tag|tag-only-existing-content"},
	{Name: "resolver-unknown-reference-zero-descriptor", File: "internal/resolver/memory.go", Old: "\tif !ok {\n\t\treturn ocispec.Descriptor{}, fmt.Errorf(\"%s: %w\", reference, errdef.ErrNotFound)\n\t}\n\treturn desc, nil", New: "\tif !ok && reference == \"\" {\n\t\treturn ocispec.Descriptor{}, fmt.Errorf(\"%s: %w\", reference, errdef.ErrNotFound)\n\t}\n\treturn desc, nil", Expect: "C06.R2.refuse-before-mutate|(*~/internal/resolver.Memory).Resolve|unknown-reference-is-not-found"},
	{Name: "oci-resolve-empty-reference-accepted", File: "content/oci/oci.go", Old: "\tif reference == \"\" {\n\t\treturn ocispec.Descriptor{}, errdef.ErrMissingReference\n\t}\n", New: "", Expect: "C06.R2.refuse-before-mutate|(*~/content/oci.Store).Resolve|empty-reference-rejected-first"},
	{Name: "oci-validate-reference-accepts-empty", File: "content/oci/oci.go", Old: "func validateReference(ref string) error {\n\tif ref == \"\" {\n\t\treturn errdef.ErrMissingReference\n\t}\n", New: "func validateReference(ref string) error {\n", Expect: "C06.R2.refuse-before-mutate|(*~/content/oci.Store).Tag|empty-reference-rejected-first"},
	{Name: "oci-untag-digest-allowed", File: "content/oci/oci.go", Old: "\tif reference == desc.Digest.String() {\n\t\treturn fmt.Errorf(\"reference %q is a digest and not a tag: %w\", reference, errdef.ErrInvalidReference)\n\t}\n", New: "\t_ = desc\n", Expect: "C06.R2.refuse-before-mutate|(*~/content/oci.Store).Untag|"},
	{Name: "oci-untag-unresolved-reference", File: "content/oci/oci.go", Old: "\tif err != nil {\n\t\treturn fmt.Errorf(\"resolving reference %q: %w\", reference, err)\n\t}", New: "\tif err != nil && !errors.Is(err, errdef.ErrNotFound) {\n\t\treturn fmt.Errorf(\"resolving reference %q: %w\", reference, err)\n\t}", Expect: "C06.R2.refuse-before-mutate|(*~/content/oci.Store).Untag|untag-only-resolved-tags"},
	{Name: "resolver-tag-keeps-first-binding", File: "internal/resolver/memory.go", Old: "\tm.index[reference] = desc\n", New: "\tif _, dup := m.index[reference]; !dup {\n\t\tm.index[reference] = desc\n\t}\n", Expect: "C06.R2.refuse-before-mutate|(*~/internal/resolver.Memory).Tag|tag-rebinds-reference"},
	{Name: "resolver-untag-keeps-shared-reference", File: "internal/resolver/memory.go", Old: "\tdelete(m.index, reference)\n\ttagSet := m.tags[desc.Digest]\n\ttagSet.Delete(reference)\n\tif len(tagSet) == 0 {\n", New: "\ttagSet := m.tags[desc.Digest]\n\ttagSet.Delete(reference)\n\tif len(tagSet) == 0 {\n\t\tdelete(m.index, reference)\n", Expect: "C06.R2.refuse-before-mutate|(*~/internal/resolver.Memory).Untag|untag-removes-reference"},
	{Name: "memory-store-duplicate-push-succeeds", File: "content/memory/memory.go", Old: "\tif err := s.storage.Push(ctx, expected, reader); err != nil {", New: "\tif err := s.storage.Push(ctx, expected, reader); err != nil && reader == nil {", Expect: "C06.R2.refuse-before-mutate|(*~/content/memory.Store).Push|inner-push-refusal-returned"},
	{Name: "file-push-marks-name-before-write", File: "content/file/file.go", Old: "\tif needUnpack := expected.Annotations[AnnotationUnpack]; needUnpack == \"true\" && !s.SkipUnpack {", New: "\tstatus.exists = true\n\tif needUnpack := expected.Annotations[AnnotationUnpack]; needUnpack == \"true\" && !s.SkipUnpack {", Expect: "C06.R2.refuse-before-mutate|(*~/content/file.Store).push|exists-set-only-after-success"},
	{Name: "oci-store-tags-manifest-before-push", File: "content/oci/oci.go", Old: "\tif err := s.storage.Push(ctx, expected, reader); err != nil {\n\t\treturn err\n\t}\n\tif err := s.graph.Index(ctx, s.storage, expected); err != nil {\n\t\treturn err\n\t}\n\tif descriptor.IsManifest(expected) {\n\t\t// tag by digest\n\t\treturn s.tag(ctx, expected, expected.Digest.String())\n\t}\n\treturn nil", New: "\tif descriptor.IsManifest(expected) {\n\t\t// tag by digest\n\t\tif err := s.tag(ctx, expected, expected.Digest.String()); err != nil {\n\t\t\treturn err\n\t\t}\n\t}\n\tif err := s.storage.Push(ctx, expected, reader); err != nil {\n\t\treturn err\n\t}\n\treturn s.graph.Index(ctx, s.storage, expected)", Expect: "C06.R2.refuse-before-mutate|(*~/content/oci.Store).Push|bookkeeping-only-after-successful-inner-push"},
	{Name: "oci-resolve-swallows-resolver-error", File: "content/oci/oci.go", Old: "\t\t\treturn resolveBlob(os.DirFS(s.root), reference)\n\t\t}\n\t\treturn ocispec.Descriptor{}, err", New: "\t\t\treturn resolveBlob(os.DirFS(s.root), reference)\n\t\t}\n\t\treturn ocispec.Descriptor{}, nil", Expect: "C06.R2.refuse-before-mutate|(*~/content/oci.Store).Resolve|resolver-verdict-returned"},
}

// ---------------------------------------------------------------- R3: absent content is reported as not-found

// c06R3Absent decides the sentinel discipline of "fetching absent content
// reports not-found" at the leaves that establish absence themselves:
//   - a probe of the file system (Open/Stat/Remove) in an operation on a
//     descriptor (or in the digest resolver) whose failure is tested for
//     fs.ErrNotExist: from that edge every return wraps errdef.ErrNotFound —
//     or, for an Exists-shaped function, answers (false, nil);
//   - a miss in the content map of the memory CAS, and a name of the file
//     store whose status says "not there": the same.
//
// (The converse — not-found only when absent — is C05.R5.)
func c06R3Absent(c *Ctx) {
	const R = "C06.R3.absent-reports-not-found"
	c.Expect(R, 6) // 8 on the pinned tree; probes moved into helpers without a descriptor parameter are not instances
	const nf = "~/errdef.ErrNotFound"
	isNotExist := func(v ssa.Value) bool {
		n := sentinelName(v)
		return n == "io/fs.ErrNotExist" || n == "os.ErrNotExist"
	}
	probes := map[string]bool{"os.Open": true, "os.Stat": true, "os.Lstat": true, "io/fs.Stat": true, "(io/fs.FS).Open": true, "os.Remove": true, "os.ReadFile": true, "io/fs.ReadFile": true}
	existsShaped := func(fn *ssa.Function) bool {
		r := fn.Signature.Results()
		return r.Len() == 2 && types.Identical(r.At(0).Type(), types.Typ[types.Bool])
	}
	// judge: every return reached by walk is the "absent" answer
	judge := func(fn *ssa.Function, walk func(visit func(r *ssa.Return, pred *ssa.BasicBlock))) (bool, string) {
		errIdx := ErrResultIndex(fn.Signature)
		ok, why, n := true, "", 0
		walk(func(r *ssa.Return, pred *ssa.BasicBlock) {
			n++
			vals := resolveAt(r.Results[errIdx], r.Block(), pred, r, map[ssa.Value]bool{})
			if existsShaped(fn) {
				for _, v := range vals {
					if ErrNilStatus(v, 0) != IsNil && !c06Wraps(fn, v, nf) {
						ok, why = false, "the return at "+c.P.Pos(r.Pos())+" reports "+describe(v)+" for absent content instead of (false, nil)"
					}
				}
				for _, v := range resolveAt(r.Results[0], r.Block(), pred, r, map[ssa.Value]bool{}) {
					if k, isK := v.(*ssa.Const); !isK || k.Value == nil || k.Value.String() != "false" {
						ok, why = false, "the return at "+c.P.Pos(r.Pos())+" does not answer false for absent content"
					}
				}
				return
			}
			if len(vals) == 0 {
				ok, why = false, "return without error value"
			}
			for _, v := range vals {
				if !c06Wraps(fn, v, nf) {
					ok, why = false, "the return at "+c.P.Pos(r.Pos())+" yields "+describe(v)+", not an error wrapping "+nf
				}
			}
		})
		if n == 0 {
			return false, "no return is reachable from the point where absence is established"
		}
		if ok {
			why = ifelse(existsShaped(fn), "absence is answered (false, nil)", "every return behind the point where absence is established wraps "+nf)
		}
		return ok, why
	}
	n := 0
	bp := c05BlobPathFns(c.P)
	for _, pkg := range []string{"content/oci", "content/file", "internal/cas", "content/memory"} {
		for _, fn := range c05FuncsOfPkg(c.P, pkg) {
			if ErrResultIndex(fn.Signature) < 0 || fn.Parent() != nil {
				continue
			}
			// operations that answer for a descriptor (not the publishing ones, which take the stream), and the resolver of a digest reference
			role := false
			hasReader := false
			for _, p := range fn.Params {
				if it, isI := p.Type().Underlying().(*types.Interface); isI && !c05IsOCIDescriptor(p.Type()) && it.NumMethods() > 0 && p.Type().String() == "io.Reader" {
					hasReader = true
				}
			}
			if c07DescParam(fn) != nil && !hasReader {
				role = true
			}
			if fn.Signature.Results().Len() == 2 && c05IsOCIDescriptor(fn.Signature.Results().At(0).Type()) && c07DescParam(fn) == nil {
				// resolveBlob: digest reference -> descriptor of the blob at its blob path
				for _, bc := range Calls(fn, func(string) bool { return true }) {
					if g := StaticCallee(bc); g != nil && bp[g] {
						role = true
					}
				}
			}
			if !role {
				continue
			}
			tn := FnName(fn)
			seen := map[string]int{}
			// (1) file-system probes
			for _, call := range Calls(fn, func(n string) bool { return probes[n] }) {
				if _, isDefer := call.(*ssa.Defer); isDefer {
					continue
				}
				e := ErrOf(call)
				if e == nil {
					continue
				}
				al := Aliases(e)
				var absent []Edge
				for _, i := range Ifs(fn) {
					cond, t, _ := ifEdges(i)
					cc, isCall := cond.(*ssa.Call)
					if !isCall || len(cc.Call.Args) == 0 || !al[cc.Call.Args[0]] {
						continue
					}
					switch CalleeName(cc) {
					case "os.IsNotExist":
						absent = append(absent, t)
					case "errors.Is":
						if isNotExist(cc.Call.Args[1]) {
							absent = append(absent, t)
						}
					}
				}
				eq, _ := c05EqEdges(fn, func(v ssa.Value) bool { return al[v] }, isNotExist)
				absent = append(absent, eq...)
				nm := CalleeName(call)
				// which probe establishes absence depends on what the operation answers: a reader (content, bool or descriptor
				// result) by opening / stat-ing, an error-only operation (Delete) by the removal itself
				if fn.Signature.Results().Len() == 1 && nm != "os.Remove" {
					continue
				}
				if rs := fn.Signature.Results(); rs.Len() == 2 && !(existsShaped(fn) || types.IsInterface(rs.At(0).Type()) || c05IsOCIDescriptor(rs.At(0).Type())) {
					continue // computes something else (a target path …): not an answer about the content
				}
				if len(absent) == 0 {
					// an ignored or merely logged failure (cleanup) reports nothing
					reported := false
					for _, at := range RetAtoms(fn, ErrResultIndex(fn.Signature)) {
						if al[at.Val] || al[strip(at.Val)] || derivesFromAny(at.Val, al, 0) {
							reported = true
						}
					}
					if !reported {
						continue
					}
					// the classification may live in a helper that receives the error (notFoundOr(err, desc)); otherwise the raw
					// file-system error of a missing blob reaches the caller, who cannot tell absence from failure
					seen[nm]++
					n++
					okH, whyH := false, "the failure of "+nm+" is not tested for fs.ErrNotExist: absent content is reported with a raw file-system error instead of "+nf
					for _, hc := range Calls(fn, func(string) bool { return true }) {
						h := StaticCallee(hc)
						if h == nil || !inModule(h) || len(h.Blocks) == 0 || ErrResultIndex(h.Signature) < 0 {
							continue
						}
						for i, a := range hc.Common().Args {
							if !(al[a] || al[strip(a)]) || i >= len(h.Params) {
								continue
							}
							hal := Aliases(h.Params[i])
							var hab []Edge
							for _, ifi := range Ifs(h) {
								cond, t, _ := ifEdges(ifi)
								if cc, isCall := cond.(*ssa.Call); isCall && len(cc.Call.Args) > 0 && hal[cc.Call.Args[0]] {
									// the sentinel may be the helper's own parameter, bound to fs.ErrNotExist at this call site: asNotFound(err, fs.ErrNotExist)
									sentinelIsArg := false
									if CalleeName(cc) == "errors.Is" {
										if sp := c05ParamOf(cc.Call.Args[1]); sp != nil && sp.Parent() == h {
											for k, q := range h.Params {
												if q == sp && k < len(hc.Common().Args) && isNotExist(hc.Common().Args[k]) {
													sentinelIsArg = true
												}
											}
										}
									}
									if CalleeName(cc) == "os.IsNotExist" || (CalleeName(cc) == "errors.Is" && (isNotExist(cc.Call.Args[1]) || sentinelIsArg)) {
										hab = append(hab, t)
									}
								}
							}
							heq, _ := c05EqEdges(h, func(v ssa.Value) bool { return hal[v] }, isNotExist)
							hab = append(hab, heq...)
							if len(hab) == 0 {
								continue
							}
							if o, _ := judge(h, func(visit func(r *ssa.Return, pred *ssa.BasicBlock)) {
								for _, ed := range hab {
									c05ReachF(ed.To, 0, ed.From, nil, nil, c05EdgeFacts(ed), visit)
								}
							}); o && !existsShaped(fn) {
								if r := c05ErrFlow(hc, ErrFlowOpts{}); r.OK || func() bool {
									for _, at := range RetAtoms(fn, ErrResultIndex(fn.Signature)) {
										if at.Val == hc.Value() {
											return true
										}
									}
									return false
								}() {
									okH, whyH = true, "the failure is classified by "+FnName(h)+", which wraps "+nf+" on the fs.ErrNotExist edge"
								}
							}
						}
					}
					c.Check(R, fmt.Sprintf("%s|%s#%d", tn, nm, seen[nm]), call.Pos(), okH, whyH)
					continue
				}
				seen[nm]++
				n++
				ok, why := judge(fn, func(visit func(r *ssa.Return, pred *ssa.BasicBlock)) {
					for _, ed := range absent {
						c05ReachF(ed.To, 0, ed.From, nil, nil, c05EdgeFacts(ed), visit)
					}
				})
				c.Check(R, fmt.Sprintf("%s|%s#%d", tn, nm, seen[nm]), call.Pos(), ok, why)
			}
			// (2) misses of the content map / of the name status
			type probe struct {
				at   ssa.Instruction
				val  ssa.Value
				what string
			}
			var ps []probe
			for _, call := range Calls(fn, func(string) bool { return true }) {
				if _, isDefer := call.(*ssa.Defer); isDefer {
					continue
				}
				if mv := c05MapOp(call); mv != nil && mv.Name == "(*sync.Map).Load" && mv.Ok != nil && c05IsFieldAddrOf(mv.Recv, "~/internal/cas.Memory", c05Cur.F("cas.content")) {
					ps = append(ps, probe{call.(ssa.Instruction), mv.Ok, "content-map-miss"})
				}
				if g := StaticCallee(call); g != nil && pkg == "content/file" && fnPkgPath(g) == pkgPath("content/file") && call.Value() != nil &&
					g.Signature.Results().Len() == 1 && types.Identical(g.Signature.Results().At(0).Type(), types.Typ[types.Bool]) &&
					len(c05FieldUses([]*ssa.Function{g}, c05Cur.T("file.nameStatus"), c05Cur.F("file.status.exists"))) > 0 {
					ps = append(ps, probe{call.(ssa.Instruction), call.Value(), "unknown-name"})
				}
			}
			// only operations that answer "here is the content" / "it exists" establish absence by such a miss
			if r := fn.Signature.Results(); !(existsShaped(fn) || (r.Len() == 2 && types.IsInterface(r.At(0).Type()))) {
				ps = nil
			}
			for _, p := range ps {
				// the value is tested at all?  (a function that just hands the boolean on is judged by C05.R5)
				te, fe := BoolTests(fn, Aliases(p.val))
				tested := len(te)+len(fe) > 0
				for _, r := range *p.val.Referrers() {
					if u, isU := r.(*ssa.UnOp); isU && u.Op == token.NOT {
						tested = true
					}
				}
				if !tested {
					continue
				}
				seen[p.what]++
				n++
				ok, why := judge(fn, func(visit func(r *ssa.Return, pred *ssa.BasicBlock)) {
					f := c05NewFacts()
					for a := range Aliases(p.val) {
						f.isTrue[a] = false
					}
					c05ReachF(p.at.Block(), instrIndex(p.at)+1, nil, nil, nil, f, visit)
				})
				c.Check(R, fmt.Sprintf("%s|%s#%d", tn, p.what, seen[p.what]), p.at.Pos(), ok, why)
			}
		}
	}
	if n == 0 {
		c.LostAnchor(R, "operations that establish absence of content (file-system probes tested for fs.ErrNotExist, content-map misses)")
	}
}

// ---------------------------------------------------------------- R4: the stores and their tag map agree on reference and descriptor

// c06R4Agreement: "Resolve returns the descriptor most recently tagged": a
// store's Tag binds, in its tag resolver, exactly the caller's reference to
// the caller's descriptor on every successful path (the only other binding
// allowed is the descriptor's own digest string -> the same descriptor), and
// a store's Resolve asks the resolver for exactly the caller's reference.
func c06R4Agreement(c *Ctx) {
	const R = "C06.R4.tag-map-agreement"
	c.Expect(R, 6)
	isTagEffect := func(n string) bool {
		return n == "(~/content.Tagger).Tag" || n == "(*~/internal/resolver.Memory).Tag" || n == "(~/content.TagResolver).Tag"
	}
	strParam := func(fn *ssa.Function) *ssa.Parameter {
		var p *ssa.Parameter
		for _, q := range fn.Params {
			if b, ok := q.Type().Underlying().(*types.Basic); ok && b.Kind() == types.String {
				p = q
			}
		}
		return p
	}
	type t struct{ pkg, name string }
	for _, x := range []t{{"content/memory", "Store.Tag"}, {"content/oci", "Store.Tag"}, {"content/file", "Store.Tag"}} {
		fn := c06Fn(c, R, x.pkg, x.name)
		if fn == nil {
			continue
		}
		tn := FnName(fn)
		desc, ref := c07DescParam(fn), strParam(fn)
		if desc == nil || ref == nil {
			c.LostAnchor(R, tn+": descriptor and reference parameters")
			continue
		}
		root := c05Root(fn)
		isDesc := func(v ssa.Value, e *c05Env) bool {
			w, at := e.up(v)
			return at.isRoot() && c05DescSource(w) == desc
		}
		okOthers, whyOthers := true, ""
		tableBinds := false
		isSelfDigest := func(r ssa.Value, rat *c05Env) bool {
			rs := Roots(r)
			for _, rr := range rs {
				sc, isC := strip(rr).(*ssa.Call)
				if !isC || CalleeName(sc) != "(digest.Digest).String" || len(sc.Call.Args) != 1 {
					return false
				}
				p := c05FieldOfParam(sc.Call.Args[0], "Digest")
				if p == nil {
					return false
				}
				if w, wat := rat.up(p); !wat.isRoot() || w != ssa.Value(desc) {
					return false
				}
			}
			return len(rs) > 0
		}
		binding := c05PassSpec{Success: true, Instr: func(in ssa.Instruction, e *c05Env) bool {
			call, ok := in.(*ssa.Call)
			if !ok || !isTagEffect(CalleeName(call)) {
				return false
			}
			a := call.Call.Args
			if len(a) < 2 {
				return false
			}
			r, rat := e.up(a[len(a)-1])
			return rat.isRoot() && strip(r) == ssa.Value(ref) && isDesc(a[len(a)-2], e)
		}}
		for _, e := range c05TreeEnvs(root, 3) {
			for _, call := range Calls(e.Fn, isTagEffect) {
				if binding.Instr(call.(ssa.Instruction), e) {
					continue
				}
				a := call.Common().Args
				// the descriptor's own digest string -> the same descriptor
				self := false
				if len(a) >= 2 && isDesc(a[len(a)-2], e) {
					r, rat := e.up(a[len(a)-1])
					self = isSelfDigest(r, rat)
				}
				// `for _, ref := range slices.Compact([]string{desc.Digest.String(), reference}) { Tag(desc, ref) }`: the reference is
				// the current element of a loop over a literal table of allowed references
				if !self && len(a) >= 2 && isDesc(a[len(a)-2], e) {
					for _, it := range c05ItersIn(e) {
						if it.Loop == nil || it.slice == nil || !it.IsElem(a[len(a)-1], e, "val") {
							continue
						}
						tbl, tat := e.up(it.slice)
						elems, okEl := c06SliceElems(tbl, 0)
						allAllowed, hasRef := okEl && len(elems) > 0, false
						for _, el := range elems {
							w, wat := tat.up(el)
							switch {
							case wat.isRoot() && strip(w) == ssa.Value(ref):
								hasRef = true
							case isSelfDigest(w, wat):
							default:
								allAllowed = false
							}
						}
						if !allAllowed {
							continue
						}
						self = true
						if hasRef && it.Exact() {
							callSpec := c05PassSpec{Success: true, Instr: func(in ssa.Instruction, _ *c05Env) bool { return in == call.(ssa.Instruction) }}
							entrySpec := c05PassSpec{Success: true, Instr: func(in ssa.Instruction, e2 *c05Env) bool { return in == it.Entry() && e2.Fn == it.In.Fn }}
							if !it.Skips(callSpec) && c05SuccessPasses(root, entrySpec) {
								tableBinds = true
							}
						}
					}
				}
				if !self {
					okOthers, whyOthers = false, "the tag effect at "+c.P.Pos(call.Pos())+" binds something other than (reference -> desc) or (desc's digest -> desc)"
				}
			}
		}
		ok := (c05SuccessPasses(root, binding) || tableBinds) && okOthers
		c.Check(R, tn+"|binds-callers-reference-to-callers-descriptor", fn.Pos(), ok,
			ifelse(ok, "every successful Tag binds the caller's reference to the caller's descriptor in the tag resolver; no other binding but the digest self-tag",
				ifelse(!okOthers, whyOthers, "Tag can succeed without binding the caller's reference to the caller's descriptor (normalised / replaced reference or descriptor): Resolve(reference) does not return what was tagged last")))
	}
	for _, x := range []t{{"content/memory", "Store.Resolve"}, {"content/file", "Store.Resolve"}, {"content/oci", "Store.Resolve"}, {"content/oci", "ReadOnlyStore.Resolve"}} {
		fn := c06Fn(c, R, x.pkg, x.name)
		if fn == nil {
			continue
		}
		tn := FnName(fn)
		ref := strParam(fn)
		n, ok := 0, true
		for _, e := range c05TreeEnvs(c05Root(fn), 3) {
			for _, call := range Calls(e.Fn, func(n string) bool {
				return n == "(~/content.Resolver).Resolve" || n == "(*~/internal/resolver.Memory).Resolve" || n == "(~/content.TagResolver).Resolve"
			}) {
				n++
				a := call.Common().Args
				r, rat := e.up(a[len(a)-1])
				if !(rat.isRoot() && ref != nil && strip(r) == ssa.Value(ref)) {
					ok = false
				}
			}
		}
		if n == 0 {
			continue // reported by R2 (resolver-verdict-returned)
		}
		c.Check(R, tn+"|asks-for-callers-reference", fn.Pos(), ok,
			ifelse(ok, "the tag resolver is asked for exactly the caller's reference", "Resolve asks the tag resolver for something other than the caller's reference (normalised / rewritten): it can return a descriptor tagged under a different reference"))
	}
}

// c06SliceElems: the values a slice built in this function can contain: the elements of its literal, of what was
// appended, of the slices it was cut from (s[i:j]), and of slices.Compact / slices.Clone of such — a value-set
// over-approximation (which of them are present on a given path is not decided).
func c06SliceElems(v ssa.Value, depth int) ([]ssa.Value, bool) {
	if depth > 5 {
		return nil, false
	}
	var out []ssa.Value
	for _, r := range Roots(v) {
		r = strip(r)
		switch x := r.(type) {
		case *ssa.Slice:
			if al, isA := x.X.(*ssa.Alloc); isA {
				if _, isArr := al.Type().(*types.Pointer).Elem().Underlying().(*types.Array); isArr {
					for _, ref := range *al.Referrers() {
						ia, ok := ref.(*ssa.IndexAddr)
						if !ok {
							continue
						}
						for _, r2 := range *ia.Referrers() {
							if st, isSt := r2.(*ssa.Store); isSt && st.Addr == ssa.Value(ia) {
								out = append(out, st.Val)
							}
						}
					}
					continue
				}
			}
			sub, ok := c06SliceElems(x.X, depth+1)
			if !ok {
				return nil, false
			}
			out = append(out, sub...)
		case *ssa.Call:
			switch CalleeName(x) {
			case "builtin:append":
				for _, a := range x.Call.Args {
					sub, ok := c06SliceElems(a, depth+1)
					if !ok {
						return nil, false
					}
					out = append(out, sub...)
				}
			case "slices.Compact", "slices.Clone":
				sub, ok := c06SliceElems(x.Call.Args[0], depth+1)
				if !ok {
					return nil, false
				}
				out = append(out, sub...)
			default:
				return nil, false
			}
		case *ssa.Const:
			if x.Value != nil {
				return nil, false
			}
		default:
			return nil, false
		}
	}
	return out, true
}

// c06SameKey: two key expressions denote the same value: identical, or the same field of the same struct value /
// of the same addressed struct (x.Digest evaluated twice).
func c06SameKey(a, b ssa.Value) bool {
	a, b = strip(a), strip(b)
	if a == b || SameValue(a, b) {
		return true
	}
	if fa, ok := a.(*ssa.Field); ok {
		if fb, ok := b.(*ssa.Field); ok {
			return fa.Field == fb.Field && c06SameKey(fa.X, fb.X)
		}
		return false
	}
	if la, ok := a.(*ssa.UnOp); ok && la.Op == token.MUL {
		if lb, ok := b.(*ssa.UnOp); ok && lb.Op == token.MUL {
			xa, oka := la.X.(*ssa.FieldAddr)
			xb, okb := lb.X.(*ssa.FieldAddr)
			if oka && okb {
				return xa.Field == xb.Field && (xa.X == xb.X || SameValue(xa.X, xb.X))
			}
		}
	}
	return false
}

// c06FreshThroughStep: v, in closure g, is a captured variable of the enclosing function that holds an object
// allocated there (still under construction), and g is a step of a step table of that function (it runs
// synchronously, inside the constructor).
func c06FreshThroughStep(g *ssa.Function, v ssa.Value) bool {
	par := g.Parent()
	if par == nil {
		return false
	}
	isStep := false
	for _, t := range c05StepTables(par) {
		for _, sv := range t.Steps {
			if c05StepFn(sv) == g {
				isStep = true
			}
		}
	}
	if !isStep {
		return false
	}
	ld, ok := strip(v).(*ssa.UnOp)
	if !ok || ld.Op != token.MUL {
		return false
	}
	fv, ok := ld.X.(*ssa.FreeVar)
	if !ok || freeVarWritten(g, fv) {
		return false
	}
	bs := freeVarBindings(fv)
	if len(bs) != 1 {
		return false
	}
	cell, ok := bs[0].(*ssa.Alloc)
	if !ok {
		return false
	}
	sv := c05SingleStoredValue(cell)
	return sv != nil && pathIsFresh(accessPath(sv))
}
