package main

// C03 — ExtendedCopy reaches every ancestor's graph; depth and filters bound it.
// Rules: R1 findRoots shape, R2 one tracker/proxy/limiter for all roots,
// R3 artifact-type derivation agrees across siblings, R4 annotation
// fetch-on-missing covers the manifest kinds, R5 ExtendedCopy tags the node.

import (
	"fmt"
	"go/token"
	"go/types"
	"sort"
	"strings"

	"golang.org/x/tools/go/ssa"
)

func init() {
	register(&propDef{
		ID: "C03",
		Explain: "Decided: (R1) in the predecessor DFS of ExtendedCopyGraph every popped node is, on every path to the next iteration, recorded as a root, " +
			"expanded by pushing every predecessor returned for it with depth+1, or skipped as already visited; the predecessor lookup is reached only below the depth " +
			"cut-off (current.Depth ==/>= opts.Depth under opts.Depth > 0) and the cut-off records the node; the initial push has depth 0; the default FindPredecessors is " +
			"src.Predecessors and its errors propagate; (R2) tracker, proxy and limiter handed to the per-root copy are single objects created outside the per-root closure and " +
			"the dispatched roots are the DFS result; (R3) every function that derives a descriptor's artifact type from decoded manifest content takes artifactType, falls " +
			"back to config.mediaType only when artifactType is empty (image manifests), and handles image manifest, image index and artifact manifest alike — compared across " +
			"registry.Referrers, the referrers-index update on push and the FilterArtifactType fetch path; (R4) FilterAnnotation fetches missing annotations for each of the " +
			"five manifest kinds; (R6) in the FindPredecessors wrappers installed by FilterAnnotation / FilterArtifactType the per-page Referrers callback only ever appends to " +
			"the captured accumulator, every referrer of a page and every listed predecessor reaches the keep test and is appended on its true edge, and the wrapper returns that " +
			"accumulator / the kept slice; (R5) ExtendedCopy tags the resolved node with the destination reference on every successful return (same obligation as C01.R4(e)). " +
			"The wait-before-push ordering inside each root's copy is C02.R1 and is not repeated here. NOT decided (not applicable to static analysis): the " +
			"reachability/closure statement itself, regular-expression semantics, the listing behaviour of remote sources, byte identity of copied content.",
		Run:     runC03,
		Mutants: c03Mutants,
	})
}

func runC03(c *Ctx) {
	c.NotArmed("C03.copy-ordering", "wait-before-push inside each root's copy is C02.R1; discharged under C02, not duplicated here")
	c03R1(c)
	c03R2(c)
	c03R3(c)
	c03R4(c)
	c01TagsGivenNode(c, "C03.R5.tags-given-node")
	c03R6(c)
}

// ---------- R1: findRoots shape ----------

const (
	nStackPop  = "(*~/internal/copyutil.Stack).Pop"
	nStackPush = "(*~/internal/copyutil.Stack).Push"
	nFindPred  = "field:~.ExtendedCopyGraphOptions.FindPredecessors"
)

// c03RootFinders: functions of the root package that pop the DFS stack and
// look up predecessors through the option callback (role-based anchor).
func c03RootFinders(p *Prog) []*ssa.Function {
	var out []*ssa.Function
	for _, f := range p.FuncsOfPkg("") {
		if len(CallsTo(f, nStackPop)) > 0 && len(CallsTo(f, nFindPred)) > 0 {
			out = append(out, f)
		}
	}
	return out
}

// c03LenEdges: edges on which len(s)==0 / len(s)!=0 for s == S.
func c03LenEdges(fn *ssa.Function, S ssa.Value) (zero, nonZero []Edge) {
	for _, i := range Ifs(fn) {
		cond, t, f := ifEdges(i)
		bo, ok := cond.(*ssa.BinOp)
		if !ok {
			continue
		}
		ln, ok := bo.X.(*ssa.Call)
		if !ok || CalleeName(ln) != "builtin:len" || !c01SameStrip(ln.Call.Args[0], S) {
			continue
		}
		k, ok := constInt(bo.Y)
		if !ok {
			continue
		}
		switch {
		case bo.Op == token.NEQ && k == 0, bo.Op == token.GTR && k == 0, bo.Op == token.GEQ && k == 1:
			zero, nonZero = append(zero, f), append(nonZero, t)
		case bo.Op == token.EQL && k == 0, bo.Op == token.LSS && k == 1, bo.Op == token.LEQ && k == 0:
			zero, nonZero = append(zero, t), append(nonZero, f)
		}
	}
	return
}

// c03LitField: v is the content of a local composite literal (load of an
// Alloc); returns the single value stored into field fv.
func c03LitField(v ssa.Value, fv *types.Var) ssa.Value {
	ld, ok := v.(*ssa.UnOp)
	if !ok || ld.Op != token.MUL {
		return nil
	}
	a, ok := ld.X.(*ssa.Alloc)
	if !ok {
		return nil
	}
	var val ssa.Value
	n := 0
	for _, r := range *a.Referrers() {
		fa, ok := r.(*ssa.FieldAddr)
		if !ok {
			continue
		}
		st := c01StructOf(fa.X.Type())
		if st == nil || st.Field(fa.Field) != fv {
			continue
		}
		for _, r2 := range *fa.Referrers() {
			if s, ok := r2.(*ssa.Store); ok && s.Addr == fa {
				val = s.Val
				n++
			}
		}
	}
	if n != 1 {
		return nil
	}
	return val
}

// c03ReachesMapUpdate: fn, or a module function / closure it calls (to the
// given depth), updates a map.
func c03ReachesMapUpdate(fn *ssa.Function, depth int, seen map[*ssa.Function]bool) bool {
	if fn == nil || seen[fn] || len(fn.Blocks) == 0 {
		return false
	}
	seen[fn] = true
	found := false
	AllInstrs(fn, func(in ssa.Instruction) {
		if found {
			return
		}
		switch x := in.(type) {
		case *ssa.MapUpdate:
			found = true
		case ssa.CallInstruction:
			if depth > 0 {
				if g := StaticCallee(x); g != nil && inModule(g) && c03ReachesMapUpdate(g, depth-1, seen) {
					found = true
				}
			}
		}
	})
	return found
}

func c03R1(c *Ctx) {
	const R = "C03.R1.find-roots-shape"
	c.Expect(R, 11)
	fs := c03RootFinders(c.P)
	if len(fs) == 0 {
		c.LostAnchor(R, "root finder (pops copyutil.Stack and calls ExtendedCopyGraphOptions.FindPredecessors) in package ~")
		return
	}
	depthNI := c01FieldOf(c.P, "internal/copyutil", "NodeInfo", "Depth")
	nodeNI := c01FieldOf(c.P, "internal/copyutil", "NodeInfo", "Node")
	depthOpt := c01FieldOf(c.P, "", "ExtendedCopyGraphOptions", "Depth")
	fpOpt := c01FieldOf(c.P, "", "ExtendedCopyGraphOptions", "FindPredecessors")
	if depthNI == nil || nodeNI == nil || depthOpt == nil || fpOpt == nil {
		c.LostAnchor(R, "copyutil.NodeInfo.{Node,Depth} / ExtendedCopyGraphOptions.{Depth,FindPredecessors}")
		return
	}
	for _, F := range fs {
		fname := FnName(F)
		pops := CallsTo(F, nStackPop)
		if len(pops) != 1 {
			c.Undecided(R, fname+"|dfs-loop", F.Pos(), fmt.Sprintf("%d Stack.Pop call sites: the DFS loop shape is not the confirmed one", len(pops)))
			continue
		}
		pop := pops[0]
		var dfs *Loop
		for _, l := range Loops(F) {
			if l.Contains(pop.(ssa.Instruction)) && (dfs == nil || len(l.Blocks) < len(dfs.Blocks)) {
				dfs = l
			}
		}
		if dfs == nil {
			c.Violation(R, fname+"|dfs-loop", pop.Pos(), "Stack.Pop is not inside a loop: only one node would be examined")
			continue
		}
		header := dfs.Header.Instrs[0]
		popped := ResultOf(pop, 0)
		okv := ResultOf(pop, 1)
		if popped == nil {
			c.Violation(R, fname+"|dfs-loop", pop.Pos(), "the node returned by Stack.Pop is discarded")
			continue
		}
		// program points right after a successful Pop: the ok==true edges, or (when the
		// emptiness is tested before popping) the instruction after the Pop itself
		type c03Start struct {
			b *ssa.BasicBlock
			i int
		}
		var starts []c03Start
		if okv != nil {
			okEdges, _ := BoolTests(F, Aliases(okv))
			for _, e := range okEdges {
				starts = append(starts, c03Start{e.To, 0})
			}
		}
		if len(starts) == 0 {
			starts = append(starts, c03Start{pop.Block(), instrIndex(pop.(ssa.Instruction)) + 1})
		}
		// values denoting the popped NodeInfo / its fields
		isCurrent := func(base ssa.Value) bool {
			if base == popped {
				return true
			}
			a, ok := base.(*ssa.Alloc)
			if !ok {
				return false
			}
			ss := storesTo(a)
			return len(ss) == 1 && ss[0].Val == popped
		}
		isCurField := func(v ssa.Value, fv *types.Var) bool {
			for _, r := range Roots(v) {
				p, ok := c01ValuePath(r)
				if ok && len(p.Vars) == 1 && p.Vars[0] == fv && isCurrent(p.Base) {
					return true
				}
			}
			return false
		}
		derivesCurNode := func(v ssa.Value) bool {
			return c01Slice(v, func(x ssa.Value) bool { return isCurField(x, nodeNI) })
		}
		// predecessor lookup
		fps := CallsTo(F, nFindPred)
		var fp ssa.CallInstruction
		for _, x := range fps {
			if dfs.Contains(x.(ssa.Instruction)) {
				fp = x
			}
		}
		if fp == nil || len(fps) != 1 {
			c.Undecided(R, fname+"|predecessor-lookup", F.Pos(), "expected exactly one FindPredecessors call inside the DFS loop")
			continue
		}
		preds := ResultOf(fp, 0)
		argOK := len(fp.Common().Args) > 0 && derivesCurNode(fp.Common().Args[len(fp.Common().Args)-1])
		c.Check(R, fname+"|predecessor-lookup", fp.Pos(), preds != nil && argOK,
			ifelse(preds != nil && argOK, "FindPredecessors is asked about the popped node and its result is used", "FindPredecessors is not called with the popped node, or its result is discarded"))
		if preds == nil {
			continue
		}
		r := ErrFlow(fp, ErrFlowOpts{})
		c.Check(R, fname+"|predecessor-lookup-error", fp.Pos(), r.OK, r.How+r.Detail)

		// record effect: a call (closure or function) inside the loop, other than the
		// stack/set/lookup helpers, that receives the popped node and reaches a map update;
		// or a direct map update with the popped node.
		var records []ssa.Instruction
		AllInstrs(F, func(in ssa.Instruction) {
			if !dfs.Contains(in) {
				return
			}
			switch x := in.(type) {
			case *ssa.MapUpdate:
				if derivesCurNode(x.Value) {
					records = append(records, x)
				}
			case *ssa.Call:
				n := CalleeName(x)
				if n == nStackPop || n == nStackPush || n == nFindPred {
					return
				}
				var callee *ssa.Function
				if g := StaticCallee(x); g != nil {
					callee = g
				} else {
					for _, rv := range Roots(x.Call.Value) {
						if mc, ok := rv.(*ssa.MakeClosure); ok {
							callee = mc.Fn.(*ssa.Function)
						}
					}
				}
				if callee == nil || !inModule(callee) || len(callee.Blocks) == 0 {
					return
				}
				updates := c03ReachesMapUpdate(callee, 3, map[*ssa.Function]bool{})
				gotNode := false
				for _, a := range x.Call.Args {
					if c01IsOCIDescriptor(a.Type()) && derivesCurNode(a) {
						gotNode = true
					}
				}
				if updates && gotNode {
					records = append(records, x)
				}
			}
		})
		// push loop over the predecessors
		var pushLoop *Loop
		for _, l := range Loops(F) {
			if rg, _, _, _, ok := l.RangeIndex(); ok && c01SameStrip(rg, preds) && l != dfs {
				pushLoop = l
			}
		}
		zeroE, nonZeroE := c03LenEdges(F, preds)
		// visited-skip edges: true edges of `<set>.Contains(key)` tests
		var visitedTrue []Edge
		for _, i := range Ifs(F) {
			cond, t, _ := ifEdges(i)
			if call, ok := cond.(*ssa.Call); ok && strings.HasSuffix(CalleeName(call), ".Contains") && strings.Contains(CalleeName(call), "/internal/container/set.") {
				visitedTrue = append(visitedTrue, t)
			}
		}
		if len(records) == 0 {
			c.Violation(R, fname+"|records-or-expands", pop.Pos(), "no root-recording effect (map update receiving the popped node) inside the DFS loop")
			continue
		}
		if pushLoop == nil {
			c.Violation(R, fname+"|records-or-expands", fp.Pos(), "no loop over the predecessors returned for the popped node: ancestors are never followed")
			continue
		}
		if len(nonZeroE) == 0 {
			c.Undecided(R, fname+"|records-or-expands", fp.Pos(), "no len(predecessors)==0 test recognised: cannot tell a node without predecessors (a root) from an expanded one")
			continue
		}
		_ = zeroE
		// (1a) every iteration that popped a node records it, expands it (non-empty predecessors), or skips it as visited
		bad := false
		for _, st := range starts {
			if reach(st.b, st.i, header, newCut().Instr(records...).Edges(nonZeroE...).Edges(visitedTrue...)) {
				bad = true
			}
		}
		c.Check(R, fname+"|records-or-expands", pop.Pos(), !bad,
			ifelse(!bad, "every path from a successful Pop to the next iteration records the node as root, has non-empty predecessors, or skips a visited node",
				"a path from a successful Pop reaches the next iteration without recording the node as a root and without predecessors to follow: the node's whole upward closure is lost"))
		// (1b) non-empty predecessors are all pushed
		_, _, body, _, _ := pushLoop.RangeIndex()
		var entries []Edge
		for _, p := range pushLoop.Header.Preds {
			if !pushLoop.Blocks[p] {
				entries = append(entries, Edge{p, pushLoop.Header})
			}
		}
		bad = false
		for _, e := range nonZeroE {
			if reach(e.To, 0, header, newCut().Edges(entries...).Instr(records...)) && e.To != pushLoop.Header {
				bad = true
			}
		}
		c.Check(R, fname+"|non-empty-predecessors-enter-push-loop", blockPos(pushLoop.Header), !bad,
			ifelse(!bad, "with predecessors present every path to the next iteration runs the loop over them", "a path with predecessors present skips the loop that pushes them"))
		var pushesIn []ssa.CallInstruction
		for _, p := range CallsTo(F, nStackPush) {
			if pushLoop.Contains(p.(ssa.Instruction)) {
				pushesIn = append(pushesIn, p)
			}
		}
		okPush := len(pushesIn) > 0 && !reach(body.To, 0, pushLoop.Header.Instrs[0], newCut().Calls(pushesIn).Edges(visitedTrue...))
		c.Check(R, fname+"|every-predecessor-pushed", blockPos(pushLoop.Header), okPush,
			ifelse(okPush, "each predecessor is pushed unless already visited", "an iteration over the predecessors can finish without pushing the predecessor (other than for visited ones)"))
		// (3) depths
		_, idx, _, _, _ := pushLoop.RangeIndex()
		isElem := func(v ssa.Value) bool {
			return c01Slice(v, func(x ssa.Value) bool {
				ia, ok := x.(*ssa.IndexAddr)
				return ok && c01SameStrip(ia.X, preds) && ia.Index == idx
			})
		}
		for _, p := range pushesIn {
			arg := p.Common().Args[len(p.Common().Args)-1]
			d, n := c03LitField(arg, depthNI), c03LitField(arg, nodeNI)
			if d == nil || n == nil {
				c.Undecided(R, fname+"|pushed-depth", p.Pos(), "pushed NodeInfo is not a local composite literal with one store per field")
				continue
			}
			okD := false
			if bo, ok := d.(*ssa.BinOp); ok && bo.Op == token.ADD {
				if k, ok := constInt(bo.Y); ok && k == 1 && isCurField(bo.X, depthNI) {
					okD = true
				}
				if k, ok := constInt(bo.X); ok && k == 1 && isCurField(bo.Y, depthNI) {
					okD = true
				}
			}
			okN := isElem(n)
			c.Check(R, fname+"|pushed-depth", p.Pos(), okD && okN,
				ifelse(okD && okN, "predecessors are pushed with Depth = current.Depth+1", "a predecessor is pushed with a depth other than current.Depth+1, or something else than the predecessor is pushed (the depth bound shifts)"))
		}
		nInit := 0
		for _, p := range CallsTo(F, nStackPush) {
			if dfs.Contains(p.(ssa.Instruction)) {
				continue
			}
			nInit++
			arg := p.Common().Args[len(p.Common().Args)-1]
			d, n := c03LitField(arg, depthNI), c03LitField(arg, nodeNI)
			k, isK := int64(-1), false
			if d != nil {
				k, isK = constInt(d)
			}
			isParam := n != nil && c01ParamOf(n) != nil
			ok := isK && k == 0 && isParam && c01IsOCIDescriptor(n.Type()) && MustPass(header, newCut().Instr(p.(ssa.Instruction)))
			c.Check(R, fname+"|initial-push-depth-0", p.Pos(), ok,
				ifelse(ok, "the given node is pushed with Depth 0 before the DFS loop", "the initial push does not carry the given node with Depth 0 on every path into the loop"))
		}
		if nInit == 0 {
			c.Violation(R, fname+"|initial-push-depth-0", F.Pos(), "the given node is never pushed before the DFS loop")
		}
		// (2) depth cut-off
		isOptDepth := func(v ssa.Value) bool {
			for _, r := range Roots(v) {
				if c01IsFieldValue(r, depthOpt) {
					return true
				}
			}
			return false
		}
		var limited, unlimited, cutHolds, cutNot []Edge
		var cutPos token.Pos
		strictEq := true
		offByOne := ""
		for _, i := range Ifs(F) {
			cond, t, f := ifEdges(i)
			bo, ok := cond.(*ssa.BinOp)
			if !ok {
				continue
			}
			if isOptDepth(bo.X) {
				if k, ok := constInt(bo.Y); ok {
					switch {
					case bo.Op == token.GTR && k == 0, bo.Op == token.GEQ && k == 1:
						limited, unlimited = append(limited, t), append(unlimited, f)
					case bo.Op == token.LEQ && k == 0, bo.Op == token.LSS && k == 1:
						limited, unlimited = append(limited, f), append(unlimited, t)
					}
					continue
				}
			}
			x, y, op := bo.X, bo.Y, bo.Op
			if isOptDepth(x) && !isOptDepth(y) {
				x, y = y, x
				op = map[token.Token]token.Token{token.LSS: token.GTR, token.GTR: token.LSS, token.LEQ: token.GEQ, token.GEQ: token.LEQ, token.EQL: token.EQL, token.NEQ: token.NEQ}[op]
			}
			if !isOptDepth(y) {
				continue
			}
			// x <op> opts.Depth;  current.Depth+1 > D  ==  current.Depth >= D (integers)
			if inc, isInc := x.(*ssa.BinOp); isInc && inc.Op == token.ADD && (op == token.GTR || op == token.LEQ) {
				var other ssa.Value
				if k, isK := constInt(inc.Y); isK && k == 1 {
					other = inc.X
				} else if k, isK := constInt(inc.X); isK && k == 1 {
					other = inc.Y
				}
				if other != nil && isCurField(other, depthNI) {
					x = other
					if op == token.GTR {
						op = token.GEQ
					} else {
						op = token.LSS
					}
				}
			}
			if !isCurField(x, depthNI) {
				if c01Slice(x, func(v ssa.Value) bool { return isCurField(v, depthNI) }) {
					offByOne = "the cut-off compares an expression computed from current.Depth (not current.Depth itself) with opts.Depth"
					cutPos = i.Pos()
				}
				continue
			}
			cutPos = bo.Pos()
			switch op {
			case token.EQL:
				cutHolds, cutNot = append(cutHolds, t), append(cutNot, f)
			case token.GEQ:
				cutHolds, cutNot = append(cutHolds, t), append(cutNot, f)
				strictEq = false
			case token.NEQ:
				cutHolds, cutNot = append(cutHolds, f), append(cutNot, t)
			case token.LSS:
				cutHolds, cutNot = append(cutHolds, f), append(cutNot, t)
				strictEq = false
			default:
				offByOne = "the cut-off uses " + op.String() + " between current.Depth and opts.Depth: nodes at depth opts.Depth are still expanded"
			}
		}
		_ = strictEq
		if offByOne != "" {
			c.Violation(R, fname+"|depth-cut-off", cutPos, offByOne+" (the depth bound shifts by one)")
		} else if len(cutHolds) == 0 || len(limited) == 0 {
			c.Undecided(R, fname+"|depth-cut-off", F.Pos(), "no comparison of current.Depth with opts.Depth under opts.Depth > 0 recognised")
		} else {
			// the lookup is reached only below the cut-off (or with no limit)
			ok := MustPassBetween(pop.(ssa.Instruction), fp.(ssa.Instruction), newCut().Edges(cutNot...).Edges(unlimited...))
			c.Check(R, fname+"|depth-cut-off", cutPos, ok,
				ifelse(ok, "FindPredecessors is reached only when no limit is set or current.Depth is below opts.Depth", "predecessors of a node at the depth limit can still be looked up and pushed (nodes beyond Depth are copied)"))
			bad := false
			for _, e := range cutHolds {
				if !c01MustPassEdge(e, c01CutUnion(newCut().Edges(limited...))) {
					// the cut-off edge is also taken without a limit in force
					bad = true
				}
				if reach(e.To, 0, header, newCut().Instr(records...)) {
					bad = true
				}
			}
			c.Check(R, fname+"|cut-off-records-root", cutPos, !bad,
				ifelse(!bad, "a node at the depth limit is recorded as a root (only when a limit is set)", "a node at the depth limit is dropped instead of being recorded as a root, or the cut-off applies without a limit"))
		}
		// (5) default FindPredecessors = src.Predecessors, installed only when nil
		var defStores []*ssa.Store
		AllInstrs(F, func(in ssa.Instruction) {
			if s, ok := in.(*ssa.Store); ok {
				if p, ok := c01AddrPath(s.Addr); ok && p.last() == fpOpt {
					defStores = append(defStores, s)
				}
			}
		})
		if len(defStores) == 0 {
			c.Violation(R, fname+"|default-predecessors", F.Pos(), "no default is installed for a nil FindPredecessors")
		}
		for _, s := range defStores {
			var g *ssa.Function
			switch v := s.Val.(type) {
			case *ssa.Function:
				g = v
			case *ssa.MakeClosure:
				g = v.Fn.(*ssa.Function)
			}
			ok := g != nil
			if ok {
				for _, a := range RetAtoms(g, 0) {
					ex, isEx := a.Val.(*ssa.Extract)
					if !isEx {
						ok = false
						continue
					}
					call, isCall := ex.Tuple.(*ssa.Call)
					if !isCall || CalleeName(call) != "(~/content.PredecessorFinder).Predecessors" || ex.Index != 0 {
						ok = false
						continue
					}
					if c01ParamOf(call.Call.Args[len(call.Call.Args)-1]) == nil || c01ParamOf(call.Call.Value) == nil {
						ok = false
					}
				}
			}
			fieldLoads := map[ssa.Value]bool{}
			AllInstrs(F, func(in ssa.Instruction) {
				if v, isV := in.(ssa.Value); isV && c01IsFieldValue(v, fpOpt) {
					fieldLoads[v] = true
				}
			})
			nilE, _, _ := NilTests(F, fieldLoads)
			guarded := len(nilE) > 0 && MustPass(s, newCut().Edges(nilE...))
			c.Check(R, fname+"|default-predecessors", s.Pos(), ok && guarded,
				ifelse(ok && guarded, "a nil FindPredecessors defaults to src.Predecessors(ctx, desc)", "the default FindPredecessors is not src.Predecessors of the asked node, or it overwrites a caller-supplied function"))
		}
		// the returned roots derive from the map the record effect updates
		okRoots := true
		for _, rt := range Returns(F) {
			if c01IsErrorReturn(rt, ErrResultIndex(F.Signature)) {
				continue
			}
			if !c01Slice(rt.Results[0], func(x ssa.Value) bool { _, ok := x.(*ssa.Range); return ok }) {
				okRoots = false
			}
		}
		c.Check(R, fname+"|returns-recorded-roots", F.Pos(), okRoots, "the successful result is built by ranging over the recorded-roots map")
	}
}

// ---------- R2: one tracker / proxy / limiter for all roots ----------

func c03R2(c *Ctx) {
	const R = "C03.R2.shared-copy-state"
	c.Expect(R, 4)
	E := c.P.Fn("", "ExtendedCopyGraph")
	if E == nil {
		c.LostAnchor(R, "~.ExtendedCopyGraph")
		return
	}
	copyGraphs := c01GraphCopyFns(c.P)
	if len(copyGraphs) == 0 {
		c.LostAnchor(R, "graph copy (function handing the traversal to syncutil.Go)")
		return
	}
	gos := CallsTo(E, nGo)
	if len(gos) != 1 {
		c.Undecided(R, "~.ExtendedCopyGraph|dispatch", E.Pos(), fmt.Sprintf("%d syncutil.Go call sites in ExtendedCopyGraph", len(gos)))
		return
	}
	goCall := gos[0]
	// roots = result of the root finder
	finders := map[*ssa.Function]bool{}
	for _, f := range c03RootFinders(c.P) {
		finders[f] = true
	}
	rootsOK := false
	for _, r := range Roots(variadicArg(goCall)) {
		if ex, ok := r.(*ssa.Extract); ok && ex.Index == 0 {
			if call, ok := ex.Tuple.(*ssa.Call); ok && finders[StaticCallee(call)] {
				rootsOK = true
			}
		}
	}
	c.Check(R, "~.ExtendedCopyGraph|dispatches-found-roots", goCall.Pos(), rootsOK,
		ifelse(rootsOK, "the items dispatched are the roots returned by the DFS", "the items handed to syncutil.Go are not the root finder's result"))
	perRoot, _ := c01FuncOfValue(goCall.Common().Args[2])
	if perRoot == nil || len(perRoot.Blocks) == 0 {
		c.Undecided(R, "~.ExtendedCopyGraph|per-root-closure", goCall.Pos(), "the function handed to syncutil.Go is not a closure, method value or function of the module")
		return
	}
	// the graph-copy call reached from the per-root function, directly or through module helpers (depth <= 3);
	// arguments that are helper parameters are mapped back to the values at the helper's call site
	var find func(fn *ssa.Function, subst map[*ssa.Parameter]ssa.Value, depth int) (ssa.CallInstruction, []ssa.Value)
	find = func(fn *ssa.Function, subst map[*ssa.Parameter]ssa.Value, depth int) (ssa.CallInstruction, []ssa.Value) {
		resolve := func(a ssa.Value) ssa.Value {
			if p := c01ParamOf(a); p != nil && p.Parent() == fn {
				if v, ok := subst[p]; ok {
					return v
				}
			}
			return a
		}
		for _, call := range Calls(fn, func(string) bool { return true }) {
			g := StaticCallee(call)
			if g == nil || !inModule(g) || len(g.Blocks) == 0 {
				continue
			}
			var args []ssa.Value
			for _, a := range call.Common().Args {
				args = append(args, resolve(a))
			}
			if copyGraphs[g] {
				return call, args
			}
			if depth < 3 && len(args) == len(g.Params) {
				sub := map[*ssa.Parameter]ssa.Value{}
				for i, prm := range g.Params {
					sub[prm] = args[i]
				}
				if c2, a2 := find(g, sub, depth+1); c2 != nil {
					return c2, a2
				}
			}
		}
		return nil, nil
	}
	cg, cgArgs := find(perRoot, map[*ssa.Parameter]ssa.Value{}, 0)
	if cg == nil {
		c.LostAnchor(R, "call of the graph copy (function handing the traversal to syncutil.Go) reachable from the per-root function")
		return
	}
	callee := StaticCallee(cg)
	for i, prm := range callee.Params {
		ts := prm.Type().String()
		var what string
		switch {
		case strings.HasSuffix(ts, "/internal/cas.Proxy"):
			what = "proxy"
		case strings.HasSuffix(ts, "semaphore.Weighted"):
			what = "limiter"
		case strings.HasSuffix(ts, "/internal/status.Tracker"):
			what = "tracker"
		default:
			continue
		}
		arg := cgArgs[i]
		ok, detail := false, "the "+what+" handed to the per-root copy is not a single object created once in ExtendedCopyGraph (nil or per-root values make every root use its own, so shared sub-graphs are copied twice and ordering across roots is lost)"
		if srcs, carried := c01CarriedSources(c.P, arg); carried && len(srcs) == 1 {
			if call, isCall := srcs[0].(*ssa.Call); isCall && call.Parent() == E && !Reachable(call, call) {
				ok, detail = true, "state carried into the per-root copy, assigned once from "+CalleeName(call)+" outside the per-root function"
			}
		}
		c.Check(R, "~.ExtendedCopyGraph|shared-"+what, cg.Pos(), ok, detail)
	}
}

// ---------- R3: artifact-type derivation ----------

// c03Sink is one way the artifact type of a descriptor gets fixed: a store
// into Descriptor.ArtifactType or a returned string, for one alternative of
// the value (phi edges recorded).
type c03Sink struct {
	At    ssa.Instruction // the store / return
	Edges []Edge          // phi edges selecting this alternative
	Kind  string          // "AT" manifest.artifactType, "CFG" manifest.config.mediaType, "CALL" result of module function G
	Base  ssa.Value       // decoded struct the value was read from
	G     *ssa.Function
}

func (s c03Sink) feasible(k *cut) bool {
	if !c01Feasible(s.At, k) {
		return false
	}
	for _, e := range s.Edges {
		if c01MustPassEdge(e, k) {
			return false
		}
	}
	return true
}

func (s c03Sink) guarded(c *cut) bool {
	if MustPass(s.At, c) {
		return true
	}
	for _, e := range s.Edges {
		if c01MustPassEdge(e, c) {
			return true
		}
	}
	return false
}

// c03Classify: v is manifest.artifactType ("AT") or manifest.config.mediaType ("CFG")
// of a decoded manifest struct (anything but a Descriptor).
func c03Classify(v ssa.Value) (kind string, base ssa.Value) {
	p, ok := c01ValuePath(v)
	if !ok || len(p.Vars) == 0 {
		return "", nil
	}
	n := len(p.JSON)
	if p.JSON[n-1] == "artifacttype" && n == 1 {
		if st := c01StructOf(p.Base.Type()); st != nil && !c01IsOCIDescriptor(derefType(p.Base.Type())) {
			return "AT", p.Base
		}
	}
	if n == 2 && p.JSON[0] == "config" && p.JSON[1] == "mediatype" {
		return "CFG", p.Base
	}
	return "", nil
}

func derefType(t types.Type) types.Type {
	if p, ok := t.Underlying().(*types.Pointer); ok {
		return p.Elem()
	}
	return t
}

type c03Alt struct {
	Val   ssa.Value
	Edges []Edge
}

// c03Alternatives expands v through phis (recording the selecting edges) and
// loads of scalar cells.
func c03Alternatives(v ssa.Value) []c03Alt {
	var out []c03Alt
	seen := map[ssa.Value]bool{}
	var rec func(v ssa.Value, edges []Edge, d int)
	rec = func(v ssa.Value, edges []Edge, d int) {
		if seen[v] || d > 8 {
			out = append(out, c03Alt{v, edges})
			return
		}
		seen[v] = true
		switch u := v.(type) {
		case *ssa.Phi:
			for i, e := range u.Edges {
				rec(e, append(append([]Edge{}, edges...), Edge{u.Block().Preds[i], u.Block()}), d+1)
			}
			return
		case *ssa.UnOp:
			if a := cellOf(u); a != nil {
				if _, isStruct := a.Type().(*types.Pointer).Elem().Underlying().(*types.Struct); !isStruct {
					for _, st := range ReachingStores(a, u) {
						if st != nil {
							rec(st.Val, edges, d+1)
						}
					}
					return
				}
			}
		}
		out = append(out, c03Alt{v, edges})
	}
	rec(v, nil, 0)
	return out
}

// c03SinkOf classifies one alternative fixed at instruction at.
func c03SinkOf(at ssa.Instruction, a c03Alt) (c03Sink, bool) {
	if k, b := c03Classify(a.Val); k != "" {
		return c03Sink{At: at, Edges: a.Edges, Kind: k, Base: b}, true
	}
	var call *ssa.Call
	switch u := a.Val.(type) {
	case *ssa.Call:
		call = u
	case *ssa.Extract:
		if cl, ok := u.Tuple.(*ssa.Call); ok && u.Index == 0 {
			call = cl
		}
	}
	if call != nil {
		if g := StaticCallee(call); g != nil && inModule(g) && len(g.Blocks) > 0 {
			if b, ok := g.Signature.Results().At(0).Type().Underlying().(*types.Basic); ok && b.Kind() == types.String {
				return c03Sink{At: at, Edges: a.Edges, Kind: "CALL", G: g}, true
			}
		}
	}
	return c03Sink{}, false
}

// c03ReturnSinks: classified result-0 alternatives of g.
func c03ReturnSinks(g *ssa.Function) []c03Sink {
	var out []c03Sink
	if g.Signature.Results().Len() == 0 {
		return nil
	}
	for _, a := range RetAtoms(g, 0) {
		var at ssa.Instruction = a.Ret
		if a.Store != nil && len(a.Edges) == 0 {
			at = a.Store
		}
		if s, ok := c03SinkOf(at, c03Alt{a.Val, a.Edges}); ok {
			out = append(out, s)
		}
	}
	return out
}

// c03StoreSinks: classified alternatives stored into Descriptor.ArtifactType in f.
func c03StoreSinks(f *ssa.Function, descAT *types.Var) []c03Sink {
	var out []c03Sink
	AllInstrs(f, func(in ssa.Instruction) {
		s, ok := in.(*ssa.Store)
		if !ok {
			return
		}
		p, ok := c01AddrPath(s.Addr)
		if !ok || p.last() != descAT {
			return
		}
		for _, a := range c03Alternatives(s.Val) {
			if sk, ok := c03SinkOf(s, a); ok {
				out = append(out, sk)
			}
		}
	})
	return out
}

type c03Verdict struct {
	handles map[string]bool
	prefers bool
	derives bool // has at least one sink that reads a decoded manifest (directly or through a callee)
}

func c03R3(c *Ctx) {
	const R = "C03.R3.artifact-type-derivation"
	c.Expect(R, 15)
	kinds := c01ResolveKinds(c, R)
	descAT := c01FieldOf(c.P, c01OCISpec, "Descriptor", "ArtifactType")
	descMT := c01FieldOf(c.P, c01OCISpec, "Descriptor", "MediaType")
	if kinds == nil || descAT == nil || descMT == nil {
		c.LostAnchor(R, "ocispec.Descriptor.{ArtifactType,MediaType}")
		return
	}
	isMT := func(v ssa.Value) bool { return c01IsFieldValue(v, descMT) }
	handled := []string{"image-manifest", "image-index", "artifact-manifest"}

	memo := map[*ssa.Function]*c03Verdict{}
	// derives: does g (as a string-returning helper) read a decoded manifest?
	var derives func(g *ssa.Function, d int) bool
	derives = func(g *ssa.Function, d int) bool {
		if d > 2 {
			return false
		}
		for _, s := range c03ReturnSinks(g) {
			if s.Kind != "CALL" || derives(s.G, d+1) {
				return true
			}
		}
		return false
	}
	var eval func(X *ssa.Function, sinks []c03Sink, depth int) *c03Verdict
	eval = func(X *ssa.Function, sinks []c03Sink, depth int) *c03Verdict {
		if v, ok := memo[X]; ok {
			return v
		}
		v := &c03Verdict{handles: map[string]bool{}}
		memo[X] = v
		xn := c01ClosureKey(X, "artifact-type")
		tests := c01StrTests(X, isMT)
		bases := map[ssa.Value]bool{}
		for _, t := range tests {
			if p, ok := c01ValuePath(t.Subj); ok {
				bases[p.Base] = true
			}
		}
		if len(bases) > 1 {
			c.Undecided(R, xn+"|media-type-dispatch", X.Pos(), "media types of several descriptors are compared in this function; cannot attribute the cases")
			return v
		}
		sub := func(g *ssa.Function) *c03Verdict {
			if depth > 2 {
				return &c03Verdict{handles: map[string]bool{}}
			}
			return eval(g, c03ReturnSinks(g), depth+1)
		}
		for _, kind := range handled {
			k, und := c01CaseCutP(X, tests, kinds.ByKind[kind], isMT)
			if len(und) > 0 {
				c.Undecided(R, xn+"|handles-"+kind, X.Pos(), "the dispatch goes through a predicate whose answer for this media type cannot be determined: "+strings.Join(und, ", "))
				continue
			}
			found := false
			for _, s := range sinks {
				if !s.feasible(k) {
					continue
				}
				switch {
				case s.Kind == "AT", s.Kind == "CFG" && kind == "image-manifest":
					found = true // (for image manifests the preference of artifactType is its own obligation below)
				case s.Kind == "CALL" && sub(s.G).handles[kind]:
					found = true
				}
			}
			v.handles[kind] = found
			c.Check(R, xn+"|handles-"+kind, X.Pos(), found,
				ifelse(found, "for a "+kind+" the artifact type is read from the decoded manifest",
					"for a "+kind+" no artifact type is derived from the manifest's artifactType member: such a referrer is matched differently depending on whether the source supplied the descriptor field (D3b)"))
		}
		// image manifest: artifactType preferred, config.mediaType only as fallback when empty
		k, _ := c01CaseCutP(X, tests, kinds.ByKind["image-manifest"], isMT)
		var ats, cfgs, calls []c03Sink
		for _, s := range sinks {
			if !s.feasible(k) {
				continue
			}
			switch s.Kind {
			case "AT":
				ats = append(ats, s)
			case "CFG":
				cfgs = append(cfgs, s)
			default:
				calls = append(calls, s)
			}
		}
		callsOK := true
		for _, s := range calls {
			if !sub(s.G).prefers {
				callsOK = false
			}
		}
		if len(ats) == 0 && len(cfgs) == 0 && len(calls) > 0 {
			v.prefers = callsOK // delegated entirely; the callee carries the obligation
			return v
		}
		ok, detail := true, "artifactType is taken; config.mediaType only on the edge where artifactType is empty"
		pos := X.Pos()
		switch {
		case len(ats) == 0 && len(cfgs) > 0:
			ok, detail, pos = false, "for an image manifest the result is config.mediaType on every path; the manifest's artifactType is ignored, so a referrer with artifactType set and a generic/empty config is filtered differently than through the Referrers API (D3a)", cfgs[0].At.Pos()
		case len(ats) == 0:
			ok, detail = false, "for an image manifest neither artifactType nor config.mediaType is derived"
		case len(cfgs) == 0:
			ok, detail = false, "for an image manifest there is no fallback to config.mediaType when artifactType is empty (siblings fall back)"
		}
		for _, s := range cfgs {
			if !ok {
				break
			}
			base := s.Base
			emptyE, _ := c01EmptyStrEdges(X, func(x ssa.Value) bool {
				for _, r := range Roots(x) {
					if kd, b := c03Classify(r); kd == "AT" && b == base {
						continue
					}
					// a Descriptor.ArtifactType field last assigned from manifest.artifactType
					p, isPath := c01ValuePath(r)
					ld, isLoad := r.(*ssa.UnOp)
					if !isPath || !isLoad || p.last() != descAT {
						return false
					}
					fa, isFA := ld.X.(*ssa.FieldAddr)
					if !isFA {
						return false
					}
					stores, unknown := c01FieldReachingStores(fa.X, fa.Field, ld)
					if unknown || len(stores) == 0 {
						return false
					}
					for _, st := range stores {
						if kd, b := c03Classify(st.Val); kd != "AT" || b != base {
							return false
						}
					}
				}
				return true
			})
			if len(emptyE) == 0 || !s.guarded(c01CutUnion(k, newCut().Edges(emptyE...))) {
				ok, detail, pos = false, "config.mediaType can replace a non-empty artifactType: the fallback is not confined to the edge where the manifest's artifactType is empty", s.At.Pos()
			}
		}
		if ok && !callsOK {
			ok, detail = false, "a helper called for image manifests does not prefer artifactType"
		}
		v.prefers = ok
		c.Check(R, xn+"|image-manifest-prefers-ArtifactType", pos, ok, detail)
		return v
	}

	// discovery: every module function storing a manifest-derived value into Descriptor.ArtifactType
	have := map[string]bool{}
	var referrersSeen, rootVia bool
	for _, f := range c01ModuleFuncs(c.P) {
		sinks := c03StoreSinks(f, descAT)
		isDeriver, via := false, false
		for _, s := range sinks {
			if s.Kind != "CALL" {
				isDeriver = true
			} else if derives(s.G, 0) {
				isDeriver, via = true, true
			}
		}
		if !isDeriver {
			continue
		}
		// keep only the sinks that read a manifest
		var kept []c03Sink
		for _, s := range sinks {
			if s.Kind != "CALL" || derives(s.G, 0) {
				kept = append(kept, s)
			}
		}
		have[fnPkgPath(f)] = true
		if f == c.P.Fn("registry", "Referrers") {
			referrersSeen = true
		}
		if via && fnPkgPath(f) == Mod {
			rootVia = true
		}
		eval(f, kept, 0)
	}
	// frozen sibling table (by role)
	if !referrersSeen {
		c.LostAnchor(R, "~/registry.Referrers as a deriver of Descriptor.ArtifactType from decoded manifests")
	}
	if !have[pkgPath("registry/remote")] {
		c.LostAnchor(R, "deriver of Descriptor.ArtifactType from a pushed manifest in ~/registry/remote (referrers index update)")
	}
	if !rootVia {
		c.LostAnchor(R, "FilterArtifactType's fetch path (closure in package ~ storing a fetched artifact type into Descriptor.ArtifactType)")
	}
}

// ---------- R4: annotation fetch-on-missing ----------

func c03R4(c *Ctx) {
	const R = "C03.R4.annotation-fetch-kinds"
	c.Expect(R, 5)
	kinds := c01ResolveKinds(c, R)
	descMT := c01FieldOf(c.P, c01OCISpec, "Descriptor", "MediaType")
	descAnn := c01FieldOf(c.P, c01OCISpec, "Descriptor", "Annotations")
	FA := c.P.Fn("", "ExtendedCopyGraphOptions.FilterAnnotation")
	if kinds == nil || descMT == nil || descAnn == nil || FA == nil {
		c.LostAnchor(R, "(*~.ExtendedCopyGraphOptions).FilterAnnotation / ocispec.Descriptor.{MediaType,Annotations}")
		return
	}
	isMT := func(v ssa.Value) bool { return c01IsFieldValue(v, descMT) }
	found := false
	for _, f := range Anons(FA) {
		var fetches []ssa.Instruction
		AllInstrs(f, func(in ssa.Instruction) {
			s, ok := in.(*ssa.Store)
			if !ok {
				return
			}
			p, ok := c01AddrPath(s.Addr)
			if !ok || p.last() != descAnn {
				return
			}
			for _, r := range Roots(s.Val) {
				if ex, ok := r.(*ssa.Extract); ok {
					if call, ok := ex.Tuple.(*ssa.Call); ok {
						if g := StaticCallee(call); g != nil && inModule(g) {
							fetches = append(fetches, call)
						}
					}
				}
			}
		})
		if len(fetches) == 0 {
			continue
		}
		found = true
		tests := c01StrTests(f, isMT)
		var ks []string
		for k := range kinds.ByKind {
			ks = append(ks, k)
		}
		sort.Strings(ks)
		for _, kind := range ks {
			k, und := c01CaseCutP(f, tests, kinds.ByKind[kind], isMT)
			if len(und) > 0 {
				c.Undecided(R, c01ClosureKey(f, "fetch-missing-annotations")+"|fetches-for-"+kind, fetches[0].Pos(), "the dispatch goes through a predicate whose answer for this media type cannot be determined: "+strings.Join(und, ", "))
				continue
			}
			ok := false
			for _, call := range fetches {
				if c01Feasible(call, k) {
					ok = true
				}
			}
			c.Check(R, c01ClosureKey(f, "fetch-missing-annotations")+"|fetches-for-"+kind, fetches[0].Pos(), ok,
				ifelse(ok, "annotations of a "+kind+" are fetched from the manifest when the descriptor has none",
					"a "+kind+" predecessor without descriptor annotations is never fetched: it is filtered on its descriptor only, i.e. differently per source kind"))
		}
	}
	if !found {
		c.LostAnchor(R, "closure of FilterAnnotation storing fetched annotations into Descriptor.Annotations")
	}
}

// ---------- R6: the filter wrappers keep every match ----------

type c03FilterLoop struct {
	ok      bool
	why     string
	accPhi  *ssa.Phi  // accumulator carried as a loop phi, or
	accCell ssa.Value // accumulator held in a cell (captured variable / local)
	loop    *Loop
}

// c03CheckFilterLoop analyses one `for _, e := range X` over descriptors in G
// that filters e through a keep test into an accumulator.
func c03CheckFilterLoop(G *ssa.Function, l *Loop, descMT *types.Var) (res c03FilterLoop, isFilter bool) {
	X, idx, body, _, _ := l.RangeIndex()
	res.loop = l
	header := l.Header.Instrs[0]
	derivesElem := func(v ssa.Value) bool {
		return c01Slice(v, func(x ssa.Value) bool {
			ia, ok := x.(*ssa.IndexAddr)
			return ok && c01SameStrip(ia.X, X) && ia.Index == idx
		})
	}
	isMT := func(v ssa.Value) bool { return c01IsFieldValue(v, descMT) }
	var keepIfs []ssa.Instruction
	var keepTrue []Edge
	for _, i := range Ifs(G) {
		if !l.Contains(i) || i.Block() == l.Header {
			continue
		}
		cond, t, _ := ifEdges(i)
		call, ok := cond.(*ssa.Call)
		if !ok || strings.HasPrefix(CalleeName(call), "builtin:") {
			continue
		}
		if g := StaticCallee(call); g != nil && inModule(g) && len(c01StrTests(g, isMT)) > 0 {
			continue // media-type dispatch predicate, not the filter
		}
		uses := false
		for _, a := range call.Call.Args {
			if derivesElem(a) {
				uses = true
			}
		}
		if uses {
			keepIfs = append(keepIfs, i)
			keepTrue = append(keepTrue, t)
		}
	}
	// appends of the element
	var appends []*ssa.Call
	AllInstrs(G, func(in ssa.Instruction) {
		call, ok := in.(*ssa.Call)
		if !ok || !l.Contains(call) || CalleeName(call) != "builtin:append" || len(call.Call.Args) != 2 {
			return
		}
		if derivesElem(call.Call.Args[1]) {
			appends = append(appends, call)
		}
	})
	if len(keepIfs) == 0 && len(appends) == 0 {
		return res, false
	}
	isFilter = true
	if len(keepIfs) == 0 {
		res.why = "elements are appended but no keep test on the element is recognised"
		return
	}
	if len(appends) == 0 {
		res.why = "the loop tests elements but never appends one to an accumulator"
		return
	}
	// accumulator identity
	for _, ap := range appends {
		a0 := ap.Call.Args[0]
		if phi, ok := a0.(*ssa.Phi); ok && phi.Block() == l.Header {
			if res.accPhi != nil && res.accPhi != phi {
				res.why = "several accumulators"
				return
			}
			res.accPhi = phi
			continue
		}
		if ld, ok := a0.(*ssa.UnOp); ok && ld.Op == token.MUL {
			switch ld.X.(type) {
			case *ssa.FreeVar, *ssa.Alloc:
				if res.accCell != nil && res.accCell != ld.X {
					res.why = "several accumulators"
					return
				}
				res.accCell = ld.X
				continue
			}
		}
		res.why = "an element is appended to something that is not the loop's accumulator (not the value carried from the previous iteration)"
		return
	}
	if res.accPhi != nil && res.accCell != nil {
		res.why = "several accumulators"
		return
	}
	// (b1) every iteration reaches the keep test
	if reach(body.To, 0, header, newCut().Instr(keepIfs...)) {
		res.why = "an iteration can finish without the element reaching the keep test"
		return
	}
	// (b2) on the keep edge the element is appended (and, for a cell, stored back)
	kept := newCut()
	for _, ap := range appends {
		if res.accPhi != nil {
			kept.Instr(ap)
			continue
		}
		for _, r := range *ap.Referrers() {
			if st, ok := r.(*ssa.Store); ok && st.Addr == res.accCell && st.Val == ssa.Value(ap) {
				kept.Instr(st)
			}
		}
	}
	for _, e := range keepTrue {
		if reach(e.To, 0, header, kept) {
			res.why = "an element that passes the keep test can reach the next iteration without being appended to the accumulator"
			return
		}
	}
	// (a) for a phi accumulator: the value carried around the loop is the accumulator itself or append(accumulator, element)
	if res.accPhi != nil {
		isAppend := func(v ssa.Value) bool {
			for _, ap := range appends {
				if v == ssa.Value(ap) {
					return true
				}
			}
			return false
		}
		var okVal func(v ssa.Value, d int) bool
		okVal = func(v ssa.Value, d int) bool {
			if v == ssa.Value(res.accPhi) || isAppend(v) {
				return true
			}
			if p, ok := v.(*ssa.Phi); ok && d < 6 && l.Blocks[p.Block()] {
				for _, e := range p.Edges {
					if !okVal(e, d+1) {
						return false
					}
				}
				return true
			}
			return false
		}
		for i, ev := range res.accPhi.Edges {
			if l.Blocks[l.Header.Preds[i]] && !okVal(ev, 0) {
				res.why = "the accumulator is replaced inside the loop by something else than itself or append(accumulator, element): earlier matches are lost"
				return
			}
		}
	}
	res.ok = true
	return
}

// c03CellOnlyAppended: every store to cell in G is append(<load of cell>, …).
func c03CellOnlyAppended(G *ssa.Function, cell ssa.Value) (bool, token.Pos) {
	ok, pos := true, token.NoPos
	AllInstrs(G, func(in ssa.Instruction) {
		st, isStore := in.(*ssa.Store)
		if !isStore || st.Addr != cell {
			return
		}
		call, isCall := st.Val.(*ssa.Call)
		good := isCall && CalleeName(call) == "builtin:append" && len(call.Call.Args) >= 1
		if good {
			ld, isLoad := call.Call.Args[0].(*ssa.UnOp)
			good = isLoad && ld.Op == token.MUL && ld.X == cell
		}
		if !good && ok {
			ok, pos = false, st.Pos()
		}
	})
	return ok, pos
}

func c03R6(c *Ctx) {
	const R = "C03.R6.filter-keeps-every-match"
	c.Expect(R, 12)
	fpOpt := c01FieldOf(c.P, "", "ExtendedCopyGraphOptions", "FindPredecessors")
	descMT := c01FieldOf(c.P, c01OCISpec, "Descriptor", "MediaType")
	if fpOpt == nil || descMT == nil {
		c.LostAnchor(R, "~.ExtendedCopyGraphOptions.FindPredecessors")
		return
	}
	isDescSlice := func(t types.Type) bool {
		sl, ok := t.Underlying().(*types.Slice)
		return ok && c01IsOCIDescriptor(sl.Elem())
	}
	nWrappers := 0
	for _, F := range c.P.FuncsOfPkg("") {
		for _, st := range c04FieldStores(F, fpOpt) {
			mc, ok := st.Val.(*ssa.MakeClosure)
			if !ok {
				continue
			}
			W := mc.Fn.(*ssa.Function)
			wk := c01OuterName(W) + "$wrapper"
			// --- the Referrers page callback ---
			for _, rc := range CallsTo(W, "(~/registry.ReferrerLister).Referrers") {
				nWrappers++
				ck := c01OuterName(W) + "$page-callback"
				args := rc.Common().Args
				var cb *ssa.MakeClosure
				for _, r := range Roots(args[len(args)-1]) {
					if m, ok := r.(*ssa.MakeClosure); ok {
						cb = m
					}
				}
				if cb == nil {
					c.Undecided(R, ck+"|accumulator-only-appended", rc.Pos(), "the page callback handed to Referrers is not a closure literal")
					continue
				}
				G := cb.Fn.(*ssa.Function)
				var fl *c03FilterLoop
				for _, l := range Loops(G) {
					if X, _, _, _, ok := l.RangeIndex(); ok && isDescSlice(X.Type()) && c01ParamOf(X) != nil {
						if r, isF := c03CheckFilterLoop(G, l, descMT); isF {
							fl = &r
						}
					}
				}
				if fl == nil {
					c.Undecided(R, ck+"|every-referrer-tested-and-kept", G.Pos(), "no filtering loop over the page of referrers recognised in the callback")
					continue
				}
				c.Check(R, ck+"|every-referrer-tested-and-kept", blockPos(fl.loop.Header), fl.ok,
					ifelse(fl.ok, "every referrer of a page reaches the keep test and is appended to the accumulator on its true edge", fl.why))
				fv, isFV := fl.accCell.(*ssa.FreeVar)
				if !fl.ok || !isFV {
					if fl.ok {
						c.Undecided(R, ck+"|accumulator-only-appended", G.Pos(), "the callback's accumulator is not a captured variable: matches of earlier pages cannot be followed")
					}
					continue
				}
				okA, posA := c03CellOnlyAppended(G, fv)
				if okA {
					posA = G.Pos()
				}
				c.Check(R, ck+"|accumulator-only-appended", posA, okA,
					ifelse(okA, "every store to the captured accumulator is append(<its current value>, …)", "the captured accumulator is overwritten inside the per-page callback (make / nil / literal / re-slice): only the last page's matches survive, a matching referrer on an earlier page is never followed"))
				// (c) the wrapper returns that accumulator, untouched after the listing
				var cell *ssa.Alloc
				for i, x := range G.FreeVars {
					if x == fv {
						cell, _ = cb.Bindings[i].(*ssa.Alloc)
					}
				}
				okC := cell != nil
				if okC {
					for _, s2 := range storesTo(cell) {
						if Reachable(rc.(ssa.Instruction), s2) {
							okC = false
						}
					}
					n := 0
					if e := ErrOf(rc); e != nil {
						nilE, _, _ := NilTests(W, Aliases(e))
						for _, ne := range nilE {
							for _, ret := range Returns(W) {
								if !reach(ne.To, 0, ret, nil) || c01IsErrorReturn(ret, ErrResultIndex(W.Signature)) {
									continue
								}
								n++
								ld, isLoad := ret.Results[0].(*ssa.UnOp)
								if !isLoad || ld.Op != token.MUL || ld.X != ssa.Value(cell) {
									// falling through to the second filtering stage is fine as long as it ranges over the cell
									okC = false
								}
							}
						}
					}
					if n == 0 {
						okC = false
					}
				}
				c.Check(R, wk+"|returns-page-accumulator", rc.Pos(), okC,
					ifelse(okC, "after a successful listing the wrapper returns the accumulator the callback appended to", "after a successful Referrers listing the wrapper does not return the accumulator filled by the page callback (or overwrites it)"))
			}
			// --- the filtering loop over listed predecessors ---
			var fl *c03FilterLoop
			for _, l := range Loops(W) {
				if X, _, _, _, ok := l.RangeIndex(); ok && isDescSlice(X.Type()) {
					if r, isF := c03CheckFilterLoop(W, l, descMT); isF {
						fl = &r
					}
				}
			}
			if fl == nil {
				if len(CallsTo(W, "(~/registry.ReferrerLister).Referrers")) > 0 {
					c.Undecided(R, wk+"|every-predecessor-tested-and-kept", W.Pos(), "no filtering loop over the listed predecessors recognised in the wrapper")
				}
				continue
			}
			c.Check(R, wk+"|every-predecessor-tested-and-kept", blockPos(fl.loop.Header), fl.ok,
				ifelse(fl.ok, "every listed predecessor reaches the keep test and is appended on its true edge; the kept slice only grows by append", fl.why))
			if !fl.ok {
				continue
			}
			// the ranged list is what the predecessor lookup returned
			X, _, _, exit, _ := fl.loop.RangeIndex()
			okX := c01Slice(X, func(x ssa.Value) bool {
				ex, isEx := x.(*ssa.Extract)
				if !isEx || ex.Index != 0 {
					return false
				}
				call, isCall := ex.Tuple.(*ssa.Call)
				return isCall && (CalleeName(call) == "(~/content.PredecessorFinder).Predecessors" || strings.HasPrefix(CalleeName(call), "dyn:"))
			})
			c.Check(R, wk+"|filters-the-listed-predecessors", blockPos(fl.loop.Header), okX,
				ifelse(okX, "the loop ranges over what src.Predecessors / the previous FindPredecessors returned", "the filtering loop does not range over the predecessors that were looked up"))
			okR, n := true, 0
			for _, ret := range Returns(W) {
				if !reach(exit.To, 0, ret, nil) || c01IsErrorReturn(ret, ErrResultIndex(W.Signature)) {
					continue
				}
				n++
				switch {
				case fl.accPhi != nil:
					if strip(ret.Results[0]) != ssa.Value(fl.accPhi) {
						okR = false
					}
				default:
					ld, isLoad := ret.Results[0].(*ssa.UnOp)
					if !isLoad || ld.X != fl.accCell {
						okR = false
					}
				}
			}
			c.Check(R, wk+"|returns-kept", W.Pos(), okR && n > 0,
				ifelse(okR && n > 0, "after the loop the wrapper returns the kept slice", "the wrapper's successful result after filtering is not the kept slice"))
		}
	}
	if nWrappers == 0 {
		c.LostAnchor(R, "FindPredecessors wrappers using ReferrerLister.Referrers with a page callback (FilterAnnotation / FilterArtifactType)")
	}
}

var c03Mutants = []Mutant{
	// --- the repository's own test suite stays green under these (verified in a scratch copy) ---
	{Name: "only-manifest-predecessors-followed", File: "extendedcopy.go",
		Old: "\t\t\tif !visited.Contains(predecessorKey) {",
		New: "\t\t\tif !visited.Contains(predecessorKey) && descriptor.IsManifest(predecessor) {", Expect: "C03.R1.find-roots-shape|~.findRoots|every-predecessor-pushed"},
	{Name: "page-accumulator-reset", File: "extendedcopy.go",
		Old:    "\t\t\t\t\t// for each page of the results, filter the referrers\n\t\t\t\t\tfor _, r := range referrers {\n\t\t\t\t\t\tif keep(r) {\n\t\t\t\t\t\t\tpredecessors = append(predecessors, r)\n\t\t\t\t\t\t}\n\t\t\t\t\t}\n\t\t\t\t\treturn nil\n\t\t\t\t}); err != nil {\n\t\t\t\t\treturn nil, err\n\t\t\t\t}\n\t\t\t\treturn predecessors, nil\n\t\t\t}\n\t\t\tpredecessors, err = src.Predecessors(ctx, desc)\n\t\t} else {\n\t\t\tpredecessors, err = fp(ctx, src, desc)\n\t\t}\n\t\tif err != nil {\n\t\t\treturn nil, err\n\t\t}\n\n\t\t// predecessor descriptors",
		New:    "\t\t\t\t\t// for each page of the results, filter the referrers\n\t\t\t\t\tpredecessors = predecessors[:0]\n\t\t\t\t\tfor _, r := range referrers {\n\t\t\t\t\t\tif keep(r) {\n\t\t\t\t\t\t\tpredecessors = append(predecessors, r)\n\t\t\t\t\t\t}\n\t\t\t\t\t}\n\t\t\t\t\treturn nil\n\t\t\t\t}); err != nil {\n\t\t\t\t\treturn nil, err\n\t\t\t\t}\n\t\t\t\treturn predecessors, nil\n\t\t\t}\n\t\t\tpredecessors, err = src.Predecessors(ctx, desc)\n\t\t} else {\n\t\t\tpredecessors, err = fp(ctx, src, desc)\n\t\t}\n\t\tif err != nil {\n\t\t\treturn nil, err\n\t\t}\n\n\t\t// predecessor descriptors",
		Expect: "C03.R6.filter-keeps-every-match|(*~.ExtendedCopyGraphOptions).FilterArtifactType$page-callback|accumulator-only-appended"},
	{Name: "kept-restarts-after-fetch", File: "extendedcopy.go",
		Old: "\t\t\t\t\tp.ArtifactType = artifactType\n\t\t\t\t}\n\t\t\t}\n\t\t\tif keep(p) {", New: "\t\t\t\t\tp.ArtifactType = artifactType\n\t\t\t\t\tkept = nil\n\t\t\t\t}\n\t\t\t}\n\t\t\tif keep(p) {",
		Expect: "C03.R6.filter-keeps-every-match|(*~.ExtendedCopyGraphOptions).FilterArtifactType$wrapper|every-predecessor-tested-and-kept"},
	{Name: "annotation-filter-stops-at-first-mismatch", File: "extendedcopy.go",
		Old: "\t\t\t\t\tp.Annotations = annotations\n\t\t\t\t}\n\t\t\t}\n\t\t\tif keep(p) {\n\t\t\t\tkept = append(kept, p)\n\t\t\t}", New: "\t\t\t\t\tp.Annotations = annotations\n\t\t\t\t}\n\t\t\t}\n\t\t\tif len(p.Annotations) == 0 {\n\t\t\t\tcontinue\n\t\t\t}\n\t\t\tif keep(p) {\n\t\t\t\tkept = append(kept, p)\n\t\t\t}",
		Expect: "C03.R6.filter-keeps-every-match|(*~.ExtendedCopyGraphOptions).FilterAnnotation$wrapper|every-predecessor-tested-and-kept"},
	{Name: "referrers-path-returns-nil-list", File: "extendedcopy.go",
		Old:    "\t\t\t\treturn predecessors, nil\n\t\t\t}\n\t\t\tpredecessors, err = src.Predecessors(ctx, desc)\n\t\t} else {\n\t\t\tpredecessors, err = fp(ctx, src, desc)\n\t\t}\n\t\tif err != nil {\n\t\t\treturn nil, err\n\t\t}\n\n\t\t// Predecessor descriptors",
		New:    "\t\t\t\tvar found []ocispec.Descriptor\n\t\t\t\tfound = append(found, predecessors[:len(predecessors):len(predecessors)]...)\n\t\t\t\treturn found[:0], nil\n\t\t\t}\n\t\t\tpredecessors, err = src.Predecessors(ctx, desc)\n\t\t} else {\n\t\t\tpredecessors, err = fp(ctx, src, desc)\n\t\t}\n\t\tif err != nil {\n\t\t\treturn nil, err\n\t\t}\n\n\t\t// Predecessor descriptors",
		Expect: "C03.R6.filter-keeps-every-match|(*~.ExtendedCopyGraphOptions).FilterAnnotation$wrapper|returns-page-accumulator"},
	// --- below: see the report for which of these the repository's tests also catch ---
	{Name: "referrers-ignores-artifact-type", File: "registry/repository.go",
		Old: "\t\t\tnode.ArtifactType = manifest.ArtifactType\n\t\t\tif node.ArtifactType == \"\" {\n\t\t\t\tnode.ArtifactType = manifest.Config.MediaType\n\t\t\t}",
		New: "\t\t\tnode.ArtifactType = manifest.Config.MediaType", Expect: "C03.R3"},
	{Name: "index-push-fallback-unguarded", File: "registry/remote/repository.go",
		Old: "\t\tdesc.ArtifactType = manifest.ArtifactType\n\t\tif desc.ArtifactType == \"\" {\n\t\t\tdesc.ArtifactType = manifest.Config.MediaType\n\t\t}",
		New: "\t\tdesc.ArtifactType = manifest.ArtifactType\n\t\tif desc.ArtifactType != \"\" {\n\t\t\tdesc.ArtifactType = manifest.Config.MediaType\n\t\t}", Expect: "C03.R3"},
	{Name: "referrers-index-type-dropped", File: "registry/repository.go",
		Old: "\t\t\tnode.ArtifactType = index.ArtifactType\n", New: "", Expect: "C03.R3"},
	{Name: "filter-skips-artifact-manifest", File: "extendedcopy.go",
		Old: "\t\t\t\tcase spec.MediaTypeArtifactManifest, ocispec.MediaTypeImageManifest, ocispec.MediaTypeImageIndex:\n\t\t\t\t\tartifactType, err := fetchArtifactType(ctx, src, p)",
		New: "\t\t\t\tcase ocispec.MediaTypeImageManifest, ocispec.MediaTypeImageIndex:\n\t\t\t\t\tartifactType, err := fetchArtifactType(ctx, src, p)", Expect: "C03.R3.artifact-type-derivation|(*~.ExtendedCopyGraphOptions).FilterArtifactType$artifact-type|handles-artifact-manifest"},
	{Name: "root-not-recorded-when-no-predecessors", File: "extendedcopy.go",
		Old: "\t\tif len(predecessors) == 0 {\n\t\t\taddRoot(currentKey, currentNode)\n\t\t\tcontinue\n\t\t}", New: "\t\tif len(predecessors) == 0 {\n\t\t\tcontinue\n\t\t}", Expect: "C03.R1"},
	{Name: "depth-cutoff-off-by-one", File: "extendedcopy.go",
		Old: "if opts.Depth > 0 && current.Depth == opts.Depth {", New: "if opts.Depth > 0 && current.Depth > opts.Depth {", Expect: "C03.R1.find-roots-shape|~.findRoots|depth-cut-off"},
	{Name: "cutoff-drops-node", File: "extendedcopy.go",
		Old: "\t\tif opts.Depth > 0 && current.Depth == opts.Depth {\n\t\t\taddRoot(currentKey, currentNode)\n\t\t\tcontinue\n\t\t}", New: "\t\tif opts.Depth > 0 && current.Depth == opts.Depth {\n\t\t\tcontinue\n\t\t}", Expect: "C03.R1.find-roots-shape|~.findRoots|cut-off-records-root"},
	{Name: "push-same-depth", File: "extendedcopy.go",
		Old: "stack.Push(copyutil.NodeInfo{Node: predecessor, Depth: current.Depth + 1})", New: "stack.Push(copyutil.NodeInfo{Node: predecessor, Depth: current.Depth})", Expect: "C03.R1.find-roots-shape|~.findRoots|pushed-depth"},
	{Name: "lookup-asks-about-start-node", File: "extendedcopy.go",
		Old: "predecessors, err := opts.FindPredecessors(ctx, storage, currentNode)", New: "predecessors, err := opts.FindPredecessors(ctx, storage, node)", Expect: "C03.R1.find-roots-shape|~.findRoots|predecessor-lookup"},
	{Name: "initial-depth-one", File: "extendedcopy.go",
		Old: "stack.Push(copyutil.NodeInfo{Node: node, Depth: 0})", New: "stack.Push(copyutil.NodeInfo{Node: node, Depth: 1})", Expect: "C03.R1.find-roots-shape|~.findRoots|initial-push-depth-0"},
	{Name: "only-first-root-dispatched", File: "extendedcopy.go",
		Old: "\t\treturn region.Start()\n\t}, roots...)", New: "\t\treturn region.Start()\n\t}, roots[:1]...)", Expect: "C03.R2.shared-copy-state|~.ExtendedCopyGraph|dispatches-found-roots"},
	{Name: "per-root-tracker", File: "extendedcopy.go",
		Old: "\t// track content status\n\ttracker := status.NewTracker()\n\n\t// copy the sub-DAGs rooted by the root nodes\n\treturn syncutil.Go(ctx, limiter, func(ctx context.Context, region *syncutil.LimitedRegion, root ocispec.Descriptor) error {\n",
		New: "\t// copy the sub-DAGs rooted by the root nodes\n\treturn syncutil.Go(ctx, limiter, func(ctx context.Context, region *syncutil.LimitedRegion, root ocispec.Descriptor) error {\n\t\ttracker := status.NewTracker()\n", Expect: "C03.R2"},
	{Name: "annotation-fetch-skips-index", File: "extendedcopy.go",
		Old: "\t\t\t\t\tdocker.MediaTypeManifestList, ocispec.MediaTypeImageIndex,\n", New: "\t\t\t\t\tdocker.MediaTypeManifestList,\n", Expect: "C03.R4"},
	{Name: "extendedcopy-tags-srcref", File: "extendedcopy.go",
		Old: "if err := dst.Tag(ctx, node, dstRef); err != nil {", New: "if err := dst.Tag(ctx, node, srcRef); err != nil {", Expect: "C03.R5"},
}
