package main

// C03 — ExtendedCopy reaches every ancestor's graph; depth and filters bound it.
// Rules: R1 findRoots shape, R2 one tracker/proxy/limiter for all roots,
// R3 artifact-type derivation agrees across siblings, R4 annotation
// fetch-on-missing covers the manifest kinds, R5 ExtendedCopy tags the node.

import (
	"go/token"
	"go/types"
	"sort"
	"strings"

	"golang.org/x/tools/go/ssa"
)

func init() {
	register(&propDef{
		ID: "C03",
		Explain: "Decided: (R1) in the predecessor DFS of ExtendedCopyGraph every popped node is, on every path to the next iteration, recorded as a root, " +
			"expanded by pushing every predecessor returned for it with depth+1, or skipped as already visited; the predecessor lookup is reached only below the depth " +
			"cut-off (current.Depth ==/>= opts.Depth under opts.Depth > 0) and the cut-off records the node; the initial push has depth 0; the default FindPredecessors is " +
			"src.Predecessors and its errors propagate; (R2) tracker, proxy and limiter handed to the per-root copy are single objects created outside the per-root closure and " +
			"the dispatched roots are the DFS result; (R3) every function that derives a descriptor's artifact type from decoded manifest content takes artifactType, falls " +
			"back to config.mediaType only when artifactType is empty (image manifests), and handles image manifest, image index and artifact manifest alike — compared across " +
			"registry.Referrers, the referrers-index update on push and the FilterArtifactType fetch path; (R4) FilterAnnotation fetches missing annotations for each of the " +
			"five manifest kinds; (R6) in the FindPredecessors wrappers installed by FilterAnnotation / FilterArtifactType the per-page Referrers callback only ever appends to " +
			"the captured accumulator, every referrer of a page and every listed predecessor reaches the keep test and is appended on its true edge, and the wrapper returns that " +
			"accumulator / the kept slice; (R5) ExtendedCopy tags the resolved node with the destination reference on every successful return (same obligation as C01.R4(e)); " +
			"(R8) every function installed as FindPredecessors looks up (Predecessors / Referrers / the previous finder) the node and storage it was called with, lists " +
			"referrers with the empty artifact type, FilterArtifactType's keep answers regex.MatchString(descriptor.ArtifactType) and FilterAnnotation's keep, with a regex set, " +
			"answers true only after regex.MatchString(annotations[key]). " +
			"The wait-before-push ordering inside each root's copy is C02.R1 and is not repeated here. NOT decided (not applicable to static analysis): the " +
			"reachability/closure statement itself, regular-expression semantics, the listing behaviour of remote sources, byte identity of copied content.",
		Run:     runC03,
		Mutants: append(c03Mutants, c03CovMutants...),
	})
}

func runC03(c *Ctx) {
	c01P = c.P
	c.NotArmed("C03.copy-ordering", "wait-before-push inside each root's copy is C02.R1; discharged under C02, not duplicated here")
	c03R1(c)
	c03R2(c)
	c03R3(c)
	c03R4(c)
	c01TagsGivenNode(c, "C03.R5.tags-given-node")
	c03R6(c)
	c03R7(c)
	runC03Coverage(c)
}

// ---------- R1: findRoots shape ----------

const (
	nStackPop  = "(*~/internal/copyutil.Stack).Pop"
	nStackPush = "(*~/internal/copyutil.Stack).Push"
	nFindPred  = "field:~.ExtendedCopyGraphOptions.FindPredecessors"
)

// c03RootFinders: functions of the root package that pop the DFS stack and
// look up predecessors through the option callback (role-based anchor).
func c03RootFinders(p *Prog) []*ssa.Function {
	fpOpt := c01FieldOf(p, "", "ExtendedCopyGraphOptions", "FindPredecessors")
	var out []*ssa.Function
	for _, f := range p.FuncsOfPkg("") {
		if len(CallsTo(f, nStackPop)) > 0 {
			found := false
			for g := range c01ReachableFns(f, 2) {
				if fnPkgPath(g) == Mod && len(c03LookupCalls(g, fpOpt)) > 0 {
					found = true
				}
			}
			if found {
				out = append(out, f)
				continue
			}
		}
		for _, rf := range c01RangeFuncs(f) {
			if rf.Prod != nil && len(CallsTo(rf.Prod, nStackPop)) > 0 && len(c03LookupCalls(rf.Body, fpOpt)) > 0 {
				out = append(out, f)
			}
		}
	}
	return out
}

// c03LookupCalls: dynamic calls in f whose callee value is (or may be, through
// a phi / local variable that also holds a default) the FindPredecessors option.
func c03LookupCalls(f *ssa.Function, fpOpt *types.Var) []ssa.CallInstruction {
	var out []ssa.CallInstruction
	for _, call := range Calls(f, func(string) bool { return true }) {
		cc := call.Common()
		if cc.IsInvoke() || StaticCallee(call) != nil {
			continue
		}
		if _, isB := cc.Value.(*ssa.Builtin); isB {
			continue
		}
		if c01Slice(cc.Value, func(x ssa.Value) bool { return c01IsFieldValue(x, fpOpt) }) {
			out = append(out, call)
			continue
		}
		// the option parked in a field of a state struct (rootFinder.findPredecessors)
		if c01P != nil {
			if srcs, ok := c01CarriedSources(c01P, cc.Value); ok {
				for _, sv := range srcs {
					for _, r := range Roots(sv) {
						if c01IsFieldValue(r, fpOpt) {
							out = append(out, call)
							break
						}
					}
				}
			}
		}
	}
	return out
}

// c03LenEdges: edges on which len(s)==0 / len(s)!=0 for s == S.
func c03LenEdges(fn *ssa.Function, S ssa.Value) (zero, nonZero []Edge) {
	for _, i := range Ifs(fn) {
		cond, t, f := ifEdges(i)
		bo, ok := cond.(*ssa.BinOp)
		if !ok {
			continue
		}
		ln, ok := bo.X.(*ssa.Call)
		if !ok || CalleeName(ln) != "builtin:len" || !c01SameStrip(ln.Call.Args[0], S) {
			continue
		}
		k, ok := constInt(bo.Y)
		if !ok {
			continue
		}
		switch {
		case bo.Op == token.NEQ && k == 0, bo.Op == token.GTR && k == 0, bo.Op == token.GEQ && k == 1:
			zero, nonZero = append(zero, f), append(nonZero, t)
		case bo.Op == token.EQL && k == 0, bo.Op == token.LSS && k == 1, bo.Op == token.LEQ && k == 0:
			zero, nonZero = append(zero, t), append(nonZero, f)
		}
	}
	return
}

// c03LitFieldUnset: v is the content of a local composite literal in which
// field fv is never stored (it keeps its zero value).
func c03LitFieldUnset(v ssa.Value, fv *types.Var) bool {
	ld, ok := v.(*ssa.UnOp)
	if !ok || ld.Op != token.MUL {
		return false
	}
	a, ok := ld.X.(*ssa.Alloc)
	if !ok || len(storesTo(a)) > 0 {
		return false
	}
	for _, r := range *a.Referrers() {
		if fa, ok := r.(*ssa.FieldAddr); ok {
			if st := c01StructOf(fa.X.Type()); st != nil && st.Field(fa.Field) == fv {
				for _, r2 := range *fa.Referrers() {
					if _, isStore := r2.(*ssa.Store); isStore {
						return false
					}
				}
			}
		}
	}
	return true
}

// c03LitField: v is the content of a local composite literal (load of an
// Alloc); returns the single value stored into field fv.
func c03LitField(v ssa.Value, fv *types.Var) ssa.Value {
	ld, ok := v.(*ssa.UnOp)
	if !ok || ld.Op != token.MUL {
		return nil
	}
	a, ok := ld.X.(*ssa.Alloc)
	if !ok {
		return nil
	}
	var val ssa.Value
	n := 0
	for _, r := range *a.Referrers() {
		fa, ok := r.(*ssa.FieldAddr)
		if !ok {
			continue
		}
		st := c01StructOf(fa.X.Type())
		if st == nil || st.Field(fa.Field) != fv {
			continue
		}
		for _, r2 := range *fa.Referrers() {
			if s, ok := r2.(*ssa.Store); ok && s.Addr == fa {
				val = s.Val
				n++
			}
		}
	}
	if n != 1 {
		return nil
	}
	return val
}

// c03ReachesMapUpdate: fn, or a module function / closure it calls (to the
// given depth), updates a map.
func c03ReachesMapUpdate(fn *ssa.Function, depth int, seen map[*ssa.Function]bool) bool {
	if fn == nil || seen[fn] || len(fn.Blocks) == 0 {
		return false
	}
	seen[fn] = true
	found := false
	AllInstrs(fn, func(in ssa.Instruction) {
		if found {
			return
		}
		switch x := in.(type) {
		case *ssa.MapUpdate:
			found = true
		case ssa.CallInstruction:
			if depth > 0 {
				if g := StaticCallee(x); g != nil && inModule(g) && c03ReachesMapUpdate(g, depth-1, seen) {
					found = true
				}
			}
		}
	})
	return found
}

func c03R1(c *Ctx) {
	const R = "C03.R1.find-roots-shape"
	c.Expect(R, 13)
	fs := c03RootFinders(c.P)
	if len(fs) == 0 {
		c.LostAnchor(R, "root finder (pops copyutil.Stack and calls ExtendedCopyGraphOptions.FindPredecessors) in package ~")
		return
	}
	depthNI := c01FieldOf(c.P, "internal/copyutil", "NodeInfo", "Depth")
	nodeNI := c01FieldOf(c.P, "internal/copyutil", "NodeInfo", "Node")
	depthOpt := c01FieldOf(c.P, "", "ExtendedCopyGraphOptions", "Depth")
	fpOpt := c01FieldOf(c.P, "", "ExtendedCopyGraphOptions", "FindPredecessors")
	if depthNI == nil || nodeNI == nil || depthOpt == nil || fpOpt == nil {
		c.LostAnchor(R, "copyutil.NodeInfo.{Node,Depth} / ExtendedCopyGraphOptions.{Depth,FindPredecessors}")
		return
	}
	for _, F := range fs {
		fname := FnName(F)
		// B is the function holding the loop body: F itself, or the yield closure of a `for current := range drain(&stack)`
		B := F
		type c03Start struct {
			b *ssa.BasicBlock
			i int
		}
		var starts []c03Start
		var nexts []ssa.Instruction // reaching one of these = next iteration
		var loopEntry ssa.Instruction
		var stackRecv ssa.Value
		var pop ssa.CallInstruction
		inLoop := func(in ssa.Instruction) bool { return false }
		poppedSet, okSet := map[ssa.Value]bool{}, map[ssa.Value]bool{}
		pops := CallsTo(F, nStackPop)
		rangeMode := false
		if len(pops) == 0 {
			for _, rf := range c01RangeFuncs(F) {
				if rf.Prod == nil || len(CallsTo(rf.Prod, nStackPop)) == 0 {
					continue
				}
				// the producer yields every popped element and stops only when the stack is empty or the consumer stops
				P := rf.Prod
				okProd := true
				var yields []ssa.Instruction
				pp := CallsTo(P, nStackPop)
				popped := map[ssa.Value]bool{}
				var okE []Edge
				for _, pc := range pp {
					if v := ResultOf(pc, 0); v != nil {
						for a := range Aliases(v) {
							popped[a] = true
						}
					}
					if v := ResultOf(pc, 1); v != nil {
						t, _ := BoolTests(P, Aliases(v))
						okE = append(okE, t...)
					}
				}
				for _, yc := range Calls(P, func(string) bool { return true }) {
					if !yc.Common().IsInvoke() && yc.Common().Value == ssa.Value(P.Params[0]) {
						if len(yc.Common().Args) != 1 || !popped[yc.Common().Args[0]] {
							okProd = false
						}
						yields = append(yields, yc.(ssa.Instruction))
					}
				}
				if len(yields) == 0 || len(okE) == 0 {
					okProd = false
				}
				for _, e := range okE {
					for _, pc := range pp {
						if reach(e.To, 0, pc.(ssa.Instruction), newCut().Instr(yields...)) {
							okProd = false
						}
					}
					for _, r := range Returns(P) {
						if reach(e.To, 0, r, newCut().Instr(yields...)) {
							okProd = false
						}
					}
				}
				// which argument of the producer is the stack
				if recvLd, isLd := pp[0].Common().Args[0].(*ssa.UnOp); isLd {
					if srcs, okS := c01CarriedSources(c.P, recvLd); okS && len(srcs) == 1 {
						if prm, isP := srcs[0].(*ssa.Parameter); isP {
							for i, q := range prm.Parent().Params {
								if q == prm && i < len(rf.ProdCall.Call.Args) {
									stackRecv = rf.ProdCall.Call.Args[i]
								}
							}
						}
					}
				} else if prm, isP := pp[0].Common().Args[0].(*ssa.Parameter); isP {
					_ = prm
				}
				if !okProd || stackRecv == nil {
					c.Undecided(R, fname+"|dfs-loop", rf.Call.Pos(), "the iterator the DFS ranges over is not recognised as draining the stack (yield every popped element until empty)")
					continue
				}
				rangeMode = true
				B = rf.Body
				pop = pp[0]
				nexts = c01NextIterTargets(B)
				loopEntry = rf.Call.(ssa.Instruction)
				body := B
				inLoop = func(in ssa.Instruction) bool {
					f := in.Parent()
					for f != nil {
						if f == body {
							return true
						}
						f = f.Parent()
					}
					return false
				}
				for a := range Aliases(B.Params[0]) {
					poppedSet[a] = true
				}
				// the body proper starts where the yielded value is used: the entry of the closure
				starts = append(starts, c03Start{B.Blocks[0], 0})
			}
			if !rangeMode {
				continue
			}
		} else {
			// the DFS loop: the innermost loop containing a Pop (a three-clause `for x, ok := Pop(); ok; x, ok = Pop()` has a second one before it)
			var dfs *Loop
			for _, pc := range pops {
				for _, l := range Loops(F) {
					if l.Contains(pc.(ssa.Instruction)) && (dfs == nil || len(l.Blocks) < len(dfs.Blocks)) {
						dfs, pop = l, pc
					}
				}
			}
			if dfs == nil {
				c.Violation(R, fname+"|dfs-loop", pops[0].Pos(), "Stack.Pop is not inside a loop: only one node would be examined")
				continue
			}
			nexts = []ssa.Instruction{dfs.Header.Instrs[0]}
			loopEntry = dfs.Header.Instrs[0]
			inLoop = dfs.Contains
			stackRecv = pop.Common().Args[0]
			for _, pc := range pops {
				if v := ResultOf(pc, 0); v != nil {
					for a := range Aliases(v) {
						poppedSet[a] = true
					}
				}
				if v := ResultOf(pc, 1); v != nil {
					for a := range Aliases(v) {
						okSet[a] = true
					}
				}
			}
			if len(poppedSet) == 0 {
				c.Violation(R, fname+"|dfs-loop", pop.Pos(), "the node returned by Stack.Pop is discarded")
				continue
			}
			// program points right after a successful Pop: the ok==true edges, or (when the
			// emptiness is tested before popping) the instruction after the Pop itself
			okEdges, _ := BoolTests(F, okSet)
			for _, e := range okEdges {
				starts = append(starts, c03Start{e.To, 0})
			}
			if len(starts) == 0 {
				starts = append(starts, c03Start{pop.Block(), instrIndex(pop.(ssa.Instruction)) + 1})
			}
		}
		toNext := func(b *ssa.BasicBlock, i int, k *cut) bool {
			for _, n := range nexts {
				if reach(b, i, n, k) {
					return true
				}
			}
			return false
		}
		// the DFS goes on until the stack is empty: an iteration ends in the next iteration or in an error, never by
		// leaving the loop towards a successful return (a `break` on an already visited node drops the rest of the stack)
		{
			early := ""
			var at token.Pos = pop.Pos()
			if rangeMode {
				for _, r := range Returns(B) {
					if k, isK := r.Results[0].(*ssa.Const); !isK || k.Value == nil || boolConst(k) {
						continue
					}
					// `return false` from the body: legitimate only as the enclosing function's (error) return, which
					// first stores that function's results
					stores := newCut()
					AllInstrs(B, func(in ssa.Instruction) {
						if st, isSt := in.(*ssa.Store); isSt {
							if _, isFV := st.Addr.(*ssa.FreeVar); isFV && types.Identical(st.Val.Type(), types.Universe.Lookup("error").Type()) {
								stores.Instr(st)
							}
						}
					})
					if !MustPass(r, stores) {
						early, at = "the loop body can stop the iteration (break) without an error", r.Pos()
					}
				}
			} else {
				stop := newCut()
				for _, n := range nexts {
					stop.Instr(n)
				}
				for _, st := range starts {
					for _, r := range Returns(F) {
						if reach(st.b, st.i, r, stop) && !c01IsErrorReturn(r, ErrResultIndex(F.Signature)) {
							early, at = "after a successful Pop the loop can be left towards a successful return (break) although the stack is not empty", r.Pos()
						}
					}
				}
			}
			c.Check(R, fname+"|dfs-runs-until-stack-empty", at, early == "",
				ifelse(early == "", "an iteration of the DFS ends in the next iteration or in an error return; the loop is left successfully only when Pop reports an empty stack", early+": nodes still on the stack are never examined, their ancestors are not copied"))
		}
		// values denoting the popped NodeInfo / its fields
		isCurrent := func(base ssa.Value) bool {
			if poppedSet[base] {
				return true
			}
			a, ok := base.(*ssa.Alloc)
			if !ok {
				return false
			}
			ss := storesTo(a)
			if len(ss) == 0 {
				return false
			}
			for _, st := range ss {
				if !poppedSet[st.Val] {
					return false
				}
			}
			return true
		}
		isCurField := func(v ssa.Value, fv *types.Var) bool {
			for _, r := range Roots(v) {
				p, ok := c01ValuePath(r)
				if ok && len(p.Vars) == 1 && p.Vars[0] == fv && isCurrent(p.Base) {
					return true
				}
			}
			return false
		}
		derivesCurNode := func(v ssa.Value) bool {
			return c01Slice(v, func(x ssa.Value) bool { return isCurField(x, nodeNI) })
		}
		// the loop body may be a function the loop calls with the popped node: for { cur, ok := Pop(); …; visit(ctx, cur) }
		takesCurrent := func(call ssa.CallInstruction) (*ssa.Function, *ssa.Parameter) {
			g := StaticCallee(call)
			if g == nil || !inModule(g) || len(g.Blocks) == 0 || fnPkgPath(g) != Mod {
				return nil, nil
			}
			off := len(g.Params) - len(call.Common().Args)
			for i, a := range call.Common().Args {
				if i+off < 0 || i+off >= len(g.Params) {
					continue
				}
				cur := false
				for _, r := range Roots(a) {
					if poppedSet[r] {
						cur = true
					}
					if ld, isLd := r.(*ssa.UnOp); isLd && ld.Op == token.MUL && isCurrent(ld.X) {
						cur = true
					}
				}
				if cur {
					return g, g.Params[i+off]
				}
			}
			return nil, nil
		}
		if len(c03LookupCalls(B, fpOpt)) == 0 && !rangeMode {
			for _, call := range Calls(B, func(string) bool { return true }) {
				if !inLoop(call.(ssa.Instruction)) {
					continue
				}
				V, prm := takesCurrent(call)
				if V == nil {
					continue
				}
				hasLookup := false
				for g := range c01ReachableFns(V, 1) {
					if len(c03LookupCalls(g, fpOpt)) > 0 {
						hasLookup = true
					}
				}
				if !hasLookup {
					continue
				}
				// the visit's error ends the search; its success is "next iteration"
				r := ErrFlow(call, ErrFlowOpts{})
				c.Check(R, fname+"|visit-error-propagates", call.Pos(), r.OK, r.How+r.Detail)
				B = V
				for a := range Aliases(prm) {
					poppedSet[a] = true
				}
				starts = []c03Start{{V.Blocks[0], 0}}
				nexts = nil
				for _, rt := range Returns(V) {
					if !c01IsErrorReturn(rt, ErrResultIndex(V.Signature)) {
						nexts = append(nexts, rt)
					}
				}
				body := V
				inLoop = func(in ssa.Instruction) bool { return in.Parent() == body || (in.Parent() != nil && in.Parent().Parent() == body) }
				break
			}
		}
		// predecessor lookup — in the body, or in a helper of the body that receives the node and returns the list
		fps := c03LookupCalls(B, fpOpt)
		var fp ssa.CallInstruction
		for _, x := range fps {
			if inLoop(x.(ssa.Instruction)) {
				fp = x
			}
		}
		var lookupHelper *ssa.Function // non-nil: the lookup (and the depth cut-off) live in this helper
		var helperCall ssa.CallInstruction
		if fp == nil && len(fps) == 0 {
			for _, call := range Calls(B, func(string) bool { return true }) {
				if !inLoop(call.(ssa.Instruction)) {
					continue
				}
				H, prm := takesCurrent(call)
				if H == nil || len(c03LookupCalls(H, fpOpt)) != 1 {
					continue
				}
				lookupHelper, helperCall = H, call
				fp = c03LookupCalls(H, fpOpt)[0]
				for a := range Aliases(prm) {
					poppedSet[a] = true
				}
			}
		}
		if fp == nil || (lookupHelper == nil && len(fps) != 1) {
			c.Undecided(R, fname+"|predecessor-lookup", F.Pos(), "expected exactly one FindPredecessors call inside the DFS loop")
			continue
		}
		preds := ResultOf(fp, 0)
		argOK := len(fp.Common().Args) > 0 && derivesCurNode(fp.Common().Args[len(fp.Common().Args)-1])
		if lookupHelper != nil {
			// the helper hands the looked-up list on (or nothing at the depth limit); the body works on the helper's result
			okH := preds != nil
			for _, rt := range Returns(lookupHelper) {
				if c01IsErrorReturn(rt, ErrResultIndex(lookupHelper.Signature)) {
					continue
				}
				if k, isK := rt.Results[0].(*ssa.Const); isK && k.Value == nil {
					continue
				}
				if preds == nil || !Aliases(preds)[rt.Results[0]] {
					okH = false
				}
			}
			rH := ErrFlow(helperCall, ErrFlowOpts{})
			c.Check(R, fname+"|lookup-helper-hands-list-on", helperCall.Pos(), okH && rH.OK,
				ifelse(okH && rH.OK, "the helper returns the looked-up predecessors (or none) and its error propagates", "the lookup helper does not return the looked-up predecessors, or its error is dropped"))
		}
		c.Check(R, fname+"|predecessor-lookup", fp.Pos(), preds != nil && argOK,
			ifelse(preds != nil && argOK, "FindPredecessors is asked about the popped node and its result is used", "FindPredecessors is not called with the popped node, or its result is discarded"))
		if preds == nil {
			continue
		}
		if rangeMode {
			// in a range-over-func body an error return is: store the results, leave the loop (return false)
			okErr := false
			if e := ErrOf(fp); e != nil {
				al := Aliases(e)
				_, nonNil, _ := NilTests(B, al)
				okErr = len(nonNil) > 0
				for _, ne := range nonNil {
					var stores []ssa.Instruction
					AllInstrs(B, func(in ssa.Instruction) {
						if st, isStore := in.(*ssa.Store); isStore && isErrorType(st.Val.Type()) && derivesFromAny(st.Val, al, 0) {
							stores = append(stores, st)
						}
					})
					if toNext(ne.To, 0, nil) {
						okErr = false
					}
					for _, rt := range Returns(B) {
						if reach(ne.To, 0, rt, newCut().Instr(stores...)) {
							okErr = false
						}
					}
				}
			}
			c.Check(R, fname+"|predecessor-lookup-error", fp.Pos(), okErr, ifelse(okErr, "on a lookup error the loop body stores the error as the function's result and leaves the loop", "a FindPredecessors error does not end the search with that error"))
		} else {
			r := ErrFlow(fp, ErrFlowOpts{})
			c.Check(R, fname+"|predecessor-lookup-error", fp.Pos(), r.OK, r.How+r.Detail)
		}
		if lookupHelper != nil {
			if hv := ResultOf(helperCall, 0); hv != nil {
				preds = hv
			}
		}
		// the looked-up list, also when carried through a variable that is nil when no lookup was made
		predsSet := Aliases(preds)
		inPreds := func(v ssa.Value) bool { return v != nil && (predsSet[v] || predsSet[strip(v)]) }

		// record effect: a call (closure or function) inside the loop, other than the
		// stack/set/lookup helpers, that receives the popped node and reaches a map update;
		// or a direct map update with the popped node.
		var records []ssa.Instruction
		AllInstrs(B, func(in ssa.Instruction) {
			if !inLoop(in) {
				return
			}
			switch x := in.(type) {
			case *ssa.MapUpdate:
				if derivesCurNode(x.Value) {
					records = append(records, x)
				}
			case *ssa.Call:
				n := CalleeName(x)
				if n == nStackPop || n == nStackPush || ssa.CallInstruction(x) == fp {
					return
				}
				var callee *ssa.Function
				if g := StaticCallee(x); g != nil {
					callee = g
				} else if !x.Call.IsInvoke() {
					callee, _ = c01FuncOfValue(x.Call.Value) // closure literal, local func variable, also when captured by the loop body
				}
				if callee == nil || !inModule(callee) || len(callee.Blocks) == 0 {
					return
				}
				updates := c03ReachesMapUpdate(callee, 3, map[*ssa.Function]bool{})
				gotNode := false
				for _, a := range x.Call.Args {
					if c01IsOCIDescriptor(a.Type()) && derivesCurNode(a) {
						gotNode = true
					}
				}
				if updates && gotNode {
					records = append(records, x)
				}
			}
		})
		// push loop over the predecessors
		var pushLoop *Loop
		for _, l := range Loops(B) {
			if rg, _, _, _, ok := c01ElemLoop(l); ok && inPreds(rg) {
				pushLoop = l
			}
		}
		var zeroE, nonZeroE []Edge
		for pv := range predsSet {
			z, nz := c03LenEdges(B, pv)
			zeroE, nonZeroE = append(zeroE, z...), append(nonZeroE, nz...)
		}
		// visited-skip edges: true edges of `<set>.Contains(key)` tests
		var visitedTrue []Edge
		for _, i := range Ifs(B) {
			cond, t, _ := ifEdges(i)
			if call, ok := cond.(*ssa.Call); ok && strings.HasSuffix(CalleeName(call), ".Contains") && strings.Contains(CalleeName(call), "/internal/container/set.") {
				visitedTrue = append(visitedTrue, t)
			}
		}
		// "already recorded" edges: the key is found in the map the record effect updates
		for _, i := range Ifs(B) {
			cond, t, _ := ifEdges(i)
			if ex, ok := cond.(*ssa.Extract); ok && ex.Index == 1 {
				if lk, ok := ex.Tuple.(*ssa.Lookup); ok && lk.CommaOk {
					if mt, ok := lk.X.Type().Underlying().(*types.Map); ok && c01IsOCIDescriptor(mt.Elem()) {
						visitedTrue = append(visitedTrue, t)
					}
				}
			}
		}
		if len(records) == 0 {
			c.Violation(R, fname+"|records-or-expands", pop.Pos(), "no root-recording effect (map update receiving the popped node) inside the DFS loop")
			continue
		}
		if pushLoop == nil {
			c.Violation(R, fname+"|records-or-expands", fp.Pos(), "no loop over the predecessors returned for the popped node: ancestors are never followed")
			continue
		}
		if len(nonZeroE) == 0 {
			c.Undecided(R, fname+"|records-or-expands", fp.Pos(), "no len(predecessors)==0 test recognised: cannot tell a node without predecessors (a root) from an expanded one")
			continue
		}
		_ = zeroE
		// (1a) every iteration that popped a node records it, expands it (non-empty predecessors), or skips it as visited
		bad := false
		for _, st := range starts {
			if toNext(st.b, st.i, newCut().Instr(records...).Edges(nonZeroE...).Edges(visitedTrue...)) {
				bad = true
			}
		}
		c.Check(R, fname+"|records-or-expands", pop.Pos(), !bad,
			ifelse(!bad, "every path from a successful Pop to the next iteration records the node as root, has non-empty predecessors, or skips a visited node",
				"a path from a successful Pop reaches the next iteration without recording the node as a root and without predecessors to follow: the node's whole upward closure is lost"))
		// (1b) non-empty predecessors are all pushed
		_, _, body, _, _ := c01ElemLoop(pushLoop)
		var entries []Edge
		for _, p := range pushLoop.Header.Preds {
			if !pushLoop.Blocks[p] {
				entries = append(entries, Edge{p, pushLoop.Header})
			}
		}
		bad = false
		for _, e := range nonZeroE {
			if toNext(e.To, 0, newCut().Edges(entries...).Instr(records...)) && e.To != pushLoop.Header {
				bad = true
			}
		}
		c.Check(R, fname+"|non-empty-predecessors-enter-push-loop", blockPos(pushLoop.Header), !bad,
			ifelse(!bad, "with predecessors present every path to the next iteration runs the loop over them", "a path with predecessors present skips the loop that pushes them"))
		var pushesIn []ssa.CallInstruction
		for _, p := range CallsTo(B, nStackPush) {
			if pushLoop.Contains(p.(ssa.Instruction)) {
				pushesIn = append(pushesIn, p)
			}
		}
		okPush := len(pushesIn) > 0 && !reach(body.To, 0, pushLoop.Header.Instrs[0], newCut().Calls(pushesIn).Edges(visitedTrue...))
		c.Check(R, fname+"|every-predecessor-pushed", blockPos(pushLoop.Header), okPush,
			ifelse(okPush, "each predecessor is pushed unless already visited", "an iteration over the predecessors can finish without pushing the predecessor (other than for visited ones)"))
		// the push loop is left only when the predecessors are exhausted (or by an error return): an early break /
		// successful return abandons the remaining predecessors
		{
			_, _, _, exhausted, _ := c01ElemLoop(pushLoop)
			early := ""
			for _, e := range pushLoop.Exits {
				if e == exhausted {
					continue
				}
				if toNext(e.To, 0, nil) || (!rangeMode && c01SuccessReturnFrom(F, e, nil, nil) != nil) {
					early = e.String()
				}
			}
			c.Check(R, fname+"|push-loop-runs-to-the-end", blockPos(pushLoop.Header), early == "",
				ifelse(early == "", "the loop over the predecessors ends only when they are exhausted (or with an error)", "the loop over the predecessors can be left early (break / return) without an error: the remaining predecessors are never pushed, their ancestors are lost"))
		}
		// (3) depths
		_, idx, _, _, _ := c01ElemLoop(pushLoop)
		isElem := func(v ssa.Value) bool {
			return c01Slice(v, func(x ssa.Value) bool {
				ia, ok := x.(*ssa.IndexAddr)
				return ok && inPreds(ia.X) && ia.Index == idx
			})
		}
		for _, p := range pushesIn {
			arg := p.Common().Args[len(p.Common().Args)-1]
			d, n := c03LitField(arg, depthNI), c03LitField(arg, nodeNI)
			if d == nil || n == nil {
				c.Undecided(R, fname+"|pushed-depth", p.Pos(), "pushed NodeInfo is not a local composite literal with one store per field")
				continue
			}
			okD := false
			if bo, ok := d.(*ssa.BinOp); ok && bo.Op == token.ADD {
				if k, ok := constInt(bo.Y); ok && k == 1 && isCurField(bo.X, depthNI) {
					okD = true
				}
				if k, ok := constInt(bo.X); ok && k == 1 && isCurField(bo.Y, depthNI) {
					okD = true
				}
			}
			okN := isElem(n)
			c.Check(R, fname+"|pushed-depth", p.Pos(), okD && okN,
				ifelse(okD && okN, "predecessors are pushed with Depth = current.Depth+1", "a predecessor is pushed with a depth other than current.Depth+1, or something else than the predecessor is pushed (the depth bound shifts)"))
		}
		nInit := 0
		for _, p := range CallsTo(F, nStackPush) {
			if inLoop(p.(ssa.Instruction)) {
				continue
			}
			nInit++
			arg := p.Common().Args[len(p.Common().Args)-1]
			d, n := c03LitField(arg, depthNI), c03LitField(arg, nodeNI)
			k, isK := int64(-1), false
			if d != nil {
				k, isK = constInt(d)
			} else if c03LitFieldUnset(arg, depthNI) {
				k, isK = 0, true // field omitted in the literal: zero value
			}
			isParam := n != nil && c01ParamOf(n) != nil
			ok := isK && k == 0 && isParam && n != nil && c01IsOCIDescriptor(n.Type()) && MustPass(loopEntry, newCut().Instr(p.(ssa.Instruction)))
			c.Check(R, fname+"|initial-push-depth-0", p.Pos(), ok,
				ifelse(ok, "the given node is pushed with Depth 0 before the DFS loop", "the initial push does not carry the given node with Depth 0 on every path into the loop"))
		}
		if nInit == 0 {
			// the stack may be created with its initial content: pending := copyutil.Stack{{Node: node, Depth: 0}}
			okLit, found := true, false
			if recv, isAlloc := stackRecv.(*ssa.Alloc); isAlloc {
				for _, st := range storesTo(recv) {
					if inLoop(st) {
						continue
					}
					sl, isSlice := strip(st.Val).(*ssa.Slice)
					if !isSlice {
						continue
					}
					arr, isArr := sl.X.(*ssa.Alloc)
					if !isArr {
						continue
					}
					for _, r := range *arr.Referrers() {
						ia, isIA := r.(*ssa.IndexAddr)
						if !isIA {
							continue
						}
						var nodeV, depthV ssa.Value
						depthSet := false
						for _, r2 := range *ia.Referrers() {
							fa, isFA := r2.(*ssa.FieldAddr)
							if !isFA {
								continue
							}
							stt := c01StructOf(fa.X.Type())
							for _, r3 := range *fa.Referrers() {
								if s3, isStore := r3.(*ssa.Store); isStore && s3.Addr == ssa.Value(fa) && stt != nil {
									switch stt.Field(fa.Field) {
									case nodeNI:
										nodeV = s3.Val
									case depthNI:
										depthV, depthSet = s3.Val, true
									}
								}
							}
						}
						found = true
						k, isK := int64(0), true
						if depthSet {
							k, isK = constInt(depthV)
						}
						if !isK || k != 0 || nodeV == nil || c01ParamOf(nodeV) == nil || !MustPass(loopEntry, newCut().Instr(st)) {
							okLit = false
						}
					}
				}
			}
			if found {
				c.Check(R, fname+"|initial-push-depth-0", F.Pos(), okLit,
					ifelse(okLit, "the stack is created holding the given node with Depth 0", "the stack's initial content is not the given node with Depth 0"))
			} else {
				c.Violation(R, fname+"|initial-push-depth-0", F.Pos(), "the given node is never pushed before the DFS loop")
			}
		}
		// (2) depth cut-off
		isOptDepth := func(v ssa.Value) bool {
			for _, r := range Roots(v) {
				if c01IsFieldValue(r, depthOpt) {
					return true
				}
				// the option parked in a field of a state struct (rootFinder.depth)
				if srcs, ok := c01CarriedSources(c.P, r); ok && len(srcs) > 0 {
					all := true
					for _, sv := range srcs {
						if !c01IsFieldValue(strip(sv), depthOpt) {
							all = false
						}
					}
					if all {
						return true
					}
				}
			}
			return false
		}
		// the function holding the depth cut-off and the lookup
		DB, dStarts := B, starts
		if lookupHelper != nil {
			DB, dStarts = lookupHelper, []c03Start{{lookupHelper.Blocks[0], 0}}
		}
		var limited, unlimited, cutHolds, cutNot []Edge
		var cutPos token.Pos
		strictEq := true
		offByOne := ""
		for _, i := range Ifs(DB) {
			cond, t, f := ifEdges(i)
			bo, ok := cond.(*ssa.BinOp)
			if !ok {
				// a flag computed once (depthLimited := opts.Depth > 0), possibly captured by the loop body
				var srcs []ssa.Value
				if a := cellOf(cond); a != nil {
					for _, st := range storesTo(a) {
						srcs = append(srcs, st.Val)
					}
				} else if cs, okC := c01CarriedSources(c.P, cond); okC {
					srcs = cs
				}
				if len(srcs) == 1 {
					bo, ok = srcs[0].(*ssa.BinOp)
				}
			}
			if !ok {
				continue
			}
			if isOptDepth(bo.X) {
				if k, ok := constInt(bo.Y); ok {
					switch {
					case bo.Op == token.GTR && k == 0, bo.Op == token.GEQ && k == 1:
						limited, unlimited = append(limited, t), append(unlimited, f)
					case bo.Op == token.LEQ && k == 0, bo.Op == token.LSS && k == 1:
						limited, unlimited = append(limited, f), append(unlimited, t)
					}
					continue
				}
			}
			x, y, op := bo.X, bo.Y, bo.Op
			if isOptDepth(x) && !isOptDepth(y) {
				x, y = y, x
				op = map[token.Token]token.Token{token.LSS: token.GTR, token.GTR: token.LSS, token.LEQ: token.GEQ, token.GEQ: token.LEQ, token.EQL: token.EQL, token.NEQ: token.NEQ}[op]
			}
			if !isOptDepth(y) {
				continue
			}
			// x <op> opts.Depth;  current.Depth+1 > D  ==  current.Depth >= D (integers)
			if inc, isInc := x.(*ssa.BinOp); isInc && inc.Op == token.ADD && (op == token.GTR || op == token.LEQ) {
				var other ssa.Value
				if k, isK := constInt(inc.Y); isK && k == 1 {
					other = inc.X
				} else if k, isK := constInt(inc.X); isK && k == 1 {
					other = inc.Y
				}
				if other != nil && isCurField(other, depthNI) {
					x = other
					if op == token.GTR {
						op = token.GEQ
					} else {
						op = token.LSS
					}
				}
			}
			if !isCurField(x, depthNI) {
				if c01Slice(x, func(v ssa.Value) bool { return isCurField(v, depthNI) }) {
					offByOne = "the cut-off compares an expression computed from current.Depth (not current.Depth itself) with opts.Depth"
					cutPos = i.Pos()
				}
				continue
			}
			cutPos = bo.Pos()
			switch op {
			case token.EQL:
				cutHolds, cutNot = append(cutHolds, t), append(cutNot, f)
			case token.GEQ:
				cutHolds, cutNot = append(cutHolds, t), append(cutNot, f)
				strictEq = false
			case token.NEQ:
				cutHolds, cutNot = append(cutHolds, f), append(cutNot, t)
			case token.LSS:
				cutHolds, cutNot = append(cutHolds, f), append(cutNot, t)
				strictEq = false
			default:
				// an invariant assertion: one side of the comparison only leads to error returns
				assertion := false
				for _, e := range []Edge{t, f} {
					if !toNext(e.To, 0, nil) && !reach(e.To, 0, fp.(ssa.Instruction), nil) && (rangeMode || c01SuccessReturnFrom(DB, e, nil, nil) == nil) {
						assertion = true
					}
				}
				if assertion {
					cutPos = token.NoPos
					continue
				}
				offByOne = "the cut-off uses " + op.String() + " between current.Depth and opts.Depth: nodes at depth opts.Depth are still expanded"
			}
		}
		_ = strictEq
		if offByOne != "" {
			c.Violation(R, fname+"|depth-cut-off", cutPos, offByOne+" (the depth bound shifts by one)")
		} else if len(cutHolds) == 0 || len(limited) == 0 {
			c.Undecided(R, fname+"|depth-cut-off", F.Pos(), "no comparison of current.Depth with opts.Depth under opts.Depth > 0 recognised")
		} else {
			// the lookup is reached only below the cut-off (or with no limit)
			ok := true
			for _, st := range dStarts {
				stop := newCut().Edges(cutNot...).Edges(unlimited...)
				if lookupHelper == nil {
					stop.Instr(nexts...)
				}
				if reach(st.b, st.i, fp.(ssa.Instruction), stop) {
					ok = false
				}
			}
			c.Check(R, fname+"|depth-cut-off", cutPos, ok,
				ifelse(ok, "FindPredecessors is reached only when no limit is set or current.Depth is below opts.Depth", "predecessors of a node at the depth limit can still be looked up and pushed (nodes beyond Depth are copied)"))
			bad := false
			for _, e := range cutHolds {
				if !c01MustPassEdge(e, c01CutUnion(newCut().Edges(limited...))) {
					// the cut-off edge is also taken without a limit in force
					bad = true
				}
				walkCut := newCut().Instr(records...).Edges(visitedTrue...)
				// when the list variable is nil on every way from the cut-off to its test, the non-empty branch cannot be taken
				for pv := range predsSet {
					phi, isPhi := pv.(*ssa.Phi)
					if !isPhi {
						continue
					}
					var nilIn []Edge
					for i, ev := range phi.Edges {
						if isNilConst(ev) {
							nilIn = append(nilIn, Edge{phi.Block().Preds[i], phi.Block()})
						}
					}
					viaNil := false
					for _, ne := range nilIn {
						if ne == e {
							viaNil = true
						}
					}
					if len(nilIn) > 0 && (viaNil || !reach(e.To, 0, phi.Block().Instrs[0], newCut().Edges(nilIn...))) {
						_, nz := c03LenEdges(B, pv)
						walkCut.Edges(nz...)
					}
				}
				if lookupHelper != nil {
					// in the helper: at the limit nothing is looked up and an empty list goes back (the body records it as a root)
					for _, rt := range Returns(lookupHelper) {
						if !reach(e.To, 0, rt, nil) {
							continue
						}
						if k, isK := rt.Results[0].(*ssa.Const); !isK || k.Value != nil || c01IsErrorReturn(rt, ErrResultIndex(lookupHelper.Signature)) {
							bad = true
						}
					}
					if reach(e.To, 0, fp.(ssa.Instruction), nil) {
						bad = true
					}
				} else if toNext(e.To, 0, walkCut) {
					bad = true
				}
			}
			c.Check(R, fname+"|cut-off-records-root", cutPos, !bad,
				ifelse(!bad, "a node at the depth limit is recorded as a root (only when a limit is set)", "a node at the depth limit is dropped instead of being recorded as a root, or the cut-off applies without a limit"))
		}
		// (5) default FindPredecessors = src.Predecessors, used only when the option is nil.  The default is either
		// stored into the option field, or an alternative of the variable the lookup is called through.
		fieldLoads := map[ssa.Value]bool{}
		AllInstrs(F, func(in ssa.Instruction) {
			if v, isV := in.(ssa.Value); isV && c01IsFieldValue(v, fpOpt) {
				for a := range Aliases(v) {
					fieldLoads[a] = true
				}
			}
		})
		nilE, _, _ := NilTests(F, fieldLoads)
		isAdapter := func(g *ssa.Function) bool {
			if g == nil || len(g.Blocks) == 0 {
				return false
			}
			n := 0
			for _, a := range RetAtoms(g, 0) {
				n++
				ex, isEx := a.Val.(*ssa.Extract)
				if !isEx {
					return false
				}
				call, isCall := ex.Tuple.(*ssa.Call)
				if !isCall || CalleeName(call) != "(~/content.PredecessorFinder).Predecessors" || ex.Index != 0 {
					return false
				}
				if c01ParamOf(call.Call.Args[len(call.Call.Args)-1]) == nil || c01ParamOf(call.Call.Value) == nil {
					return false
				}
			}
			return n > 0
		}
		nDef := 0
		for _, s := range c04FieldStores(F, fpOpt) {
			nDef++
			g, _ := c01FuncOfValue(s.Val)
			guarded := len(nilE) > 0 && MustPass(s, newCut().Edges(nilE...))
			ok := isAdapter(g) && guarded
			c.Check(R, fname+"|default-predecessors", s.Pos(), ok,
				ifelse(ok, "a nil FindPredecessors defaults to src.Predecessors(ctx, desc)", "the default FindPredecessors is not src.Predecessors of the asked node, or it overwrites a caller-supplied function"))
		}
		alts := c03Alternatives(fp.Common().Value)
		if ld, isLd := fp.Common().Value.(*ssa.UnOp); isLd && ld.Op == token.MUL {
			if fv, isFV := ld.X.(*ssa.FreeVar); isFV {
				// the lookup goes through a variable of F captured by the loop body: its assignments in F are the alternatives
				alts = nil
				for _, bnd := range freeVarBindings(fv) {
					if a, isAlloc := bnd.(*ssa.Alloc); isAlloc {
						for _, st := range storesTo(a) {
							alt := c03Alt{Val: st.Val}
							if !c01IsFieldValue(st.Val, fpOpt) && len(nilE) > 0 && MustPass(st, newCut().Edges(nilE...)) {
								alt.Edges = []Edge{nilE[0]} // marks "assigned under the nil test"
							}
							alts = append(alts, alt)
						}
					}
				}
			}
		}
		if cp, isPath := c01ValuePath(strip(fp.Common().Value)); isPath && len(cp.Vars) > 0 && cp.last() != fpOpt {
			// the lookup goes through a field of a state struct: its assignments (anywhere in the package) are the alternatives
			carrier := cp.last()
			alts = nil
			for _, g := range c.P.FuncsOfPkg("") {
				sts := c04FieldStores(g, carrier)
				if len(sts) == 0 {
					continue
				}
				tested := c04FieldValues(g, carrier)
				for v := range c04FieldValues(g, fpOpt) {
					for a := range Aliases(v) {
						tested[a] = true
					}
				}
				gNil, _, _ := NilTests(g, tested)
				for _, st := range sts {
					alt := c03Alt{Val: st.Val}
					isOpt := false
					for _, r := range Roots(st.Val) {
						if c01IsFieldValue(r, fpOpt) {
							isOpt = true
						}
					}
					if isOpt {
						alt.Val = nil // the option itself
					} else if len(gNil) > 0 && MustPass(st, newCut().Edges(gNil...)) && len(nilE) > 0 {
						alt.Edges = []Edge{nilE[0]}
					} else if len(gNil) > 0 && MustPass(st, newCut().Edges(gNil...)) {
						nilE = append(nilE, gNil[0])
						alt.Edges = []Edge{gNil[0]}
					}
					alts = append(alts, alt)
				}
			}
		}
		for _, alt := range alts {
			if alt.Val == nil {
				continue
			}
			if fieldLoads[alt.Val] || c01IsFieldValue(alt.Val, fpOpt) {
				continue
			}
			nDef++
			g, _ := c01FuncOfValue(alt.Val)
			guarded := false
			for _, e := range alt.Edges {
				if len(nilE) > 0 && c01MustPassEdge(e, newCut().Edges(nilE...)) {
					guarded = true
				}
			}
			ok := isAdapter(g) && guarded
			c.Check(R, fname+"|default-predecessors", fp.Pos(), ok,
				ifelse(ok, "a nil FindPredecessors defaults to src.Predecessors(ctx, desc)", "the function the lookup goes through can be something else than the FindPredecessors option or, when that is nil, src.Predecessors of the asked node"))
		}
		if nDef == 0 {
			c.Violation(R, fname+"|default-predecessors", F.Pos(), "no default is used for a nil FindPredecessors")
		}
		// the returned roots derive from the map the record effect updates
		okRoots := true
		for _, rt := range Returns(F) {
			if c01IsErrorReturn(rt, ErrResultIndex(F.Signature)) {
				continue
			}
			fromMap := func(x ssa.Value) bool {
				if _, ok := x.(*ssa.Range); ok {
					return true
				}
				mt, ok := x.Type().Underlying().(*types.Map)
				return ok && c01IsOCIDescriptor(mt.Elem())
			}
			okRt := c01Slice(rt.Results[0], fromMap)
			if !okRt {
				// built by a module helper from the recorded map (f.rootList())
				if call, isCall := rt.Results[0].(*ssa.Call); isCall {
					if g := StaticCallee(call); g != nil && inModule(g) && len(g.Blocks) > 0 {
						okRt = len(Returns(g)) > 0
						for _, r2 := range Returns(g) {
							if !c01Slice(r2.Results[0], fromMap) {
								okRt = false
							}
						}
					}
				}
			}
			if !okRt {
				okRoots = false
			}
		}
		c.Check(R, fname+"|returns-recorded-roots", F.Pos(), okRoots, "the successful result is built from the recorded-roots map")
	}
}

// ---------- R2: one tracker / proxy / limiter for all roots ----------

func c03R2(c *Ctx) {
	const R = "C03.R2.shared-copy-state"
	c.Expect(R, 5)
	E := c.P.Fn("", "ExtendedCopyGraph")
	if E == nil {
		c.LostAnchor(R, "~.ExtendedCopyGraph")
		return
	}
	copyGraphs := c01GraphCopyFns(c.P)
	if len(copyGraphs) == 0 {
		c.LostAnchor(R, "graph copy (function handing the traversal to syncutil.Go)")
		return
	}
	// the dispatch of the roots: a syncutil.Go call in ExtendedCopyGraph or in a module helper it calls (depth <= 3);
	// helper parameters are mapped back to the values at the helper's call site
	chain := map[*ssa.Function]bool{}
	var findGo func(fn *ssa.Function, subst map[*ssa.Parameter]ssa.Value, depth int) (ssa.CallInstruction, ssa.Value)
	findGo = func(fn *ssa.Function, subst map[*ssa.Parameter]ssa.Value, depth int) (ssa.CallInstruction, ssa.Value) {
		resolve := func(a ssa.Value) ssa.Value {
			if p := c01ParamOf(a); p != nil && p.Parent() == fn {
				if v, ok := subst[p]; ok {
					return v
				}
			}
			return a
		}
		if gs := CallsTo(fn, nGo); len(gs) == 1 {
			chain[fn] = true
			return gs[0], resolve(variadicArg(gs[0]))
		}
		if depth >= 3 {
			return nil, nil
		}
		for _, call := range Calls(fn, func(string) bool { return true }) {
			g := StaticCallee(call)
			if g == nil || !inModule(g) || len(g.Blocks) == 0 || len(call.Common().Args) != len(g.Params) || copyGraphs[g] {
				continue
			}
			sub := map[*ssa.Parameter]ssa.Value{}
			for i, prm := range g.Params {
				sub[prm] = resolve(call.Common().Args[i])
			}
			if gc, items := findGo(g, sub, depth+1); gc != nil {
				chain[fn] = true
				return gc, items
			}
		}
		return nil, nil
	}
	goCall, items := findGo(E, map[*ssa.Parameter]ssa.Value{}, 0)
	if goCall == nil {
		c.Undecided(R, "~.ExtendedCopyGraph|dispatch", E.Pos(), "no single syncutil.Go dispatch of the roots found in ExtendedCopyGraph or the helpers it calls")
		return
	}
	// roots = result of the root finder
	finders := map[*ssa.Function]bool{}
	for _, f := range c03RootFinders(c.P) {
		finders[f] = true
	}
	rootsOK := false
	for _, r := range Roots(items) {
		if ex, ok := r.(*ssa.Extract); ok && ex.Index == 0 {
			if call, ok := ex.Tuple.(*ssa.Call); ok && finders[StaticCallee(call)] {
				rootsOK = true
			}
		}
	}
	c.Check(R, "~.ExtendedCopyGraph|dispatches-found-roots", goCall.Pos(), rootsOK,
		ifelse(rootsOK, "the items dispatched are the roots returned by the DFS", "the items handed to syncutil.Go are not the root finder's result"))
	perRoot, perRootRecv := c01FuncOfValue(goCall.Common().Args[2])
	if perRoot == nil || len(perRoot.Blocks) == 0 {
		c.Undecided(R, "~.ExtendedCopyGraph|per-root-closure", goCall.Pos(), "the function handed to syncutil.Go is not a closure, method value or function of the module")
		return
	}
	// the graph-copy call reached from the per-root function, directly or through module helpers (depth <= 3);
	// arguments that are helper parameters are mapped back to the values at the helper's call site
	var find func(fn *ssa.Function, subst map[*ssa.Parameter]ssa.Value, depth int) (ssa.CallInstruction, []ssa.Value)
	find = func(fn *ssa.Function, subst map[*ssa.Parameter]ssa.Value, depth int) (ssa.CallInstruction, []ssa.Value) {
		resolve := func(a ssa.Value) ssa.Value {
			if p := c01ParamOf(a); p != nil && p.Parent() == fn {
				if v, ok := subst[p]; ok {
					return v
				}
			}
			return a
		}
		for _, call := range Calls(fn, func(string) bool { return true }) {
			g := StaticCallee(call)
			if g == nil || !inModule(g) || len(g.Blocks) == 0 {
				continue
			}
			var args []ssa.Value
			for _, a := range call.Common().Args {
				args = append(args, resolve(a))
			}
			if copyGraphs[g] {
				return call, args
			}
			// a closure handed to a module helper that runs it (outsideRegion(region, func() error { return copyGraph(…) }))
			if depth < 3 {
				for _, a := range call.Common().Args {
					if _, isSig := a.Type().Underlying().(*types.Signature); isSig {
						if ha, _ := c01FuncOfValue(a); ha != nil && ha != fn && len(ha.Blocks) > 0 && ha.Parent() == fn {
							if c2, a2 := find(ha, map[*ssa.Parameter]ssa.Value{}, depth+1); c2 != nil {
								return c2, a2
							}
						}
					}
				}
			}
			if depth < 3 && len(args) == len(g.Params) {
				sub := map[*ssa.Parameter]ssa.Value{}
				for i, prm := range g.Params {
					sub[prm] = args[i]
				}
				if c2, a2 := find(g, sub, depth+1); c2 != nil {
					return c2, a2
				}
			}
		}
		return nil, nil
	}
	cg, cgArgs := find(perRoot, map[*ssa.Parameter]ssa.Value{}, 0)
	// the failure of a root's copy is the per-root task's failure: the error of the copy call flows to the return and no
	// deferred assignment to the named result can replace it by nil afterwards
	surfaces := func(call ssa.CallInstruction) {
		fn := call.Parent()
		r := ErrFlow(call, ErrFlowOpts{})
		over := c01DeferredOverwrite(fn)
		ok := r.OK && over == ""
		c.Check(R, "~.ExtendedCopyGraph|per-root-copy-error-surfaces", call.Pos(), ok,
			ifelse(ok, "the error of the per-root copy reaches the task's return and is not overwritten by a deferred assignment", "a failed copy of a root's sub-DAG can be reported as success: "+r.Detail+over))
	}
	if cg != nil {
		surfaces(cg)
	}
	if cg == nil && perRootRecv != nil {
		// the per-root function is a method of the state struct that also carries the traversal: it dispatches the
		// traversal itself; proxy, limiter and tracker are that one struct's fields — shared iff the struct is created once
		dispatches := false
		for _, t := range c01Traversals(c.P) {
			for f := range c01ReachableFns(perRoot, 2) {
				if len(c01DispatchCalls(f, t.Entry)) > 0 {
					dispatches = true
				}
			}
		}
		once := false
		rs := Roots(perRootRecv)
		if len(rs) == 1 {
			switch u := rs[0].(type) {
			case *ssa.Call:
				once = chain[u.Parent()] && !Reachable(u, u)
			case *ssa.Alloc:
				once = chain[u.Parent()] && !Reachable(u, u)
			}
		}
		if dispatches {
			for _, t := range c01Traversals(c.P) {
				for _, d := range c01DispatchCalls(perRoot, t.Entry) {
					surfaces(d.Call)
				}
			}
			for _, what := range []string{"proxy", "limiter", "tracker"} {
				c.Check(R, "~.ExtendedCopyGraph|shared-"+what, goCall.Pos(), once,
					ifelse(once, "the "+what+" is a field of the one copy-state value created once outside the per-root function, whose method is dispatched per root", "the copy state whose method runs per root is not a single value created once: roots do not share the "+what))
			}
			return
		}
	}
	if cg == nil {
		c.LostAnchor(R, "call of the graph copy (function handing the traversal to syncutil.Go) reachable from the per-root function")
		return
	}
	callee := StaticCallee(cg)
	for i, prm := range callee.Params {
		ts := prm.Type().String()
		var what string
		switch {
		case strings.HasSuffix(ts, "/internal/cas.Proxy"):
			what = "proxy"
		case strings.HasSuffix(ts, "semaphore.Weighted"):
			what = "limiter"
		case strings.HasSuffix(ts, "/internal/status.Tracker"):
			what = "tracker"
		default:
			continue
		}
		arg := cgArgs[i]
		ok, detail := false, "the "+what+" handed to the per-root copy is not a single object created once in ExtendedCopyGraph (nil or per-root values make every root use its own, so shared sub-graphs are copied twice and ordering across roots is lost)"
		if srcs, carried := c01CarriedSources(c.P, arg); carried && len(srcs) == 1 {
			if call, isCall := srcs[0].(*ssa.Call); isCall && chain[call.Parent()] && !Reachable(call, call) {
				ok, detail = true, "state carried into the per-root copy, assigned once from "+CalleeName(call)+" outside the per-root function"
			}
		}
		c.Check(R, "~.ExtendedCopyGraph|shared-"+what, cg.Pos(), ok, detail)
	}
}

// ---------- R3: artifact-type derivation ----------

// c03Sink is one way the artifact type of a descriptor gets fixed: a store
// into Descriptor.ArtifactType or a returned string, for one alternative of
// the value (phi edges recorded).
type c03Sink struct {
	At    ssa.Instruction // the store / return
	Edges []Edge          // phi edges selecting this alternative
	Kind  string          // "AT" manifest.artifactType, "CFG" manifest.config.mediaType, "CALL" result of module function G, "CARRY" field of a carrier struct
	Base  ssa.Value       // decoded struct the value was read from
	G     *ssa.Function
	Field *types.Var // for CARRY: the carrier field the value was read from
	Safe  bool       // the fallback is confined by construction (cmp.Or(artifactType, config.mediaType))
}

func (s c03Sink) feasible(k *cut) bool {
	if !c01Feasible(s.At, k) {
		return false
	}
	for _, e := range s.Edges {
		if c01MustPassEdge(e, k) {
			return false
		}
	}
	return true
}

func (s c03Sink) guarded(c *cut) bool {
	if s.Safe || MustPass(s.At, c) {
		return true
	}
	for _, e := range s.Edges {
		if c01MustPassEdge(e, c) {
			return true
		}
	}
	return false
}

// c03Classify: v is manifest.artifactType ("AT") or manifest.config.mediaType ("CFG")
// of a decoded manifest struct (anything but a Descriptor).
func c03Classify(v ssa.Value) (kind string, base ssa.Value) {
	p, ok := c01ValuePath(v)
	if !ok || len(p.Vars) == 0 || !c03IsDecoded(p.Base) {
		return "", nil
	}
	n := len(p.JSON)
	if p.JSON[n-1] == "artifacttype" && n == 1 {
		if st := c01StructOf(p.Base.Type()); st != nil && !c01IsOCIDescriptor(derefType(p.Base.Type())) {
			return "AT", p.Base
		}
	}
	if n == 2 && p.JSON[0] == "config" && p.JSON[1] == "mediatype" {
		return "CFG", p.Base
	}
	return "", nil
}

// c03IsDecoded: base is a struct a manifest document is decoded into — a local
// whose address is handed to encoding/json, or a parameter of such a struct
// type whose fields carry JSON tags (a helper receiving the decoded manifest).
func c03IsDecoded(base ssa.Value) bool { return c03IsDecodedD(base, 0) }

func c03IsDecodedD(base ssa.Value, depth int) bool {
	if depth > 3 {
		return false
	}
	// the result of a module helper that decodes and returns the document (fetchJSON[T], decodeNode[T] -> T / *T)
	resultOf := func(v ssa.Value) bool {
		var call *ssa.Call
		switch u := v.(type) {
		case *ssa.Call:
			call = u
		case *ssa.Extract:
			if cl, ok := u.Tuple.(*ssa.Call); ok && u.Index == 0 {
				call = cl
			}
		}
		if call == nil {
			return false
		}
		g := StaticCallee(call)
		if g == nil || !inModule(g) || len(g.Blocks) == 0 {
			return false
		}
		okAny := false
		for _, at := range RetAtoms(g, 0) {
			if c01IsErrorReturn(at.Ret, ErrResultIndex(g.Signature)) {
				continue
			}
			var src ssa.Value = at.Val
			if ld, isLd := src.(*ssa.UnOp); isLd && ld.Op == token.MUL {
				src = ld.X // the document returned by value
			}
			if !c03IsDecodedD(src, depth+1) {
				return false
			}
			okAny = true
		}
		return okAny
	}
	if resultOf(base) {
		return true
	}
	a, ok := base.(*ssa.Alloc)
	if !ok {
		return false
	}
	if ss := storesTo(a); len(ss) == 1 && resultOf(ss[0].Val) {
		return true
	}
	for _, r := range *a.Referrers() {
		if mi, isMI := r.(*ssa.MakeInterface); isMI {
			for _, r2 := range *mi.Referrers() {
				if call, isCall := r2.(ssa.CallInstruction); isCall {
					n := CalleeName(call)
					if strings.HasPrefix(n, "encoding/json.") || strings.HasPrefix(n, "(*encoding/json.") {
						return true
					}
				}
			}
		}
	}
	ss := storesTo(a)
	if len(ss) == 1 {
		if _, isParam := ss[0].Val.(*ssa.Parameter); isParam {
			if st := c01StructOf(a.Type()); st != nil {
				for i := 0; i < st.NumFields(); i++ {
					if strings.Contains(st.Tag(i), "json:") {
						return true
					}
				}
			}
		}
	}
	return false
}

// c03CarrierField: v reads a string field of a struct that is not a decoded
// document and not a Descriptor (a struct that merely carries extracted values).
func c03CarrierField(v ssa.Value) *types.Var {
	p, ok := c01ValuePath(v)
	if !ok || len(p.Vars) != 1 || c03IsDecoded(p.Base) {
		return nil
	}
	if c01IsOCIDescriptor(derefType(p.Base.Type())) {
		return nil
	}
	if b, isStr := p.Vars[0].Type().Underlying().(*types.Basic); !isStr || b.Kind() != types.String {
		return nil
	}
	if p.Vars[0].Pkg() == nil || !strings.HasPrefix(p.Vars[0].Pkg().Path(), Mod) {
		return nil
	}
	return p.Vars[0]
}

func derefType(t types.Type) types.Type {
	if p, ok := t.Underlying().(*types.Pointer); ok {
		return p.Elem()
	}
	return t
}

type c03Alt struct {
	Val   ssa.Value
	Edges []Edge
}

// c03Alternatives expands v through phis (recording the selecting edges) and
// loads of scalar cells.
func c03Alternatives(v ssa.Value) []c03Alt {
	var out []c03Alt
	seen := map[ssa.Value]bool{}
	var rec func(v ssa.Value, edges []Edge, d int)
	rec = func(v ssa.Value, edges []Edge, d int) {
		if seen[v] || d > 8 {
			out = append(out, c03Alt{v, edges})
			return
		}
		seen[v] = true
		switch u := v.(type) {
		case *ssa.Phi:
			for i, e := range u.Edges {
				rec(e, append(append([]Edge{}, edges...), Edge{u.Block().Preds[i], u.Block()}), d+1)
			}
			return
		case *ssa.UnOp:
			if a := cellOf(u); a != nil {
				if _, isStruct := a.Type().(*types.Pointer).Elem().Underlying().(*types.Struct); !isStruct {
					for _, st := range ReachingStores(a, u) {
						if st != nil {
							rec(st.Val, edges, d+1)
						}
					}
					return
				}
			}
		}
		out = append(out, c03Alt{v, edges})
	}
	rec(v, nil, 0)
	return out
}

// c03SinksOf classifies one alternative fixed at instruction at.
func c03SinksOf(at ssa.Instruction, a c03Alt) []c03Sink {
	if k, b := c03Classify(a.Val); k != "" {
		return []c03Sink{{At: at, Edges: a.Edges, Kind: k, Base: b}}
	}
	if fv := c03CarrierField(a.Val); fv != nil {
		return []c03Sink{{At: at, Edges: a.Edges, Kind: "CARRY", Field: fv}}
	}
	var call *ssa.Call
	switch u := a.Val.(type) {
	case *ssa.Call:
		call = u
	case *ssa.Extract:
		if cl, ok := u.Tuple.(*ssa.Call); ok && u.Index == 0 {
			call = cl
		}
	}
	if call == nil {
		return nil
	}
	// cmp.Or(x, y, …): the first non-empty operand — artifactType preferred, config.mediaType only when it is empty
	if CalleeName(call) == "cmp.Or" && len(call.Call.Args) == 1 {
		var elems []ssa.Value
		if sl, ok := call.Call.Args[0].(*ssa.Slice); ok {
			if arr, ok := sl.X.(*ssa.Alloc); ok {
				byIdx := map[int64]ssa.Value{}
				for _, r := range *arr.Referrers() {
					if ia, ok := r.(*ssa.IndexAddr); ok {
						if k, isK := constInt(ia.Index); isK {
							for _, r2 := range *ia.Referrers() {
								if st, ok := r2.(*ssa.Store); ok && st.Addr == ia {
									byIdx[k] = st.Val
								}
							}
						}
					}
				}
				for k := int64(0); k < int64(len(byIdx)); k++ {
					elems = append(elems, byIdx[k])
				}
			}
		}
		var out []c03Sink
		var atBase ssa.Value
		for _, e := range elems {
			if e == nil {
				return nil
			}
			k, b := c03Classify(e)
			switch {
			case k == "AT" && atBase == nil:
				atBase = b
				out = append(out, c03Sink{At: at, Edges: a.Edges, Kind: "AT", Base: b})
			case k == "CFG" && atBase != nil && b == atBase:
				out = append(out, c03Sink{At: at, Edges: a.Edges, Kind: "CFG", Base: b, Safe: true})
			default:
				return nil // an operand that is neither: not the recognised idiom
			}
		}
		return out
	}
	if g := StaticCallee(call); g != nil && inModule(g) && len(g.Blocks) > 0 {
		if b, ok := g.Signature.Results().At(0).Type().Underlying().(*types.Basic); ok && b.Kind() == types.String {
			return []c03Sink{{At: at, Edges: a.Edges, Kind: "CALL", G: g}}
		}
	}
	return nil
}

// c03ReturnSinks: classified result-0 alternatives of g.
func c03ReturnSinks(g *ssa.Function) []c03Sink {
	var out []c03Sink
	if g.Signature.Results().Len() == 0 {
		return nil
	}
	for _, a := range RetAtoms(g, 0) {
		var at ssa.Instruction = a.Ret
		if a.Store != nil && len(a.Edges) == 0 {
			at = a.Store
		}
		out = append(out, c03SinksOf(at, c03Alt{a.Val, a.Edges})...)
	}
	return out
}

// c03StoreSinks: classified alternatives stored into Descriptor.ArtifactType in f.
func c03StoreSinks(f *ssa.Function, descAT *types.Var) []c03Sink {
	var out []c03Sink
	AllInstrs(f, func(in ssa.Instruction) {
		s, ok := in.(*ssa.Store)
		if !ok {
			return
		}
		p, ok := c01AddrPath(s.Addr)
		if !ok || p.last() != descAT {
			return
		}
		for _, a := range c03Alternatives(s.Val) {
			out = append(out, c03SinksOf(s, a)...)
		}
	})
	return out
}

type c03Verdict struct {
	handles map[string]bool
	prefers bool
	derives bool // has at least one sink that reads a decoded manifest (directly or through a callee)
}

func c03R3(c *Ctx) {
	const R = "C03.R3.artifact-type-derivation"
	c.Expect(R, 15)
	kinds := c01ResolveKinds(c, R)
	descAT := c01FieldOf(c.P, c01OCISpec, "Descriptor", "ArtifactType")
	descMT := c01FieldOf(c.P, c01OCISpec, "Descriptor", "MediaType")
	if kinds == nil || descAT == nil || descMT == nil {
		c.LostAnchor(R, "ocispec.Descriptor.{ArtifactType,MediaType}")
		return
	}
	isMT := func(v ssa.Value) bool { return c01IsFieldValue(v, descMT) }
	handled := []string{"image-manifest", "image-index", "artifact-manifest"}

	memo := map[*ssa.Function]*c03Verdict{}
	sinkFieldOf := map[*ssa.Function]*types.Var{} // the field X's sinks are stored into (nil: returned values)
	// carriers of a field of a value-carrying struct: the module functions storing a manifest-derived value into it
	carrierCache := map[*types.Var][]*ssa.Function{}
	carriers := func(fv *types.Var) []*ssa.Function {
		if fs, ok := carrierCache[fv]; ok {
			return fs
		}
		var fs []*ssa.Function
		for _, g := range c01ModuleFuncs(c.P) {
			for _, sk := range c03StoreSinks(g, fv) {
				if sk.Kind == "AT" || sk.Kind == "CFG" || sk.Kind == "CALL" {
					fs = append(fs, g)
					break
				}
			}
		}
		carrierCache[fv] = fs
		return fs
	}
	// derives: does the sink read a decoded manifest (directly, through a helper or through a carrier struct)?
	var derives func(g *ssa.Function, d int) bool
	sinkDerives := func(sk c03Sink, d int) bool {
		switch sk.Kind {
		case "CALL":
			return derives(sk.G, d+1)
		case "CARRY":
			return len(carriers(sk.Field)) > 0
		}
		return true
	}
	derives = func(g *ssa.Function, d int) bool {
		if d > 2 {
			return false
		}
		for _, s := range c03ReturnSinks(g) {
			if sinkDerives(s, d) {
				return true
			}
		}
		return false
	}
	var eval func(X *ssa.Function, sinks []c03Sink, depth int) *c03Verdict
	eval = func(X *ssa.Function, sinks []c03Sink, depth int) *c03Verdict {
		if v, ok := memo[X]; ok {
			return v
		}
		v := &c03Verdict{handles: map[string]bool{}}
		memo[X] = v
		xn := c01ClosureKey(X, "artifact-type")
		tests := c01StrTests(X, isMT)
		bases := map[ssa.Value]bool{}
		for _, t := range tests {
			if p, ok := c01ValuePath(t.Subj); ok {
				bases[p.Base] = true
			}
		}
		if len(bases) > 1 {
			c.Undecided(R, xn+"|media-type-dispatch", X.Pos(), "media types of several descriptors are compared in this function; cannot attribute the cases")
			return v
		}
		sinkField := sinkFieldOf[X]
		if sinkField == nil {
			sinkField = descAT
		}
		subG := func(g *ssa.Function) *c03Verdict {
			if depth > 2 {
				return &c03Verdict{handles: map[string]bool{}}
			}
			return eval(g, c03ReturnSinks(g), depth+1)
		}
		// verdict behind a delegating sink: a helper's result, or the functions filling a carrier field
		sub := func(sk c03Sink) *c03Verdict {
			if sk.Kind == "CALL" {
				return subG(sk.G)
			}
			out := &c03Verdict{handles: map[string]bool{}, prefers: true}
			if depth > 2 {
				return out
			}
			for _, g := range carriers(sk.Field) {
				sinkFieldOf[g] = sk.Field
				gv := eval(g, c03StoreSinks(g, sk.Field), depth+1)
				for kd, h := range gv.handles {
					if h {
						out.handles[kd] = true
					}
				}
				if !gv.prefers {
					out.prefers = false
				}
			}
			return out
		}
		for _, kind := range handled {
			k, und := c01CaseCutP(X, tests, kinds.ByKind[kind], isMT)
			if len(und) > 0 {
				c.Undecided(R, xn+"|handles-"+kind, X.Pos(), "the dispatch goes through a predicate whose answer for this media type cannot be determined: "+strings.Join(und, ", "))
				continue
			}
			found := false
			for _, s := range sinks {
				if !s.feasible(k) || c03OnDecodeFailure(s) {
					continue // (a member read only where decoding the document failed derives nothing)
				}
				switch {
				case s.Kind == "AT", s.Kind == "CFG" && kind == "image-manifest":
					found = true // (for image manifests the preference of artifactType is its own obligation below)
				case (s.Kind == "CALL" || s.Kind == "CARRY") && sub(s).handles[kind]:
					found = true
				}
			}
			v.handles[kind] = found
			c.Check(R, xn+"|handles-"+kind, X.Pos(), found,
				ifelse(found, "for a "+kind+" the artifact type is read from the decoded manifest",
					"for a "+kind+" no artifact type is derived from the manifest's artifactType member: such a referrer is matched differently depending on whether the source supplied the descriptor field (D3b)"))
		}
		// image manifest: artifactType preferred, config.mediaType only as fallback when empty
		k, _ := c01CaseCutP(X, tests, kinds.ByKind["image-manifest"], isMT)
		var ats, cfgs, calls []c03Sink
		for _, s := range sinks {
			if !s.feasible(k) {
				continue
			}
			switch s.Kind {
			case "AT":
				ats = append(ats, s)
			case "CFG":
				cfgs = append(cfgs, s)
			default:
				calls = append(calls, s)
			}
		}
		callsOK := true
		for _, s := range calls {
			if !sub(s).prefers {
				callsOK = false
			}
		}
		if len(ats) == 0 && len(cfgs) == 0 && len(calls) > 0 {
			v.prefers = callsOK // delegated entirely; the callee carries the obligation
			return v
		}
		ok, detail := true, "artifactType is taken; config.mediaType only on the edge where artifactType is empty"
		pos := X.Pos()
		switch {
		case len(ats) == 0 && len(cfgs) > 0:
			ok, detail, pos = false, "for an image manifest the result is config.mediaType on every path; the manifest's artifactType is ignored, so a referrer with artifactType set and a generic/empty config is filtered differently than through the Referrers API (D3a)", cfgs[0].At.Pos()
		case len(ats) == 0:
			ok, detail = false, "for an image manifest neither artifactType nor config.mediaType is derived"
		case len(cfgs) == 0:
			ok, detail = false, "for an image manifest there is no fallback to config.mediaType when artifactType is empty (siblings fall back)"
		}
		for _, s := range cfgs {
			if !ok {
				break
			}
			base := s.Base
			emptyE, _ := c01EmptyStrEdges(X, func(x ssa.Value) bool {
				for _, r := range Roots(x) {
					if kd, b := c03Classify(r); kd == "AT" && b == base {
						continue
					}
					// a Descriptor.ArtifactType field last assigned from manifest.artifactType
					p, isPath := c01ValuePath(r)
					ld, isLoad := r.(*ssa.UnOp)
					if !isPath || !isLoad || p.last() != sinkField {
						return false
					}
					fa, isFA := ld.X.(*ssa.FieldAddr)
					if !isFA {
						return false
					}
					stores, unknown := c01FieldReachingStores(fa.X, fa.Field, ld)
					if unknown || len(stores) == 0 {
						return false
					}
					for _, st := range stores {
						if kd, b := c03Classify(st.Val); kd != "AT" || b != base {
							return false
						}
					}
				}
				return true
			})
			if !s.Safe && (len(emptyE) == 0 || !s.guarded(c01CutUnion(k, newCut().Edges(emptyE...)))) {
				ok, detail, pos = false, "config.mediaType can replace a non-empty artifactType: the fallback is not confined to the edge where the manifest's artifactType is empty", s.At.Pos()
			}
		}
		if ok && !callsOK {
			ok, detail = false, "a helper called for image manifests does not prefer artifactType"
		}
		v.prefers = ok
		c.Check(R, xn+"|image-manifest-prefers-ArtifactType", pos, ok, detail)
		return v
	}

	// discovery: every module function storing a manifest-derived value into Descriptor.ArtifactType
	have := map[string]bool{}
	var referrersSeen, rootVia bool
	for _, f := range c01ModuleFuncs(c.P) {
		sinks := c03StoreSinks(f, descAT)
		isDeriver, via := false, false
		for _, s := range sinks {
			switch {
			case s.Kind == "AT" || s.Kind == "CFG":
				isDeriver = true
			case sinkDerives(s, 0):
				isDeriver, via = true, true
			}
		}
		if !isDeriver {
			continue
		}
		// keep only the sinks that read a manifest
		var kept []c03Sink
		for _, s := range sinks {
			if sinkDerives(s, 0) {
				kept = append(kept, s)
			}
		}
		have[fnPkgPath(f)] = true
		if f == c.P.Fn("registry", "Referrers") {
			referrersSeen = true
		}
		if via && fnPkgPath(f) == Mod {
			rootVia = true
		}
		eval(f, kept, 0)
	}
	// frozen sibling table (by role)
	if !referrersSeen && !have[pkgPath("registry")] {
		c.LostAnchor(R, "deriver of Descriptor.ArtifactType from decoded manifests in ~/registry (Referrers' predecessor path)")
	}
	if !have[pkgPath("registry/remote")] {
		c.LostAnchor(R, "deriver of Descriptor.ArtifactType from a pushed manifest in ~/registry/remote (referrers index update)")
	}
	if !rootVia {
		c.LostAnchor(R, "FilterArtifactType's fetch path (closure in package ~ storing a fetched artifact type into Descriptor.ArtifactType)")
	}
}

// ---------- R4: annotation fetch-on-missing ----------

func c03R4(c *Ctx) {
	const R = "C03.R4.annotation-fetch-kinds"
	c.Expect(R, 5)
	kinds := c01ResolveKinds(c, R)
	descMT := c01FieldOf(c.P, c01OCISpec, "Descriptor", "MediaType")
	descAnn := c01FieldOf(c.P, c01OCISpec, "Descriptor", "Annotations")
	FA := c.P.Fn("", "ExtendedCopyGraphOptions.FilterAnnotation")
	if kinds == nil || descMT == nil || descAnn == nil || FA == nil {
		c.LostAnchor(R, "(*~.ExtendedCopyGraphOptions).FilterAnnotation / ocispec.Descriptor.{MediaType,Annotations}")
		return
	}
	isMT := func(v ssa.Value) bool { return c01IsFieldValue(v, descMT) }
	found := false
	for _, f := range Anons(FA) {
		var fetches []ssa.Instruction
		AllInstrs(f, func(in ssa.Instruction) {
			s, ok := in.(*ssa.Store)
			if !ok {
				return
			}
			p, ok := c01AddrPath(s.Addr)
			if !ok || p.last() != descAnn {
				return
			}
			for _, r := range Roots(s.Val) {
				if ex, ok := r.(*ssa.Extract); ok {
					if call, ok := ex.Tuple.(*ssa.Call); ok {
						if g := StaticCallee(call); g != nil && inModule(g) {
							fetches = append(fetches, call)
						}
					}
				}
			}
		})
		if len(fetches) == 0 {
			continue
		}
		found = true
		tests := c01StrTests(f, isMT)
		var ks []string
		for k := range kinds.ByKind {
			ks = append(ks, k)
		}
		sort.Strings(ks)
		for _, kind := range ks {
			k, und := c01CaseCutP(f, tests, kinds.ByKind[kind], isMT)
			if len(und) > 0 {
				c.Undecided(R, c01ClosureKey(f, "fetch-missing-annotations")+"|fetches-for-"+kind, fetches[0].Pos(), "the dispatch goes through a predicate whose answer for this media type cannot be determined: "+strings.Join(und, ", "))
				continue
			}
			ok := false
			for _, call := range fetches {
				if c01Feasible(call, k) {
					ok = true
				}
			}
			c.Check(R, c01ClosureKey(f, "fetch-missing-annotations")+"|fetches-for-"+kind, fetches[0].Pos(), ok,
				ifelse(ok, "annotations of a "+kind+" are fetched from the manifest when the descriptor has none",
					"a "+kind+" predecessor without descriptor annotations is never fetched: it is filtered on its descriptor only, i.e. differently per source kind"))
		}
	}
	if !found {
		c.LostAnchor(R, "closure of FilterAnnotation storing fetched annotations into Descriptor.Annotations")
	}
}

// ---------- R6: the filter wrappers keep every match ----------

type c03FilterLoop struct {
	ok      bool
	why     string
	accPhi  *ssa.Phi  // accumulator carried as a loop phi, or
	accCell ssa.Value // accumulator held in a cell (captured variable / local)
	loop    *Loop
}

// c03CheckFilterLoop analyses one `for _, e := range X` over descriptors in G
// that filters e through a keep test into an accumulator.
func c03CheckFilterLoop(G *ssa.Function, l *Loop, descMT *types.Var) (res c03FilterLoop, isFilter bool) {
	return c03CheckFilterLoopY(G, l, descMT, nil)
}

// c03CheckFilterLoopY: with yield != nil the loop is the body of an iterator
// (iter.Seq producer): "keeping" an element is yielding it, and the loop may
// also end when yield returns false.
func c03CheckFilterLoopY(G *ssa.Function, l *Loop, descMT *types.Var, yield ssa.Value) (res c03FilterLoop, isFilter bool) {
	X, idx, body, _, _ := c01ElemLoop(l)
	res.loop = l
	header := l.Header.Instrs[0]
	derivesElem := func(v ssa.Value) bool {
		return c01Slice(v, func(x ssa.Value) bool {
			ia, ok := x.(*ssa.IndexAddr)
			return ok && c01SameStrip(ia.X, X) && ia.Index == idx
		})
	}
	isMT := func(v ssa.Value) bool { return c01IsFieldValue(v, descMT) }
	var keepIfs []ssa.Instruction
	var keepTrue []Edge
	for _, i := range Ifs(G) {
		if !l.Contains(i) || i.Block() == l.Header {
			continue
		}
		cond, t, _ := ifEdges(i)
		call, ok := cond.(*ssa.Call)
		if !ok || strings.HasPrefix(CalleeName(call), "builtin:") {
			continue
		}
		if len(c01PredicateTests(call, isMT)) > 0 {
			continue // media-type dispatch predicate, not the filter
		}
		if _, _, isMember := c01Membership(call, isMT); isMember {
			continue // slices.Contains(<media-type table>, elem.MediaType): dispatch, not the filter
		}
		uses := false
		for _, a := range call.Call.Args {
			if derivesElem(a) {
				uses = true
			}
		}
		if uses {
			keepIfs = append(keepIfs, i)
			keepTrue = append(keepTrue, t)
		}
	}
	// appends of the element
	var appends []*ssa.Call
	AllInstrs(G, func(in ssa.Instruction) {
		call, ok := in.(*ssa.Call)
		if !ok || !l.Contains(call) {
			return
		}
		if yield != nil {
			if !call.Call.IsInvoke() && call.Call.Value == yield && len(call.Call.Args) == 1 && derivesElem(call.Call.Args[0]) {
				appends = append(appends, call)
			}
			return
		}
		if CalleeName(call) != "builtin:append" || len(call.Call.Args) != 2 {
			return
		}
		if derivesElem(call.Call.Args[1]) {
			appends = append(appends, call)
		}
	})
	if yield != nil {
		// the yield result test is not the keep test
		var ks []ssa.Instruction
		var kt []Edge
		for i, ki := range keepIfs {
			cond, _, _ := ifEdges(ki.(*ssa.If))
			if cc, isCall := cond.(*ssa.Call); isCall && !cc.Call.IsInvoke() && cc.Call.Value == yield {
				continue
			}
			ks, kt = append(ks, ki), append(kt, keepTrue[i])
		}
		keepIfs, keepTrue = ks, kt
	}
	if len(keepIfs) == 0 && len(appends) == 0 {
		return res, false
	}
	isFilter = true
	if len(keepIfs) == 0 {
		res.why = "elements are appended but no keep test on the element is recognised"
		return
	}
	if len(appends) == 0 {
		res.why = "the loop tests elements but never appends one to an accumulator"
		return
	}
	// accumulator identity
	for _, ap := range appends {
		if yield != nil {
			break
		}
		a0 := ap.Call.Args[0]
		// lazily allocated accumulator: if acc == nil { acc = make([]T, 0, n) }; acc = append(acc, e)
		if inner, ok := a0.(*ssa.Phi); ok && inner.Block() != l.Header && l.Blocks[inner.Block()] {
			var hdr *ssa.Phi
			okLazy := true
			for _, ev := range inner.Edges {
				switch u := ev.(type) {
				case *ssa.Phi:
					if u.Block() == l.Header && (hdr == nil || hdr == u) {
						hdr = u
					} else {
						okLazy = false
					}
				case *ssa.MakeSlice:
					if k, isK := constInt(u.Len); !isK || k != 0 {
						okLazy = false
					}
				default:
					okLazy = false
				}
			}
			if okLazy && hdr != nil {
				// the fresh slice is made only where the accumulator is still nil (nothing kept so far)
				nilE, _, _ := NilTests(G, Aliases(hdr))
				for _, ev := range inner.Edges {
					if mk, isMk := ev.(*ssa.MakeSlice); isMk && (len(nilE) == 0 || !MustPass(mk, newCut().Edges(nilE...))) {
						okLazy = false
					}
				}
			}
			if okLazy && hdr != nil {
				a0 = hdr
			}
		}
		if phi, ok := a0.(*ssa.Phi); ok && phi.Block() == l.Header {
			if res.accPhi != nil && res.accPhi != phi {
				res.why = "several accumulators"
				return
			}
			res.accPhi = phi
			continue
		}
		if ld, ok := a0.(*ssa.UnOp); ok && ld.Op == token.MUL {
			switch ld.X.(type) {
			case *ssa.FreeVar, *ssa.Alloc:
				if res.accCell != nil && res.accCell != ld.X {
					res.why = "several accumulators"
					return
				}
				res.accCell = ld.X
				continue
			}
		}
		res.why = "an element is appended to something that is not the loop's accumulator (not the value carried from the previous iteration)"
		return
	}
	if res.accPhi != nil && res.accCell != nil {
		res.why = "several accumulators"
		return
	}
	// the loop is left only when the list is exhausted, or by an error return
	{
		_, _, _, exhausted, _ := c01ElemLoop(l)
		for _, e := range l.Exits {
			if e == exhausted {
				continue
			}
			if yield != nil {
				var ys []ssa.Instruction
				for _, ap := range appends {
					ys = append(ys, ap)
				}
				if c01MustPassEdge(e, newCut().Instr(ys...)) {
					continue // the consumer stopped (yield returned false)
				}
			}
			if c01SuccessReturnFrom(G, e, nil, nil) != nil {
				res.why = "the filtering loop can be left early (break / return) without an error: the remaining elements are never tested"
				return
			}
		}
	}
	// (b1) every iteration reaches the keep test
	if reach(body.To, 0, header, newCut().Instr(keepIfs...)) {
		res.why = "an iteration can finish without the element reaching the keep test"
		return
	}
	// (b2) on the keep edge the element is appended (and, for a cell, stored back)
	kept := newCut()
	for _, ap := range appends {
		if res.accPhi != nil || yield != nil {
			kept.Instr(ap)
			continue
		}
		for _, r := range *ap.Referrers() {
			if st, ok := r.(*ssa.Store); ok && st.Addr == res.accCell && st.Val == ssa.Value(ap) {
				kept.Instr(st)
			}
		}
	}
	for _, e := range keepTrue {
		if reach(e.To, 0, header, kept) {
			res.why = "an element that passes the keep test can reach the next iteration without being appended to the accumulator"
			return
		}
	}
	// (a) for a phi accumulator: the value carried around the loop is the accumulator itself or append(accumulator, element)
	if res.accPhi != nil {
		isAppend := func(v ssa.Value) bool {
			for _, ap := range appends {
				if v == ssa.Value(ap) {
					return true
				}
			}
			return false
		}
		var okVal func(v ssa.Value, d int) bool
		okVal = func(v ssa.Value, d int) bool {
			if v == ssa.Value(res.accPhi) || isAppend(v) {
				return true
			}
			if p, ok := v.(*ssa.Phi); ok && d < 6 && l.Blocks[p.Block()] {
				for _, e := range p.Edges {
					if !okVal(e, d+1) {
						return false
					}
				}
				return true
			}
			return false
		}
		for i, ev := range res.accPhi.Edges {
			if l.Blocks[l.Header.Preds[i]] && !okVal(ev, 0) {
				res.why = "the accumulator is replaced inside the loop by something else than itself or append(accumulator, element): earlier matches are lost"
				return
			}
		}
	}
	res.ok = true
	return
}

// c03AppendHelperCalls: calls `acc = h(acc, page, keep)` of a module helper verified to return its first slice
// argument extended by the kept elements of the other (filled by c03R6 while it analyses the page callbacks).
var c03AppendHelperCalls = map[*ssa.Call]bool{}

// c03CellOnlyAppended: every store to cell in G is append(<load of cell>, …).
func c03CellOnlyAppended(G *ssa.Function, cell ssa.Value) (bool, token.Pos) {
	ok, pos := true, token.NoPos
	AllInstrs(G, func(in ssa.Instruction) {
		st, isStore := in.(*ssa.Store)
		if !isStore || st.Addr != cell {
			return
		}
		call, isCall := st.Val.(*ssa.Call)
		if isCall && c03AppendHelperCalls[call] {
			return // acc = appendIf(acc, page, keep): verified append-only helper
		}
		good := isCall && (CalleeName(call) == "builtin:append" || CalleeName(call) == "slices.AppendSeq") && len(call.Call.Args) >= 1
		if good {
			ld, isLoad := call.Call.Args[0].(*ssa.UnOp)
			good = isLoad && ld.Op == token.MUL && ld.X == cell
		}
		if !good && ok {
			ok, pos = false, st.Pos()
		}
	})
	return ok, pos
}

func c03R6(c *Ctx) {
	const R = "C03.R6.filter-keeps-every-match"
	c.Expect(R, 12)
	fpOpt := c01FieldOf(c.P, "", "ExtendedCopyGraphOptions", "FindPredecessors")
	descMT := c01FieldOf(c.P, c01OCISpec, "Descriptor", "MediaType")
	if fpOpt == nil || descMT == nil {
		c.LostAnchor(R, "~.ExtendedCopyGraphOptions.FindPredecessors")
		return
	}
	isDescSlice := func(t types.Type) bool {
		sl, ok := t.Underlying().(*types.Slice)
		return ok && c01IsOCIDescriptor(sl.Elem())
	}
	nWrappers := 0
	listerCalls := map[ssa.CallInstruction]bool{}
	for _, F := range c.P.FuncsOfPkg("") {
		for _, st := range c04FieldStores(F, fpOpt) {
			mc, ok := st.Val.(*ssa.MakeClosure)
			if !ok {
				continue
			}
			W := mc.Fn.(*ssa.Function)
			wk := c01OuterName(W) + "$wrapper"
			// --- the Referrers page callback: in the wrapper itself, or in a module helper it lists through ---
			const nReferrers = "(~/registry.ReferrerLister).Referrers"
			L := W
			var viaHelper ssa.CallInstruction
			if len(CallsTo(W, nReferrers)) == 0 {
				for _, call := range Calls(W, func(string) bool { return true }) {
					if h := StaticCallee(call); h != nil && inModule(h) && len(h.Blocks) > 0 && len(CallsTo(h, nReferrers)) > 0 {
						L, viaHelper = h, call
					}
				}
			}
			if viaHelper != nil {
				listerCalls[viaHelper] = true
			}
			for _, rc := range CallsTo(L, nReferrers) {
				W := L // the function holding the listing (shadowing: the checks below are about it)
				nWrappers++
				ck := c01OuterName(W) + "$page-callback"
				args := rc.Common().Args
				var cb *ssa.MakeClosure
				for _, r := range Roots(args[len(args)-1]) {
					if m, ok := r.(*ssa.MakeClosure); ok {
						cb = m
					}
				}
				if cb == nil {
					c.Undecided(R, ck+"|accumulator-only-appended", rc.Pos(), "the page callback handed to Referrers is not a closure literal")
					continue
				}
				G := cb.Fn.(*ssa.Function)
				var fl *c03FilterLoop
				for _, l := range Loops(G) {
					if X, _, _, _, ok := c01ElemLoop(l); ok && isDescSlice(X.Type()) && c01ParamOf(X) != nil {
						if r, isF := c03CheckFilterLoop(G, l, descMT); isF {
							fl = &r
						}
					}
				}
				if fl == nil {
					// kept = slices.AppendSeq(kept, keptOnly(page, keep)): the filtering loop is the iterator's
					AllInstrs(G, func(in ssa.Instruction) {
						st, isStore := in.(*ssa.Store)
						if !isStore {
							return
						}
						ap, isCall := st.Val.(*ssa.Call)
						if !isCall || CalleeName(ap) != "slices.AppendSeq" || len(ap.Call.Args) != 2 {
							return
						}
						ld, isLd := ap.Call.Args[0].(*ssa.UnOp)
						if !isLd || ld.Op != token.MUL || ld.X != st.Addr {
							return
						}
						seq, isSeq := ap.Call.Args[1].(*ssa.Call)
						if !isSeq {
							return
						}
						g := StaticCallee(seq)
						if g == nil || !inModule(g) || len(g.Blocks) == 0 {
							return
						}
						var P *ssa.Function
						for _, r := range Returns(g) {
							if f, _ := c01FuncOfValue(r.Results[0]); f != nil {
								P = f
							}
						}
						if P == nil || len(P.Params) == 0 {
							return
						}
						// the page is one of the iterator function's arguments
						pageParam := -1
						for i, a := range seq.Call.Args {
							if isDescSlice(a.Type()) && c01ParamOf(a) != nil && i < len(g.Params) {
								pageParam = i
							}
						}
						if pageParam < 0 {
							return
						}
						for _, l := range Loops(P) {
							X, _, _, _, ok := c01ElemLoop(l)
							if !ok || !isDescSlice(X.Type()) || !c01CarriedFrom(c.P, X, g.Params[pageParam]) {
								continue
							}
							if r, isF := c03CheckFilterLoopY(P, l, descMT, P.Params[0]); isF {
								r.accCell = st.Addr
								fl = &r
							}
						}
					})
				}
				if fl == nil {
					// acc = appendIf(acc, page, keep): the filtering loop is a module helper's, over its page parameter,
					// accumulating onto its accumulator parameter
					AllInstrs(G, func(in ssa.Instruction) {
						st, isStore := in.(*ssa.Store)
						if !isStore {
							return
						}
						hc, isCall := st.Val.(*ssa.Call)
						if !isCall {
							return
						}
						h := StaticCallee(hc)
						if h == nil || !inModule(h) || len(h.Blocks) == 0 || len(hc.Call.Args) != len(h.Params) {
							return
						}
						accIdx, pageIdx := -1, -1
						for i, a := range hc.Call.Args {
							if ld, isLd := a.(*ssa.UnOp); isLd && ld.Op == token.MUL && ld.X == st.Addr {
								accIdx = i
							} else if isDescSlice(a.Type()) && c01ParamOf(a) != nil {
								pageIdx = i
							}
						}
						if accIdx < 0 || pageIdx < 0 {
							return
						}
						for _, l := range Loops(h) {
							X, _, _, _, ok := c01ElemLoop(l)
							if !ok || c01ParamOf(X) != h.Params[pageIdx] {
								continue
							}
							r, isF := c03CheckFilterLoop(h, l, descMT)
							if !isF {
								continue
							}
							if r.ok {
								// starts from the accumulator parameter and returns the accumulated slice
								if r.accPhi == nil {
									r.ok, r.why = false, "the helper does not accumulate in a loop-carried slice"
								} else {
									for i, ev := range r.accPhi.Edges {
										if !l.Blocks[l.Header.Preds[i]] && c01ParamOf(ev) != h.Params[accIdx] {
											r.ok, r.why = false, "the helper's accumulator does not start from the slice it is given"
										}
									}
									for _, ret := range Returns(h) {
										if strip(ret.Results[0]) != ssa.Value(r.accPhi) {
											r.ok, r.why = false, "the helper does not return the accumulated slice"
										}
									}
								}
							}
							if r.ok {
								c03AppendHelperCalls[hc] = true
							}
							r.accPhi, r.accCell = nil, st.Addr
							fl = &r
						}
					})
				}
				if fl == nil {
					c.Undecided(R, ck+"|every-referrer-tested-and-kept", G.Pos(), "no filtering loop over the page of referrers recognised in the callback")
					continue
				}
				c.Check(R, ck+"|every-referrer-tested-and-kept", blockPos(fl.loop.Header), fl.ok,
					ifelse(fl.ok, "every referrer of a page reaches the keep test and is appended to the accumulator on its true edge", fl.why))
				fv, isFV := fl.accCell.(*ssa.FreeVar)
				if !fl.ok || !isFV {
					if fl.ok {
						c.Undecided(R, ck+"|accumulator-only-appended", G.Pos(), "the callback's accumulator is not a captured variable: matches of earlier pages cannot be followed")
					}
					continue
				}
				okA, posA := c03CellOnlyAppended(G, fv)
				if okA {
					posA = G.Pos()
				}
				c.Check(R, ck+"|accumulator-only-appended", posA, okA,
					ifelse(okA, "every store to the captured accumulator is append(<its current value>, …)", "the captured accumulator is overwritten inside the per-page callback (make / nil / literal / re-slice): only the last page's matches survive, a matching referrer on an earlier page is never followed"))
				// (c) the wrapper returns that accumulator, untouched after the listing
				var cell *ssa.Alloc
				for i, x := range G.FreeVars {
					if x == fv {
						cell, _ = cb.Bindings[i].(*ssa.Alloc)
					}
				}
				okC := cell != nil
				if okC {
					// the value read from the cell at ld is what the callback left there: no store after the listing
					// reaches it, except re-storing the cell's own value (named results at a return statement)
					var untouched func(ld *ssa.UnOp, d int) bool
					untouched = func(ld *ssa.UnOp, d int) bool {
						if d > 3 {
							return false
						}
						for _, st := range ReachingStores(cell, ld) {
							if st == nil || !Reachable(rc.(ssa.Instruction), st) {
								continue
							}
							l2, isLoad := st.Val.(*ssa.UnOp)
							if !isLoad || l2.Op != token.MUL || l2.X != ssa.Value(cell) || !untouched(l2, d+1) {
								return false
							}
						}
						return true
					}
					n := 0
					if e := ErrOf(rc); e != nil {
						nilE, _, _ := NilTests(W, Aliases(e))
						for _, ne := range nilE {
							for _, ret := range Returns(W) {
								if !reach(ne.To, 0, ret, nil) || c01IsErrorReturn(ret, ErrResultIndex(W.Signature)) {
									continue
								}
								n++
								ld, isLoad := ret.Results[0].(*ssa.UnOp)
								if !isLoad || ld.Op != token.MUL || ld.X != ssa.Value(cell) || !untouched(ld, 0) {
									okC = false
								}
							}
						}
					}
					if n == 0 {
						okC = false
					}
				}
				// listed through a helper: the wrapper hands the helper's list on (returned as is, or filtered below)
				if okC && viaHelper != nil {
					used := false
					if lst := ResultOf(viaHelper, 0); lst != nil {
						al := Aliases(lst)
						for _, ret := range Returns(mc.Fn.(*ssa.Function)) {
							if al[ret.Results[0]] || al[strip(ret.Results[0])] {
								used = true
							}
						}
					}
					okC = used
				}
				c.Check(R, wk+"|returns-page-accumulator", rc.Pos(), okC,
					ifelse(okC, "after a successful listing the wrapper returns the accumulator the callback appended to", "after a successful Referrers listing the wrapper does not return the accumulator filled by the page callback (or overwrites it)"))
			}
			// --- the filtering loop over listed predecessors ---
			var fl *c03FilterLoop
			for _, l := range Loops(W) {
				if X, _, _, _, ok := c01ElemLoop(l); ok && isDescSlice(X.Type()) {
					if r, isF := c03CheckFilterLoop(W, l, descMT); isF {
						fl = &r
					}
				}
			}
			if fl == nil {
				if len(CallsTo(L, nReferrers)) > 0 {
					c.Undecided(R, wk+"|every-predecessor-tested-and-kept", W.Pos(), "no filtering loop over the listed predecessors recognised in the wrapper")
				}
				continue
			}
			c.Check(R, wk+"|every-predecessor-tested-and-kept", blockPos(fl.loop.Header), fl.ok,
				ifelse(fl.ok, "every listed predecessor reaches the keep test and is appended on its true edge; the kept slice only grows by append", fl.why))
			if !fl.ok {
				continue
			}
			// the ranged list is what the predecessor lookup returned
			X, _, _, exit, _ := c01ElemLoop(fl.loop)
			okX := c01Slice(X, func(x ssa.Value) bool {
				ex, isEx := x.(*ssa.Extract)
				if !isEx || ex.Index != 0 {
					return false
				}
				call, isCall := ex.Tuple.(*ssa.Call)
				return isCall && (CalleeName(call) == "(~/content.PredecessorFinder).Predecessors" || strings.HasPrefix(CalleeName(call), "dyn:") || listerCalls[call])
			})
			c.Check(R, wk+"|filters-the-listed-predecessors", blockPos(fl.loop.Header), okX,
				ifelse(okX, "the loop ranges over what src.Predecessors / the previous FindPredecessors returned", "the filtering loop does not range over the predecessors that were looked up"))
			okR, n := true, 0
			for _, ret := range Returns(W) {
				if !reach(exit.To, 0, ret, nil) || c01IsErrorReturn(ret, ErrResultIndex(W.Signature)) {
					continue
				}
				n++
				switch {
				case fl.accPhi != nil:
					if strip(ret.Results[0]) != ssa.Value(fl.accPhi) {
						okR = false
					}
				default:
					ld, isLoad := ret.Results[0].(*ssa.UnOp)
					if !isLoad || ld.X != fl.accCell {
						okR = false
					}
				}
			}
			c.Check(R, wk+"|returns-kept", W.Pos(), okR && n > 0,
				ifelse(okR && n > 0, "after the loop the wrapper returns the kept slice", "the wrapper's successful result after filtering is not the kept slice"))
		}
	}
	if nWrappers == 0 {
		c.LostAnchor(R, "FindPredecessors wrappers using ReferrerLister.Referrers with a page callback (FilterAnnotation / FilterArtifactType)")
	}
}

// ---------- R7: the annotation filter keeps on presence ----------

func c03R7(c *Ctx) {
	const R = "C03.R7.annotation-presence-decides"
	c.Expect(R, 3)
	FA := c.P.Fn("", "ExtendedCopyGraphOptions.FilterAnnotation")
	descAnn := c01FieldOf(c.P, c01OCISpec, "Descriptor", "Annotations")
	if FA == nil || descAnn == nil || len(FA.Params) != 3 {
		c.LostAnchor(R, "(*~.ExtendedCopyGraphOptions).FilterAnnotation(key, regex) / ocispec.Descriptor.Annotations")
		return
	}
	keyParam, regexParam := FA.Params[1], FA.Params[2]
	found := false
	for _, K := range c.P.FuncsOfPkg("") {
		sig := K.Signature
		if sig.Params().Len() != 1 || !c01IsOCIDescriptor(sig.Params().At(0).Type()) || sig.Results().Len() != 1 {
			continue
		}
		if b, ok := sig.Results().At(0).Type().Underlying().(*types.Basic); !ok || b.Kind() != types.Bool {
			continue
		}
		var lookups []*ssa.Lookup
		AllInstrs(K, func(in ssa.Instruction) {
			if lk, ok := in.(*ssa.Lookup); ok {
				if _, isMap := lk.X.Type().Underlying().(*types.Map); isMap && c01IsFieldValue(lk.X, descAnn) && c01CarriedFrom(c.P, lk.Index, keyParam) {
					lookups = append(lookups, lk)
				}
			}
		})
		if len(lookups) == 0 {
			continue
		}
		found = true
		kn := c01OuterName(K) + "$keep"
		var okVals = map[ssa.Value]bool{}
		commaOk := true
		for _, lk := range lookups {
			if !lk.CommaOk {
				commaOk = false
				continue
			}
			for _, r := range *lk.Referrers() {
				if ex, isEx := r.(*ssa.Extract); isEx && ex.Index == 1 {
					for a := range Aliases(ex) {
						okVals[a] = true
					}
				}
			}
		}
		c.Check(R, kn+"|looks-up-presence", lookups[0].Pos(), commaOk && len(okVals) > 0,
			ifelse(commaOk && len(okVals) > 0, "the annotation is looked up with the presence result (value, ok := annotations[key])", "the annotation is looked up without its presence result: a present annotation with an empty value cannot be told from an absent one, so FilterAnnotation(key, nil) drops manifests that have the key"))
		if !commaOk || len(okVals) == 0 {
			continue
		}
		okT, okF := BoolTests(K, okVals)
		regexVals := map[ssa.Value]bool{}
		AllInstrs(K, func(in ssa.Instruction) {
			if v, isV := in.(ssa.Value); isV && types.Identical(v.Type(), regexParam.Type()) && c01CarriedFrom(c.P, v, regexParam) {
				regexVals[v] = true
			}
		})
		reNil, reNonNil, _ := NilTests(K, regexVals)
		absentFalse, presentNilTrue := true, len(reNil) > 0
		for _, a := range RetAtoms(K, 0) {
			k, isK := a.Val.(*ssa.Const)
			switch {
			case isK && k.Value != nil && !boolConst(k):
				// a `false` answer needs the key absent, or a regex to have been consulted
				if !AtomMustPass(a, newCut().Edges(okF...).Edges(reNonNil...)) {
					presentNilTrue = false
				}
			default:
				// any other answer needs the key present
				if len(okT) == 0 || !AtomMustPass(a, newCut().Edges(okT...)) {
					absentFalse = false
				}
			}
		}
		c.Check(R, kn+"|absent-key-is-dropped", K.Pos(), absentFalse,
			ifelse(absentFalse, "every answer other than false follows the ok==true edge of the lookup", "a descriptor without the annotation key can be kept"))
		c.Check(R, kn+"|present-key-kept-without-regex", K.Pos(), presentNilTrue,
			ifelse(presentNilTrue, "with the key present and regex == nil the answer cannot be false: presence alone decides", "with regex == nil a descriptor that has the key can still be dropped (something other than presence decides, e.g. the value's emptiness)"))
	}
	if !found {
		c.LostAnchor(R, "keep predicate of FilterAnnotation (closure looking up Descriptor.Annotations[key])")
	}
}

var c03Mutants = []Mutant{
	{Name: "per-root-error-overwritten-by-deferred-start", File: "extendedcopy.go",
		Old: "\treturn syncutil.Go(ctx, limiter, func(ctx context.Context, region *syncutil.LimitedRegion, root ocispec.Descriptor) error {\n\t\t// As a root can be a predecessor of other roots, release the limit here\n\t\t// for dispatching, to avoid dead locks where predecessor roots are\n\t\t// handled first and are waiting for its successors to complete.\n\t\tregion.End()\n\t\tif err := copyGraph(ctx, src, dst, root, proxy, limiter, tracker, opts.CopyGraphOptions); err != nil {\n\t\t\treturn err\n\t\t}\n\t\treturn region.Start()\n\t}, roots...)",
		New: "\treturn syncutil.Go(ctx, limiter, func(ctx context.Context, region *syncutil.LimitedRegion, root ocispec.Descriptor) (err error) {\n\t\tregion.End()\n\t\tdefer func() {\n\t\t\terr = region.Start()\n\t\t}()\n\t\treturn copyGraph(ctx, src, dst, root, proxy, limiter, tracker, opts.CopyGraphOptions)\n\t}, roots...)",
		Expect: "C03.R2.shared-copy-state|~.ExtendedCopyGraph|per-root-copy-error-surfaces"},
	// --- the repository's own test suite stays green under these (verified in a scratch copy) ---
	{Name: "only-manifest-predecessors-followed", File: "extendedcopy.go",
		Old: "\t\t\tif !visited.Contains(predecessorKey) {",
		New: "\t\t\tif !visited.Contains(predecessorKey) && descriptor.IsManifest(predecessor) {", Expect: "C03.R1.find-roots-shape|~.findRoots|every-predecessor-pushed"},
	{Name: "page-accumulator-reset", File: "extendedcopy.go",
		Old:    "\t\t\t\t\t// for each page of the results, filter the referrers\n\t\t\t\t\tfor _, r := range referrers {\n\t\t\t\t\t\tif keep(r) {\n\t\t\t\t\t\t\tpredecessors = append(predecessors, r)\n\t\t\t\t\t\t}\n\t\t\t\t\t}\n\t\t\t\t\treturn nil\n\t\t\t\t}); err != nil {\n\t\t\t\t\treturn nil, err\n\t\t\t\t}\n\t\t\t\treturn predecessors, nil\n\t\t\t}\n\t\t\tpredecessors, err = src.Predecessors(ctx, desc)\n\t\t} else {\n\t\t\tpredecessors, err = fp(ctx, src, desc)\n\t\t}\n\t\tif err != nil {\n\t\t\treturn nil, err\n\t\t}\n\n\t\t// predecessor descriptors",
		New:    "\t\t\t\t\t// for each page of the results, filter the referrers\n\t\t\t\t\tpredecessors = predecessors[:0]\n\t\t\t\t\tfor _, r := range referrers {\n\t\t\t\t\t\tif keep(r) {\n\t\t\t\t\t\t\tpredecessors = append(predecessors, r)\n\t\t\t\t\t\t}\n\t\t\t\t\t}\n\t\t\t\t\treturn nil\n\t\t\t\t}); err != nil {\n\t\t\t\t\treturn nil, err\n\t\t\t\t}\n\t\t\t\treturn predecessors, nil\n\t\t\t}\n\t\t\tpredecessors, err = src.Predecessors(ctx, desc)\n\t\t} else {\n\t\t\tpredecessors, err = fp(ctx, src, desc)\n\t\t}\n\t\tif err != nil {\n\t\t\treturn nil, err\n\t\t}\n\n\t\t// predecessor descriptors",
		Expect: "C03.R6.filter-keeps-every-match|(*~.ExtendedCopyGraphOptions).FilterArtifactType$page-callback|accumulator-only-appended"},
	{Name: "kept-restarts-after-fetch", File: "extendedcopy.go",
		Old: "\t\t\t\t\tp.ArtifactType = artifactType\n\t\t\t\t}\n\t\t\t}\n\t\t\tif keep(p) {", New: "\t\t\t\t\tp.ArtifactType = artifactType\n\t\t\t\t\tkept = nil\n\t\t\t\t}\n\t\t\t}\n\t\t\tif keep(p) {",
		Expect: "C03.R6.filter-keeps-every-match|(*~.ExtendedCopyGraphOptions).FilterArtifactType$wrapper|every-predecessor-tested-and-kept"},
	{Name: "annotation-filter-stops-at-first-mismatch", File: "extendedcopy.go",
		Old: "\t\t\t\t\tp.Annotations = annotations\n\t\t\t\t}\n\t\t\t}\n\t\t\tif keep(p) {\n\t\t\t\tkept = append(kept, p)\n\t\t\t}", New: "\t\t\t\t\tp.Annotations = annotations\n\t\t\t\t}\n\t\t\t}\n\t\t\tif len(p.Annotations) == 0 {\n\t\t\t\tcontinue\n\t\t\t}\n\t\t\tif keep(p) {\n\t\t\t\tkept = append(kept, p)\n\t\t\t}",
		Expect: "C03.R6.filter-keeps-every-match|(*~.ExtendedCopyGraphOptions).FilterAnnotation$wrapper|every-predecessor-tested-and-kept"},
	{Name: "referrers-path-returns-nil-list", File: "extendedcopy.go",
		Old:    "\t\t\t\treturn predecessors, nil\n\t\t\t}\n\t\t\tpredecessors, err = src.Predecessors(ctx, desc)\n\t\t} else {\n\t\t\tpredecessors, err = fp(ctx, src, desc)\n\t\t}\n\t\tif err != nil {\n\t\t\treturn nil, err\n\t\t}\n\n\t\t// Predecessor descriptors",
		New:    "\t\t\t\tvar found []ocispec.Descriptor\n\t\t\t\tfound = append(found, predecessors[:len(predecessors):len(predecessors)]...)\n\t\t\t\treturn found[:0], nil\n\t\t\t}\n\t\t\tpredecessors, err = src.Predecessors(ctx, desc)\n\t\t} else {\n\t\t\tpredecessors, err = fp(ctx, src, desc)\n\t\t}\n\t\tif err != nil {\n\t\t\treturn nil, err\n\t\t}\n\n\t\t// Predecessor descriptors",
		Expect: "C03.R6.filter-keeps-every-match|(*~.ExtendedCopyGraphOptions).FilterAnnotation$wrapper|returns-page-accumulator"},
	{Name: "push-loop-breaks-at-visited", File: "extendedcopy.go",
		Old: "\t\t\tif !visited.Contains(predecessorKey) {\n\t\t\t\t// push the predecessor node with increased depth\n\t\t\t\tstack.Push(copyutil.NodeInfo{Node: predecessor, Depth: current.Depth + 1})\n\t\t\t}",
		New: "\t\t\tif visited.Contains(predecessorKey) {\n\t\t\t\tbreak\n\t\t\t}\n\t\t\tstack.Push(copyutil.NodeInfo{Node: predecessor, Depth: current.Depth + 1})", Expect: "C03.R1.find-roots-shape|~.findRoots|push-loop-runs-to-the-end"},
	{Name: "annotation-empty-value-is-absent", File: "extendedcopy.go",
		Old: "\t\tvalue, ok := desc.Annotations[key]\n\t\treturn ok && (regex == nil || regex.MatchString(value))", New: "\t\tvalue := desc.Annotations[key]\n\t\treturn value != \"\" && (regex == nil || regex.MatchString(value))", Expect: "C03.R7.annotation-presence-decides"},
	{Name: "annotation-needs-non-empty-value", File: "extendedcopy.go",
		Old: "\t\treturn ok && (regex == nil || regex.MatchString(value))", New: "\t\treturn ok && value != \"\" && (regex == nil || regex.MatchString(value))", Expect: "C03.R7.annotation-presence-decides|(*~.ExtendedCopyGraphOptions).FilterAnnotation$keep|present-key-kept-without-regex"},
	{Name: "kept-loop-stops-at-first-mismatch", File: "extendedcopy.go",
		Old: "\t\t\tif keep(p) {\n\t\t\t\tkept = append(kept, p)\n\t\t\t}\n\t\t}\n\t\treturn kept, nil\n\t}\n}\n\n// fetchAnnotations", New: "\t\t\tif !keep(p) {\n\t\t\t\tbreak\n\t\t\t}\n\t\t\tkept = append(kept, p)\n\t\t}\n\t\treturn kept, nil\n\t}\n}\n\n// fetchAnnotations", Expect: "C03.R6.filter-keeps-every-match|(*~.ExtendedCopyGraphOptions).FilterAnnotation$wrapper|every-predecessor-tested-and-kept"},
	// --- below: see the report for which of these the repository's tests also catch ---
	{Name: "referrers-ignores-artifact-type", File: "registry/repository.go",
		Old: "\t\t\tnode.ArtifactType = manifest.ArtifactType\n\t\t\tif node.ArtifactType == \"\" {\n\t\t\t\tnode.ArtifactType = manifest.Config.MediaType\n\t\t\t}",
		New: "\t\t\tnode.ArtifactType = manifest.Config.MediaType", Expect: "C03.R3"},
	{Name: "index-push-fallback-unguarded", File: "registry/remote/repository.go",
		Old: "\t\tdesc.ArtifactType = manifest.ArtifactType\n\t\tif desc.ArtifactType == \"\" {\n\t\t\tdesc.ArtifactType = manifest.Config.MediaType\n\t\t}",
		New: "\t\tdesc.ArtifactType = manifest.ArtifactType\n\t\tif desc.ArtifactType != \"\" {\n\t\t\tdesc.ArtifactType = manifest.Config.MediaType\n\t\t}", Expect: "C03.R3"},
	{Name: "referrers-index-type-dropped", File: "registry/repository.go",
		Old: "\t\t\tnode.ArtifactType = index.ArtifactType\n", New: "", Expect: "C03.R3"},
	{Name: "filter-skips-artifact-manifest", File: "extendedcopy.go",
		Old: "\t\t\t\tcase spec.MediaTypeArtifactManifest, ocispec.MediaTypeImageManifest, ocispec.MediaTypeImageIndex:\n\t\t\t\t\tartifactType, err := fetchArtifactType(ctx, src, p)",
		New: "\t\t\t\tcase ocispec.MediaTypeImageManifest, ocispec.MediaTypeImageIndex:\n\t\t\t\t\tartifactType, err := fetchArtifactType(ctx, src, p)", Expect: "C03.R3.artifact-type-derivation|(*~.ExtendedCopyGraphOptions).FilterArtifactType$artifact-type|handles-artifact-manifest"},
	{Name: "root-not-recorded-when-no-predecessors", File: "extendedcopy.go",
		Old: "\t\tif len(predecessors) == 0 {\n\t\t\taddRoot(currentKey, currentNode)\n\t\t\tcontinue\n\t\t}", New: "\t\tif len(predecessors) == 0 {\n\t\t\tcontinue\n\t\t}", Expect: "C03.R1"},
	{Name: "depth-cutoff-off-by-one", File: "extendedcopy.go",
		Old: "if opts.Depth > 0 && current.Depth == opts.Depth {", New: "if opts.Depth > 0 && current.Depth > opts.Depth {", Expect: "C03.R1.find-roots-shape|~.findRoots|depth-cut-off"},
	{Name: "cutoff-drops-node", File: "extendedcopy.go",
		Old: "\t\tif opts.Depth > 0 && current.Depth == opts.Depth {\n\t\t\taddRoot(currentKey, currentNode)\n\t\t\tcontinue\n\t\t}", New: "\t\tif opts.Depth > 0 && current.Depth == opts.Depth {\n\t\t\tcontinue\n\t\t}", Expect: "C03.R1.find-roots-shape|~.findRoots|cut-off-records-root"},
	{Name: "push-same-depth", File: "extendedcopy.go",
		Old: "stack.Push(copyutil.NodeInfo{Node: predecessor, Depth: current.Depth + 1})", New: "stack.Push(copyutil.NodeInfo{Node: predecessor, Depth: current.Depth})", Expect: "C03.R1.find-roots-shape|~.findRoots|pushed-depth"},
	{Name: "lookup-asks-about-start-node", File: "extendedcopy.go",
		Old: "predecessors, err := opts.FindPredecessors(ctx, storage, currentNode)", New: "predecessors, err := opts.FindPredecessors(ctx, storage, node)", Expect: "C03.R1.find-roots-shape|~.findRoots|predecessor-lookup"},
	{Name: "initial-depth-one", File: "extendedcopy.go",
		Old: "stack.Push(copyutil.NodeInfo{Node: node, Depth: 0})", New: "stack.Push(copyutil.NodeInfo{Node: node, Depth: 1})", Expect: "C03.R1.find-roots-shape|~.findRoots|initial-push-depth-0"},
	{Name: "only-first-root-dispatched", File: "extendedcopy.go",
		Old: "\t\treturn region.Start()\n\t}, roots...)", New: "\t\treturn region.Start()\n\t}, roots[:1]...)", Expect: "C03.R2.shared-copy-state|~.ExtendedCopyGraph|dispatches-found-roots"},
	{Name: "per-root-tracker", File: "extendedcopy.go",
		Old: "\t// track content status\n\ttracker := status.NewTracker()\n\n\t// copy the sub-DAGs rooted by the root nodes\n\treturn syncutil.Go(ctx, limiter, func(ctx context.Context, region *syncutil.LimitedRegion, root ocispec.Descriptor) error {\n",
		New: "\t// copy the sub-DAGs rooted by the root nodes\n\treturn syncutil.Go(ctx, limiter, func(ctx context.Context, region *syncutil.LimitedRegion, root ocispec.Descriptor) error {\n\t\ttracker := status.NewTracker()\n", Expect: "C03.R2"},
	{Name: "annotation-fetch-skips-index", File: "extendedcopy.go",
		Old: "\t\t\t\t\tdocker.MediaTypeManifestList, ocispec.MediaTypeImageIndex,\n", New: "\t\t\t\t\tdocker.MediaTypeManifestList,\n", Expect: "C03.R4"},
	{Name: "extendedcopy-tags-srcref", File: "extendedcopy.go",
		Old: "if err := dst.Tag(ctx, node, dstRef); err != nil {", New: "if err := dst.Tag(ctx, node, srcRef); err != nil {", Expect: "C03.R5"},
}
