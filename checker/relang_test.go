package main

import (
	"regexp"
	"testing"
	"time"
)

func TestReLangSelf(t *testing.T) {
	if err := reSelfTest(); err != nil {
		t.Fatal(err)
	}
}

func TestReLangRepo(t *testing.T) {
	media := `^[A-Za-z0-9][A-Za-z0-9!#$&^_.+-]{0,126}/[A-Za-z0-9][A-Za-z0-9!#$&^_.+-]{0,126}$`
	ref := `\A[[:alnum:]](?:[[:alnum:]]|[!#$&\-^_.+]){0,126}/[[:alnum:]](?:[[:alnum:]]|[!#$&\-^_.+]){0,126}\z`
	t0 := time.Now()
	eq, w, inA, err := reEquivalent(reMust(media), reMust(ref))
	t.Log(eq, w, inA, err, time.Since(t0))
	if !eq {
		t.Fail()
	}
	for _, mut := range []string{
		`^[A-Za-z0-9][A-Za-z0-9!#$&^_.+-]{0,127}/[A-Za-z0-9][A-Za-z0-9!#$&^_.+-]{0,126}$`,
		`^[A-Za-z0-9][A-Za-z0-9!#$&^_.+-]{0,126}/[A-Za-z0-9][A-Za-z0-9!#$&^_.+-]{0,126}`,
		`[A-Za-z0-9][A-Za-z0-9!#$&^_.+-]{0,126}/[A-Za-z0-9][A-Za-z0-9!#$&^_.+-]{0,126}$`,
		`^[A-Za-z0-9][A-Za-z0-9!#$&^_.+*-]{0,126}/[A-Za-z0-9][A-Za-z0-9!#$&^_.+-]{0,126}$`,
	} {
		t0 := time.Now()
		eq, w, inA, err := reEquivalent(reMust(mut), reMust(ref))
		t.Logf("%v %q inMut=%v %v %v", eq, w, inA, err, time.Since(t0))
		if eq || err != nil {
			t.Fail()
		}
		if regexp.MustCompile(mut).MatchString(w) != inA || regexp.MustCompile(ref).MatchString(w) == inA {
			t.Errorf("witness wrong")
		}
	}
	repo := `^[a-z0-9]+(?:(?:[._]|__|[-]*)[a-z0-9]+)*(?:/[a-z0-9]+(?:(?:[._]|__|[-]*)[a-z0-9]+)*)*$`
	for _, bad := range []string{`[?#%\\\s]`, `(?:\A|/)(?:/|\z)`, `(?:\A|/)\.\.?(?:/|\z)`, `[^a-z0-9._/-]`} {
		ne, w, err := reIntersect(reMust(repo), reMust(bad))
		t.Logf("%v %q %v", ne, w, err)
	}
	ne, w, err := reIntersect(reMust(repo), reMust(`__`))
	t.Logf("%v %q %v", ne, w, err)
}
