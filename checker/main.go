package main

// orascheck — static decision procedures for the oras-go properties C01..C20.
//
//   orascheck -prop C05 -tier quick|thorough [-repo /repo] [-verif /verif]
//   orascheck -replay /verif/out/C05-quick-0.json
//   orascheck -all -tier quick            (one load shared by all properties)
//
// The checker never executes repository code.  Every run re-loads the
// repository's current working tree.

import (
	"encoding/json"
	"flag"
	"fmt"
	"os"
	"path/filepath"
	"runtime/debug"
	"sort"
	"strconv"
	"strings"
	"time"
)

type propDef struct {
	ID      string
	Explain string // what is decided / what is not
	Run     func(c *Ctx)
	Mutants []Mutant // checker self-validation (thorough tier)
}

var props = map[string]*propDef{}

func register(p *propDef) { props[p.ID] = p }

var trustedBase = []string{
	"Go type checker and go/ssa construction (golang.org/x/tools v0.29.0)",
	"documented contracts of the standard library, go-digest and x/sync (sync.Map.LoadOrStore atomic, os.Rename replaces atomically, io.LimitReader stops at n, errgroup cancels on first error)",
	"the frozen instance tables in the checker were confirmed by reading the pinned tree; each line is re-validated against the current source on every run",
	"a passing check means every structural obligation holds on every path of the analysed code; it does not mean the behaviour was observed",
}

func main() {
	var (
		prop     = flag.String("prop", "", "property id (C01..C20)")
		tier     = flag.String("tier", os.Getenv("VERIF_TIER"), "quick|thorough")
		repo     = flag.String("repo", "/repo", "repository root")
		verif    = flag.String("verif", "", "verif root (default: parent of the binary's dir)")
		replay   = flag.String("replay", "", "replay file written by a failed check")
		all      = flag.Bool("all", false, "run every property (shared load)")
		verbose  = flag.Bool("v", false, "print every obligation")
		noMut    = flag.Bool("nomutants", false, "thorough tier without mutant self-validation")
		onlyMut  = flag.String("mutant", "", "internal: evaluate one mutant (prop:name) against -repo and print the fired keys")
		onePatch = flag.String("patch", "", "internal: apply the patch file to a scratch copy of -repo, run -prop, print the fired keys")
	)
	errSurvey := flag.Bool("errsurvey", false, "internal: list the error-flow verdict of every error-returning call in the files given as arguments")
	explain := flag.Bool("explain", false, "print {id: explanation} of every implemented property as JSON")
	flag.Parse()
	if *errSurvey {
		os.Exit(runErrSurvey(*repo, flag.Args()))
	}
	if *explain {
		m := map[string]string{}
		for id, p := range props {
			m[id] = p.Explain
		}
		b, _ := json.MarshalIndent(m, "", " ")
		fmt.Println(string(b))
		return
	}
	if *tier == "" {
		*tier = "quick"
	}
	if *verif == "" {
		exe, _ := os.Executable()
		*verif = filepath.Dir(filepath.Dir(exe))
		if _, err := os.Stat(filepath.Join(*verif, "properties.jsonl")); err != nil {
			*verif = "/verif"
		}
	}
	seed, _ := strconv.Atoi(os.Getenv("VERIF_SEED"))
	if *replay != "" {
		b, err := os.ReadFile(*replay)
		if err != nil {
			fmt.Println("ERROR:", err)
			os.Exit(2)
		}
		var m map[string]string
		json.Unmarshal(b, &m)
		*prop = m["property"]
		*verbose = true
		fmt.Printf("replaying %s key=%s\n", m["property"], m["key"])
	}
	if *onlyMut != "" {
		os.Exit(runOneMutant(*onlyMut, *repo))
	}
	if *onePatch != "" {
		os.Exit(runOnePatch(*prop, *onePatch, *repo))
	}
	var ids []string
	if *all {
		for id := range props {
			ids = append(ids, id)
		}
		sort.Strings(ids)
	} else {
		if props[*prop] == nil {
			fmt.Printf("ERROR: unknown property %q\n", *prop)
			os.Exit(2)
		}
		ids = []string{*prop}
	}
	variants := [][2]string{{"linux", "amd64"}}
	if *tier == "thorough" {
		variants = append(variants, [2]string{"windows", "amd64"}, [2]string{"darwin", "arm64"}, [2]string{"linux", "386"})
	}
	start := time.Now()
	results := map[string]*runResult{}
	for _, id := range ids {
		results[id] = &runResult{Prop: id, Tier: *tier, Start: start, Explain: props[id].Explain, Assumes: trustedBase, Extra: map[string]any{}}
	}
	exit := 0
	for _, v := range variants {
		p, err := Load(*repo, v[0], v[1])
		vname := v[0] + "/" + v[1]
		for _, id := range ids {
			r := results[id]
			r.Variants = append(r.Variants, vname)
			if err != nil {
				r.Obs = append(r.Obs, &Obligation{Rule: "load", Construct: vname, Pos: "-", st: Undecided, Status: Undecided.String(),
					Detail: "the tree does not load/type-check, nothing can be decided: " + err.Error(), Variant: vname})
				continue
			}
			c := &Ctx{Prop: id, Tier: *tier, P: p, Variant: vname}
			func() {
				defer func() {
					if rec := recover(); rec != nil {
						c.ob("analyser", "panic", 0, Undecided, true, fmt.Sprintf("analyser panic: %v\n%s", rec, debug.Stack()))
					}
				}()
				props[id].Run(c)
				runED(c)
				c.finish()
			}()
			r.Obs = append(r.Obs, c.Obs...)
			r.NotArmed = c.notArmed
			if r.Analysed == nil {
				r.Analysed = map[string]any{"packages": p.NPkgs, "functions": p.NFuncs, "ssa_blocks": p.NBlocks, "call_sites": p.NCalls}
			}
			if *verbose {
				for _, o := range c.Obs {
					fmt.Printf("  [%s] %-11s %s | %s @ %s  %s\n", vname, o.Status, o.Rule, o.Construct, o.Pos, o.Detail)
				}
			}
		}
	}
	for _, id := range ids {
		r := results[id]
		if *tier == "thorough" && !*noMut {
			var baseline []string
			for _, o := range r.Obs {
				if o.st != Discharged {
					baseline = append(baseline, o.Key())
				}
			}
			// Self-validation of the checker.  Its failures describe the checker,
			// not the tree under analysis: they are printed and recorded in the
			// evidence, and decide the exit status only under ORASCHECK_STRICT=1
			// (tools/selftest.sh), because on an edited tree a mutant or corpus
			// patch may legitimately stop making sense.
			strict := os.Getenv("ORASCHECK_STRICT") == "1"
			if len(props[id].Mutants) > 0 {
				tried, killed, skipped, weak := runMutants(id, *repo, baseline)
				r.Extra["mutants_tried"] = tried
				r.Extra["mutants_killed"] = killed
				r.Extra["mutants_skipped_not_applicable"] = skipped
				r.Extra["mutants_survived"] = weak
				if len(weak) > 0 {
					fmt.Printf("CHECKER-WEAK %s: mutants not detected: %s\n", id, strings.Join(weak, ", "))
					if exit == 0 && strict {
						exit = 2
					}
				}
			}
			cr := runCorpus(id, *repo, *verif, baseline)
			r.Extra["seeded_changes_tried"] = cr.SeedsTried
			r.Extra["seeded_changes_caught"] = cr.SeedsCaught
			r.Extra["seeded_changes_skipped_not_applicable"] = cr.SeedsSkipped
			r.Extra["seeded_changes_missed"] = cr.Weak
			r.Extra["benign_patches_tried"] = cr.BenignTried
			r.Extra["benign_patches_silent"] = cr.BenignSilent
			r.Extra["benign_patches_skipped_not_applicable"] = cr.BenignSkipped
			r.Extra["benign_patches_alarming"] = cr.Noisy
			sort.Strings(cr.KnownNoisy)
			r.Extra["benign_patches_known_open_false_alarms"] = cr.KnownNoisy
			if len(cr.Weak) > 0 {
				fmt.Printf("CHECKER-WEAK %s: seeded changes no longer detected: %s\n", id, strings.Join(cr.Weak, "; "))
			}
			if len(cr.Noisy) > 0 {
				fmt.Printf("CHECKER-NOISY %s: behaviour-preserving patches alarm: %s\n", id, strings.Join(cr.Noisy, "; "))
			}
			if (len(cr.Weak) > 0 || len(cr.Noisy) > 0) && exit == 0 && strict {
				exit = 2
			}
		}
		if code := conclude(*verif, r, seed); code == 1 || (code != 0 && exit == 0) {
			exit = code
		}
	}
	profStop()
	os.Exit(exit)
}
