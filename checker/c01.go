package main

// C01 — Copy replicates the rooted DAG and tags the root.
// Rules: R1 successor-field coverage, R2 successor set integrity,
// R3 tracker key, R4 root tagging.  R5 (wait-before-push) is C02.R1.

import (
	"fmt"
	"go/token"
	"go/types"
	"sort"
	"strings"

	"golang.org/x/tools/go/ssa"
)

func init() {
	register(&propDef{
		ID: "C01",
		Explain: "Decided: (R1) for each of the five manifest kinds content.Successors returns, on every successful path of that kind, every link member of the decoded " +
			"document (subject unless nil, config, layers / manifests / blobs), its kind set agrees with descriptor.IsManifest, and manifestutil.{Config,Manifests,Subject} " +
			"return the same members for the same kinds; (R2) in the copy traversal the dispatched successor slice is the result of opts.FindSuccessors for the node, changed " +
			"only by filters that drop an element solely under descriptor.IsForeignLayer, whose media-type set contains nothing but the four foreign/non-distributable layer " +
			"types; (R3) the tracker keys nodes on descriptor.FromOCI, which copies media type, digest and size from the like-named fields; (R4) Copy/ExtendedCopy default the " +
			"destination reference to the source reference exactly when it is empty, prepareCopy installs tagging wrappers on every path, each wrapper reaches a tag effect " +
			"(Tag / PushReference with the captured destination reference) on every successful root path, the traversal notifies OnCopySkipped for an existing node, Copy returns " +
			"the (mapped) root it prepared and copied, and ExtendedCopy tags the resolved node on every successful return. R5 (a parent is pushed only after waiting for every " +
			"successor) is the same obligation as C02.R1 and is discharged there, not repeated. (R6) a claimed node's traversal, and each node-copy helper it returns through, reports " +
			"success only after dst.Exists answered true for the node, a push / mount / push-with-reference, or PreCopy's SkipNode; (R7) the root Copy returns is what the source " +
			"resolves / fetches for srcRef (optionally mapped), WithTargetPlatform applies the platform selection to the mapped root, and SelectManifest answers only after a " +
			"Match against the requested platform with the root (config platform) or an entry of its manifest list; (R8) every Fetch / Push / PushReference / Mount of the graph " +
			"copy names the descriptor of the node its function works on. NOT decided (not applicable to static analysis): byte identity of what the stores " +
			"return, every store pairing, behaviour under a custom FindSuccessors, the proviso on link-closed destinations, schedules.",
		Run:     runC01,
		Mutants: append(c01Mutants, c01CovMutants...),
	})
}

func runC01(c *Ctx) {
	c01P = c.P
	c.NotArmed("C01.R5", "same obligation as C02.R1 (wait-before-push in the traversal closure); discharged under C02, not duplicated here")
	c01R1(c)
	c01R2(c)
	c01R3(c)
	c01R4(c)
	c01TagsGivenNode(c, "C01.R4.root-tagging")
	c01MapRootChain(c)
	runC01Coverage(c)
}

// c01MapRootChain: a MapRoot wrapper (WithTargetPlatform) hands its own ctx, source and root to the MapRoot it wraps.
func c01MapRootChain(c *Ctx) {
	const R = "C01.R4.maproot-chaining"
	c.Expect(R, 1)
	fv := c01FieldOf(c.P, "", "CopyOptions", "MapRoot")
	if fv == nil {
		c.LostAnchor(R, "~.CopyOptions.MapRoot")
		return
	}
	n := 0
	for _, F := range c.P.FuncsOfPkg("") {
		for _, st := range c04FieldStores(F, fv) {
			W, _ := c01FuncOfValue(st.Val)
			if W == nil || len(W.Blocks) == 0 || !inModule(W) {
				continue
			}
			k, bad, pos := c04ForwardsOwnArgs(c.P, W, map[*types.Var]bool{fv: true}, nil)
			if k == 0 {
				continue
			}
			n++
			if bad == "" {
				pos = W.Pos()
			}
			c.Check(R, c01OuterName(F)+"$MapRoot|forwards-own-arguments", pos, bad == "",
				ifelse(bad == "", "the wrapped MapRoot receives the wrapper's own ctx, source and root", bad+": the user's MapRoot maps something else than the resolved root"))
		}
	}
	if n == 0 {
		c.LostAnchor(R, "a MapRoot wrapper chaining to the previous MapRoot (WithTargetPlatform)")
	}
}

// ---------- R1: successor-field coverage ----------

// link members every kind's Successors must return (JSON member names).
var c01LinkTable = map[string][]string{
	"image-manifest":       {"subject", "config", "layers"},
	"image-index":          {"subject", "manifests"},
	"artifact-manifest":    {"subject", "blobs"},
	"docker-manifest":      {"config", "layers"},
	"docker-manifest-list": {"manifests"},
}

type c01Set struct {
	top bool
	m   map[string]bool
}

func (s c01Set) with(k string) c01Set {
	if s.top {
		return s
	}
	o := c01Set{m: map[string]bool{k: true}}
	for x := range s.m {
		o.m[x] = true
	}
	return o
}

func c01Union(a, b c01Set) c01Set {
	if a.top || b.top {
		return c01Set{top: true}
	}
	o := c01Set{m: map[string]bool{}}
	for x := range a.m {
		o.m[x] = true
	}
	for x := range b.m {
		o.m[x] = true
	}
	return o
}

func c01Inter(a, b c01Set) c01Set {
	if a.top {
		return b
	}
	if b.top {
		return a
	}
	o := c01Set{m: map[string]bool{}}
	for x := range a.m {
		if b.m[x] {
			o.m[x] = true
		}
	}
	return o
}

// c01Must computes, for a descriptor / descriptor-slice valued SSA value, the
// set of decoded link members (JSON names) it contains on every feasible path
// (a pointer member counts as contained on paths where it is known to be nil).
type c01Must struct {
	fn        *ssa.Function
	k         *cut // edges infeasible under the media-type case
	nilEdges  map[string][]Edge
	undecided map[string]bool
	memo      map[ssa.Value]c01Set
	inprog    map[ssa.Value]bool
	mt        string                 // the media type assumed (for helpers called per kind)
	isMT      func(v ssa.Value) bool // recognises loads of Descriptor.MediaType
	depth     int
	params    map[*ssa.Parameter]c01Arg // what the helper's parameters stand for at this call
}

// c01Arg: what a helper parameter stands for at one call site.
type c01Arg struct {
	set    *c01Set // the decoded members the argument carries (e.g. manifest.Subject -> {subject})
	isBool bool    // a constant flag
	val    bool
}

func newC01Must(fn *ssa.Function, k *cut, params map[*ssa.Parameter]c01Arg) *c01Must {
	m := &c01Must{fn: fn, k: c01CutUnion(k), nilEdges: map[string][]Edge{}, undecided: map[string]bool{}, memo: map[ssa.Value]c01Set{}, inprog: map[ssa.Value]bool{}, params: params}
	for _, i := range Ifs(fn) {
		cond, t, f := ifEdges(i)
		// a constant flag parameter decides its branches
		if prm, isParam := cond.(*ssa.Parameter); isParam {
			if a, ok := params[prm]; ok && a.isBool {
				if a.val {
					m.k.Edges(f)
				} else {
					m.k.Edges(t)
				}
			}
			continue
		}
		bo, ok := cond.(*ssa.BinOp)
		if !ok || (bo.Op != token.EQL && bo.Op != token.NEQ) {
			continue
		}
		var x ssa.Value
		if isNilConst(bo.Y) {
			x = bo.X
		} else if isNilConst(bo.X) {
			x = bo.Y
		} else {
			continue
		}
		name := ""
		if prm, isParam := x.(*ssa.Parameter); isParam {
			// a pointer parameter standing for exactly one decoded member (subjectNodes(manifest.Subject))
			if a, ok := params[prm]; ok && a.set != nil && len(a.set.m) == 1 {
				for n := range a.set.m {
					name = n
				}
			}
		} else if p, ok := c01ValuePath(x); ok && len(p.JSON) == 1 {
			name = p.JSON[0]
		}
		if name == "" {
			continue
		}
		if bo.Op == token.NEQ {
			t = f
		}
		m.nilEdges[name] = append(m.nilEdges[name], t)
	}
	// a size computed from the members (len(list) + 1 if subject != nil) tested against zero: on the zero edge every
	// member that contributes is empty / nil, so nothing has to be returned for it
	for _, i := range Ifs(fn) {
		cond, t, f := ifEdges(i)
		bo, ok := cond.(*ssa.BinOp)
		if !ok {
			continue
		}
		k, isK := constInt(bo.Y)
		if !isK {
			continue
		}
		var zeroE Edge
		switch {
		case bo.Op == token.EQL && k == 0, bo.Op == token.LEQ && k == 0, bo.Op == token.LSS && k == 1:
			zeroE = t
		case bo.Op == token.NEQ && k == 0, bo.Op == token.GTR && k == 0, bo.Op == token.GEQ && k == 1:
			zeroE = f
		default:
			continue
		}
		if b, isInt := bo.X.Type().Underlying().(*types.Basic); !isInt || b.Info()&types.IsInteger == 0 {
			continue
		}
		if names, can := m.zeroImplies(bo.X, 0); can {
			for n := range names {
				m.nilEdges[n] = append(m.nilEdges[n], zeroE)
			}
		}
	}
	return m
}

// zeroImplies: the members that are certainly empty / nil when the integer v (a size built from lengths) is zero;
// can == false when v cannot be zero at all (len + positive constant).
func (m *c01Must) zeroImplies(v ssa.Value, depth int) (names map[string]bool, can bool) {
	names = map[string]bool{}
	if depth > 6 {
		return names, true
	}
	switch u := v.(type) {
	case *ssa.Const:
		k, _ := constInt(u)
		return names, k == 0
	case *ssa.Call:
		if CalleeName(u) == "builtin:len" {
			st := m.must(u.Call.Args[0])
			for n := range st.m {
				names[n] = true
			}
		}
		return names, true
	case *ssa.BinOp:
		if u.Op != token.ADD {
			return names, true
		}
		a, ca := m.zeroImplies(u.X, depth+1)
		b, cb := m.zeroImplies(u.Y, depth+1)
		if kx, isK := constInt(u.X); isK && kx > 0 {
			return names, false
		}
		if ky, isK := constInt(u.Y); isK && ky > 0 {
			return names, false
		}
		if !ca || !cb {
			return names, false
		}
		for n := range a {
			names[n] = true
		}
		for n := range b {
			names[n] = true
		}
		return names, true
	case *ssa.Phi:
		first := true
		any := false
		for i, ev := range u.Edges {
			alt, c := m.zeroImplies(ev, depth+1)
			if !c {
				continue // this alternative is never zero
			}
			any = true
			e := Edge{u.Block().Preds[i], u.Block()}
			for f, ne := range m.nilEdges {
				if c01MustPassEdge(e, newCut().Edges(ne...)) {
					alt[f] = true
				}
			}
			if first {
				names, first = alt, false
			} else {
				for n := range names {
					if !alt[n] {
						delete(names, n)
					}
				}
			}
		}
		return names, any
	}
	return names, true
}

func (m *c01Must) leaf(v ssa.Value) (c01Set, bool) {
	var p c01Path
	var ok bool
	if fa, isFA := v.(*ssa.FieldAddr); isFA {
		p, ok = c01AddrPath(fa) // &manifest.Config
	} else {
		p, ok = c01ValuePath(v)
	}
	if !ok || len(p.Vars) != 1 {
		return c01Set{}, false
	}
	t := p.Vars[0].Type()
	if !c01DescriptorCarrier(t) || c01IsOCIDescriptor(derefType(p.Base.Type())) {
		return c01Set{}, false
	}
	return c01Set{m: map[string]bool{p.JSON[0]: true}}, true
}

func (m *c01Must) must(v ssa.Value) c01Set {
	if s, ok := m.memo[v]; ok {
		return s
	}
	if m.inprog[v] {
		return c01Set{top: true}
	}
	m.inprog[v] = true
	s := m.must1(v)
	delete(m.inprog, v)
	m.memo[v] = s
	return s
}

// viaProducer: the value is an iterator (func(yield)) returned by a module
// function; it holds whatever the arguments hold that flow into a yield call.
func (m *c01Must) viaProducer(call *ssa.Call) (c01Set, bool) {
	g := StaticCallee(call)
	if g == nil || !inModule(g) || len(g.Blocks) == 0 || g.Signature.Results().Len() != 1 {
		return c01Set{}, false
	}
	if _, isFn := g.Signature.Results().At(0).Type().Underlying().(*types.Signature); !isFn {
		return c01Set{}, false
	}
	var prod *ssa.Function
	for _, r := range Returns(g) {
		if f, _ := c01FuncOfValue(r.Results[0]); f != nil {
			prod = f
		}
	}
	if prod == nil || len(prod.Params) == 0 {
		return c01Set{}, false
	}
	var yields []ssa.Value
	var scan func(f *ssa.Function, yv ssa.Value)
	scan = func(f *ssa.Function, yv ssa.Value) {
		for _, c2 := range Calls(f, func(string) bool { return true }) {
			cc := c2.Common()
			if cc.IsInvoke() {
				continue
			}
			isYield := cc.Value == yv
			if ld, ok := cc.Value.(*ssa.UnOp); ok && ld.Op == token.MUL {
				// yield captured by a nested closure / spilled
				if c01Slice(ld, func(x ssa.Value) bool { return x == ssa.Value(prod.Params[0]) }) {
					isYield = true
				}
			}
			if isYield {
				yields = append(yields, cc.Args...)
			}
		}
		for _, a := range f.AnonFuncs {
			scan(a, yv)
		}
	}
	scan(prod, prod.Params[0])
	if len(yields) == 0 {
		return c01Set{}, false
	}
	out := c01Set{m: map[string]bool{}}
	for i, prm := range g.Params {
		if i >= len(call.Call.Args) {
			break
		}
		flows := false
		for _, y := range yields {
			if c01Slice(y, func(x ssa.Value) bool { return x == ssa.Value(prm) }) {
				flows = true
			}
		}
		if flows {
			out = c01Union(out, m.must(call.Call.Args[i]))
		}
	}
	return out, true
}

// viaHelper: the value is result #0 of a module helper; what the helper returns
// on every successful path under the same media-type assumption.
func (m *c01Must) viaHelper(call *ssa.Call) (c01Set, bool) {
	g := StaticCallee(call)
	if g == nil && !call.Call.IsInvoke() && m.isMT != nil {
		// decode := table[node.MediaType]; decode(raw): the entry for the assumed media type
		for _, r := range Roots(call.Call.Value) {
			var lk *ssa.Lookup
			switch u := r.(type) {
			case *ssa.Lookup:
				lk = u
			case *ssa.Extract:
				lk, _ = u.Tuple.(*ssa.Lookup)
			}
			if lk == nil {
				continue
			}
			okSubj := true
			for _, ir := range Roots(lk.Index) {
				if !m.isMT(ir) {
					okSubj = false
				}
			}
			if t, okT := c01TableOf(lk.X); okT && okSubj {
				if ev, in := t.Vals[m.mt]; in && ev != nil {
					g, _ = c01FuncOfValue(ev)
				}
			}
		}
	}
	if g == nil || !inModule(g) || len(g.Blocks) == 0 || m.depth >= 3 || m.isMT == nil || g == m.fn {
		return c01Set{}, false
	}
	params := map[*ssa.Parameter]c01Arg{}
	for i, a := range call.Call.Args {
		if i >= len(g.Params) {
			break
		}
		if k, isK := a.(*ssa.Const); isK && k.Value != nil {
			if b, isB := k.Type().Underlying().(*types.Basic); isB && b.Info()&types.IsBoolean != 0 {
				params[g.Params[i]] = c01Arg{isBool: true, val: boolConst(k)}
				continue
			}
		}
		if c01DescriptorCarrier(a.Type()) {
			st := m.must(a)
			params[g.Params[i]] = c01Arg{set: &st}
		}
	}
	set, n, und := c01CoverageDepth(g, c01StrTests(g, m.isMT), m.mt, m.isMT, m.depth+1, params)
	for _, u := range und {
		m.undecided[u] = true
	}
	if n == 0 {
		return c01Set{}, false
	}
	return set, true
}

func (m *c01Must) must1(v ssa.Value) c01Set {
	empty := c01Set{m: map[string]bool{}}
	if s, ok := m.leaf(v); ok {
		return s
	}
	switch u := v.(type) {
	case *ssa.Parameter:
		if a, ok := m.params[u]; ok && a.set != nil {
			return *a.set
		}
	case *ssa.Const, *ssa.MakeSlice:
		return empty
	case *ssa.Phi:
		acc := c01Set{top: true}
		for i, ev := range u.Edges {
			e := Edge{u.Block().Preds[i], u.Block()}
			if c01MustPassEdge(e, m.k) {
				continue // not taken under this media-type case
			}
			s := m.must(ev)
			for f, ne := range m.nilEdges {
				if c01MustPassEdge(e, c01CutUnion(m.k, newCut().Edges(ne...))) {
					s = s.with(f) // member is nil on this edge: nothing to return for it
				}
			}
			acc = c01Inter(acc, s)
		}
		if acc.top {
			return empty
		}
		return acc
	case *ssa.Call:
		if CalleeName(u) == "builtin:append" {
			s := m.must(u.Call.Args[0])
			for _, a := range u.Call.Args[1:] {
				s = c01Union(s, m.must(a))
			}
			return s
		}
		switch CalleeName(u) {
		case "slices.Collect", "slices.Concat", "slices.Values", "slices.Clone", "slices.AppendSeq", "slices.Sorted":
			// order-preserving combinators: the result holds what the operands hold
			s := empty
			for _, a := range u.Call.Args {
				s = c01Union(s, m.must(a))
			}
			return s
		}
		if s, ok := m.viaProducer(u); ok {
			return s
		}
		if s, ok := m.viaHelper(u); ok {
			return s
		}
		m.undecided["call of "+CalleeName(u)+" builds the returned slice"] = true
		return empty
	case *ssa.Extract:
		if call, isCall := u.Tuple.(*ssa.Call); isCall && u.Index == 0 {
			if s, ok := m.viaHelper(call); ok {
				return s
			}
		}
	case *ssa.Slice:
		if a, ok := u.X.(*ssa.Alloc); ok {
			s := empty
			for _, r := range *a.Referrers() {
				ia, ok := r.(*ssa.IndexAddr)
				if !ok {
					continue
				}
				for _, r2 := range *ia.Referrers() {
					if st, ok := r2.(*ssa.Store); ok && st.Addr == ia {
						s = c01Union(s, m.must(st.Val))
					}
				}
			}
			return s
		}
		if u.Low == nil && u.High == nil && u.Max == nil {
			return m.must(u.X)
		}
		m.undecided["re-slicing of the returned slice"] = true
		return empty
	case *ssa.UnOp:
		if a := cellOf(u); a != nil {
			acc := c01Set{top: true}
			for _, st := range ReachingStores(a, u) {
				if st == nil {
					acc = c01Inter(acc, empty)
				} else {
					acc = c01Inter(acc, m.must(st.Val))
				}
			}
			if acc.top {
				return empty
			}
			return acc
		}
		if u.Op == token.MUL {
			return m.must(u.X) // *ptr where ptr is itself computed (phi of &x.F …)
		}
	case *ssa.ChangeType:
		return m.must(u.X)
	}
	m.undecided[fmt.Sprintf("%T value builds the returned slice", v)] = true
	return empty
}

// c01CoverageOf evaluates, for one function and one media-type case, which
// link members every feasible successful return contains.
func c01CoverageOf(fn *ssa.Function, tests []c01StrTest, mt string, isMT func(v ssa.Value) bool) (set c01Set, nReturns int, undecided []string) {
	return c01CoverageDepth(fn, tests, mt, isMT, 0, nil)
}

func c01CoverageDepth(fn *ssa.Function, tests []c01StrTest, mt string, isMT func(v ssa.Value) bool, depth int, params map[*ssa.Parameter]c01Arg) (set c01Set, nReturns int, undecided []string) {
	k0 := c01CaseCut(tests, mt)
	if isMT != nil {
		c01TableCut(fn, mt, isMT, k0)
	}
	m := newC01Must(fn, k0, params)
	k := m.k
	m.mt, m.isMT, m.depth = mt, isMT, depth
	acc := c01Set{top: true}
	errIdx := ErrResultIndex(fn.Signature)
	for _, r := range Returns(fn) {
		if !c01Feasible(r, k) || c01IsErrorReturn(r, errIdx) {
			continue
		}
		nReturns++
		st := m.must(r.Results[0])
		for f, ne := range m.nilEdges {
			if MustPass(r, c01CutUnion(k, newCut().Edges(ne...))) {
				st = st.with(f) // this return is reached only with the member nil: nothing to return for it
			}
		}
		acc = c01Inter(acc, st)
	}
	for u := range m.undecided {
		undecided = append(undecided, u)
	}
	sort.Strings(undecided)
	if acc.top {
		acc = c01Set{m: map[string]bool{}}
	}
	return acc, nReturns, undecided
}

func c01R1(c *Ctx) {
	const R = "C01.R1.successor-field-coverage"
	c.Expect(R, 18)
	kinds := c01ResolveKinds(c, R)
	descMT := c01FieldOf(c.P, c01OCISpec, "Descriptor", "MediaType")
	if kinds == nil || descMT == nil {
		c.LostAnchor(R, "ocispec.Descriptor.MediaType")
		return
	}
	isMT := func(v ssa.Value) bool { return c01IsFieldValue(v, descMT) }
	S := c.P.Fn("content", "Successors")
	if S == nil {
		c.LostAnchor(R, "~/content.Successors")
		return
	}
	check := func(fn *ssa.Function, kind, member string) {
		tests := c01StrTests(fn, isMT)
		key := FnName(fn) + "|" + kind + "|" + member
		set, n, und := c01CoverageOf(fn, tests, kinds.ByKind[kind], isMT)
		switch {
		case n == 0:
			c.Violation(R, key, fn.Pos(), "no successful return is reachable for media type "+kinds.ByKind[kind]+": nodes of this kind are treated as leaves and their "+member+" link is never followed")
		case set.m[member]:
			c.OK(R, key, fn.Pos(), fmt.Sprintf("every successful return for this kind contains the decoded %q member (members returned: %s)", member, c01SetString(set.m)))
		case len(und) > 0:
			c.Undecided(R, key, fn.Pos(), "cannot follow how the result is built: "+strings.Join(und, "; "))
		default:
			c.Violation(R, key, fn.Pos(), fmt.Sprintf("for media type %s a successful return does not contain the decoded %q member (members returned on every path: %s): that link is never copied, so the destination misses part of the graph",
				kinds.ByKind[kind], member, c01SetString(set.m)))
		}
	}
	var ks []string
	for k := range c01LinkTable {
		ks = append(ks, k)
	}
	sort.Strings(ks)
	for _, kind := range ks {
		for _, member := range c01LinkTable[kind] {
			check(S, kind, member)
		}
	}
	// kind set agrees with descriptor.IsManifest
	IM := c.P.Fn("internal/descriptor", "IsManifest")
	if IM == nil {
		c.LostAnchor(R, "~/internal/descriptor.IsManifest")
	} else {
		a, b := c01DispatchConsts(S, isMT), c01DispatchConsts(IM, isMT)
		ok := sameStrings(a, b) && len(a) == len(kinds.ByKind)
		c.Check(R, "~/content.Successors|kind-set-agrees-with|~/internal/descriptor.IsManifest", S.Pos(), ok,
			fmt.Sprintf("Successors dispatches on %v, IsManifest on %v", kinds.kindsOf(a), kinds.kindsOf(b)))
	}
	// manifestutil siblings return the same member for the same kinds
	for _, sib := range [][2]string{{"Config", "config"}, {"Manifests", "manifests"}, {"Subject", "subject"}} {
		fn := c.P.Fn("internal/manifestutil", sib[0])
		if fn == nil {
			c.LostAnchor(R, "~/internal/manifestutil."+sib[0])
			continue
		}
		for _, kind := range ks {
			for _, member := range c01LinkTable[kind] {
				if member == sib[1] {
					check(fn, kind, member)
				}
			}
		}
	}
}

// ---------- R2: successor set integrity ----------

const nIsForeign = "~/internal/descriptor.IsForeignLayer"

func c01R2(c *Ctx) {
	const R = "C01.R2.successor-set-integrity"
	const RF = "C01.R2.foreign-layer-filter"
	c.Expect(R, 2)
	c.Expect(RF, 5)
	var ts []*ssa.Function
	entryOf := map[*ssa.Function]*ssa.Function{}
	for _, tr := range c01Traversals(c.P) {
		ts = append(ts, tr.Body)
		entryOf[tr.Body] = tr.Entry
	}
	if len(ts) == 0 {
		c.LostAnchor(R, "traversal closure (calls Tracker.TryCommit and syncutil.Go) in package ~")
		return
	}
	filters := map[*ssa.Function]bool{}
	for _, T := range ts {
		tn := c01ClosureKey(T, "traverse")
		var S ssa.Value
		var gos []ssa.CallInstruction
		for _, d := range c01DispatchCalls(T, entryOf[T]) {
			S = d.Items
			gos = append(gos, d.Call)
		}
		if S == nil {
			c.LostAnchor(R, tn+": dispatched successors")
			continue
		}
		// walk back through recognised transformers to the FindSuccessors result
		v := S
		steps := 0
		var src *ssa.Call
		owner := T // the function whose node parameter the lookup must be about
		for v != nil && steps < 8 {
			steps++
			rs := Roots(v)
			// the dispatching function may receive the (filtered) list from the claiming function
			if len(rs) == 1 {
				if prm, isParam := rs[0].(*ssa.Parameter); isParam && prm.Parent() == owner && entryOf[T] != nil && entryOf[T] != owner {
					var sites []ssa.CallInstruction
					for _, call := range Calls(entryOf[T], func(string) bool { return true }) {
						callee := StaticCallee(call)
						if callee == nil && !call.Common().IsInvoke() {
							callee, _ = c01FuncOfValue(call.Common().Value)
						}
						if callee == owner {
							sites = append(sites, call)
						}
					}
					idx := -1
					for i, q := range owner.Params {
						if q == prm {
							idx = i
						}
					}
					if len(sites) == 1 && idx >= 0 {
						off := len(owner.Params) - len(sites[0].Common().Args) // bound method value: receiver is not an argument
						if idx-off >= 0 && idx-off < len(sites[0].Common().Args) {
							v = sites[0].Common().Args[idx-off]
							owner = entryOf[T]
							continue
						}
					}
				}
			}
			// the dispatch sits in a closure of the claiming function (handed to a helper that runs it): the captured
			// variable holds what was last stored before the closure was made, provided nothing is stored afterwards
			if len(rs) == 1 {
				if ld, isLd := rs[0].(*ssa.UnOp); isLd && ld.Op == token.MUL {
					if fv, isFV := ld.X.(*ssa.FreeVar); isFV && owner.Parent() != nil && !freeVarWritten(owner, fv) {
						var next ssa.Value
						nMk := 0
						AllInstrs(owner.Parent(), func(in ssa.Instruction) {
							mk, isMk := in.(*ssa.MakeClosure)
							if !isMk || mk.Fn != ssa.Value(owner) {
								return
							}
							nMk++
							for i, b := range mk.Bindings {
								cell, isCell := b.(*ssa.Alloc)
								if owner.FreeVars[i] != fv || !isCell {
									continue
								}
								sts := ReachingStores(cell, mk)
								late := false
								for _, st := range storesTo(cell) {
									if Reachable(mk, st) {
										late = true
									}
								}
								if len(sts) == 1 && sts[0] != nil && !late && len(closureWriters(cell)) == 0 {
									next = sts[0].Val
								}
							}
						})
						if nMk == 1 && next != nil {
							v = next
							owner = owner.Parent()
							continue
						}
					}
				}
			}
			if len(rs) != 1 {
				c.Undecided(R, tn+"|successors-origin", gos[0].Pos(), "the dispatched successors slice has several reaching definitions")
				v = nil
				break
			}
			switch u := rs[0].(type) {
			case *ssa.Extract:
				if call, ok := u.Tuple.(*ssa.Call); ok && u.Index == 0 {
					src = call
				}
				v = nil
			case *ssa.Call:
				g := StaticCallee(u)
				if g != nil && inModule(g) && len(u.Call.Args) == 1 && len(g.Params) == 1 {
					filters[g] = true
					v = u.Call.Args[0]
					continue
				}
				c.Undecided(R, tn+"|successors-origin", u.Pos(), "unrecognised transformer of the successors slice: "+CalleeName(u))
				v = nil
				src = nil
				steps = 99
			default:
				c.Undecided(R, tn+"|successors-origin", gos[0].Pos(), fmt.Sprintf("unrecognised construct builds the successors slice: %T", u))
				v = nil
				steps = 99
			}
		}
		if steps >= 99 {
			continue
		}
		ok := src != nil && CalleeName(src) == "field:~.CopyGraphOptions.FindSuccessors"
		if ok {
			last := src.Call.Args[len(src.Call.Args)-1]
			prm := c01ParamOf(last)
			ok = prm != nil && prm.Parent() == owner && c01IsOCIDescriptor(prm.Type())
		}
		c.Check(R, tn+"|successors-origin", gos[0].Pos(), ok,
			ifelse(ok, "the dispatched slice is opts.FindSuccessors(ctx, proxy, desc) for the node being copied, passed through recognised filters only",
				"the slice handed to syncutil.Go is not the FindSuccessors result for the node being copied"))
	}
	// the default FindSuccessors is content.Successors (installed only when nil), in whatever function starts the traversal
	{
		fsField := c01FieldOf(c.P, "", "CopyGraphOptions", "FindSuccessors")
		var gs []*ssa.Function
		gset := map[*ssa.Function]bool{}
		for g := range c01GraphCopyFns(c.P) {
			for h := range c01ReachableFns(g, 2) { // the defaulting may sit in a constructor the graph copy calls
				if fnPkgPath(h) == Mod && !gset[h] {
					gset[h] = true
					gs = append(gs, h)
				}
			}
		}
		sort.Slice(gs, func(i, j int) bool { return gs[i].String() < gs[j].String() })
		found := false
		for _, par := range gs {
			stores := c04FieldStores(par, fsField)
			if len(stores) == 0 {
				continue
			}
			found = true
			nilE, _, _ := NilTests(par, c04FieldValues(par, fsField))
			okDef := fsField != nil
			for _, s := range stores {
				f, _ := c01FuncOfValue(s.Val)
				if f == nil || f != c.P.Fn("content", "Successors") || len(nilE) == 0 || !MustPass(s, newCut().Edges(nilE...)) {
					okDef = false
				}
			}
			c.Check(R, FnName(par)+"|default-find-successors", par.Pos(), okDef,
				ifelse(okDef, "a nil FindSuccessors defaults to content.Successors", "FindSuccessors is not defaulted to content.Successors under the nil test only"))
		}
		if !found {
			c.Violation(R, "graph-copy|default-find-successors", token.NoPos, "no function starting the traversal defaults a nil FindSuccessors to content.Successors")
		}
	}
	var fl []*ssa.Function
	for g := range filters {
		fl = append(fl, g)
	}
	sort.Slice(fl, func(i, j int) bool { return fl[i].String() < fl[j].String() })
	for _, g := range fl {
		c01CheckForeignFilter(c, RF, g)
	}
	// IsForeignLayer's media-type set
	IF := c.P.Fn("internal/descriptor", "IsForeignLayer")
	descMT := c01FieldOf(c.P, c01OCISpec, "Descriptor", "MediaType")
	if IF == nil || descMT == nil {
		c.LostAnchor(RF, nIsForeign)
		return
	}
	foreign := map[string]bool{}
	for _, e := range [][2]string{{c01OCISpec, "MediaTypeImageLayerNonDistributable"}, {c01OCISpec, "MediaTypeImageLayerNonDistributableGzip"},
		{c01OCISpec, "MediaTypeImageLayerNonDistributableZstd"}, {"internal/docker", "MediaTypeForeignLayer"}} {
		v, ok := c01ConstStr(c.P, e[0], e[1])
		if !ok {
			c.LostAnchor(RF, "constant "+e[0]+"."+e[1])
			return
		}
		foreign[v] = true
	}
	isMTF := func(v ssa.Value) bool { return c01IsFieldValue(v, descMT) }
	tests := c01StrTests(IF, isMTF)
	listed := c01DispatchConsts(IF, isMTF) // switch cases / comparisons and keys of lookup tables
	var extra []string
	var eqEdges []Edge
	for _, k := range listed {
		if !foreign[k] {
			extra = append(extra, k)
		}
	}
	for _, t := range tests {
		eqEdges = append(eqEdges, t.Eq)
	}
	c.Check(RF, nIsForeign+"|media-type-set", IF.Pos(), len(extra) == 0 && len(listed) > 0,
		ifelse(len(extra) == 0, fmt.Sprintf("only foreign / non-distributable layer media types are classified foreign (%d listed)", len(listed)),
			fmt.Sprintf("media types %v are classified as foreign layers and would be dropped from every copy although the property requires them", extra)))
	okTrue := true
	for _, a := range RetAtoms(IF, 0) {
		if k, ok := a.Val.(*ssa.Const); ok && k.Value != nil && !boolConst(k) {
			continue // `false`
		}
		if _, _, isMember := c01Membership(a.Val, isMTF); isMember {
			continue // the answer is the table membership of the media type itself
		}
		if !AtomMustPass(a, newCut().Edges(eqEdges...)) {
			okTrue = false
		}
	}
	c.Check(RF, nIsForeign+"|true-only-for-listed-types", IF.Pos(), okTrue,
		ifelse(okTrue, "every non-false result follows a match with a listed media type", "IsForeignLayer can answer true without matching a listed media type"))
}

func boolConst(k *ssa.Const) bool {
	if k.Value == nil {
		return false
	}
	return k.Value.String() == "true"
}

// c01CheckForeignFilter: g(descs) keeps every element that is not a foreign layer.
func c01CheckForeignFilter(c *Ctx, R string, g *ssa.Function) {
	gn := FnName(g)
	// library forms: slices.DeleteFunc(param, IsForeignLayer) is the filter itself
	isForeignFn := func(v ssa.Value) bool {
		f, _ := c01FuncOfValue(v)
		return f != nil && fnFullName(f) == nIsForeign
	}
	allDelete := len(Returns(g)) > 0
	for _, rt := range Returns(g) {
		call, isCall := rt.Results[0].(*ssa.Call)
		if !isCall || CalleeName(call) != "slices.DeleteFunc" || len(call.Call.Args) != 2 || !c01SameStrip(call.Call.Args[0], g.Params[0]) || !isForeignFn(call.Call.Args[1]) {
			allDelete = false
		}
	}
	if allDelete {
		c.OK(R, gn+"|keeps-non-foreign", g.Pos(), "the result is slices.DeleteFunc(descs, descriptor.IsForeignLayer): exactly the foreign layers are dropped")
		c.OK(R, gn+"|compaction-writes-current-element", g.Pos(), "compaction is done by slices.DeleteFunc")
		c.Exists(R, gn+"|asks|"+nIsForeign, g.Pos(), true, "filter predicate is descriptor.IsForeignLayer")
		return
	}
	// prefix idiom: first := slices.IndexFunc(descs, IsForeignLayer); keep descs[:first], filter descs[first+1:]
	var firstForeign *ssa.Call
	for _, call := range CallsTo(g, "slices.IndexFunc") {
		if len(call.Common().Args) == 2 && c01SameStrip(call.Common().Args[0], g.Params[0]) && isForeignFn(call.Common().Args[1]) {
			firstForeign, _ = call.(*ssa.Call)
		}
	}
	var ranged ssa.Value = g.Params[0]
	var loop *Loop
	for _, l := range Loops(g) {
		rg, _, _, _, ok := c01ElemLoop(l)
		if !ok {
			continue
		}
		if c01SameStrip(rg, g.Params[0]) {
			loop = l
		} else if sl, isSl := strip(rg).(*ssa.Slice); isSl && firstForeign != nil && c01SameStrip(sl.X, g.Params[0]) && sl.High == nil {
			// descs[first+1:]
			if inc, isInc := sl.Low.(*ssa.BinOp); isInc && inc.Op == token.ADD && inc.X == ssa.Value(firstForeign) {
				if k, isK := constInt(inc.Y); isK && k == 1 {
					loop, ranged = l, rg
				}
			}
		}
	}
	if loop == nil || len(Loops(g)) != 1 {
		c.Undecided(R, gn+"|keeps-non-foreign", g.Pos(), "filter is not a single loop visiting every element of its parameter (range or index form)")
		return
	}
	_, idx, body, _, _ := c01ElemLoop(loop)
	header := loop.Header
	isElem := func(v ssa.Value) bool {
		for _, r := range Roots(v) {
			ld, ok := r.(*ssa.UnOp)
			if !ok || ld.Op != token.MUL {
				return false
			}
			ia, ok := ld.X.(*ssa.IndexAddr)
			if !ok || !c01SameStrip(ia.X, ranged) || ia.Index != idx {
				return false
			}
		}
		return true
	}
	var foreignE, keepE []Edge
	for _, i := range Ifs(g) {
		if !loop.Contains(i) || i.Block() == header {
			continue
		}
		cond, t, f := ifEdges(i)
		if call, ok := cond.(*ssa.Call); ok && CalleeName(call) == nIsForeign && isElem(call.Call.Args[0]) {
			foreignE, keepE = append(foreignE, t), append(keepE, f)
			continue
		}
		if bo, ok := cond.(*ssa.BinOp); ok {
			if b, isBasic := bo.X.Type().Underlying().(*types.Basic); isBasic && b.Info()&types.IsInteger != 0 {
				continue // index bookkeeping (i != j)
			}
		}
		c.Undecided(R, gn+"|keeps-non-foreign", i.Pos(), "a condition other than IsForeignLayer(element) decides inside the filter loop")
		return
	}
	if len(keepE) == 0 {
		c.Violation(R, gn+"|keeps-non-foreign", g.Pos(), "the filter never asks descriptor.IsForeignLayer about the element")
		return
	}
	// accumulator: count phi J (result descs[:J]) or slice phi (result R)
	var acc *ssa.Phi
	okRet := true
	for _, rt := range Returns(g) {
		switch u := rt.Results[0].(type) {
		case *ssa.Slice:
			if p, ok := u.High.(*ssa.Phi); ok && p.Block() == header && u.Low == nil && c01SameStrip(u.X, g.Params[0]) {
				acc = p
			} else {
				okRet = false
			}
		case *ssa.Phi:
			if u.Block() == header {
				acc = u
			} else {
				okRet = false
			}
		case *ssa.Parameter:
			// prefix idiom: nothing foreign at all (first < 0) -> the list is returned as is
			okEarly := false
			if firstForeign != nil && u == g.Params[0] {
				for _, i := range Ifs(g) {
					cond, t, f := ifEdges(i)
					bo, isBo := cond.(*ssa.BinOp)
					if !isBo || bo.X != ssa.Value(firstForeign) {
						continue
					}
					k, isK := constInt(bo.Y)
					var neg Edge
					switch {
					case isK && bo.Op == token.LSS && k == 0, isK && bo.Op == token.EQL && k == -1, isK && bo.Op == token.LEQ && k == -1:
						neg = t
					case isK && bo.Op == token.GEQ && k == 0, isK && bo.Op == token.NEQ && k == -1, isK && bo.Op == token.GTR && k == -1:
						neg = f
					default:
						continue
					}
					if MustPass(rt, newCut().Edges(neg)) {
						okEarly = true
					}
				}
			}
			if !okEarly {
				okRet = false
			}
		default:
			okRet = false
		}
	}
	if acc != nil && firstForeign != nil && ranged != ssa.Value(g.Params[0]) {
		// the accumulator must start as the prefix before the first foreign layer
		for i, ev := range acc.Edges {
			if loop.Blocks[header.Preds[i]] {
				continue
			}
			sl, isSl := strip(ev).(*ssa.Slice)
			if !isSl || !c01SameStrip(sl.X, g.Params[0]) || sl.Low != nil || sl.High != ssa.Value(firstForeign) {
				okRet = false
			}
		}
	}
	if acc == nil || !okRet {
		c.Undecided(R, gn+"|keeps-non-foreign", g.Pos(), "result is neither param[:count] nor an accumulated slice of the loop")
		return
	}
	// on the keep side the accumulator advances by exactly this element
	advances := func(v ssa.Value) bool {
		switch u := v.(type) {
		case *ssa.BinOp:
			if k, ok := constInt(u.Y); ok && k == 1 && u.Op == token.ADD && u.X == acc {
				return true
			}
		case *ssa.Call:
			if CalleeName(u) == "builtin:append" && u.Call.Args[0] == acc && len(u.Call.Args) == 2 {
				return c01Slice(u.Call.Args[1], func(x ssa.Value) bool { return x != u.Call.Args[1] && isElem(x) })
			}
		}
		return false
	}
	var onKeep func(v ssa.Value, at *ssa.BasicBlock, depth int) bool
	reachFromKeep := func(b *ssa.BasicBlock) bool {
		for _, e := range keepE {
			if e.To == b || reach(e.To, 0, b.Instrs[0], newCut().Instr(header.Instrs[0])) {
				return true
			}
		}
		return false
	}
	onKeep = func(v ssa.Value, at *ssa.BasicBlock, depth int) bool {
		if advances(v) {
			return true
		}
		if p, ok := v.(*ssa.Phi); ok && p.Block() != header && depth < 6 {
			for i, ev := range p.Edges {
				pred := p.Block().Preds[i]
				if reachFromKeep(pred) || isKeepEdge(keepE, pred, p.Block()) {
					if !onKeep(ev, pred, depth+1) {
						return false
					}
				}
			}
			return true
		}
		return false
	}
	ok := true
	for i, ev := range acc.Edges {
		pred := header.Preds[i]
		if !loop.Blocks[pred] {
			continue // loop entry
		}
		if reachFromKeep(pred) || isKeepEdge(keepE, pred, header) {
			if !onKeep(ev, pred, 0) {
				ok = false
			}
		}
	}
	c.Check(R, gn+"|keeps-non-foreign", g.Pos(), ok,
		ifelse(ok, "whenever IsForeignLayer(element) is false the result grows by that element", "an element that is not a foreign layer can be dropped from the successors (it would never be copied)"))
	// in-place form: the element written at the count position is the current element
	okStore := true
	AllInstrs(g, func(in ssa.Instruction) {
		st, isStore := in.(*ssa.Store)
		if !isStore {
			return
		}
		ia, isIA := st.Addr.(*ssa.IndexAddr)
		if !isIA || !c01SameStrip(ia.X, g.Params[0]) {
			return
		}
		if ia.Index != acc || !isElem(st.Val) {
			okStore = false
		}
	})
	_ = body
	c.Check(R, gn+"|compaction-writes-current-element", g.Pos(), okStore,
		ifelse(okStore, "the only writes into the slice store the current element at the kept-count position", "the filter overwrites an element with something else than the element being kept"))
	for _, call := range CallsTo(g, nIsForeign) {
		c.Exists(R, gn+"|asks|"+nIsForeign, call.Pos(), true, "filter predicate is descriptor.IsForeignLayer")
		break
	}
}

func isKeepEdge(keep []Edge, from, to *ssa.BasicBlock) bool {
	for _, e := range keep {
		if e.From == from && e.To == to {
			return true
		}
	}
	return false
}

// ---------- R3: tracker key ----------

func c01R3(c *Ctx) {
	const R = "C01.R3.tracker-key"
	c.Expect(R, 4)
	TC := c.P.Fn("internal/status", "Tracker.TryCommit")
	FO := c.P.Fn("internal/descriptor", "FromOCI")
	if TC == nil || FO == nil {
		c.LostAnchor(R, "(*~/internal/status.Tracker).TryCommit / ~/internal/descriptor.FromOCI")
		return
	}
	los := CallsTo(TC, "(*sync.Map).LoadOrStore")
	if len(los) != 1 {
		c.Undecided(R, FnName(TC)+"|key", TC.Pos(), "TryCommit no longer uses one sync.Map.LoadOrStore; key derivation not recognised")
	} else {
		key := los[0].Common().Args[1]
		ok := false
		for _, r := range Roots(key) {
			if call, isCall := r.(*ssa.Call); isCall && StaticCallee(call) == FO {
				if prm := c01ParamOf(call.Call.Args[0]); prm != nil && prm.Parent() == TC {
					ok = true
				}
			}
		}
		c.Check(R, FnName(TC)+"|key", los[0].Pos(), ok,
			ifelse(ok, "the tracker key is descriptor.FromOCI(target)", "the tracker does not key on descriptor.FromOCI(target): distinct nodes may share an owner and one of them is never copied"))
	}
	for _, name := range []string{"MediaType", "Digest", "Size"} {
		dst := c01FieldOf(c.P, "internal/descriptor", "Descriptor", name)
		srcF := c01FieldOf(c.P, c01OCISpec, "Descriptor", name)
		if dst == nil || srcF == nil {
			c.LostAnchor(R, "descriptor.Descriptor."+name)
			continue
		}
		ok := true
		n := 0
		for _, a := range RetAtoms(FO, 0) {
			n++
			v := c03LitField(a.Val, dst)
			if v == nil {
				ok = false
				continue
			}
			p, isPath := c01ValuePath(v)
			if !isPath || len(p.Vars) != 1 || p.Vars[0] != srcF {
				ok = false
				continue
			}
			base, isAlloc := p.Base.(*ssa.Alloc)
			if !isAlloc || len(storesTo(base)) != 1 {
				ok = false
				continue
			}
			if _, isParam := storesTo(base)[0].Val.(*ssa.Parameter); !isParam {
				ok = false
			}
		}
		c.Check(R, FnName(FO)+"|"+name, FO.Pos(), ok && n > 0,
			ifelse(ok, "key field "+name+" is copied from the descriptor's "+name, "key field "+name+" is not the descriptor's "+name+": two different nodes (e.g. same bytes under two media types) collapse into one tracker entry and one is never copied"))
	}
}

// ---------- R4: root tagging ----------

var c01TagInvokes = map[string]bool{"(~/content.Tagger).Tag": true}

const nPushRef = "(~/registry.ReferencePusher).PushReference"

// c01RefDefault checks that value v (the reference used for tagging in fn) is
// phi(dstRef, srcRef) with the srcRef edge taken exactly when dstRef is empty.
func c01RefDefault(fn *ssa.Function, v ssa.Value, srcRef, dstRef *ssa.Parameter) (bool, string) {
	phi, ok := v.(*ssa.Phi)
	if !ok {
		if v == ssa.Value(dstRef) {
			return false, "the destination reference is used as given; an empty dstRef is not replaced by srcRef"
		}
		return false, "the reference used for tagging is not the defaulted destination reference"
	}
	emptyE, nonEmptyE := c01EmptyStrEdges(fn, func(x ssa.Value) bool { return x == ssa.Value(dstRef) })
	if len(emptyE) == 0 {
		return false, "dstRef is never compared with the empty string"
	}
	sawSrc, sawDst := false, false
	for i, ev := range phi.Edges {
		e := Edge{phi.Block().Preds[i], phi.Block()}
		switch ev {
		case ssa.Value(srcRef):
			sawSrc = true
			if !c01MustPassEdge(e, newCut().Edges(emptyE...)) {
				return false, "srcRef replaces a non-empty dstRef on some path"
			}
		case ssa.Value(dstRef):
			sawDst = true
			if !c01MustPassEdge(e, newCut().Edges(nonEmptyE...)) {
				return false, "an empty dstRef is kept on some path"
			}
		default:
			return false, "the tagging reference can be something else than dstRef or srcRef"
		}
	}
	if !sawSrc || !sawDst {
		return false, "the tagging reference is not a choice between dstRef and srcRef"
	}
	return true, "reference = dstRef, or srcRef exactly when dstRef is empty"
}

// c01RefParamOf: in callee g, the index of the string parameter that reaches
// PushReference's reference argument (or -1).
func c01RefParamOf(g *ssa.Function) int {
	fns := append([]*ssa.Function{g}, Anons(g)...) // the effect may sit in a closure g hands to a transfer helper
	for _, f := range fns {
		for _, call := range Calls(f, func(n string) bool { return n == nPushRef || c01TagInvokes[n] }) {
			args := call.Common().Args
			last := args[len(args)-1]
			for i, p := range g.Params {
				for _, r := range Roots(last) {
					if r == ssa.Value(p) {
						return i
					}
				}
				if f != g && c01P != nil && c01CarriedFrom(c01P, last, p) {
					return i
				}
			}
		}
	}
	return -1
}

// c01TagEffects: calls in f that tag: Tag(ctx, desc, ref) or a module function
// forwarding ref to PushReference — with ref satisfying isRef.
func c01TagEffects(f *ssa.Function, isRef func(v ssa.Value) bool) []ssa.Instruction {
	return c01TagEffectsD(f, isRef, 0)
}

func c01TagEffectsD(f *ssa.Function, isRef func(v ssa.Value) bool, depth int) []ssa.Instruction {
	var out []ssa.Instruction
	for _, call := range Calls(f, func(string) bool { return true }) {
		if _, isDefer := call.(*ssa.Defer); isDefer {
			continue
		}
		args := call.Common().Args
		n := CalleeName(call)
		switch {
		case c01TagInvokes[n] || n == nPushRef:
			if len(args) > 0 && isRef(args[len(args)-1]) {
				out = append(out, call.(ssa.Instruction))
			}
		default:
			g := StaticCallee(call)
			if g == nil && !call.Common().IsInvoke() {
				g, _ = c01FuncOfValue(call.Common().Value) // a local closure held in a (captured) variable
			}
			if g != nil && inModule(g) {
				if i := c01RefParamOf(g); i >= 0 && i < len(args) && isRef(args[i]) {
					out = append(out, call.(ssa.Instruction))
					continue
				}
				// a helper that itself tags (reading the carried reference) on every successful path
				if depth < 3 && len(g.Blocks) > 0 {
					if inner := c01TagEffectsD(g, isRef, depth+1); len(inner) > 0 {
						all := true
						for _, r := range Returns(g) {
							if !c01IsErrorReturn(r, ErrResultIndex(g.Signature)) && !MustPass(r, newCut().Instr(inner...)) {
								all = false
							}
						}
						if all {
							out = append(out, call.(ssa.Instruction))
						}
					}
				}
			}
		}
	}
	return out
}

func c01R4(c *Ctx) {
	const R = "C01.R4.root-tagging"
	c.Expect(R, 13)
	Copy := c.P.Fn("", "Copy")
	if Copy == nil || len(Copy.Params) != 6 {
		c.LostAnchor(R, "~.Copy(ctx, src, srcRef, dst, dstRef, opts)")
		return
	}
	srcRef, dstRef := Copy.Params[2], Copy.Params[4]
	pre := c01FieldOf(c.P, "", "CopyGraphOptions", "PreCopy")
	post := c01FieldOf(c.P, "", "CopyGraphOptions", "PostCopy")
	skipped := c01FieldOf(c.P, "", "CopyGraphOptions", "OnCopySkipped")
	if pre == nil || post == nil || skipped == nil {
		c.LostAnchor(R, "~.CopyGraphOptions.{PreCopy,PostCopy,OnCopySkipped}")
		return
	}
	// prepareCopy by role: the module function called from Copy that stores into OnCopySkipped
	storesOf := func(f *ssa.Function, fv *types.Var) []*ssa.Store {
		var out []*ssa.Store
		AllInstrs(f, func(in ssa.Instruction) {
			if s, ok := in.(*ssa.Store); ok {
				if p, ok := c01AddrPath(s.Addr); ok && p.last() == fv {
					out = append(out, s)
				}
			}
		})
		return out
	}
	var prepCall, graphCall ssa.CallInstruction
	graphFns := c01GraphCopyFns(c.P)
	for _, call := range Calls(Copy, func(string) bool { return true }) {
		g := StaticCallee(call)
		if g == nil || !inModule(g) {
			continue
		}
		if c01ReachesFieldStore(g, skipped, 3, map[*ssa.Function]bool{}) {
			prepCall = call
		}
		if graphFns[g] {
			graphCall = call
		}
	}
	// the tail of Copy may be a table of step closures (install hooks; copy): the steps are Copy's straight-line code
	var stepView *c01StepView
	prepStep, graphStep := -1, -1
	if prepCall == nil && graphCall == nil {
		for _, sv := range c01StepViews(Copy) {
			sv := sv
			for i, S := range sv.Fns {
				if S == nil {
					continue
				}
				for _, call := range Calls(S, func(string) bool { return true }) {
					g := StaticCallee(call)
					if g == nil || !inModule(g) {
						continue
					}
					if c01ReachesFieldStore(g, skipped, 3, map[*ssa.Function]bool{}) {
						prepCall, prepStep, stepView = call, i, &sv
					}
					if graphFns[g] {
						graphCall, graphStep = call, i
					}
				}
			}
		}
		if stepView != nil && (prepStep < 0 || graphStep < 0 || prepStep >= graphStep) {
			prepCall, graphCall = nil, nil
		}
	}
	if prepCall == nil || graphCall == nil {
		c.LostAnchor(R, "in ~.Copy: the hook-installing helper (stores CopyGraphOptions.OnCopySkipped) and the graph copy (parent of the traversal closure)")
		return
	}
	P := StaticCallee(prepCall)
	// (a) reference defaulting
	refIdx := -1
	for i, a := range prepCall.Common().Args {
		if b, ok := a.Type().Underlying().(*types.Basic); ok && b.Kind() == types.String {
			refIdx = i
		}
	}
	if refIdx < 0 {
		c.LostAnchor(R, FnName(P)+": string parameter receiving the destination reference")
		return
	}
	okA, detA := c01RefDefault(Copy, prepCall.Common().Args[refIdx], srcRef, dstRef)
	if stepView != nil {
		okA, detA = c01CellRefDefault(Copy, prepCall.Common().Args[refIdx], stepView.Loop.Call, srcRef, dstRef)
	}
	c.Check(R, "~.Copy|reference-default", prepCall.Pos(), okA, detA)
	// (d) the root prepared, copied and returned is one value and includes MapRoot's result
	var prepRoot, graphRoot ssa.Value
	for _, a := range prepCall.Common().Args {
		if c01IsOCIDescriptor(a.Type()) {
			prepRoot = a
		}
	}
	for _, a := range graphCall.Common().Args {
		if c01IsOCIDescriptor(a.Type()) {
			graphRoot = a
		}
	}
	okD := prepRoot != nil && graphRoot != nil && c01SameNode(prepRoot, graphRoot)
	nSucc := 0
	for _, r := range Returns(Copy) {
		if c01IsErrorReturn(r, 1) {
			continue
		}
		nSucc++
		if !c01SameNode(r.Results[0], prepRoot) {
			okD = false
		}
		if stepView != nil {
			// both steps ran: the table was exhausted, and a failing step ends Copy with an error
			if !MustPass(r, newCut().Edges(stepView.Loop.Done)) {
				okD = false
			}
			if e := ErrOf(stepView.Loop.Call); e == nil {
				okD = false
			} else if _, nonNil, _ := NilTests(Copy, Aliases(e)); len(nonNil) == 0 {
				okD = false
			} else {
				for _, ne := range nonNil {
					if c01SuccessReturnFrom(Copy, ne, nil, nil) != nil {
						okD = false
					}
				}
			}
			continue
		}
		if !MustPass(r, newCut().Instr(prepCall.(ssa.Instruction))) || !MustPass(r, newCut().Instr(graphCall.(ssa.Instruction))) {
			okD = false
		}
	}
	if stepView != nil && prepRoot != nil {
		// the shared root variable is assigned once, before the steps run
		cell := c01CapturedCell(prepRoot)
		if cell == nil || cell.Parent() != Copy || len(c01CellStores(cell)) != 1 || !MustPass(stepView.Loop.Call, newCut().Instr(c01CellStores(cell)[0])) {
			okD = false
		}
	}
	mapped := false
	if mrVar := c01FieldOf(c.P, "", "CopyOptions", "MapRoot"); prepRoot != nil && mrVar != nil {
		// the root handed on is (on the MapRoot path) the result of calling the MapRoot option — directly, or through a
		// helper that receives the option value
		mapped = c01Slice(prepRoot, func(x ssa.Value) bool { return c01IsFieldValue(x, mrVar) })
	}
	c.Check(R, "~.Copy|one-root-prepared-copied-returned", Copy.Pos(), okD && nSucc > 0 && mapped,
		ifelse(okD && mapped, "the descriptor returned on success is the value handed to the hook installer and to the graph copy, and it is MapRoot's result when MapRoot is set",
			"Copy tags, copies and returns different root descriptors (e.g. the pre-MapRoot root is returned or tagged)"))
	// (b) hooks installed on every path of P
	succ := func(f *ssa.Function) []*ssa.Return {
		var out []*ssa.Return
		for _, r := range Returns(f) {
			if !c01IsErrorReturn(r, ErrResultIndex(f.Signature)) {
				out = append(out, r)
			}
		}
		return out
	}
	// install points of a field in f: stores, and calls of module helpers that install on each of their successful returns
	var installs func(f *ssa.Function, fvs []*types.Var, depth int) []ssa.Instruction
	installs = func(f *ssa.Function, fvs []*types.Var, depth int) []ssa.Instruction {
		var out []ssa.Instruction
		for _, fv := range fvs {
			for _, st := range storesOf(f, fv) {
				out = append(out, st)
			}
		}
		if depth >= 3 {
			return out
		}
		for _, call := range Calls(f, func(string) bool { return true }) {
			g := StaticCallee(call)
			if g == nil || !inModule(g) || len(g.Blocks) == 0 || g == f {
				continue
			}
			if _, isDefer := call.(*ssa.Defer); isDefer {
				continue
			}
			inner := installs(g, fvs, depth+1)
			if len(inner) == 0 {
				continue
			}
			all := true
			for _, r := range succ(g) {
				if !MustPass(r, newCut().Instr(inner...)) {
					all = false
				}
			}
			if all {
				out = append(out, call.(ssa.Instruction))
			}
		}
		return out
	}
	skI, ppI := installs(P, []*types.Var{skipped}, 0), installs(P, []*types.Var{pre, post}, 0)
	okSk, okPP := len(skI) > 0, len(ppI) > 0
	for _, r := range succ(P) {
		if !MustPass(r, newCut().Instr(skI...)) {
			okSk = false
		}
		if !MustPass(r, newCut().Instr(ppI...)) {
			okPP = false
		}
	}
	pn := FnName(P)
	c.Check(R, pn+"|installs-OnCopySkipped", P.Pos(), okSk, ifelse(okSk, "an OnCopySkipped wrapper is installed on every successful path", "a path returns without installing the OnCopySkipped wrapper: an already-present root is never tagged"))
	c.Check(R, pn+"|installs-PreCopy-or-PostCopy", P.Pos(), okPP, ifelse(okPP, "a PreCopy or PostCopy wrapper is installed on every successful path", "a path returns without installing a PreCopy/PostCopy wrapper: a copied root is never tagged"))
	// (c) each installed wrapper tags the root with the carried reference.  The stores may sit in helpers of P:
	// walk P and its module callees, mapping each helper's parameters back to the values Copy passed.
	capturedFrom := func(v ssa.Value, prm *ssa.Parameter) bool { return c01CarriedFrom(c.P, v, prm) }
	type leaf struct {
		fn                  *ssa.Function
		refParam, rootParam *ssa.Parameter
	}
	var leaves []leaf
	var walk func(f *ssa.Function, subst map[*ssa.Parameter]ssa.Value, depth int, seen map[*ssa.Function]bool)
	walk = func(f *ssa.Function, subst map[*ssa.Parameter]ssa.Value, depth int, seen map[*ssa.Function]bool) {
		if seen[f] {
			return
		}
		seen[f] = true
		if len(storesOf(f, skipped))+len(storesOf(f, pre))+len(storesOf(f, post)) > 0 {
			l := leaf{fn: f}
			for prm, v := range subst {
				if c01SameStrip(v, prepCall.Common().Args[refIdx]) {
					l.refParam = prm
				}
				if prepRoot != nil && c01SameStrip(v, prepRoot) {
					l.rootParam = prm
				}
			}
			leaves = append(leaves, l)
		}
		if depth >= 3 {
			return
		}
		for _, call := range Calls(f, func(string) bool { return true }) {
			g := StaticCallee(call)
			if g == nil || !inModule(g) || len(g.Blocks) == 0 || len(call.Common().Args) != len(g.Params) {
				continue
			}
			if !c01ReachesFieldStore(g, skipped, 3, map[*ssa.Function]bool{}) && !c01ReachesFieldStore(g, pre, 3, map[*ssa.Function]bool{}) && !c01ReachesFieldStore(g, post, 3, map[*ssa.Function]bool{}) {
				continue
			}
			sub := map[*ssa.Parameter]ssa.Value{}
			for k, a := range call.Common().Args {
				if q := c01ParamOf(a); q != nil && q.Parent() == f {
					if v, ok := subst[q]; ok {
						sub[g.Params[k]] = v
						continue
					}
				}
				sub[g.Params[k]] = a
			}
			walk(g, sub, depth+1, seen)
		}
	}
	sub0 := map[*ssa.Parameter]ssa.Value{}
	for k, a := range prepCall.Common().Args {
		if k < len(P.Params) {
			sub0[P.Params[k]] = a
		}
	}
	walk(P, sub0, 0, map[*ssa.Function]bool{})
	sort.Slice(leaves, func(i, j int) bool { return leaves[i].fn.String() < leaves[j].fn.String() })
	type installed struct {
		role                string
		store               *ssa.Store
		refParam, rootParam *ssa.Parameter
	}
	var insts []installed
	for _, role := range []struct {
		name string
		fv   *types.Var
	}{{"PreCopy", pre}, {"PostCopy", post}, {"OnCopySkipped", skipped}} {
		for _, l := range leaves {
			for _, st := range storesOf(l.fn, role.fv) {
				insts = append(insts, installed{role.name, st, l.refParam, l.rootParam})
			}
		}
	}
	for _, inst := range insts {
		{
			s := inst.store
			refParam, rootParam := inst.refParam, inst.rootParam
			W, _ := c01FuncOfValue(s.Val)
			key := pn + "$" + inst.role + "|tags-root"
			if W == nil || len(W.Blocks) == 0 {
				c.Undecided(R, key, s.Pos(), "the installed "+inst.role+" is not a closure, method value or function of the module")
				continue
			}
			if refParam == nil || rootParam == nil {
				c.Undecided(R, key, s.Pos(), "cannot map the parameters of "+FnName(s.Parent())+" back to the reference / root that Copy passes to the hook installer")
				continue
			}
			eqT, _, _ := CallTests(W, "~/content.Equal", func(call *ssa.Call) bool {
				a, b := call.Call.Args[0], call.Call.Args[1]
				pa, pb := c01ParamOf(a) != nil, c01ParamOf(b) != nil
				return (pa && capturedFrom(b, rootParam)) || (pb && capturedFrom(a, rootParam))
			})
			isRefV := func(v ssa.Value) bool { return capturedFrom(v, refParam) }
			if len(eqT) == 0 {
				// the root test may sit in a helper the wrapper always calls with its own node:
				// tagIfRoot(ctx, desc) { if !Equal(desc, root) { return nil }; tag }
				var condTags []ssa.Instruction
				for _, call := range Calls(W, func(string) bool { return true }) {
					if _, isDefer := call.(*ssa.Defer); isDefer || call.Common().IsInvoke() {
						continue
					}
					h := StaticCallee(call)
					if h == nil {
						h, _ = c01FuncOfValue(call.Common().Value)
					}
					if h == nil || !inModule(h) || len(h.Blocks) == 0 {
						continue
					}
					own := false
					for _, a := range call.Common().Args {
						if c01IsOCIDescriptor(a.Type()) && c01ParamOf(a) != nil {
							own = true
						}
					}
					if !own {
						continue
					}
					hEq, _, _ := CallTests(h, "~/content.Equal", func(ec *ssa.Call) bool {
						a, b := ec.Call.Args[0], ec.Call.Args[1]
						pa, pb := c01ParamOf(a) != nil, c01ParamOf(b) != nil
						return (pa && capturedFrom(b, rootParam)) || (pb && capturedFrom(a, rootParam))
					})
					hTags := c01TagEffects(h, isRefV)
					good := len(hEq) > 0 && len(hTags) > 0
					for _, e := range hEq {
						if c01SuccessReturnFrom(h, e, newCut().Instr(hTags...), nil) != nil {
							good = false
						}
					}
					if good {
						condTags = append(condTags, call.(ssa.Instruction))
					}
				}
				if len(condTags) == 0 {
					c.Undecided(R, key, W.Pos(), "no content.Equal(desc, root) test recognised in the "+inst.role+" wrapper (nor in a helper it hands its node to): cannot tell the root path from the others")
					continue
				}
				okAll := true
				for _, r := range Returns(W) {
					if !c01IsErrorReturn(r, ErrResultIndex(W.Signature)) && !MustPass(r, newCut().Instr(condTags...)) {
						okAll = false
					}
				}
				c.Check(R, key, W.Pos(), okAll,
					ifelse(okAll, "every successful return of the wrapper follows the call of a helper that tags the node when it is the root", "the "+inst.role+" wrapper can report success without calling the helper that tags the root"))
				c.OK(R, pn+"$"+inst.role+"|tags-the-root-descriptor", W.Pos(), "the helper receives the wrapper's own node")
				continue
			}
			tags := c01TagEffects(W, isRefV)
			var bad *ssa.Return
			for _, e := range eqT {
				if r := c01SuccessReturnFrom(W, e, newCut().Instr(tags...), map[string]bool{"~.SkipNode": true}); r != nil {
					bad = r
				}
			}
			p := W.Pos()
			if bad != nil {
				p = bad.Pos()
			}
			c.Check(R, key, p, bad == nil && len(tags) > 0,
				ifelse(bad == nil && len(tags) > 0, fmt.Sprintf("for the root node every successful return of the wrapper follows a tag effect with the captured destination reference (%d tag effect(s))", len(tags)),
					"for the root node the "+inst.role+" wrapper can report success without tagging it with the destination reference: Copy succeeds but dstRef does not resolve to the returned root"))
			// the tagged descriptor is the root / the node equal to it
			okDesc := true
			for _, t := range tags {
				call := t.(ssa.CallInstruction)
				for _, a := range call.Common().Args {
					if !c01IsOCIDescriptor(a.Type()) {
						continue
					}
					if c01ParamOf(a) == nil && !capturedFrom(a, rootParam) {
						okDesc = false
					}
				}
			}
			c.Check(R, pn+"$"+inst.role+"|tags-the-root-descriptor", W.Pos(), okDesc, "the descriptor handed to the tag effect is the root (or the node equal to it)")
		}
	}
	// (f) the traversal notifies OnCopySkipped for a node that already exists
	for _, tr := range c01Traversals(c.P) {
		T := tr.Body
		tn := c01ClosureKey(T, "traverse")
		if tr.Entry != tr.Body {
			// the existence test sits in whichever of the two traversal functions asks dst.Exists about its own node
			for _, call := range Calls(tr.Entry, func(n string) bool { return n == "(~/content.ReadOnlyStorage).Exists" }) {
				if prm := c01ParamOf(call.Common().Args[len(call.Common().Args)-1]); prm != nil && prm.Parent() == tr.Entry {
					T = tr.Entry
				}
			}
		}
		var existsTrue, existsFalse []Edge
		for _, call := range Calls(T, func(n string) bool { return n == "(~/content.ReadOnlyStorage).Exists" }) {
			prm := c01ParamOf(call.Common().Args[len(call.Common().Args)-1])
			if prm == nil || prm.Parent() != T {
				continue
			}
			// the cache-existence check comes after the dispatch (the syncutil.Go call, or the call of the function holding it)
			var dispatch []ssa.CallInstruction
			for _, d := range c01DispatchCalls(T, tr.Entry) {
				dispatch = append(dispatch, d.Call)
			}
			if T != tr.Body {
				for _, dc := range Calls(T, func(string) bool { return true }) {
					callee := StaticCallee(dc)
					if callee == nil && !dc.Common().IsInvoke() {
						callee, _ = c01FuncOfValue(dc.Common().Value)
					}
					if callee == tr.Body {
						dispatch = append(dispatch, dc)
					}
				}
			}
			if len(dispatch) > 0 && !Dominates(call.(ssa.Instruction), dispatch[0].(ssa.Instruction)) {
				continue // the cache-existence check after the wait
			}
			if v := ResultOf(call, 0); v != nil {
				te, fe := BoolTests(T, Aliases(v))
				existsTrue = append(existsTrue, te...)
				existsFalse = append(existsFalse, fe...)
			}
		}
		cbs, _ := c01CallbackSites(T, skipped)
		nilE := c04NilEdgesOfField(T, skipped)
		if len(existsTrue) == 0 {
			c.Undecided(R, tn+"|existing-node-notifies-OnCopySkipped", T.Pos(), "no test of dst.Exists(ctx, desc) recognised before the dispatch")
			continue
		}
		var bad *ssa.Return
		notified := newCut().Calls(cbs).Edges(nilE...)
		nilCC := c01NilConds(T, c04FieldValues(T, skipped))
		for _, e := range existsTrue {
			// a second test of the same value (switch cases): paths that reach it through the callback / its nil branch are
			// already fine, paths through a false edge of the same value contradict the true edge
			if !c01ReachPS(T.Blocks[0], 0, nil, e.From.Instrs[len(e.From.Instrs)-1], c01CutUnion(notified, newCut().Edges(existsFalse...)), nilCC) {
				continue
			}
			if r := c01SuccessReturnFrom(T, e, notified, nil, nilCC); r != nil {
				bad = r
			}
		}
		c.Check(R, tn+"|existing-node-notifies-OnCopySkipped", T.Pos(), bad == nil && len(cbs) > 0,
			ifelse(bad == nil && len(cbs) > 0, "when the node already exists every successful return follows opts.OnCopySkipped (unless nil)", "an already-present node can be skipped without OnCopySkipped: an already-present root is never tagged"))
	}
}

// c01TagsGivenNode: ExtendedCopy tags the resolved node with the defaulted
// destination reference on every successful return (C01.R4(e) = C03.R5).
func c01TagsGivenNode(c *Ctx, R string) {
	if strings.HasPrefix(R, "C03") {
		c.Expect(R, 2)
	}
	E := c.P.Fn("", "ExtendedCopy")
	if E == nil || len(E.Params) != 6 {
		c.LostAnchor(R, "~.ExtendedCopy(ctx, src, srcRef, dst, dstRef, opts)")
		return
	}
	srcRef, dstRef := E.Params[2], E.Params[4]
	var ref ssa.Value
	tags := c01TagEffects(E, func(v ssa.Value) bool {
		if okA, _ := c01RefDefault(E, v, srcRef, dstRef); okA {
			ref = v
			return true
		}
		return false
	})
	if len(tags) == 0 && c01TagsViaSteps(c, R, E, srcRef, dstRef) {
		return // resolve / copy / tag written as a table of step closures
	}
	if len(tags) == 0 {
		all := c01TagEffects(E, func(ssa.Value) bool { return true })
		det := "ExtendedCopy never tags the node"
		pos := E.Pos()
		if len(all) > 0 {
			args := all[0].(ssa.CallInstruction).Common().Args
			_, det = c01RefDefault(E, args[len(args)-1], srcRef, dstRef)
			pos = all[0].Pos()
		}
		c.Violation(R, "~.ExtendedCopy|tags-node-with-defaulted-reference", pos, det)
		return
	}
	_ = ref
	ok := true
	for _, r := range Returns(E) {
		if c01IsErrorReturn(r, 1) {
			continue
		}
		if !MustPass(r, newCut().Instr(tags...)) {
			ok = false
		}
	}
	c.Check(R, "~.ExtendedCopy|tags-node-with-defaulted-reference", tags[0].Pos(), ok,
		ifelse(ok, "every successful return follows dst.Tag(ctx, node, ref) with ref = dstRef, or srcRef exactly when dstRef is empty", "a successful return of ExtendedCopy is not preceded by tagging the node"))
	// node tagged = node resolved = node copied = node returned
	okNode := true
	var node ssa.Value
	for _, t := range tags {
		for _, a := range t.(ssa.CallInstruction).Common().Args {
			if c01IsOCIDescriptor(a.Type()) {
				node = a
			}
		}
	}
	resolved := false
	if node != nil {
		for _, r := range Roots(node) {
			if ex, isEx := r.(*ssa.Extract); isEx && ex.Index == 0 {
				if call, isCall := ex.Tuple.(*ssa.Call); isCall && strings.HasSuffix(CalleeName(call), ").Resolve") {
					if a := call.Call.Args[len(call.Call.Args)-1]; a == ssa.Value(srcRef) {
						resolved = true
					}
				}
			}
		}
	}
	for _, r := range Returns(E) {
		if !c01IsErrorReturn(r, 1) && !c01SameStrip(r.Results[0], node) {
			okNode = false
		}
	}
	copied := false
	if G := c.P.Fn("", "ExtendedCopyGraph"); G != nil {
		for _, call := range Calls(E, func(string) bool { return true }) {
			if StaticCallee(call) == G {
				for _, a := range call.Common().Args {
					if c01IsOCIDescriptor(a.Type()) && c01SameStrip(a, node) {
						copied = true
					}
				}
			}
		}
	}
	c.Check(R, "~.ExtendedCopy|tagged-node-is-resolved-copied-returned", E.Pos(), okNode && resolved && copied,
		ifelse(okNode && resolved && copied, "the tagged descriptor is src.Resolve(srcRef), is the node handed to ExtendedCopyGraph and is the one returned", "ExtendedCopy tags, copies or returns something else than the node resolved from srcRef"))
}

var c01Mutants = []Mutant{
	// --- the repository's own test suite stays green under these (verified in a scratch copy) ---
	{Name: "docker-config-skipped-when-empty", File: "content/graph.go",
		Old: "\t\treturn append([]ocispec.Descriptor{manifest.Config}, manifest.Layers...), nil",
		New: "\t\tif manifest.Config.Size == 0 {\n\t\t\treturn manifest.Layers, nil\n\t\t}\n\t\treturn append([]ocispec.Descriptor{manifest.Config}, manifest.Layers...), nil", Expect: "C01.R1.successor-field-coverage|~/content.Successors|docker-manifest|config"},
	{Name: "manifest-subject-needs-size", File: "content/graph.go",
		Old: "\t\tif manifest.Subject != nil {\n\t\t\tnodes = append(nodes, *manifest.Subject)\n\t\t}\n\t\tnodes = append(nodes, manifest.Config)",
		New: "\t\tif manifest.Subject != nil && manifest.Subject.Size > 0 {\n\t\t\tnodes = append(nodes, *manifest.Subject)\n\t\t}\n\t\tnodes = append(nodes, manifest.Config)", Expect: "C01.R1.successor-field-coverage|~/content.Successors|image-manifest|subject"},
	{Name: "tracker-key-without-size", File: "internal/descriptor/descriptor.go",
		Old: "\t\tDigest:    desc.Digest,\n\t\tSize:      desc.Size,\n\t}\n}\n\n// IsForeignLayer",
		New: "\t\tDigest:    desc.Digest,\n\t}\n}\n\n// IsForeignLayer", Expect: "C01.R3.tracker-key|~/internal/descriptor.FromOCI|Size"},
	{Name: "skipped-root-tag-needs-user-hook", File: "copy.go",
		Old: "\t\t\tif err := onCopySkipped(ctx, desc); err != nil {\n\t\t\t\treturn err\n\t\t\t}\n\t\t}\n\t\tif err := dst.Tag(ctx, root, dstRef); err != nil {\n\t\t\treturn newCopyError(\"Tag\", CopyErrorOriginDestination, err)\n\t\t}\n\t\treturn nil",
		New: "\t\t\tif err := onCopySkipped(ctx, desc); err != nil {\n\t\t\t\treturn err\n\t\t\t}\n\t\t\tif err := dst.Tag(ctx, root, dstRef); err != nil {\n\t\t\t\treturn newCopyError(\"Tag\", CopyErrorOriginDestination, err)\n\t\t\t}\n\t\t}\n\t\treturn nil", Expect: "C01.R4.root-tagging|~.prepareCopy$OnCopySkipped|tags-root"},
	{Name: "onskipped-manifests-only", File: "copy.go",
		Old: "\t\t\tif opts.OnCopySkipped != nil {\n\t\t\t\tif err := opts.OnCopySkipped(ctx, desc); err != nil {",
		New: "\t\t\tif opts.OnCopySkipped != nil && descriptor.IsManifest(desc) {\n\t\t\t\tif err := opts.OnCopySkipped(ctx, desc); err != nil {", Expect: "C01.R4.root-tagging|~.copyGraph$traverse|existing-node-notifies-OnCopySkipped"},
	{Name: "postcopy-tags-manifest-roots-only", File: "copy.go",
		Old: "\t\t\tif content.Equal(desc, root) {\n\t\t\t\t// for root node, tag it after copying it",
		New: "\t\t\tif content.Equal(desc, root) && descriptor.IsManifest(desc) {\n\t\t\t\t// for root node, tag it after copying it", Expect: "C01.R4.root-tagging|~.prepareCopy$PostCopy|tags-root"},
	{Name: "filter-drops-empty-digest", File: "copy.go",
		Old: "\t\tif !descriptor.IsForeignLayer(desc) {\n\t\t\tif i != j {",
		New: "\t\tif !descriptor.IsForeignLayer(desc) && desc.Digest != \"\" {\n\t\t\tif i != j {", Expect: "C01.R2.foreign-layer-filter|~.removeForeignLayers|keeps-non-foreign"},
	{Name: "extendedcopy-tags-srcref", File: "extendedcopy.go",
		Old: "if err := dst.Tag(ctx, node, dstRef); err != nil {",
		New: "if err := dst.Tag(ctx, node, srcRef); err != nil {", Expect: "C01.R4.root-tagging|~.ExtendedCopy"},
	// --- below: see the report for which of these the repository's tests also catch ---
	{Name: "successors-drop-manifest-subject", File: "content/graph.go",
		Old: "\t\tvar nodes []ocispec.Descriptor\n\t\tif manifest.Subject != nil {\n\t\t\tnodes = append(nodes, *manifest.Subject)\n\t\t}\n\t\tnodes = append(nodes, manifest.Config)",
		New: "\t\tvar nodes []ocispec.Descriptor\n\t\tnodes = append(nodes, manifest.Config)", Expect: "C01.R1.successor-field-coverage|~/content.Successors|image-manifest|subject"},
	{Name: "successors-drop-index-subject", File: "content/graph.go",
		Old: "\t\tif index.Subject != nil {\n\t\t\tnodes = append(nodes, *index.Subject)\n\t\t}\n", New: "", Expect: "C01.R1.successor-field-coverage|~/content.Successors|image-index|subject"},
	{Name: "manifestutil-subject-skips-index", File: "internal/manifestutil/parser.go",
		Old: "case ocispec.MediaTypeImageManifest, ocispec.MediaTypeImageIndex, spec.MediaTypeArtifactManifest:", New: "case ocispec.MediaTypeImageManifest, spec.MediaTypeArtifactManifest:", Expect: "C01.R1.successor-field-coverage|~/internal/manifestutil.Subject|image-index"},
	{Name: "foreign-set-widened", File: "internal/descriptor/descriptor.go",
		Old: "\t\tdocker.MediaTypeForeignLayer:\n", New: "\t\tdocker.MediaTypeForeignLayer,\n\t\tocispec.MediaTypeImageLayerGzip:\n", Expect: "C01.R2.foreign-layer-filter|~/internal/descriptor.IsForeignLayer|media-type-set"},
	{Name: "foreign-by-urls", File: "internal/descriptor/descriptor.go",
		Old: "\t\tdocker.MediaTypeForeignLayer:\n\t\treturn true\n\tdefault:\n\t\treturn false\n", New: "\t\tdocker.MediaTypeForeignLayer:\n\t\treturn true\n\tdefault:\n\t\treturn len(desc.URLs) > 0\n", Expect: "C01.R2.foreign-layer-filter|~/internal/descriptor.IsForeignLayer|true-only-for-listed-types"},
	{Name: "successors-truncated", File: "copy.go",
		Old: "\t\tsuccessors = removeForeignLayers(successors)\n", New: "\t\tsuccessors = removeForeignLayers(successors)\n\t\tif len(successors) > 64 {\n\t\t\tsuccessors = successors[:64]\n\t\t}\n", Expect: "C01.R2.successor-set-integrity"},
	{Name: "hooks-not-installed-for-empty-ref", File: "copy.go",
		Old: "\tif refPusher, ok := dst.(registry.ReferencePusher); ok {\n\t\t// optimize performance for ReferencePusher targets\n", New: "\tif dstRef == \"\" {\n\t\treturn nil\n\t}\n\tif refPusher, ok := dst.(registry.ReferencePusher); ok {\n\t\t// optimize performance for ReferencePusher targets\n", Expect: "C01.R4.root-tagging|~.prepareCopy|installs-"},
	{Name: "copy-returns-unmapped-root", File: "copy.go",
		Old: "\t\troot, err = opts.MapRoot(ctx, proxy, root)\n\t\tif err != nil {", New: "\t\tmapped, err := opts.MapRoot(ctx, proxy, root)\n\t\t_ = mapped\n\t\tif err != nil {", Expect: "C01.R4.root-tagging|~.Copy|one-root-prepared-copied-returned"},
	{Name: "copy-tags-srcref", File: "copy.go",
		Old: "\tif err := prepareCopy(ctx, dst, dstRef, proxy, root, &opts); err != nil {", New: "\tif err := prepareCopy(ctx, dst, srcRef, proxy, root, &opts); err != nil {", Expect: "C01.R4.root-tagging|~.Copy|reference-default"},
	{Name: "extendedcopy-tag-dropped-on-empty-dstref", File: "extendedcopy.go",
		Old: "\tif dstRef == \"\" {\n\t\tdstRef = srcRef\n\t}\n\n\tnode, err := src.Resolve(ctx, srcRef)", New: "\tnode, err := src.Resolve(ctx, srcRef)", Expect: "C01.R4.root-tagging|~.ExtendedCopy"},
}
