package main

// E5: lockset.  Guarded-by tables (struct field -> mutex field of the same
// struct, access mode) are checked with a flow-sensitive intraprocedural
// must-hold analysis plus a "caller holds" summary for helpers.

import (
	"fmt"
	"go/token"
	"go/types"
	"sort"
	"strings"

	"golang.org/x/tools/go/ssa"
)

type GuardSpec struct {
	Type   string   // short named struct type, e.g. "~/internal/resolver.Memory"
	Fields []string // guarded fields
	Lock   string   // mutex field (or embedded mutex type name) of the same struct
	// Exempt: function (FnName) -> one-line reason why unguarded access is safe.
	Exempt map[string]string
	// ReadOnlyAfterInit: fields never written after construction need no lock for reads.
}

type lockMode int

const (
	modeR lockMode = 1
	modeW lockMode = 2
)

type heldSet map[string]lockMode // lock path -> strongest mode held

func (h heldSet) clone() heldSet {
	o := heldSet{}
	for k, v := range h {
		o[k] = v
	}
	return o
}

func meet(a, b heldSet) heldSet {
	if a == nil {
		return b.clone()
	}
	o := heldSet{}
	for k, v := range a {
		if w, ok := b[k]; ok {
			if w < v {
				v = w
			}
			o[k] = v
		}
	}
	return o
}

func equalHeld(a, b heldSet) bool {
	if len(a) != len(b) {
		return false
	}
	for k, v := range a {
		if b[k] != v {
			return false
		}
	}
	return true
}

// accessPath renders the identity of an addressable location / pointer value.
func accessPath(v ssa.Value) string {
	switch u := v.(type) {
	case *ssa.Parameter:
		return "P:" + u.Name()
	case *ssa.FreeVar:
		return "FV:" + u.Name()
	case *ssa.FieldAddr:
		st := u.X.Type().Underlying().(*types.Pointer).Elem().Underlying().(*types.Struct)
		return accessPath(u.X) + "." + st.Field(u.Field).Name()
	case *ssa.Field:
		st := u.X.Type().Underlying().(*types.Struct)
		return accessPath(u.X) + "." + st.Field(u.Field).Name()
	case *ssa.UnOp:
		if u.Op == token.MUL {
			// load through a local cell that holds a single value: look through
			if a := cellOf(u); a != nil {
				rs := Roots(u)
				if len(rs) == 1 && rs[0] != ssa.Value(u) {
					return accessPath(rs[0])
				}
			}
			return accessPath(u.X) + "*"
		}
	case *ssa.Alloc:
		return "NEW:" + u.Name()
	case *ssa.ChangeType:
		return accessPath(u.X)
	case *ssa.Phi:
		return "PHI:" + u.Name()
	}
	if v == nil {
		return "?"
	}
	return "V:" + v.Name()
}

// pathIsFresh: the location belongs to an object allocated in this function
// (not yet shared).  A path that dereferences a pointer held in a local cell
// ("NEW:x*...") denotes whatever was stored there, not a fresh object.
func pathIsFresh(p string) bool { return strings.HasPrefix(p, "NEW:") && !strings.Contains(p, "*") }

func lockOp(call ssa.CallInstruction) (op string, recv ssa.Value) {
	n := CalleeName(call)
	switch n {
	case "(*sync.RWMutex).Lock", "(*sync.Mutex).Lock":
		op = "L"
	case "(*sync.RWMutex).RLock":
		op = "RL"
	case "(*sync.RWMutex).Unlock", "(*sync.Mutex).Unlock":
		op = "U"
	case "(*sync.RWMutex).RUnlock":
		op = "RU"
	default:
		return "", nil
	}
	if len(call.Common().Args) == 0 {
		return "", nil
	}
	return op, call.Common().Args[0]
}

// heldAt computes, for every instruction of fn, the must-hold lock set just
// before it, given the set held at entry.
func heldAt(fn *ssa.Function, entry heldSet) map[ssa.Instruction]heldSet {
	in := map[*ssa.BasicBlock]heldSet{}
	out := map[*ssa.BasicBlock]heldSet{}
	transfer := func(b *ssa.BasicBlock, h heldSet, rec map[ssa.Instruction]heldSet) heldSet {
		h = h.clone()
		for _, ins := range b.Instrs {
			if rec != nil {
				rec[ins] = h.clone()
			}
			call, ok := ins.(*ssa.Call)
			if !ok {
				continue
			}
			op, recv := lockOp(call)
			if op == "" {
				applyLockSummary(call, h)
				continue
			}
			p := accessPath(recv)
			switch op {
			case "L":
				h[p] = modeW
			case "RL":
				if h[p] < modeR {
					h[p] = modeR
				}
			case "U", "RU":
				delete(h, p)
			}
		}
		return h
	}
	if len(fn.Blocks) == 0 {
		return nil
	}
	in[fn.Blocks[0]] = entry.clone()
	changed := true
	for iter := 0; changed && iter < 50; iter++ {
		changed = false
		for _, b := range fn.Blocks {
			var h heldSet
			if b == fn.Blocks[0] {
				h = entry.clone()
			} else {
				first := true
				for _, p := range b.Preds {
					o, ok := out[p]
					if !ok {
						continue // not yet computed: top
					}
					if first {
						h = o.clone()
						first = false
					} else {
						h = meet(h, o)
					}
				}
				if first {
					continue
				}
			}
			in[b] = h
			o := transfer(b, h, nil)
			if old, ok := out[b]; !ok || !equalHeld(old, o) {
				out[b] = o
				changed = true
			}
		}
	}
	rec := map[ssa.Instruction]heldSet{}
	for _, b := range fn.Blocks {
		if h, ok := in[b]; ok {
			transfer(b, h, rec)
		}
	}
	return rec
}

// lockSummary: the effect of calling in-module function g on the locks
// reachable from its parameters.  Acquired: paths ("P:<param><suffix>") held
// at every return of g when nothing is held at entry (a lock-taking helper
// such as `func (s *Store) lockExclusive() func() { s.sync.Lock(); return
// s.sync.Unlock }`).  Released: paths that g may unlock anywhere (plain or
// deferred), which a caller must no longer count on.
type lockSummaryT struct {
	Acquired heldSet
	Released map[string]bool
}

var (
	lockSummaryCache = map[*ssa.Function]*lockSummaryT{}
	lockSummaryBusy  = map[*ssa.Function]bool{}
)

func lockSummary(g *ssa.Function) *lockSummaryT {
	if s, ok := lockSummaryCache[g]; ok {
		return s
	}
	empty := &lockSummaryT{}
	if g == nil || len(g.Blocks) == 0 || lockSummaryBusy[g] || !inModule(g) {
		return empty
	}
	// cheap pre-filter: g itself performs a lock operation
	has := false
	AllInstrs(g, func(in ssa.Instruction) {
		if ci, ok := in.(ssa.CallInstruction); ok {
			if op, _ := lockOp(ci); op != "" {
				has = true
			}
		}
	})
	if !has {
		lockSummaryCache[g] = empty
		return empty
	}
	lockSummaryBusy[g] = true
	defer delete(lockSummaryBusy, g)
	out := &lockSummaryT{Released: map[string]bool{}}
	rec := heldAt(g, heldSet{})
	var acq heldSet
	nret := 0
	AllInstrs(g, func(in ssa.Instruction) {
		switch u := in.(type) {
		case *ssa.Return:
			h, ok := rec[in]
			if !ok {
				return // unreachable
			}
			nret++
			acq = meet(acq, h)
		case ssa.CallInstruction:
			if op, recv := lockOp(u); op == "U" || op == "RU" {
				out.Released[accessPath(recv)] = true
			}
		}
	})
	// a deferred unlock releases at exit whatever the body acquired
	out.Acquired = heldSet{}
	if nret > 0 {
		for k, v := range acq {
			if strings.HasPrefix(k, "P:") && !out.Released[k] {
				out.Acquired[k] = v
			}
		}
	}
	lockSummaryCache[g] = out
	return out
}

// translateParamPath renders the callee-side path "P:<param><suffix>" on the
// caller's side of the call ("" when it does not start at a parameter).
func translateParamPath(g *ssa.Function, args []ssa.Value, path string) string {
	if !strings.HasPrefix(path, "P:") {
		return ""
	}
	rest := path[2:]
	pname, suffix := rest, ""
	if i := strings.IndexAny(rest, ".*"); i >= 0 {
		pname, suffix = rest[:i], rest[i:]
	}
	for i, p := range g.Params {
		if p.Name() == pname && i < len(args) {
			return accessPath(args[i]) + suffix
		}
	}
	return ""
}

// applyLockSummary updates the must-hold set h across a plain call that is
// not itself a mutex operation:
//   - a static call of a helper that returns with locks of its arguments held
//     adds them (and a helper that may unlock removes them);
//   - a call of a function value that such a helper returned (the `unlock`
//     it hands over), or of a bound Unlock/RUnlock method value, releases.
func applyLockSummary(call *ssa.Call, h heldSet) {
	if call.Call.IsInvoke() {
		return
	}
	if g := StaticCallee(call); g != nil {
		s := lockSummary(g)
		for k := range s.Released {
			if ap := translateParamPath(g, call.Call.Args, k); ap != "" {
				delete(h, ap)
			}
		}
		for k, m := range s.Acquired {
			if ap := translateParamPath(g, call.Call.Args, k); ap != "" && h[ap] < m {
				h[ap] = m
			}
		}
		return
	}
	if _, isB := call.Call.Value.(*ssa.Builtin); isB {
		return
	}
	for _, r := range Roots(call.Call.Value) {
		if ex, ok := r.(*ssa.Extract); ok {
			r = ex.Tuple
		}
		switch u := r.(type) {
		case *ssa.Call:
			if g := StaticCallee(u); g != nil {
				for k := range lockSummary(g).Acquired {
					if ap := translateParamPath(g, u.Call.Args, k); ap != "" {
						delete(h, ap)
					}
				}
			}
		case *ssa.MakeClosure:
			if f, ok := u.Fn.(*ssa.Function); ok && len(u.Bindings) == 1 && (strings.HasSuffix(f.Name(), "Unlock$bound") || strings.HasSuffix(f.Name(), "RUnlock$bound")) {
				delete(h, accessPath(u.Bindings[0]))
			}
		}
	}
}

type fieldAccess struct {
	At    ssa.Instruction
	Base  ssa.Value // the struct pointer
	Field string
	Mode  lockMode
}

// fieldAccesses finds reads/writes of the guarded fields of spec in fn.
func fieldAccesses(fn *ssa.Function, typeName string, fields map[string]bool) []fieldAccess {
	var out []fieldAccess
	AllInstrs(fn, func(in ssa.Instruction) {
		fa, ok := in.(*ssa.FieldAddr)
		if !ok {
			return
		}
		pt, ok := fa.X.Type().Underlying().(*types.Pointer)
		if !ok {
			return
		}
		n, ok := pt.Elem().(*types.Named)
		if !ok {
			return
		}
		nn := short(n.Obj().Pkg().Path() + "." + n.Obj().Name())
		if nn != typeName {
			return
		}
		st := n.Underlying().(*types.Struct)
		fname := st.Field(fa.Field).Name()
		if !fields[fname] {
			return
		}
		for _, r := range *fa.Referrers() {
			switch u := r.(type) {
			case *ssa.Store:
				if u.Addr == fa {
					out = append(out, fieldAccess{u, fa.X, fname, modeW})
				}
			case *ssa.UnOp:
				if u.Op != token.MUL {
					continue
				}
				mode := modeR
				at := ssa.Instruction(u)
				// writes through the loaded map / pointer
				for _, r2 := range *u.Referrers() {
					switch w := r2.(type) {
					case *ssa.MapUpdate:
						if w.Map == u {
							out = append(out, fieldAccess{w, fa.X, fname, modeW})
						}
					case *ssa.Call:
						if CalleeName(w) == "builtin:delete" && w.Call.Args[0] == u {
							out = append(out, fieldAccess{w, fa.X, fname, modeW})
						}
					case *ssa.FieldAddr:
						if w.X == u {
							for _, r3 := range *w.Referrers() {
								if s, ok := r3.(*ssa.Store); ok && s.Addr == w {
									out = append(out, fieldAccess{s, fa.X, fname, modeW})
								}
							}
						}
					}
				}
				out = append(out, fieldAccess{at, fa.X, fname, mode})
			default:
				// address taken (method call on the field, passed along): a read
				if ins, ok := r.(ssa.Instruction); ok {
					if _, isDbg := r.(*ssa.DebugRef); !isDbg {
						out = append(out, fieldAccess{ins, fa.X, fname, modeR})
					}
				}
			}
		}
	})
	return out
}

type lockNeed struct {
	Path string // lock path relative to the function's own parameters
	Mode lockMode
	Why  string
	At   ssa.Instruction
}

// LockCheck evaluates the guard specs over the functions of the given
// packages.  One obligation per (function, type.field, mode).
func LockCheck(c *Ctx, rule string, specs []GuardSpec, pkgs []string) {
	var fns []*ssa.Function
	for _, p := range pkgs {
		fns = append(fns, c.P.FuncsOfPkg(p)...)
	}
	// callers index (static calls only; closures are analysed as functions of
	// their own — a closure that touches guarded state must lock itself or be
	// listed as exempt)
	callers := map[*ssa.Function][]ssa.CallInstruction{}
	for _, f := range fns {
		AllInstrs(f, func(in ssa.Instruction) {
			if call, ok := in.(ssa.CallInstruction); ok {
				if g := StaticCallee(call); g != nil {
					callers[g] = append(callers[g], call)
				}
			}
		})
	}
	heldCache := map[*ssa.Function]map[ssa.Instruction]heldSet{}
	held := func(f *ssa.Function) map[ssa.Instruction]heldSet {
		if h, ok := heldCache[f]; ok {
			return h
		}
		h := heldAt(f, heldSet{})
		heldCache[f] = h
		return h
	}
	// satisfied reports whether need (expressed on f's params) is met by every
	// caller chain; returns the failing site description otherwise.
	var callerHolds func(f *ssa.Function, need lockNeed, depth int, seen map[*ssa.Function]bool) (bool, string)
	callerHolds = func(f *ssa.Function, need lockNeed, depth int, seen map[*ssa.Function]bool) (bool, string) {
		if depth > 5 || seen[f] {
			return false, "caller chain too deep"
		}
		seen[f] = true
		defer delete(seen, f)
		if !strings.HasPrefix(need.Path, "P:") {
			return false, "lock is not reachable from the function's parameters"
		}
		cs := callers[f]
		if len(cs) == 0 {
			return false, fmt.Sprintf("%s has no static caller that could hold the lock", FnName(f))
		}
		if f.Object() != nil && f.Object().Exported() && f.Signature.Recv() != nil && isExportedRecv(f) {
			return false, fmt.Sprintf("%s is exported: external callers cannot hold the lock", FnName(f))
		}
		// translate P:<param> to the actual argument at each call site
		rest := need.Path[2:]
		pname := rest
		suffix := ""
		if i := strings.IndexAny(rest, ".*"); i >= 0 {
			pname, suffix = rest[:i], rest[i:]
		}
		pidx := -1
		for i, p := range f.Params {
			if p.Name() == pname {
				pidx = i
			}
		}
		if pidx < 0 {
			return false, "parameter not found"
		}
		for _, call := range cs {
			if _, isGo := call.(*ssa.Go); isGo {
				return false, "called in a new goroutine at " + c.P.Pos(call.Pos())
			}
			args := call.Common().Args
			if pidx >= len(args) {
				return false, "argument mismatch"
			}
			ap := accessPath(args[pidx]) + suffix
			caller := call.Parent()
			if pathIsFresh(ap) {
				continue
			}
			if _, isPlain := call.(*ssa.Call); isPlain && c06FreshThroughStep(caller, args[pidx]) {
				// the caller is a step closure of a step table that its parent runs on the spot, and the
				// object is the parent's captured, still private object under construction
				continue
			}
			if _, isDefer := call.(*ssa.Defer); isDefer {
				return false, "deferred call at " + c.P.Pos(call.Pos())
			}
			h := held(caller)[call.(ssa.Instruction)]
			if h[ap] >= need.Mode {
				continue
			}
			ok, why := callerHolds(caller, lockNeed{Path: ap, Mode: need.Mode}, depth+1, seen)
			if !ok {
				return false, fmt.Sprintf("call from %s at %s does not hold %s (%s)", FnName(caller), c.P.Pos(call.Pos()), ap, why)
			}
		}
		return true, ""
	}
	type okey struct {
		fn, field string
		mode      lockMode
	}
	for _, spec := range specs {
		fields := map[string]bool{}
		for _, f := range spec.Fields {
			fields[f] = true
		}
		results := map[okey]string{} // "" = ok, else failure text
		pos := map[okey]token.Pos{}
		var order []okey
		for _, f := range fns {
			accs := fieldAccesses(f, spec.Type, fields)
			if len(accs) == 0 {
				continue
			}
			fname := FnName(f)
			if why, ok := spec.Exempt[fname]; ok {
				c.Exists(rule, fmt.Sprintf("%s|%s.{%s}|exempt", fname, spec.Type, strings.Join(spec.Fields, ",")), f.Pos(), true, "exempt: "+why)
				continue
			}
			h := held(f)
			for _, a := range accs {
				base := accessPath(a.Base)
				if pathIsFresh(base) {
					continue // object under construction
				}
				lp := base + "." + spec.Lock
				k := okey{fname, a.Field, a.Mode}
				if _, seen := results[k]; !seen {
					order = append(order, k)
					results[k] = ""
					pos[k] = a.At.Pos()
				}
				if h[a.At][lp] >= a.Mode {
					continue
				}
				ok, why := callerHolds(f, lockNeed{Path: lp, Mode: a.Mode}, 0, map[*ssa.Function]bool{})
				if !ok && results[k] == "" {
					results[k] = fmt.Sprintf("%s of %s.%s at %s without holding %s in %s mode: %s",
						modeName(a.Mode, "read", "write"), spec.Type, a.Field, c.P.Pos(a.At.Pos()), lp, modeName(a.Mode, "read", "write"), why)
					pos[k] = a.At.Pos()
				}
			}
		}
		sort.Slice(order, func(i, j int) bool {
			if order[i].fn != order[j].fn {
				return order[i].fn < order[j].fn
			}
			if order[i].field != order[j].field {
				return order[i].field < order[j].field
			}
			return order[i].mode < order[j].mode
		})
		for _, k := range order {
			key := fmt.Sprintf("%s|%s.%s|%s", k.fn, spec.Type, k.field, modeName(k.mode, "R", "W"))
			if results[k] == "" {
				c.OK(rule, key, pos[k], fmt.Sprintf("every %s holds %s (locally or in every caller)", modeName(k.mode, "read", "write"), spec.Lock))
			} else {
				c.Violation(rule, key, pos[k], results[k]+" — a concurrent operation can observe or corrupt the map (data race)")
			}
		}
	}
}

func isExportedRecv(f *ssa.Function) bool {
	recv := f.Signature.Recv()
	if recv == nil {
		return false
	}
	t := recv.Type()
	if p, ok := t.(*types.Pointer); ok {
		t = p.Elem()
	}
	if n, ok := t.(*types.Named); ok {
		return n.Obj().Exported()
	}
	return false
}

func modeName(m lockMode, r, w string) string {
	if m == modeW {
		return w
	}
	return r
}
