package main

// C20 — references parse per grammar and stay in their URL slot.
//
// R1 component languages (E8b): repository / tag patterns ≡ the distribution
//    grammar, and the validators accept exactly what the patterns match.
// R2 slot safety (E8b): accepted repository / tag / digest strings cannot
//    contain characters or segments that would leave their URL slot.
// R3 parse validates everything it returns (symbolic path enumeration).
// R4 URL templates (E8c): every builder of registry/remote/url.go evaluates
//    to the distribution-spec endpoint template.

import (
	"fmt"
	"go/token"
	"go/types"
	"regexp/syntax"
	"sort"
	"strings"

	"golang.org/x/tools/go/ssa"
)

func init() {
	register(&propDef{
		ID: "C20",
		Explain: "Decided: (R1) the repository and tag patterns are language-equivalent (automata, not text) to the distribution-spec grammar, and " +
			"ValidateRepository/ValidateReferenceAsTag return nil exactly when their pattern matches the corresponding field; (R2) no accepted repository " +
			"contains ? # % \\ : @, whitespace/control/non-ASCII characters, an empty segment or a ./.. segment, no accepted tag or digest (go-digest's anchored " +
			"patterns as built into the analysed program) contains / ? # % or such characters; (R3) every successful return of registry.ParseReference, " +
			"Repository.ParseReference and the validators is preceded on the same path by the successful validation of exactly the value returned (registry, " +
			"repository, and the reference in the form that was split off), the fully-qualified branch compares registry and repository with the base, an empty " +
			"reference is rejected, ValidateRegistry requires a non-empty uri.Host equal to the registry, String emits '@' exactly when Digest() parses; " +
			"(R4) each URL builder evaluates to the spec's endpoint template with the reference parts in their own slot, scheme chosen by PlainHTTP, and the " +
			"blob/manifest builders are used by the blob/manifest stores respectively. (R5) in registry/remote the raw reference string given to Resolve/FetchReference/PushReference/Tag/NewRepository reaches no Reference field, URL builder or request URL — only the ParseReference result does, and the parse error is surfaced. NOT decided (not applicable to static analysis): acceptance ⇔ grammar for " +
			"whole strings and the String/Parse round trip (string computation), net/url's authority parsing, which digest algorithms are registered at run time.",
		Run:     runC20,
		Mutants: c20Mutants,
	})
}

func runC20(c *Ctx) {
	if err := reSelfTest(); err != nil {
		c.Undecided("C20.R1.component-languages", "engine-self-test", 0, err.Error())
		return
	}
	repoL, tagL, repoPos, tagPos := c20R1(c)
	c20R2(c, repoL, tagL, repoPos, tagPos)
	c20R3(c)
	c20R4(c)
	c20R5(c)
	c20R6(c, tagL)
}

// ---------- R1 ----------

// distribution-spec v1.1 "Pulling manifests":
//
//	<name>      must match  [a-z0-9]+((\.|_|__|-+)[a-z0-9]+)*(\/[a-z0-9]+((\.|_|__|-+)[a-z0-9]+)*)*
//	<reference> as a tag must match  [a-zA-Z0-9_][a-zA-Z0-9._-]{0,127}
//
// written here independently of the repository's text (alternation order and
// quantifier forms differ on purpose).
const (
	c20RepoGrammar = `\A[a-z0-9]+(?:(?:-+|__|_|\.)[a-z0-9]+)*(?:/[a-z0-9]+(?:(?:-+|__|_|\.)[a-z0-9]+)*)*\z`
	c20TagGrammar  = `\A[a-zA-Z0-9_][a-zA-Z0-9._\-]{0,127}\z`
)

// c20AcceptsIffMatch: fn (a validator method) returns nil exactly on the true
// edge of pattern.MatchString(<field of the receiver>).
func c20AcceptsIffMatch(fn *ssa.Function, field string) (bool, string) {
	ms := Calls(fn, func(n string) bool { return n == "(*regexp.Regexp).MatchString" })
	if len(ms) != 1 {
		return false, fmt.Sprintf("%d MatchString calls", len(ms))
	}
	// the subject is the receiver's field
	res := c20Paths(fn)
	if res.Err != "" {
		return false, res.Err
	}
	recv := sxParam{fn.Params[0]}
	want, ok := sxFieldByName(recv, fn.Params[0].Type(), field)
	if !ok {
		return false, "receiver has no field " + field
	}
	for _, p := range res.Paths {
		if p.Ret == nil {
			continue
		}
		var m *sxCallRec
		for _, r := range p.CallsNamed("(*regexp.Regexp).MatchString") {
			m = r
		}
		matched, known := false, false
		if m != nil {
			if !sxSame(m.Args[1], want) {
				return false, "the pattern is matched against " + sxDescribe(m.Args[1]) + ", not the receiver's " + field
			}
			matched, known = p.Fact(-1, m.Result(0).key())
		}
		isNil := sxSame(p.Ret[0], sxNil)
		switch {
		case isNil && !(known && matched):
			return false, "nil is returned on a path where the pattern is not known to match" + c19PathNote(p)
		case !isNil && known && matched:
			return false, "an error is returned although the pattern matched" + c19PathNote(p)
		case !isNil && !c19NonNilErr(p.Ret[0]):
			return false, "a mismatch does not yield a non-nil error" + c19PathNote(p)
		}
	}
	return true, ""
}

func c20PatternOf(c *Ctx, rule string, fn *ssa.Function) (*reLang, *reSource) {
	srcs, err := rePatternsUsedBy(fn)
	if err != nil {
		c.Undecided(rule, FnName(fn)+"|pattern", fn.Pos(), "cannot obtain the pattern text: "+err.Error())
		return nil, nil
	}
	if len(srcs) != 1 {
		c.LostAnchor(rule, fmt.Sprintf("%s: the pattern it matches against (%d found)", FnName(fn), len(srcs)))
		return nil, nil
	}
	src := srcs[0]
	l, err := reParse(src.Src, src.Flags)
	if err != nil {
		c.Violation(rule, FnName(fn)+"|pattern", src.Pos, "the pattern does not compile: "+err.Error())
		return nil, nil
	}
	return l, src
}

func c20Equiv(c *Ctx, rule, key string, l *reLang, src *reSource, grammar, what string) {
	eq, w, inRepo, err := reEquivalent(l, reMust(grammar))
	switch {
	case err != nil:
		c.Undecided(rule, key, src.Pos, err.Error())
	case eq:
		c.OK(rule, key, src.Pos, "L("+src.Src+") = "+what+" (automata equivalence)")
	case inRepo:
		c.Violation(rule, key, src.Pos, fmt.Sprintf("the pattern %s accepts %q, which the %s does not allow", src.Src, w, what))
	default:
		c.Violation(rule, key, src.Pos, fmt.Sprintf("the pattern %s rejects %q, which the %s allows", src.Src, w, what))
	}
}

func c20R1(c *Ctx) (repoL, tagL *reLang, repoPos, tagPos token.Pos) {
	const R1 = "C20.R1.component-languages"
	c.Expect(R1, 4)
	vRepo := c.P.Fn("registry", "Reference.ValidateRepository")
	vTag := c.P.Fn("registry", "Reference.ValidateReferenceAsTag")
	if vRepo == nil || vTag == nil {
		c.LostAnchor(R1, "registry.Reference.ValidateRepository / ValidateReferenceAsTag")
		return
	}
	for _, x := range []struct {
		fn             *ssa.Function
		field, grammar string
		what           string
		out            **reLang
		pos            *token.Pos
	}{
		{vRepo, "Repository", c20RepoGrammar, "distribution-spec repository grammar", &repoL, &repoPos},
		{vTag, "Reference", c20TagGrammar, "distribution-spec tag grammar", &tagL, &tagPos},
	} {
		ok, why := c20AcceptsIffMatch(x.fn, x.field)
		c.Check(R1, FnName(x.fn)+"|accepts-iff-match", x.fn.Pos(), ok, ifelse(ok, "returns nil exactly when the pattern matches the receiver's "+x.field, why))
		l, src := c20PatternOf(c, R1, x.fn)
		if l == nil {
			continue
		}
		*x.out, *x.pos = l, src.Pos
		c20Equiv(c, R1, FnName(x.fn)+"|pattern≡grammar", l, src, x.grammar, x.what)
	}
	return
}

// ---------- R2 ----------

type c20Bad struct{ name, re, why string }

var (
	c20BadCommon = []c20Bad{
		{"query-or-fragment", `[?#]`, "would start a query or fragment"},
		{"percent", `%`, "would be percent-decoded by the server into another path"},
		{"backslash", `\\`, "is treated as a path separator by some servers"},
		{"non-printable-or-space", `[^!-~]`, "is not a visible ASCII character (whitespace, control, non-ASCII)"},
	}
	c20BadRepo = []c20Bad{
		{"empty-segment", `(?:\A|/)(?:/|\z)`, "has an empty path segment"},
		{"dot-segment", `(?:\A|/)\.\.?(?:/|\z)`, "has a . or .. path segment"},
		{"reference-separator", `[:@]`, "contains a reference separator, so String() would not parse back to the same parts"},
	}
	c20BadRef = []c20Bad{
		{"slash", `/`, "would add a path segment"},
	}
)

func c20Disjoint(c *Ctx, rule, key string, pos token.Pos, l *reLang, src string, bads []c20Bad) {
	for _, b := range bads {
		ne, w, err := reIntersect(l, reMust(b.re))
		k := key + "|" + b.name
		switch {
		case err != nil:
			c.Undecided(rule, k, pos, err.Error())
		case ne:
			c.Violation(rule, k, pos, fmt.Sprintf("the pattern %s accepts %q, which %s", src, w, b.why))
		default:
			c.OK(rule, k, pos, "L("+src+") ∩ L("+b.re+") = ∅")
		}
	}
}

func c20R2(c *Ctx, repoL, tagL *reLang, repoPos, tagPos token.Pos) {
	const R2 = "C20.R2.slot-safety"
	c.Expect(R2, 57)
	if repoL != nil {
		c20Disjoint(c, R2, "repository", repoPos, repoL, repoL.Src, append(append([]c20Bad{}, c20BadCommon...), c20BadRepo...))
	}
	if tagL != nil {
		c20Disjoint(c, R2, "tag", tagPos, tagL, tagL.Src, append(append(append([]c20Bad{}, c20BadCommon...), c20BadRef...), c20Bad{"reference-separator", `[:@]`, "contains a reference separator"}))
	}
	// digest: the patterns go-digest (as built into this program) validates with
	dp := "github.com/opencontainers/go-digest"
	validate := c.P.Fn(dp, "Digest.Validate")
	algValidate := c.P.Fn(dp, "Algorithm.Validate")
	parse := c.P.Fn(dp, "Parse")
	if validate == nil || algValidate == nil || parse == nil || c.P.SPkgs[dp] == nil {
		c.LostAnchor(R2, "go-digest: Parse / Digest.Validate / Algorithm.Validate")
		return
	}
	// registry.Reference.Digest must be digest.Parse(r.Reference)
	dg := c.P.Fn("registry", "Reference.Digest")
	okDg := dg != nil
	if okDg {
		res := sxPaths(dg)
		want, _ := sxFieldByName(sxParam{dg.Params[0]}, dg.Params[0].Type(), "Reference")
		for _, p := range res.Paths {
			cl, isCall := p.Ret[0].(sxCall)
			if !isCall || cl.rec.Callee != parse || !sxSame(cl.rec.Args[0], want) || !sxSame(p.Ret[1], sxCall{cl.rec, 1}) {
				okDg = false
			}
		}
		okDg = okDg && res.Err == "" && len(res.Paths) > 0
	}
	c.Check(R2, "~/registry.Reference.Digest|is-digest.Parse", posOf(dg), okDg, ifelse(okDg, "Reference.Digest returns digest.Parse(r.Reference) unchanged", "Reference.Digest is not digest.Parse(r.Reference)"))
	okChain := len(CallsTo(parse, "(digest.Digest).Validate")) == 1 && len(CallsTo(validate, "(digest.Algorithm).Validate")) == 1
	c.Check(R2, "digest.Parse|validates", parse.Pos(), okChain, "digest.Parse → Digest.Validate → Algorithm.Validate")
	anch, _ := c.P.SPkgs[dp].Members["DigestRegexpAnchored"].(*ssa.Global)
	used := false
	for _, g := range reGlobalsUsedBy(validate) {
		if g == anch {
			used = true
		}
	}
	if anch == nil || !used {
		c.LostAnchor(R2, "digest.DigestRegexpAnchored (used by Digest.Validate)")
	} else if src, err := reGlobalSource(anch, 0); err != nil {
		c.Undecided(R2, "digest.DigestRegexpAnchored", anch.Pos(), err.Error())
	} else if l, err := reParse(src.Src, src.Flags); err != nil {
		c.Undecided(R2, "digest.DigestRegexpAnchored", anch.Pos(), err.Error())
	} else {
		c20Disjoint(c, R2, "digest.DigestRegexpAnchored", src.Pos, l, src.Src, append(append([]c20Bad{}, c20BadCommon...), append(c20BadRef, c20Bad{"at-sign", `@`, "contains the digest separator"})...))
	}
	// the per-algorithm patterns of the encoded part: values of the map
	// Algorithm.Validate looks its pattern up in
	srcs, err := c20MapPatternSources(algValidate)
	if err != nil {
		c.Undecided(R2, "digest.Algorithm.Validate|patterns", algValidate.Pos(), err.Error())
		return
	}
	if len(srcs) == 0 {
		c.LostAnchor(R2, "digest.Algorithm.Validate: pattern table")
	}
	for _, s := range srcs {
		l, err := reParse(s.src.Src, s.src.Flags)
		if err != nil {
			c.Undecided(R2, "digest.encoded["+s.key+"]", 0, err.Error())
			continue
		}
		c20Disjoint(c, R2, "digest.encoded["+s.key+"]", s.src.Pos, l, s.src.Src, append(append([]c20Bad{}, c20BadCommon...), append(c20BadRef, c20Bad{"separator", `[:@]`, "contains a reference separator"})...))
		// the algorithm name itself ends up in the URL too
		kl := reMust(`\A` + syntaxQuote(s.key) + `\z`)
		c20Disjoint(c, R2, "digest.algorithm["+s.key+"]", s.src.Pos, kl, s.key, append(append([]c20Bad{}, c20BadCommon...), append(c20BadRef, c20Bad{"separator", `[:@]`, "contains a reference separator"})...))
	}
}

func posOf(f *ssa.Function) token.Pos {
	if f != nil {
		return f.Pos()
	}
	return token.NoPos
}

func syntaxQuote(s string) string {
	var sb strings.Builder
	for _, r := range s {
		if strings.ContainsRune(`\.+*?()|[]{}^$`, r) {
			sb.WriteByte('\\')
		}
		sb.WriteRune(r)
	}
	return sb.String()
}

type c20KeyedSource struct {
	key string
	src *reSource
}

// c20MapPatternSources: fn looks a *regexp.Regexp up in a package-level map
// and matches with it; returns the compile sources of every value stored into
// that map by the package initialiser, with their (constant) keys.
func c20MapPatternSources(fn *ssa.Function) ([]c20KeyedSource, error) {
	var g *ssa.Global
	for _, call := range Calls(fn, func(n string) bool { return strings.HasPrefix(n, "(*regexp.Regexp).Match") }) {
		for _, r := range Roots(call.Common().Args[0]) {
			ex, ok := r.(*ssa.Extract)
			var lk *ssa.Lookup
			if ok {
				lk, _ = ex.Tuple.(*ssa.Lookup)
			} else {
				lk, _ = r.(*ssa.Lookup)
			}
			if lk == nil {
				continue
			}
			if ld, ok := lk.X.(*ssa.UnOp); ok {
				if gg, ok := ld.X.(*ssa.Global); ok {
					g = gg
				}
			}
		}
	}
	if g == nil {
		return nil, fmt.Errorf("no lookup of a pattern in a package-level map")
	}
	init := g.Pkg.Func("init")
	var mk ssa.Value
	n := 0
	AllInstrs(init, func(in ssa.Instruction) {
		if s, ok := in.(*ssa.Store); ok && s.Addr == ssa.Value(g) {
			mk = s.Val
			n++
		}
	})
	if _, ok := mk.(*ssa.MakeMap); !ok || n != 1 {
		return nil, fmt.Errorf("%s is not initialised by a single map literal", g.Name())
	}
	var out []c20KeyedSource
	for _, r := range *mk.Referrers() {
		switch u := r.(type) {
		case *ssa.MapUpdate:
			k, ok := constString(u.Key)
			if !ok {
				return nil, fmt.Errorf("non-constant key in %s", g.Name())
			}
			src, err := reCallSource(u.Value, 0)
			if err != nil {
				return nil, err
			}
			out = append(out, c20KeyedSource{k, src})
		case *ssa.Store, *ssa.DebugRef:
		default:
			return nil, fmt.Errorf("%s: map literal used by %T in init", g.Name(), r)
		}
	}
	// the map must not be written outside init
	for _, m := range g.Pkg.Members {
		f, ok := m.(*ssa.Function)
		if !ok || f == init {
			continue
		}
		for _, ff := range append([]*ssa.Function{f}, Anons(f)...) {
			bad := false
			AllInstrs(ff, func(in ssa.Instruction) {
				if mu, ok := in.(*ssa.MapUpdate); ok {
					if ld, ok := mu.Map.(*ssa.UnOp); ok && ld.X == ssa.Value(g) {
						bad = true
					}
				}
			})
			if bad {
				return nil, fmt.Errorf("%s is updated in %s", g.Name(), f.Name())
			}
		}
	}
	sort.Slice(out, func(i, j int) bool { return out[i].key < out[j].key })
	return out, nil
}

// ---------- R3 ----------

func c20Recv(r *sxCallRec) sxVal {
	if r.Recv != nil {
		return r.Recv
	}
	if r.Callee != nil && r.Callee.Signature.Recv() != nil && len(r.Args) > 0 {
		return r.Args[0]
	}
	if strings.HasPrefix(r.Name, "(~/registry.Reference).") && len(r.Args) > 0 {
		return r.Args[0] // method expression Reference.M(ref)
	}
	return nil
}

// c20Validated: a call of method `name` on a receiver equal to v returned nil.
func c20Validated(p *sxPath, v sxVal, names ...string) bool {
	for _, n := range names {
		if n == "ValidateRegistry" || n == "ValidateRepository" {
			names = append(names[:len(names):len(names)], "Validate") // Validate() checks both (C20.R3 all-parts)
			break
		}
	}
	for _, r := range p.Calls {
		for _, n := range names {
			if r.Name == "(~/registry.Reference)."+n && sxSame(c20Recv(r), v) && p.ErrNil(-1, r) {
				return true
			}
		}
	}
	return false
}

// c20SplitSep: the separator constant the term was split off at: looks for
// strings.Index/IndexByte/LastIndex/Cut calls inside the term.
func c20SplitSeps(v sxVal) map[string]bool {
	out := map[string]bool{}
	sxWalk(v, func(x sxVal) bool {
		cl, ok := x.(sxCall)
		if !ok || len(cl.rec.Args) < 2 {
			return true
		}
		switch cl.rec.Name {
		case "strings.Index", "strings.IndexByte", "strings.LastIndex", "strings.LastIndexByte", "strings.IndexRune", "strings.Cut", "strings.SplitN", "strings.Split":
			switch cl.rec.Args[1].key() {
			case `const:"@"`, "const:64":
				out["@"] = true
			case `const:":"`, "const:58":
				out[":"] = true
			case `const:"/"`, "const:47":
				out["/"] = true
			}
		}
		return true
	})
	return out
}

// c20LastSplit: the reference term was cut off at a separator found by a
// last-occurrence (or unbounded split) search; returns the search call and the
// haystack, so that the caller can demand a validation of the discarded prefix.
func c20LastSplit(v sxVal, seps ...string) (call *sxCallRec) {
	want := map[string]bool{}
	for _, s := range seps {
		want[s] = true
	}
	sxWalk(v, func(x sxVal) bool {
		cl, ok := x.(sxCall)
		if !ok || len(cl.rec.Args) < 2 || call != nil {
			return call == nil
		}
		first := true
		switch cl.rec.Name {
		case "strings.LastIndex", "strings.LastIndexByte", "strings.LastIndexAny", "strings.LastIndexFunc", "strings.Split", "strings.SplitAfter", "strings.Fields":
			first = false
		case "strings.SplitN", "strings.SplitAfterN":
			first = len(cl.rec.Args) == 3 && cl.rec.Args[2].key() == "const:2"
		}
		if !first && want[cl.rec.Args[1].key()] {
			call = cl.rec
		}
		return true
	})
	return
}

// c20Paths: unexported helpers are executed in place; exported API (the
// validators, ParseReference, Digest) stays summarised.
func c20Paths(fn *ssa.Function) *sxResult {
	return sxPathsInline(fn, "c20", sxHelper)
}

// c20FirstSep: what precedes the '@' of a returned digest reference is
// discarded (the tag before a digest).  It is never validated, so it must be
// delimited by the FIRST '@' — then it cannot hide another '@…' (or, in the
// fallback of Repository.ParseReference, a whole foreign "registry/repo@x"):
// a last-occurrence search is accepted only if the discarded prefix itself
// went through the tag validator.
func c20FirstSep(agg *c19Agg, p *sxPath, F *ssa.Function, fname string, R, ref sxVal, fld func(sxVal, string) sxVal) {
	key := fname + "|dropped-part-delimited-by-first-@"
	last := c20LastSplit(ref, `const:"@"`, "const:64")
	if last == nil {
		agg.ok(key, F, p.RetInstr, "the digest is what follows the first '@' (first-occurrence search): the unvalidated part dropped before it contains no '@'")
		return
	}
	// exception: the discarded prefix was validated as a tag
	for _, r := range p.Calls {
		if r.Name == "(~/registry.Reference).ValidateReferenceAsTag" && p.ErrNil(-1, r) {
			if recv := c20Recv(r); recv != nil {
				pre := fld(recv, "Reference")
				found := false
				sxWalk(pre, func(x sxVal) bool {
					if cl, ok := x.(sxCall); ok && cl.rec == last {
						found = true
					}
					return true
				})
				if found && !sxSame(pre, ref) {
					agg.ok(key, F, p.RetInstr, "the part dropped before the last '@' is validated as a tag")
					return
				}
			}
		}
	}
	agg.fail(key, F, p.RetInstr, p, "the digest is located with "+last.Name+" (last occurrence / unbounded split): everything before the last '@' — e.g. \"evil.example/other@x\" or \"v1@\" — is dropped without validation and the reference is accepted")
}

func c20R3(c *Ctx) {
	const R3 = "C20.R3.parse-validates"
	c.Expect(R3, 17)
	agg := newC19Agg(c, R3)
	refT := c.P.Named("registry", "Reference")
	PR := c.P.Fn("registry", "ParseReference")
	RP := c.P.Fn("registry/remote", "Repository.ParseReference")
	if refT == nil || PR == nil || RP == nil {
		c.LostAnchor(R3, "registry.Reference / registry.ParseReference / remote.Repository.ParseReference")
		return
	}
	fld := func(v sxVal, name string) sxVal { x, _ := sxFieldByName(v, refT, name); return x }
	nonEmpty := func(p *sxPath, v sxVal) bool { return c19NonEmptyString(p, -1, v) }

	// (a) registry.ParseReference
	pn := FnName(PR)
	res := c20Paths(PR)
	if res.Err != "" {
		c.Undecided(R3, pn+"|paths", PR.Pos(), res.Err)
	}
	formB := false
	nOK := 0
	for _, p := range res.Paths {
		if p.Ret == nil || !sxSame(p.Ret[1], sxNil) {
			continue
		}
		nOK++
		R := p.Ret[0]
		for _, v := range []string{"ValidateRegistry", "ValidateRepository"} {
			key := pn + "|" + v
			if c20Validated(p, R, v) {
				agg.ok(key, PR, p.RetInstr, "every successful return is preceded by a nil "+v+"() of the value returned")
			} else {
				agg.fail(key, PR, p.RetInstr, p, "a reference is returned without a successful "+v+"() of exactly that value")
			}
		}
		// registry / path are separated at the FIRST '/': a last-occurrence search would move
		// repository segments into the registry part and reject multi-segment repositories
		{
			key := pn + "|registry-delimited-by-first-/"
			if last := c20LastSplit(R, `const:"/"`, "const:47"); last == nil {
				agg.ok(key, PR, p.RetInstr, "registry and path are separated by a first-occurrence search for '/'")
			} else {
				agg.fail(key, PR, p.RetInstr, p, "registry and path are separated with "+last.Name+" (last occurrence / unbounded split): \"reg/a/b\" no longer parses as registry reg, repository a/b")
			}
		}
		ref := fld(R, "Reference")
		key := pn + "|reference-validated-in-its-form"
		seps := c20SplitSeps(ref)
		switch {
		case p.IsEmptyString(-1, ref):
			agg.ok(key, PR, p.RetInstr, "empty reference (form D)")
		case seps["@"]:
			if c20Validated(p, R, "ValidateReferenceAsDigest") {
				agg.ok(key, PR, p.RetInstr, "what follows '@' is validated as a digest")
			} else {
				agg.fail(key, PR, p.RetInstr, p, "the part after '@' is returned without a successful ValidateReferenceAsDigest()")
			}
			if c20SplitSeps(fld(R, "Repository"))[":"] {
				formB = true
			}
			c20FirstSep(agg, p, PR, pn, R, ref, fld)
		case seps[":"]:
			if c20Validated(p, R, "ValidateReferenceAsTag") {
				agg.ok(key, PR, p.RetInstr, "what follows ':' is validated as a tag")
			} else {
				agg.fail(key, PR, p.RetInstr, p, "the part after ':' is returned without a successful ValidateReferenceAsTag()")
			}
		default:
			agg.undecided(key, PR, p.RetInstr, "cannot tell which separator the reference "+sxDescribe(ref)+" was split off at")
		}
	}
	if nOK == 0 {
		c.LostAnchor(R3, pn+": successful return")
	}
	agg.flush()
	c.Check(R3, pn+"|form-B-tag-dropped", PR.Pos(), formB, ifelse(formB, "on a '@' path the repository is additionally cut at ':' (tag before digest dropped)",
		"no '@' path cuts the repository at ':': name:tag@digest would be rejected instead of dropping the tag"))

	// (b) Repository.ParseReference
	agg = newC19Agg(c, R3)
	rn := FnName(RP)
	res = c20Paths(RP)
	if res.Err != "" {
		c.Undecided(R3, rn+"|paths", RP.Pos(), res.Err)
	}
	base, okBase := sxFieldByName(sxInit{sxParam{RP.Params[0]}}, RP.Params[0].Type(), "Reference")
	if !okBase {
		c.LostAnchor(R3, "remote.Repository.Reference")
		return
	}
	nOK = 0
	for _, p := range res.Paths {
		if p.Ret == nil || !sxSame(p.Ret[1], sxNil) {
			continue
		}
		nOK++
		R := p.Ret[0]
		ref := fld(R, "Reference")
		key := rn + "|empty-reference-rejected"
		if nonEmpty(p, ref) {
			agg.ok(key, RP, p.RetInstr, "the returned reference is known non-empty")
		} else {
			agg.fail(key, RP, p.RetInstr, p, "a reference with an empty Reference part can be returned (requests would address the repository itself)")
		}
		var q *sxCallRec
		for _, r := range p.Calls {
			if r.Callee == PR {
				q = r
			}
		}
		if q != nil && p.ErrNil(-1, q) && sxSame(sxBase(R), q.Result(0)) && len(sxOverridden(R)) == 0 {
			key = rn + "|fully-qualified-same-base"
			eqReg, k1 := p.KnownEq(-1, fld(R, "Registry"), fld(base, "Registry"))
			eqRep, k2 := p.KnownEq(-1, fld(R, "Repository"), fld(base, "Repository"))
			if k1 && eqReg && k2 && eqRep {
				agg.ok(key, RP, p.RetInstr, "a fully qualified reference is returned only if registry and repository equal the base's")
			} else {
				agg.fail(key, RP, p.RetInstr, p, "a fully qualified reference of another registry/repository can be returned (requests would go to this repository's URL with foreign parts)")
			}
			continue
		}
		key = rn + "|fallback-validated"
		sameBase := sxSame(fld(R, "Registry"), fld(base, "Registry")) && sxSame(fld(R, "Repository"), fld(base, "Repository"))
		seps := c20SplitSeps(ref)
		switch {
		case !sameBase:
			agg.fail(key, RP, p.RetInstr, p, "the fallback branch returns registry/repository other than the base's")
		case seps["@"] && c20Validated(p, R, "ValidateReferenceAsDigest"):
			agg.ok(key, RP, p.RetInstr, "tag@digest: what follows '@' is validated as a digest")
			c20FirstSep(agg, p, RP, rn, R, ref, fld)
		case seps["@"]:
			agg.fail(key, RP, p.RetInstr, p, "the part after '@' is returned without a successful ValidateReferenceAsDigest()")
		case c20Validated(p, R, "ValidateReference", "ValidateReferenceAsDigest", "ValidateReferenceAsTag", "Validate"):
			agg.ok(key, RP, p.RetInstr, "a bare tag/digest is validated with ValidateReference()")
		default:
			agg.fail(key, RP, p.RetInstr, p, "a bare reference is returned without validation")
		}
	}
	if nOK == 0 {
		c.LostAnchor(R3, rn+": successful return")
	}
	// the string examined is the caller's, unmodified: registry.ParseReference gets the raw
	// parameter, and a fallback reference is the parameter or what follows a separator found
	// in the parameter itself (a prefix stripped beforehand would lose which separator — ':'
	// ⇒ tag, '@' ⇒ digest — introduced the reference)
	if rawIdx := c19ParamIndexByType(RP, isStringType); rawIdx >= 0 {
		raw := sxParam{RP.Params[rawIdx]}
		key := rn + "|whole-input-examined"
		for _, p := range res.Paths {
			if p.Ret == nil {
				continue
			}
			bad := ""
			for _, r := range p.Calls {
				if r.Callee == PR && !sxSame(r.Args[0], raw) {
					bad = "registry.ParseReference is given " + sxDescribe(r.Args[0]) + " instead of the caller's string"
				}
			}
			if sxSame(p.Ret[1], sxNil) {
				sxWalk(fld(p.Ret[0], "Reference"), func(x sxVal) bool {
					switch u := x.(type) {
					case sxParam:
						if !sxSame(u, raw) {
							bad = "the reference is taken from " + sxDescribe(u)
						}
					case sxCall:
						if u.rec.Callee == PR {
							return false // the parsed result
						}
						if strings.HasPrefix(u.rec.Name, "strings.") && len(u.rec.Args) > 0 && !sxSame(u.rec.Args[0], raw) {
							bad = u.rec.Name + " searches " + sxDescribe(u.rec.Args[0]) + ", not the caller's string"
						}
					case sxOp:
						if u.op == "slice" && !sxSame(u.args[0], raw) {
							bad = "the reference is cut out of " + sxDescribe(u.args[0]) + ", not of the caller's string"
						}
					}
					return true
				})
			}
			if bad == "" {
				agg.ok(key, RP, p.RetInstr, "registry.ParseReference and the fallback both examine the caller's string itself")
			} else {
				agg.fail(key, RP, p.RetInstr, p, bad+": part of the input (and the separator that decides tag vs digest) is dropped before validation")
			}
		}
	}
	agg.flush()

	// (c) validators of registry.Reference
	agg = newC19Agg(c, R3)
	if V := c.P.Fn("registry", "Reference.ValidateRegistry"); V == nil {
		c.LostAnchor(R3, "registry.Reference.ValidateRegistry")
	} else {
		vn := FnName(V)
		recv := sxParam{V.Params[0]}
		reg := fld(recv, "Registry")
		for _, p := range c20Paths(V).Paths {
			if p.Ret == nil || !sxSame(p.Ret[0], sxNil) {
				continue
			}
			key := vn + "|host-equals-registry"
			ok := false
			for _, u := range p.Calls {
				if (u.Name == "net/url.ParseRequestURI" || u.Name == "net/url.Parse") && p.ErrNil(-1, u) {
					uses := false
					sxWalk(u.Args[0], func(x sxVal) bool {
						if sxSame(x, reg) {
							uses = true
						}
						return true
					})
					host := sxField{x: sxInit{u.Result(0)}, field: 3, name: "Host"}
					eq, known := p.KnownEq(-1, host, reg)
					if uses && known && eq && (nonEmpty(p, host) || nonEmpty(p, reg)) {
						ok = true
					}
				}
			}
			if ok {
				agg.ok(key, V, p.RetInstr, "nil only if the registry parses as a URL authority whose Host is non-empty and equals the registry (no user-info, no path)")
			} else {
				agg.fail(key, V, p.RetInstr, p, "a registry is accepted without uri.Host being non-empty and equal to it (user-info or a path could hide in the registry part)")
			}
		}
	}
	if V := c.P.Fn("registry", "Reference.ValidateReferenceAsDigest"); V == nil {
		c.LostAnchor(R3, "registry.Reference.ValidateReferenceAsDigest")
	} else {
		vn := FnName(V)
		recv := sxParam{V.Params[0]}
		for _, p := range c20Paths(V).Paths {
			if p.Ret == nil || !sxSame(p.Ret[0], sxNil) {
				continue
			}
			key := vn + "|digest-parses"
			ok := false
			for _, d := range p.Calls {
				if d.Name == "(~/registry.Reference).Digest" && sxSame(c20Recv(d), recv) && p.ErrNil(-1, d) {
					ok = true
				}
				if d.Name == "digest.Parse" && sxSame(d.Args[0], fld(recv, "Reference")) && p.ErrNil(-1, d) {
					ok = true
				}
			}
			if ok {
				agg.ok(key, V, p.RetInstr, "nil only if Digest() (digest.Parse of the reference) succeeded")
			} else {
				agg.fail(key, V, p.RetInstr, p, "nil is returned without the reference having parsed as a digest")
			}
		}
	}
	if V := c.P.Fn("registry", "Reference.ValidateReference"); V == nil {
		c.LostAnchor(R3, "registry.Reference.ValidateReference")
	} else {
		vn := FnName(V)
		recv := sxParam{V.Params[0]}
		for _, p := range c20Paths(V).Paths {
			if p.Ret == nil {
				continue
			}
			key := vn + "|delegates"
			ok := false
			if cl, isCall := p.Ret[0].(sxCall); isCall {
				n := cl.rec.Name
				ok = (n == "(~/registry.Reference).ValidateReferenceAsDigest" || n == "(~/registry.Reference).ValidateReferenceAsTag") && sxSame(c20Recv(cl.rec), recv)
			} else if sxSame(p.Ret[0], sxNil) {
				ok = p.IsEmptyString(-1, fld(recv, "Reference")) || c20Validated(p, recv, "ValidateReferenceAsDigest", "ValidateReferenceAsTag")
			} else {
				ok = c19NonNilErr(p.Ret[0])
			}
			if ok {
				agg.ok(key, V, p.RetInstr, "returns nil only for an empty reference, otherwise the verdict of the digest/tag validator on the same value")
			} else {
				agg.fail(key, V, p.RetInstr, p, "a non-empty reference is accepted without the digest or tag validator")
			}
		}
	}
	if V := c.P.Fn("registry", "Reference.Validate"); V == nil {
		c.LostAnchor(R3, "registry.Reference.Validate")
	} else {
		vn := FnName(V)
		recv := sxParam{V.Params[0]}
		for _, p := range c20Paths(V).Paths {
			if p.Ret == nil {
				continue
			}
			key := vn + "|all-parts"
			okAll := c20Validated(p, recv, "ValidateRegistry") && c20Validated(p, recv, "ValidateRepository")
			cl, isCall := p.Ret[0].(sxCall)
			last := isCall && cl.rec.Name == "(~/registry.Reference).ValidateReference" && sxSame(c20Recv(cl.rec), recv)
			switch {
			case sxSame(p.Ret[0], sxNil) && !(okAll && c20Validated(p, recv, "ValidateReference")):
				agg.fail(key, V, p.RetInstr, p, "Validate returns nil without all three validators having succeeded")
			case last && !okAll:
				agg.fail(key, V, p.RetInstr, p, "Validate reaches the reference check without registry and repository having been validated")
			default:
				agg.ok(key, V, p.RetInstr, "registry, repository and reference validators all precede a nil result")
			}
		}
	}
	// (d) String emits '@' exactly when Digest() parses
	if S := c.P.Fn("registry", "Reference.String"); S == nil {
		c.LostAnchor(R3, "registry.Reference.String")
	} else {
		sn := FnName(S)
		recv := sxParam{S.Params[0]}
		for _, p := range c20Paths(S).Paths {
			if p.Ret == nil {
				continue
			}
			key := sn + "|at-iff-digest"
			hasAt, hasColon, hasRef := false, false, false
			sxWalk(p.Ret[0], func(x sxVal) bool {
				switch x.key() {
				case `const:"@"`:
					hasAt = true
				case `const:":"`:
					hasColon = true
				}
				if sxSame(x, fld(recv, "Reference")) {
					hasRef = true
				}
				return true
			})
			var dig *sxCallRec
			for _, d := range p.Calls {
				if d.Name == "(~/registry.Reference).Digest" && sxSame(c20Recv(d), recv) {
					dig = d
				}
				if d.Name == "digest.Parse" && sxSame(d.Args[0], fld(recv, "Reference")) {
					dig = d
				}
			}
			parsed := dig != nil && p.ErrNil(-1, dig)
			failed := dig != nil && p.NonNil(-1, sxCall{dig, 1})
			switch {
			case hasAt && !parsed:
				agg.fail(key, S, p.RetInstr, p, "String() emits '@' although the reference is not known to parse as a digest")
			case parsed && !hasAt:
				agg.fail(key, S, p.RetInstr, p, "String() does not emit '@' for a reference that parses as a digest (it would parse back as a tag)")
			case failed && !(hasColon && hasRef):
				agg.fail(key, S, p.RetInstr, p, "String() does not emit ':' + reference for a non-digest reference")
			default:
				agg.ok(key, S, p.RetInstr, "'@' is emitted exactly on the paths where Digest() returned nil error, ':' + reference otherwise")
			}
		}
	}
	agg.flush()
	// (e) String() is written in the template algebra: the raw fields, the digest's
	// own text and the literal separators only — any other function applied to a
	// field (path.Join, Clean, Trim…, ToLower) changes what parses back
	if S := c.P.Fn("registry", "Reference.String"); S != nil {
		n := stTemplateOf(S, 0)
		key := FnName(S) + "|template-algebra"
		bad := ""
		if unk := stUnknowns(n); len(unk) > 0 {
			c.Undecided(R3, key, S.Pos(), "cannot evaluate the string built by String(): "+strings.Join(unk, "; "))
		} else {
			for _, h := range stHoles(n) {
				switch {
				case h == "registry.Reference.Registry", h == "registry.Reference.Repository", h == "registry.Reference.Reference":
				case strings.HasPrefix(h, "registry.Reference.Digest()#0") || strings.HasPrefix(h, "digest.Parse(registry.Reference.Reference)#0") ||
					strings.HasPrefix(h, "string(registry.Reference.Digest()#0") || strings.HasPrefix(h, "string(digest.Parse(registry.Reference.Reference)#0"):
				default:
					bad = h
				}
			}
			c.Check(R3, key, S.Pos(), bad == "", ifelse(bad == "", "String() = "+n.render()+": only the fields, the parsed digest's text and literal separators",
				"String() puts {"+bad+"} into the text: a function of a field other than concatenation (cleaning, trimming, case folding …) means accepted references no longer format to a string that parses back to the same parts"))
		}
	}
}

// ---------- R4 ----------

type c20Endpoint struct {
	name     string
	tmpl     []string // accepted renderings
	required bool     // the spec endpoint must be built by some function
}

const (
	c20Scheme = `[bool?http:https]`
	c20Base   = c20Scheme + `://{registry.Reference.Host()}/v2/`
	c20Repo   = c20Base + `{registry.Reference.Repository}`
)

var c20Endpoints = []c20Endpoint{
	{"scheme", []string{c20Scheme}, false},
	{"base  GET /v2/", []string{c20Base}, true},
	{"catalog  GET /v2/_catalog", []string{c20Base + `_catalog`}, true},
	{"repository base (helper)", []string{c20Repo}, false},
	{"tags  GET /v2/<name>/tags/list", []string{c20Repo + `/tags/list`}, true},
	{"manifests  /v2/<name>/manifests/<reference>", []string{c20Repo + `/manifests/{registry.Reference.Reference}`}, true},
	{"blobs  /v2/<name>/blobs/<digest>", []string{c20Repo + `/blobs/{registry.Reference.Reference}`}, true},
	{"uploads  POST /v2/<name>/blobs/uploads/", []string{c20Repo + `/blobs/uploads/`}, true},
	{"mount  POST /v2/<name>/blobs/uploads/?mount=<digest>&from=<other_name>", []string{c20Repo + `/blobs/uploads/?mount={digest.Digest.String()}&from={string}`}, true},
	{"referrers  GET /v2/<name>/referrers/<digest>?artifactType=<type>", []string{
		c20Repo + `/referrers/{registry.Reference.Reference}[string!=""??{url.Values{}.Encode()}:]`,
		c20Repo + `/referrers/{registry.Reference.Reference}[string!=""??artifactType={net/url.QueryEscape(string)}:]`,
	}, true},
}

func c20R4(c *Ctx) {
	const R4 = "C20.R4.url-templates"
	c.Expect(R4, 11) // 8 required endpoints + query + 2 caller rules; helper builders may come and go
	// builders: package-level functions of registry/remote returning one string
	// whose template mentions a URL marker; those declared in url.go must all classify
	var builders []*ssa.Function
	for _, f := range c.P.FuncsOfPkg("registry/remote") {
		if f.Parent() != nil || f.Signature.Recv() != nil || f.Signature.Results().Len() != 1 || !isStringType(f.Signature.Results().At(0).Type()) {
			continue
		}
		file := c.P.Fset.Position(f.Pos()).Filename
		inURL := strings.HasSuffix(file, "/url.go")
		if !inURL {
			// safety net: a URL builder living elsewhere
			t := stTemplateOf(f, 0).render()
			if !strings.Contains(t, "://") && !strings.Contains(t, "/v2/") {
				continue
			}
		}
		builders = append(builders, f)
	}
	if len(builders) == 0 {
		c.LostAnchor(R4, "string builders of registry/remote/url.go")
		return
	}
	produced := map[string][]string{}
	classOf := map[*ssa.Function]string{}
	classAt := map[ssa.CallInstruction][]string{} // endpoints a parameterised builder is instantiated to at a call site
	match := func(got string) string {
		for _, e := range c20Endpoints {
			for _, t := range e.tmpl {
				if t == got {
					return e.name
				}
			}
		}
		return ""
	}
	for _, f := range builders {
		fn := FnName(f)
		n := stTemplateOf(f, 0)
		unk := stUnknowns(n)
		got := n.render()
		matched := ""
		if len(unk) == 0 {
			matched = match(got)
		}
		if matched == "" {
			// a parameterised helper (base + "/" + kind + "/" + reference, a variadic join …) is judged
			// through the builders that instantiate it, provided nothing else can reach it
			if users, internal := c20OnlyUsedBy(c, f, builders); internal && len(users) > 0 {
				classOf[f] = "helper"
				c.Exists(R4, fn+"|template", f.Pos(), true, got+"  =  helper, only instantiated by "+strings.Join(users, ", ")+" (evaluated there)")
				continue
			}
			// … or through its call sites, when each passes constants for the free string parameters
			if ok, why := c20Instantiate(c, f, builders, match, classAt, produced); ok {
				classOf[f] = "parameterised"
				c.OK(R4, fn+"|template", f.Pos(), got+"  =  parameterised builder; every call site instantiates it to an endpoint: "+why)
				continue
			} else if len(unk) == 0 || why != "" {
				if len(unk) > 0 {
					c.Undecided(R4, fn+"|template", f.Pos(), "cannot evaluate the string built here: "+strings.Join(unk, "; ")+"  (partial: "+got+")")
				} else {
					c.Violation(R4, fn+"|template", f.Pos(), "builds "+got+" which is none of the distribution-spec endpoint templates (a reference part outside its slot, an extra segment or query, or a wrong scheme/host)"+ifelse(why != "", "; "+why, ""))
				}
				continue
			}
			c.Undecided(R4, fn+"|template", f.Pos(), "cannot evaluate the string built here: "+strings.Join(unk, "; ")+"  (partial: "+got+")")
			continue
		}
		classOf[f] = matched
		produced[matched] = append(produced[matched], fn)
		c.OK(R4, fn+"|template", f.Pos(), got+"  =  "+matched)
		// the query of the referrers endpoint: exactly artifactType=<parameter>, URL-encoded
		if strings.HasPrefix(matched, "referrers") {
			ok, why := c20ReferrersQuery(f)
			c.Check(R4, fn+"|query", f.Pos(), ok, ifelse(ok, "the query is url.Values{artifactType: <parameter>}.Encode()", why))
		}
	}
	for _, e := range c20Endpoints {
		if e.required && len(produced[e.name]) == 0 {
			c.LostAnchor(R4, "builder of endpoint "+e.name)
		}
	}
	// callers: scheme by PlainHTTP; blob/manifest builders used by the right store
	blobT, manT := c20StoreType(c, "Blobs"), c20StoreType(c, "Manifests")
	if blobT == nil || manT == nil {
		c.LostAnchor(R4, "concrete types returned by Repository.Blobs() / Manifests()")
		return
	}
	isBuilder := map[*ssa.Function]bool{}
	for _, b := range builders {
		isBuilder[b] = true
	}
	okPlain, okStore := true, true
	whyPlain, whyStore := "", ""
	nCalls := 0
	for _, f := range c.P.FuncsOfPkg("registry/remote") {
		if isBuilder[f] {
			continue
		}
		for _, call := range Calls(f, func(string) bool { return true }) {
			g := StaticCallee(call)
			if g == nil || !isBuilder[g] {
				continue
			}
			nCalls++
			for i, a := range call.Common().Args {
				if b, ok := g.Params[i].Type().Underlying().(*types.Basic); ok && b.Kind() == types.Bool {
					if !c20IsPlainHTTP(a, 0) {
						okPlain, whyPlain = false, FnName(f)+" calls "+FnName(g)+" with a scheme flag that is not the PlainHTTP option"
					}
				}
			}
			var recvT types.Type
			if f.Signature.Recv() != nil {
				recvT = f.Signature.Recv().Type()
			} else if f.Parent() != nil && f.Parent().Signature.Recv() != nil {
				recvT = f.Parent().Signature.Recv().Type()
			}
			kinds := []string{classOf[g]}
			if at, ok := classAt[call]; ok {
				kinds = at
			}
			for _, kind := range kinds {
				if recvT == nil {
					continue
				}
				if types.Identical(recvT, blobT) && !strings.Contains(kind, "/blobs/") {
					okStore, whyStore = false, FnName(f)+" (blob store) builds its URL with "+FnName(g)+" = "+kind
				}
				if types.Identical(recvT, manT) && !strings.Contains(kind, "/manifests/") {
					okStore, whyStore = false, FnName(f)+" (manifest store) builds its URL with "+FnName(g)+" = "+kind
				}
			}
		}
	}
	if nCalls == 0 {
		c.LostAnchor(R4, "calls of the URL builders")
		return
	}
	c.Check(R4, "callers|scheme-by-PlainHTTP", 0, okPlain, ifelse(okPlain, fmt.Sprintf("all %d builder calls pass the PlainHTTP option as the scheme flag", nCalls), whyPlain))
	c.Check(R4, "callers|store-uses-own-endpoint", 0, okStore, ifelse(okStore, "methods of the blob store use only /blobs/ endpoints, methods of the manifest store only /manifests/ endpoints", whyStore))
}

// c20Instantiate judges a parameterised builder through its call sites: every
// use is a static call; calls from other builders are evaluated there; every
// other call passes, for each string parameter that the template leaves open,
// values that are all constants — each instantiation must be an endpoint.
func c20Instantiate(c *Ctx, f *ssa.Function, builders []*ssa.Function, match func(string) string,
	classAt map[ssa.CallInstruction][]string, produced map[string][]string) (bool, string) {
	isBuilder := map[*ssa.Function]bool{}
	for _, b := range builders {
		isBuilder[b] = true
	}
	var strParams []int
	for i, p := range f.Params {
		if isStringType(p.Type()) {
			strParams = append(strParams, i)
		}
	}
	if len(strParams) != 1 {
		return false, "" // only single-parameter instantiation is attempted
	}
	pi := strParams[0]
	seen := map[string]bool{}
	var names []string
	sites := 0
	for _, g := range c.P.FuncsOfPkg(fnPkgPath(f)) {
		var bad string
		AllInstrs(g, func(instr ssa.Instruction) {
			for _, op := range instr.Operands(nil) {
				if op == nil || *op != ssa.Value(f) {
					continue
				}
				call, isCall := instr.(ssa.CallInstruction)
				if !isCall || call.Common().Value != ssa.Value(f) {
					bad = "it is used as a value in " + FnName(g)
					continue
				}
				if isBuilder[g] {
					continue
				}
				sites++
				var kinds []string
				for _, r := range Roots(call.Common().Args[pi]) {
					k, ok := constString(r)
					if !ok {
						bad = FnName(g) + " passes a non-constant " + f.Params[pi].Name()
						continue
					}
					n := stTemplateWith(f, 0, map[*ssa.Parameter]stNode{f.Params[pi]: stLit(k)})
					if unk := stUnknowns(n); len(unk) > 0 {
						bad = "instantiation with " + k + " cannot be evaluated: " + strings.Join(unk, "; ")
						continue
					}
					m := match(n.render())
					if m == "" {
						bad = FnName(g) + " instantiates it to " + n.render() + ", which is no endpoint"
						continue
					}
					kinds = append(kinds, m)
					if !seen[m] {
						seen[m] = true
						names = append(names, m)
						produced[m] = append(produced[m], FnName(f))
					}
				}
				classAt[call] = kinds
			}
		})
		if bad != "" {
			return false, bad
		}
	}
	if sites == 0 {
		return false, ""
	}
	sort.Strings(names)
	return true, strings.Join(names, "; ")
}

// c20OnlyUsedBy: every use of f in its package is a static call from one of
// the given functions (f is never stored, passed or called from elsewhere).
func c20OnlyUsedBy(c *Ctx, f *ssa.Function, among []*ssa.Function) (users []string, ok bool) {
	in := map[*ssa.Function]bool{}
	for _, g := range among {
		in[g] = true
	}
	seen := map[string]bool{}
	for _, g := range c.P.FuncsOfPkg(fnPkgPath(f)) {
		bad := false
		AllInstrs(g, func(instr ssa.Instruction) {
			for _, op := range instr.Operands(nil) {
				if op == nil || *op != ssa.Value(f) {
					continue
				}
				call, isCall := instr.(ssa.CallInstruction)
				if isCall && call.Common().Value == ssa.Value(f) && in[g] && g != f {
					if !seen[FnName(g)] {
						seen[FnName(g)] = true
						users = append(users, FnName(g))
					}
					continue
				}
				bad = true
			}
		})
		if bad {
			return nil, false
		}
	}
	sort.Strings(users)
	return users, true
}

// c20IsPlainHTTP: v is the PlainHTTP option, read directly or through an
// in-module accessor all of whose returns are that field.
func c20IsPlainHTTP(v ssa.Value, depth int) bool {
	if isFieldLoad(v, "PlainHTTP") {
		return true
	}
	if depth > 2 {
		return false
	}
	for _, r := range Roots(v) {
		call, ok := r.(*ssa.Call)
		if !ok {
			return false
		}
		g := StaticCallee(call)
		if g == nil || !inModule(g) || len(g.Blocks) == 0 || g.Signature.Results().Len() != 1 {
			return false
		}
		for _, ret := range Returns(g) {
			if !c20IsPlainHTTP(ret.Results[0], depth+1) {
				return false
			}
		}
	}
	return true
}

// c20StoreType: the concrete (pointer) type Repository.<method>() returns.
func c20StoreType(c *Ctx, method string) types.Type {
	f := c.P.Fn("registry/remote", "Repository."+method)
	if f == nil {
		return nil
	}
	var t types.Type
	for _, r := range Returns(f) {
		if len(r.Results) != 1 {
			return nil
		}
		v := r.Results[0]
		if mi, ok := v.(*ssa.MakeInterface); ok {
			v = mi.X
		}
		if t != nil && !types.Identical(t, v.Type()) {
			return nil
		}
		t = v.Type()
	}
	return t
}

// c20ReferrersQuery: the only url.Values in f is fresh, gets exactly
// Set("artifactType", <string parameter>) and is Encode()d; or the builder
// uses url.QueryEscape(<string parameter>).
func c20ReferrersQuery(f *ssa.Function) (bool, string) {
	encs := CallsTo(f, "(net/url.Values).Encode")
	if len(encs) == 0 {
		if len(CallsTo(f, "net/url.QueryEscape")) == 1 {
			return true, ""
		}
		return false, "the artifactType filter is not URL-encoded"
	}
	if len(encs) != 1 {
		return false, "several url.Values are encoded"
	}
	mk, ok := encs[0].Common().Args[0].(*ssa.MakeMap)
	if !ok {
		return false, "the encoded url.Values is not created in the builder"
	}
	sets := 0
	for _, r := range *mk.Referrers() {
		switch u := r.(type) {
		case *ssa.Call:
			switch CalleeName(u) {
			case "(net/url.Values).Encode":
			case "(net/url.Values).Set", "(net/url.Values).Add":
				k, isConst := constString(u.Call.Args[1])
				_, isParam := u.Call.Args[2].(*ssa.Parameter)
				if !isConst || k != "artifactType" || !isParam {
					return false, "the query carries something else than artifactType=<parameter>"
				}
				sets++
			default:
				return false, "the url.Values is passed to " + CalleeName(u)
			}
		case *ssa.MapUpdate:
			// url.Values{"artifactType": []string{<parameter>}} or v["artifactType"] = []string{<parameter>}
			k, isConst := constString(u.Key)
			elems, isLit := stLitElems(u.Value)
			if !isConst || k != "artifactType" || !isLit || len(elems) != 1 {
				return false, "the query carries something else than artifactType=<parameter>"
			}
			if _, isParam := elems[0].(*ssa.Parameter); !isParam {
				return false, "the query carries something else than artifactType=<parameter>"
			}
			sets++
		case *ssa.DebugRef:
		default:
			return false, fmt.Sprintf("the url.Values is used by %T", r)
		}
	}
	if sets != 1 {
		return false, fmt.Sprintf("%d query parameters are set (want exactly artifactType)", sets)
	}
	return true, ""
}

var _ = syntax.Perl

// ---------- R6 ----------
//
// The other ways a registry / repository name or a default reference enters a
// Reference (and from there a URL): NewRegistry(name), Registry.Repository(name),
// NewRepository(reference), Reference.Host(), Reference.ReferenceOrDefault().

func c20R6(c *Ctx, tagL *reLang) {
	const R6 = "C20.R6.components-validated-at-construction"
	c.Expect(R6, 5)
	refT := c.P.Named("registry", "Reference")
	if refT == nil {
		c.LostAnchor(R6, "registry.Reference")
		return
	}
	fld := func(v sxVal, name string) sxVal { x, _ := sxFieldByName(v, refT, name); return x }
	// constructors: the name given is validated, and the validated Reference is what the object keeps
	for _, k := range []struct{ pkg, fn, field, validator string }{
		{"registry/remote", "NewRegistry", "Registry", "ValidateRegistry"},
		{"registry/remote", "Registry.Repository", "Repository", "ValidateRepository"},
	} {
		F := c.P.Fn(k.pkg, k.fn)
		if F == nil {
			c.LostAnchor(R6, k.pkg+"."+k.fn)
			continue
		}
		idx := c19ParamIndexByType(F, isStringType)
		if idx < 0 {
			c.LostAnchor(R6, k.fn+": the name parameter")
			continue
		}
		raw := sxParam{F.Params[idx]}
		res := c20Paths(F)
		ok, why, n := res.Err == "", res.Err, 0
		for _, p := range res.Paths {
			if p.Ret == nil || !sxSame(p.Ret[len(p.Ret)-1], sxNil) {
				continue
			}
			n++
			var valid sxVal
			for _, r := range p.Calls {
				if r.Name == "(~/registry.Reference)."+k.validator && p.ErrNil(-1, r) {
					if recv := c20Recv(r); recv != nil && sxSame(fld(recv, k.field), raw) {
						valid = recv
					}
				}
				if r.Name == "(~/registry.Reference).Validate" && p.ErrNil(-1, r) {
					if recv := c20Recv(r); recv != nil && sxSame(fld(recv, k.field), raw) {
						valid = recv
					}
				}
			}
			if valid == nil {
				ok, why = false, "an object is returned although "+k.validator+"() did not succeed on a Reference whose "+k.field+" is the given name"+c19PathNote(p)
				continue
			}
			kept := false
			for _, cell := range p.Mem {
				sxWalk(cell, func(x sxVal) bool {
					if sxSame(x, valid) {
						kept = true
					}
					return !kept
				})
			}
			if !kept {
				ok, why = false, "the Reference that was validated is not the one the returned object keeps"+c19PathNote(p)
			}
		}
		if n == 0 {
			ok, why = false, "no successful return found"
		}
		c.Check(R6, FnName(F)+"|name-validated", F.Pos(), ok, ifelse(ok, "every successful return validated the given "+strings.ToLower(k.field)+" name with "+k.validator+"() and keeps exactly that Reference", why))
	}
	// NewRepository keeps the parsed reference
	if F := c.P.Fn("registry/remote", "NewRepository"); F == nil {
		c.LostAnchor(R6, "remote.NewRepository")
	} else {
		PR := c.P.Fn("registry", "ParseReference")
		res := c20Paths(F)
		ok, why, n := res.Err == "", res.Err, 0
		for _, p := range res.Paths {
			if p.Ret == nil || !sxSame(p.Ret[len(p.Ret)-1], sxNil) {
				continue
			}
			n++
			kept := false
			for _, r := range p.Calls {
				if r.Callee == PR && p.ErrNil(-1, r) && sxSame(r.Args[0], sxParam{F.Params[0]}) {
					for _, cell := range p.Mem {
						sxWalk(cell, func(x sxVal) bool {
							if sxSame(x, r.Result(0)) {
								kept = true
							}
							return !kept
						})
					}
				}
			}
			if !kept {
				ok, why = false, "a Repository is returned whose Reference is not the successfully parsed one"+c19PathNote(p)
			}
		}
		c.Check(R6, FnName(F)+"|keeps-parsed-reference", F.Pos(), ok && n > 0, ifelse(ok && n > 0, "the Repository keeps registry.ParseReference(reference) (nil error), unchanged", why))
	}
	// Host(): the registry itself or a constant that is a bare authority
	authority := reMust(`\A[A-Za-z0-9](?:[A-Za-z0-9.\-]*[A-Za-z0-9])?(?::[0-9]+)?\z`)
	if H := c.P.Fn("registry", "Reference.Host"); H == nil {
		c.LostAnchor(R6, "registry.Reference.Host")
	} else {
		recv := sxParam{H.Params[0]}
		res := c20Paths(H)
		ok, why := res.Err == "" && len(res.Paths) > 0, res.Err
		for _, p := range res.Paths {
			if p.Ret == nil {
				continue
			}
			v := p.Ret[0]
			if sxSame(v, fld(recv, "Registry")) {
				continue
			}
			if k, isConst := v.(sxConst); isConst {
				if str, isStr := constString(k.c); isStr && reMatch(authority, str) {
					continue
				}
			}
			ok, why = false, "Host() can return "+sxDescribe(v)+", which is neither the registry itself nor a constant bare authority (the URL would get another host, a path or a query)"
		}
		c.Check(R6, FnName(H)+"|authority-only", H.Pos(), ok, ifelse(ok, "Host() returns the registry or a constant host[:port]", why))
	}
	// ReferenceOrDefault(): the reference or a constant that is a valid tag
	if D := c.P.Fn("registry", "Reference.ReferenceOrDefault"); D == nil {
		c.LostAnchor(R6, "registry.Reference.ReferenceOrDefault")
	} else if tagL != nil {
		recv := sxParam{D.Params[0]}
		res := c20Paths(D)
		ok, why := res.Err == "" && len(res.Paths) > 0, res.Err
		for _, p := range res.Paths {
			if p.Ret == nil {
				continue
			}
			v := p.Ret[0]
			if sxSame(v, fld(recv, "Reference")) {
				if p.IsEmptyString(-1, v) {
					ok, why = false, "ReferenceOrDefault() returns the empty reference"
				}
				continue
			}
			if k, isConst := v.(sxConst); isConst {
				if str, isStr := constString(k.c); isStr && reMatch(tagL, str) {
					continue
				}
			}
			ok, why = false, "ReferenceOrDefault() can return "+sxDescribe(v)+", which is neither the reference nor a constant the tag grammar accepts"
		}
		c.Check(R6, FnName(D)+"|default-is-a-tag", D.Pos(), ok, ifelse(ok, "ReferenceOrDefault() returns the non-empty reference or a constant that is a valid tag", why))
	}
}

// ---------- R5 ----------
//
// A raw reference string handed to the remote API (Resolve, FetchReference,
// PushReference, Tag, NewRepository, …) may be spelled tag, digest, tag@digest
// or fully qualified.  Only the Reference returned by ParseReference is in
// wire form; the raw string must never reach a URL: not the Reference field of
// a registry.Reference, not a URL builder, not http.NewRequest — neither in the
// entry point nor in the unexported helpers it hands the string to.
// Decided by value flow (flow-insensitive taint from the parameter, followed
// into unexported helpers and closures; ParseReference is the only sanitiser).

type c20Sink struct {
	pos  token.Pos
	what string
}

type c20TaintKey struct {
	fn   *ssa.Function
	seed ssa.Value
}

type c20TaintRes struct {
	sinks   []c20Sink
	returns bool // a tainted string is returned
}

type c20Tainter struct {
	p        *Prog
	builders map[*ssa.Function]bool
	roles    map[*ssa.Function]bool // reference-role API methods (delegation targets)
	memo     map[c20TaintKey]*c20TaintRes
}

func c20IsParseReference(name string) bool {
	return name == "~/registry.ParseReference" || strings.HasSuffix(name, ").ParseReference")
}

func c20IsReferenceField(fa *ssa.FieldAddr) bool {
	t := fa.X.Type()
	if p, ok := t.Underlying().(*types.Pointer); ok {
		t = p.Elem()
	}
	return c19IsNamed(t, "/registry", "Reference") && stFieldName(fa.X.Type(), fa.Field) == "Reference"
}

func (t *c20Tainter) run(fn *ssa.Function, seed ssa.Value, depth int) *c20TaintRes {
	k := c20TaintKey{fn, seed}
	if r, ok := t.memo[k]; ok {
		return r
	}
	res := &c20TaintRes{}
	t.memo[k] = res
	if depth > 5 {
		res.sinks = append(res.sinks, c20Sink{fn.Pos(), "helper chain deeper than 5 calls below " + FnName(fn) + " (not followed)"})
		return res
	}
	tainted := map[ssa.Value]bool{}
	var work []ssa.Value
	add := func(v ssa.Value) {
		if v != nil && !tainted[v] {
			tainted[v] = true
			work = append(work, v)
		}
	}
	sink := func(pos token.Pos, what string) { res.sinks = append(res.sinks, c20Sink{pos, what}) }
	add(seed)
	// addrRoot: base cell of an address expression, and whether the path
	// selects the Reference field of a registry.Reference
	addrRoot := func(a ssa.Value) (root ssa.Value, refField bool) {
		for {
			switch u := a.(type) {
			case *ssa.FieldAddr:
				if c20IsReferenceField(u) {
					refField = true
				}
				a = u.X
			case *ssa.IndexAddr:
				a = u.X
			default:
				return a, refField
			}
		}
	}
	isAddr := func(v ssa.Value) bool {
		switch v.(type) {
		case *ssa.Alloc, *ssa.FieldAddr, *ssa.IndexAddr:
			return true
		case *ssa.FreeVar:
			_, ok := v.Type().(*types.Pointer)
			return ok // a variable captured by reference
		}
		return false
	}
	for len(work) > 0 {
		v := work[len(work)-1]
		work = work[:len(work)-1]
		refs := v.Referrers()
		if refs == nil {
			continue
		}
		addrLike := isAddr(v)
		for _, r := range *refs {
			switch u := r.(type) {
			case *ssa.Phi, *ssa.ChangeType, *ssa.Convert, *ssa.MakeInterface, *ssa.ChangeInterface:
				if !addrLike {
					add(u.(ssa.Value))
				}
			case *ssa.Slice:
				add(u)
			case *ssa.BinOp:
				if u.Op == token.ADD && !addrLike {
					add(u)
				}
			case *ssa.Field:
				add(u)
			case *ssa.Extract:
				if u.Index == 0 && isStringType(u.Type()) {
					add(u) // (string-like, error) result of a function applied to the raw text
				}
			case *ssa.FieldAddr:
				if addrLike && u.X == v {
					add(u) // address inside a tainted cell
				}
			case *ssa.IndexAddr:
				if u.X == v {
					add(u)
				}
			case *ssa.UnOp:
				if u.Op == token.MUL && addrLike && u.X == v {
					add(u) // load from a tainted cell
				}
			case *ssa.Store:
				if u.Val != v || addrLike {
					continue
				}
				root, refField := addrRoot(u.Addr)
				if refField {
					sink(u.Pos(), "stored into the Reference field of a registry.Reference in "+FnName(fn))
					continue
				}
				switch root.(type) {
				case *ssa.Alloc:
					add(u.Addr) // field-sensitive: the stored-to address (and the whole cell when stored whole)
					if u.Addr != root {
						// whole-struct loads of the root see the tainted field
						for _, rr := range *root.Referrers() {
							if ld, ok := rr.(*ssa.UnOp); ok && ld.Op == token.MUL && ld.X == root {
								add(ld)
							}
							if sl, ok := rr.(*ssa.Slice); ok {
								add(sl)
							}
							// other address computations of the same field
							if fa, ok := rr.(*ssa.FieldAddr); ok {
								if ua, ok := u.Addr.(*ssa.FieldAddr); ok && ua.X == root && fa.Field == ua.Field {
									add(fa)
								}
							}
						}
					}
				case *ssa.FreeVar:
					add(u.Addr)
				}
			case *ssa.MakeClosure:
				g := u.Fn.(*ssa.Function)
				for i, b := range u.Bindings {
					if b == v {
						sub := t.run(g, g.FreeVars[i], depth+1)
						res.sinks = append(res.sinks, sub.sinks...)
					}
				}
			case *ssa.Return:
				if !addrLike && isStringType(v.Type()) {
					res.returns = true
				}
			case ssa.CallInstruction:
				cc := u.Common()
				name := CalleeName(u)
				for i, a := range cc.Args {
					if a != v {
						continue
					}
					if cc.IsInvoke() {
						continue // delegation to an interface method
					}
					g := StaticCallee(u)
					switch {
					case c20IsParseReference(name):
						// the sanitiser: its result is in wire form
					case g != nil && t.builders[g]:
						if !addrLike {
							sink(u.Pos(), "passed to the URL builder "+FnName(g)+" in "+FnName(fn))
						}
					case g != nil && t.roles[g]:
						// another reference-taking API method: it parses for itself
					case name == "net/http.NewRequestWithContext" && i == 2, name == "net/http.NewRequest" && i == 1:
						sink(u.Pos(), "used as a request URL in "+FnName(fn))
					case g != nil && len(g.Blocks) > 0 && fnPkgPath(g) == fnPkgPath(fn) && (g.Parent() != nil || !token.IsExported(g.Name())) && i < len(g.Params):
						sub := t.run(g, g.Params[i], depth+1)
						res.sinks = append(res.sinks, sub.sinks...)
						if sub.returns && u.Value() != nil {
							add(u.Value())
						}
					case addrLike && u.Value() != nil && isStringType(u.Value().Type()) && strings.HasPrefix(name, "fmt.Sprint"):
						add(u.Value())
					case !addrLike && u.Value() != nil && c20StringResult(u.Value().Type()):
						// any other function: a string it computes from the raw text (a trimmed
						// copy, a digest parsed out of a suffix, its String()) is still not the
						// parsed Reference — validating a part does not examine the rest
						add(u.Value())
					}
				}
			}
		}
	}
	return res
}

// c20StringResult: the call yields a string-kinded value, alone or as the
// first result of a tuple.
func c20StringResult(t types.Type) bool {
	if tup, ok := t.(*types.Tuple); ok {
		return tup.Len() > 0 && isStringType(tup.At(0).Type())
	}
	return isStringType(t)
}

func c20R5(c *Ctx) {
	const R5 = "C20.R5.url-reference-is-parsed"
	c.Expect(R5, 12)
	pkg := "registry/remote"
	t := &c20Tainter{p: c.P, builders: map[*ssa.Function]bool{}, roles: map[*ssa.Function]bool{}, memo: map[c20TaintKey]*c20TaintRes{}}
	for _, f := range c.P.FuncsOfPkg(pkg) {
		if f.Parent() == nil && f.Signature.Recv() == nil && strings.HasSuffix(c.P.Fset.Position(f.Pos()).Filename, "/url.go") {
			t.builders[f] = true
		}
	}
	if len(t.builders) == 0 {
		c.LostAnchor(R5, "URL builders of registry/remote/url.go")
		return
	}
	// reference-role API: methods implementing the reference-taking interface methods
	type roleM struct{ pkg, iface, method string }
	roleSigs := map[string]*types.Signature{}
	for _, rm := range []roleM{{"content", "Resolver", "Resolve"}, {"content", "Tagger", "Tag"},
		{"registry", "ReferencePusher", "PushReference"}, {"registry", "ReferenceFetcher", "FetchReference"}} {
		n := c.P.Named(rm.pkg, rm.iface)
		if n == nil {
			c.LostAnchor(R5, rm.pkg+"."+rm.iface)
			return
		}
		it, ok := n.Underlying().(*types.Interface)
		if !ok {
			c.LostAnchor(R5, rm.pkg+"."+rm.iface+" (interface)")
			return
		}
		for i := 0; i < it.NumMethods(); i++ {
			if it.Method(i).Name() == rm.method {
				roleSigs[rm.method] = it.Method(i).Type().(*types.Signature)
			}
		}
		if roleSigs[rm.method] == nil {
			c.LostAnchor(R5, rm.pkg+"."+rm.iface+"."+rm.method)
			return
		}
	}
	sameSig := func(a, b *types.Signature) bool {
		return types.Identical(types.NewSignatureType(nil, nil, nil, a.Params(), a.Results(), a.Variadic()),
			types.NewSignatureType(nil, nil, nil, b.Params(), b.Results(), b.Variadic()))
	}
	type entry struct {
		fn     *ssa.Function
		param  *ssa.Parameter
		parses []ssa.CallInstruction
	}
	var entries []entry
	for _, f := range c.P.FuncsOfPkg(pkg) {
		if f.Parent() != nil || !token.IsExported(f.Name()) {
			continue
		}
		if f.Name() == "ParseReference" && f.Signature.Recv() != nil && len(CallsTo(f, "~/registry.ParseReference")) > 0 {
			continue // the parser itself (C20.R3)
		}
		var ps []*ssa.Parameter
		if sig, ok := roleSigs[f.Name()]; ok && f.Signature.Recv() != nil && sameSig(sig, f.Signature) {
			t.roles[f] = true
			for _, p := range f.Params[1:] {
				if isStringType(p.Type()) {
					ps = append(ps, p)
				}
			}
		}
		parseCalls := map[*ssa.Parameter][]ssa.CallInstruction{}
		for _, call := range Calls(f, c20IsParseReference) {
			for _, a := range call.Common().Args {
				if p, ok := a.(*ssa.Parameter); ok && isStringType(p.Type()) {
					parseCalls[p] = append(parseCalls[p], call)
					found := false
					for _, q := range ps {
						if q == p {
							found = true
						}
					}
					if !found {
						ps = append(ps, p)
					}
				}
			}
		}
		for _, p := range ps {
			entries = append(entries, entry{f, p, parseCalls[p]})
		}
	}
	sort.Slice(entries, func(i, j int) bool { return FnName(entries[i].fn) < FnName(entries[j].fn) })
	for _, e := range entries {
		key := FnName(e.fn) + "|raw-reference"
		res := t.run(e.fn, e.param, 0)
		ok, detail := true, "the raw reference string reaches no URL: only the Reference returned by ParseReference (or a delegate that parses) is used"
		if len(res.sinks) > 0 {
			ok = false
			detail = fmt.Sprintf("the caller's raw reference string (which may be tag@digest or fully qualified) is %s at %s instead of the parsed Reference: the request URL gets extra path segments or a query",
				res.sinks[0].what, c.P.Pos(res.sinks[0].pos))
		}
		pos := e.fn.Pos()
		if !ok {
			pos = res.sinks[0].pos
		}
		for _, pc := range e.parses {
			if r := ErrFlow(pc, ErrFlowOpts{}); !r.OK && ok {
				ok, detail, pos = false, "the error of ParseReference is not surfaced: "+r.Detail, pc.Pos()
			}
		}
		c.Check(R5, key, pos, ok, detail)
	}
}

var c20Mutants = []Mutant{
	{Name: "tag-allows-percent", File: "registry/reference.go", Old: "regexp.MustCompile(`^[\\w][\\w.-]{0,127}$`)", New: "regexp.MustCompile(`^[\\w][\\w.%-]{0,127}$`)", Expect: "C20.R1"},
	{Name: "tag-129-chars", File: "registry/reference.go", Old: "regexp.MustCompile(`^[\\w][\\w.-]{0,127}$`)", New: "regexp.MustCompile(`^[\\w][\\w.-]{0,128}$`)", Expect: "C20.R1"},
	{Name: "repository-separator-runs", File: "registry/reference.go",
		Old: "regexp.MustCompile(`^[a-z0-9]+(?:(?:[._]|__|[-]*)[a-z0-9]+)*(?:/[a-z0-9]+(?:(?:[._]|__|[-]*)[a-z0-9]+)*)*$`)",
		New: "regexp.MustCompile(`^[a-z0-9]+(?:(?:[._]+|[-]*)[a-z0-9]+)*(?:/[a-z0-9]+(?:(?:[._]+|[-]*)[a-z0-9]+)*)*$`)", Expect: "C20.R1"},
	{Name: "repository-triple-underscore", File: "registry/reference.go",
		Old: "regexp.MustCompile(`^[a-z0-9]+(?:(?:[._]|__|[-]*)[a-z0-9]+)*(?:/[a-z0-9]+(?:(?:[._]|__|[-]*)[a-z0-9]+)*)*$`)",
		New: "regexp.MustCompile(`^[a-z0-9]+(?:(?:[._]|__|[-]*)[a-z0-9]+)*(?:/[a-z0-9]+(?:(?:[._]|___?|[-]*)[a-z0-9]+)*)*$`)", Expect: "C20.R1"},
	{Name: "tag-validator-weakened", File: "registry/reference.go", Old: "\tif !tagRegexp.MatchString(r.Reference) {", New: "\tif !tagRegexp.MatchString(r.Reference) && len(r.Reference) > 128 {", Expect: "C20.R1"},
	{Name: "repository-validator-wrong-field", File: "registry/reference.go", Old: "\tif !repositoryRegexp.MatchString(r.Repository) {", New: "\tif !repositoryRegexp.MatchString(r.Registry) {", Expect: "C20.R1"},
	{Name: "tag-allows-slash", File: "registry/reference.go", Old: "regexp.MustCompile(`^[\\w][\\w.-]{0,127}$`)", New: "regexp.MustCompile(`^[\\w][\\w./-]{0,127}$`)", Expect: "C20.R2"},
	{Name: "repository-unanchored", File: "registry/reference.go", Old: "regexp.MustCompile(`^[a-z0-9]+(?:(?:[._]|__", New: "regexp.MustCompile(`[a-z0-9]+(?:(?:[._]|__", Expect: "C20.R2"},
	{Name: "repository-dot-segments", File: "registry/reference.go",
		Old: "regexp.MustCompile(`^[a-z0-9]+(?:(?:[._]|__|[-]*)[a-z0-9]+)*(?:/[a-z0-9]+(?:(?:[._]|__|[-]*)[a-z0-9]+)*)*$`)",
		New: "regexp.MustCompile(`^[a-z0-9.]+(?:(?:[._]|__|[-]*)[a-z0-9]+)*(?:/[a-z0-9.]+(?:(?:[._]|__|[-]*)[a-z0-9]+)*)*$`)", Expect: "C20.R2.slot-safety|repository|dot-segment"},
	{Name: "digest-not-parsed", File: "registry/reference.go", Old: "\treturn digest.Parse(r.Reference)", New: "\treturn digest.Digest(r.Reference), nil", Expect: "C20.R2"},
	{Name: "parse-skips-repository-validation", File: "registry/reference.go", Old: "\tif err := ref.ValidateRepository(); err != nil {\n\t\treturn Reference{}, err\n\t}\n", New: "", Expect: "C20.R3"},
	{Name: "digest-part-validated-as-tag", File: "registry/reference.go", Old: "\t\tisTag = false\n\t\trepository = path[:index]", New: "\t\tisTag = true\n\t\trepository = path[:index]", Expect: "C20.R3"},
	{Name: "form-b-tag-kept", File: "registry/reference.go", Old: "\t\t\trepository = repository[:index]\n", New: "\t\t\t_ = index\n", Expect: "C20.R3"},
	{Name: "validated-then-changed", File: "registry/reference.go", Old: "\tif err := validator(); err != nil {\n\t\treturn Reference{}, err\n\t}\n\n\treturn ref, nil", New: "\tif err := validator(); err != nil {\n\t\treturn Reference{}, err\n\t}\n\tref.Repository = path\n\treturn ref, nil", Expect: "C20.R3"},
	{Name: "fq-reference-other-repository", File: "registry/remote/repository.go", Old: "\t} else if ref.Registry != r.Reference.Registry || ref.Repository != r.Reference.Repository {", New: "\t} else if ref.Registry != r.Reference.Registry {", Expect: "C20.R3"},
	{Name: "empty-reference-accepted", File: "registry/remote/repository.go", Old: "\tif len(ref.Reference) == 0 {\n\t\treturn registry.Reference{}, errdef.ErrInvalidReference\n\t}\n\n\treturn ref, nil", New: "\treturn ref, nil", Expect: "C20.R3"},
	{Name: "fallback-digest-validated-as-tag", File: "registry/remote/repository.go", Old: "\t\t\terr = ref.ValidateReferenceAsDigest()", New: "\t\t\terr = ref.ValidateReferenceAsTag()", Expect: "C20.R3"},
	{Name: "fallback-digest-after-last-at", File: "registry/remote/repository.go",
		Old: "\t\tif index := strings.IndexByte(reference, '@'); index != -1 {", New: "\t\tif index := strings.LastIndexByte(reference, '@'); index != -1 {", Expect: "C20.R3"},
	{Name: "parse-digest-after-last-at", File: "registry/reference.go",
		Old: "\tif index := strings.Index(path, \"@\"); index != -1 {", New: "\tif index := strings.LastIndex(path, \"@\"); index != -1 {", Expect: "C20.R3"},
	{Name: "fallback-validation-error-dropped", File: "registry/remote/repository.go", Old: "\t\tif err != nil {\n\t\t\treturn registry.Reference{}, err\n\t\t}\n\t} else if ref.Registry", New: "\t} else if ref.Registry", Expect: "C20.R3"},
	{Name: "registry-host-not-compared", File: "registry/reference.go", Old: "err != nil || uri.Host == \"\" || uri.Host != r.Registry {", New: "err != nil || uri.Host == \"\" {", Expect: "C20.R3"},
	{Name: "string-digest-with-colon", File: "registry/reference.go", Old: "\t\treturn ref + \"@\" + d.String()", New: "\t\treturn ref + \":\" + d.String()", Expect: "C20.R3"},
	{Name: "validate-reference-skips-digest", File: "registry/reference.go", Old: "\tif index := strings.IndexByte(r.Reference, ':'); index != -1 {\n\t\treturn r.ValidateReferenceAsDigest()\n\t}", New: "\tif index := strings.IndexByte(r.Reference, ':'); index != -1 {\n\t\treturn nil\n\t}", Expect: "C20.R3"},
	{Name: "blob-url-uses-manifests", File: "registry/remote/url.go", Old: "\t\t\"blobs\",\n\t\tref.Reference,", New: "\t\t\"manifests\",\n\t\tref.Reference,", Expect: "C20.R4"},
	{Name: "referrers-filter-not-encoded", File: "registry/remote/url.go", Old: "\t\tquery = \"?\" + v.Encode()", New: "\t\tquery = \"?artifactType=\" + artifactType", Expect: "C20.R4"},
	{Name: "repository-base-trailing-slash", File: "registry/remote/url.go", Old: "\"%s://%s/v2/%s\"", New: "\"%s://%s/v2/%s/\"", Expect: "C20.R4"},
	{Name: "scheme-swapped", File: "registry/remote/url.go", Old: "\tif plainHTTP {\n\t\treturn \"http\"\n\t}\n\treturn \"https\"", New: "\tif plainHTTP {\n\t\treturn \"https\"\n\t}\n\treturn \"http\"", Expect: "C20.R4"},
	{Name: "host-mapping-bypassed", File: "registry/remote/url.go", Old: "buildScheme(plainHTTP), ref.Host(), ref.Repository)", New: "buildScheme(plainHTTP), ref.Registry, ref.Repository)", Expect: "C20.R4"},
	{Name: "mount-arguments-swapped", File: "registry/remote/url.go", Old: "\t\td,\n\t\tfromRepo,\n", New: "\t\tfromRepo,\n\t\td,\n", Expect: "C20.R4"},
	{Name: "extra-query-parameter", File: "registry/remote/url.go", Old: "\t\tv.Set(\"artifactType\", artifactType)\n", New: "\t\tv.Set(\"artifactType\", artifactType)\n\t\tv.Set(\"n\", ref.Reference)\n", Expect: "C20.R4"},
	{Name: "tags-always-https", File: "registry/remote/repository.go", Old: "\turl := buildRepositoryTagListURL(r.PlainHTTP, r.Reference)", New: "\turl := buildRepositoryTagListURL(false, r.Reference)", Expect: "C20.R4"},
	{Name: "push-reference-forwards-raw-string", File: "registry/remote/repository.go",
		Old: "\treturn s.pushWithIndexing(ctx, expected, content, ref.Reference)", New: "\t_ = ref\n\treturn s.pushWithIndexing(ctx, expected, content, reference)", Expect: "C20.R5"},
	{Name: "tag-forwards-raw-string", File: "registry/remote/repository.go",
		Old: "\treturn s.push(ctx, desc, rc, ref.Reference)", New: "\treturn s.push(ctx, desc, rc, reference)", Expect: "C20.R5"},
	{Name: "resolve-overwrites-parsed-reference", File: "registry/remote/repository.go",
		Old: "\turl := buildRepositoryManifestURL(s.repo.PlainHTTP, ref)\n\treq, err := http.NewRequestWithContext(ctx, http.MethodHead, url, nil)",
		New: "\tref.Reference = strings.TrimPrefix(reference, \"@\")\n\turl := buildRepositoryManifestURL(s.repo.PlainHTTP, ref)\n\treq, err := http.NewRequestWithContext(ctx, http.MethodHead, url, nil)", Expect: "C20.R5"},
	{Name: "push-reference-parse-error-ignored", File: "registry/remote/repository.go",
		Old: "\tref, err := s.repo.ParseReference(reference)\n\tif err != nil {\n\t\treturn err\n\t}\n\treturn s.pushWithIndexing(", New: "\tref, _ := s.repo.ParseReference(reference)\n\treturn s.pushWithIndexing(", Expect: "C20.R5"},
	{Name: "blob-fetch-builds-url-by-hand", File: "registry/remote/repository.go",
		Old: "\trefDigest, err := ref.Digest()\n\tif err != nil {\n\t\treturn ocispec.Descriptor{}, nil, err\n\t}\n\n\tctx = auth.AppendRepositoryScope(ctx, ref, auth.ActionPull)\n\turl := buildRepositoryBlobURL(s.repo.PlainHTTP, ref)\n",
		New: "\trefDigest, err := ref.Digest()\n\tif err != nil {\n\t\treturn ocispec.Descriptor{}, nil, err\n\t}\n\n\tctx = auth.AppendRepositoryScope(ctx, ref, auth.ActionPull)\n\turl := buildRepositoryBaseURL(s.repo.PlainHTTP, ref) + \"/blobs/\" + reference\n", Expect: "C20.R5"},
	{Name: "blob-resolve-parses-only-the-digest-suffix", File: "registry/remote/repository.go",
		Old: "\tref, err := s.repo.ParseReference(reference)\n\tif err != nil {\n\t\treturn ocispec.Descriptor{}, err\n\t}\n\trefDigest, err := ref.Digest()\n\tif err != nil {\n\t\treturn ocispec.Descriptor{}, err\n\t}\n",
		New: "\trefDigest, err := digest.Parse(reference[strings.LastIndexByte(reference, '@')+1:])\n\tif err != nil {\n\t\treturn ocispec.Descriptor{}, err\n\t}\n\tref := s.repo.Reference\n\tref.Reference = refDigest.String()\n", Expect: "C20.R5"},
	{Name: "fast-path-strips-base-and-separator", File: "registry/remote/repository.go",
		Old: "\tref, err := registry.ParseReference(reference)\n\tif err != nil {\n\t\tref = registry.Reference{",
		New: "\tif rest, ok := strings.CutPrefix(reference, r.Reference.Registry+\"/\"+r.Reference.Repository); ok && len(rest) > 1 {\n\t\tif rest[0] == ':' || rest[0] == '@' {\n\t\t\treference = rest[1:]\n\t\t}\n\t}\n\tref, err := registry.ParseReference(reference)\n\tif err != nil {\n\t\tref = registry.Reference{", Expect: "C20.R3"},
	{Name: "string-trims-the-registry", File: "registry/reference.go",
		Old: "\tref := r.Registry + \"/\" + r.Repository\n", New: "\tref := strings.TrimSuffix(r.Registry, \"/\") + \"/\" + r.Repository\n", Expect: "C20.R3"},
	{Name: "registry-split-at-last-slash", File: "registry/reference.go",
		Old: "\tparts := strings.SplitN(artifact, \"/\", 2)\n\tif len(parts) == 1 {", New: "\tparts := []string{artifact}\n\tif i := strings.LastIndex(artifact, \"/\"); i >= 0 {\n\t\tparts = []string{artifact[:i], artifact[i+1:]}\n\t}\n\tif len(parts) == 1 {", Expect: "C20.R3"},
	{Name: "repository-name-not-validated", File: "registry/remote/repository.go",
		Old: "\tif err := ref.ValidateRepository(); err != nil {\n\t\treturn nil, err\n\t}\n\trepo := (*Repository)(opts).clone()", New: "\trepo := (*Repository)(opts).clone()", Expect: "C20.R6"},
	{Name: "registry-name-validates-a-constant", File: "registry/remote/registry.go",
		Old: "\tref := registry.Reference{\n\t\tRegistry: name,\n\t}\n\tif err := ref.ValidateRegistry(); err != nil {\n\t\treturn nil, err\n\t}", New: "\tref := registry.Reference{\n\t\tRegistry: name,\n\t}\n\tif err := (registry.Reference{Registry: \"localhost\"}).ValidateRegistry(); err != nil {\n\t\treturn nil, err\n\t}", Expect: "C20.R6"},
	{Name: "docker-alias-host-with-path", File: "registry/reference.go",
		Old: "\tif r.Registry == \"docker.io\" {\n\t\treturn \"registry-1.docker.io\"\n\t}", New: "\tif r.Registry == \"docker.io\" {\n\t\treturn \"registry-1.docker.io\"\n\t}\n\tif r.Registry == \"index.docker.io\" {\n\t\treturn \"registry-1.docker.io/v2\"\n\t}", Expect: "C20.R6"},
	{Name: "registry-name-validated-only-with-port", File: "registry/remote/registry.go",
		Old: "\tif err := ref.ValidateRegistry(); err != nil {\n\t\treturn nil, err\n\t}\n\treturn &Registry{", New: "\tif len(name) > 253 {\n\t\tif err := ref.ValidateRegistry(); err != nil {\n\t\t\treturn nil, err\n\t\t}\n\t}\n\treturn &Registry{", Expect: "C20.R6"},
	{Name: "docker-host-with-path", File: "registry/reference.go",
		Old: "\t\treturn \"registry-1.docker.io\"", New: "\t\treturn \"registry-1.docker.io/\"", Expect: "C20.R6"},
	{Name: "default-reference-not-a-tag", File: "registry/reference.go",
		Old: "\t\treturn \"latest\"", New: "\t\treturn \":latest\"", Expect: "C20.R6"},
	{Name: "reference-placed-in-query", File: "registry/remote/url.go", Old: "\t\t\"%s/referrers/%s%s\",", New: "\t\t\"%s/referrers/?digest=%s%s\",", Expect: "C20.R4"},
}
