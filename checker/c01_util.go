package main

// Helpers shared by C01, C03 and C04 (author A).  All names carry the c01
// prefix.  Everything here is decided on resolved objects (types.Var of struct
// fields, types.Const values, SSA value identity) — never on source text.

import (
	"go/constant"
	"go/token"
	"go/types"
	"reflect"
	"sort"
	"strings"

	"golang.org/x/tools/go/ssa"
)

const c01OCISpec = "github.com/opencontainers/image-spec/specs-go/v1"

// ---------- resolved symbols ----------

// c01FieldOf resolves field `name` of named struct type rel.tname.
func c01FieldOf(p *Prog, rel, tname, name string) *types.Var {
	n := p.Named(rel, tname)
	if n == nil {
		return nil
	}
	st, ok := n.Underlying().(*types.Struct)
	if !ok {
		return nil
	}
	for i := 0; i < st.NumFields(); i++ {
		if st.Field(i).Name() == name {
			return st.Field(i)
		}
	}
	return nil
}

// c01ConstStr resolves a package-level string constant.
func c01ConstStr(p *Prog, rel, name string) (string, bool) {
	k, ok := p.Obj(rel, name).(*types.Const)
	if !ok || k.Val().Kind() != constant.String {
		return "", false
	}
	return constant.StringVal(k.Val()), true
}

// c01Kinds: the five manifest kinds, keyed by a stable kind name, with the
// value of the resolved media-type constant.
type c01Kinds struct {
	ByKind map[string]string // kind -> media type
	ByMT   map[string]string // media type -> kind
}

var c01KindConsts = [][3]string{
	{"docker-manifest", "internal/docker", "MediaTypeManifest"},
	{"docker-manifest-list", "internal/docker", "MediaTypeManifestList"},
	{"image-manifest", c01OCISpec, "MediaTypeImageManifest"},
	{"image-index", c01OCISpec, "MediaTypeImageIndex"},
	{"artifact-manifest", "internal/spec", "MediaTypeArtifactManifest"},
}

func c01ResolveKinds(c *Ctx, rule string) *c01Kinds {
	k := &c01Kinds{ByKind: map[string]string{}, ByMT: map[string]string{}}
	for _, e := range c01KindConsts {
		v, ok := c01ConstStr(c.P, e[1], e[2])
		if !ok {
			c.LostAnchor(rule, "constant "+e[1]+"."+e[2])
			return nil
		}
		k.ByKind[e[0]] = v
		k.ByMT[v] = e[0]
	}
	return k
}

func (k *c01Kinds) kindsOf(mts []string) []string {
	var out []string
	for _, m := range mts {
		if n, ok := k.ByMT[m]; ok {
			out = append(out, n)
		} else {
			out = append(out, "?"+m)
		}
	}
	sort.Strings(out)
	return out
}

// ---------- struct field paths ----------

// c01JSONName: the JSON member name a struct field decodes from (lower-cased;
// encoding/json matches names case-insensitively), "" when excluded.
func c01JSONName(st *types.Struct, i int) string {
	tag := reflect.StructTag(st.Tag(i)).Get("json")
	name := strings.Split(tag, ",")[0]
	if name == "-" {
		return ""
	}
	if name == "" {
		name = st.Field(i).Name()
	}
	return strings.ToLower(name)
}

func c01StructOf(t types.Type) *types.Struct {
	if p, ok := t.Underlying().(*types.Pointer); ok {
		t = p.Elem()
	}
	st, _ := t.Underlying().(*types.Struct)
	return st
}

// c01Path is a resolved access path base.f1.f2… (pointer fields dereferenced).
type c01Path struct {
	Base ssa.Value    // the struct's address (Alloc, Parameter, FreeVar …) or struct value
	Vars []*types.Var // resolved fields, outermost first
	JSON []string     // their JSON member names
}

func (p c01Path) last() *types.Var {
	if len(p.Vars) == 0 {
		return nil
	}
	return p.Vars[len(p.Vars)-1]
}

func (p c01Path) jsonPath() string { return strings.Join(p.JSON, ".") }

// c01AddrPath resolves an address built from FieldAddr steps.
func c01AddrPath(addr ssa.Value) (c01Path, bool) {
	fa, ok := addr.(*ssa.FieldAddr)
	if !ok {
		return c01Path{}, false
	}
	st := c01StructOf(fa.X.Type())
	if st == nil || fa.Field >= st.NumFields() {
		return c01Path{}, false
	}
	var p c01Path
	if inner, ok := c01AddrPath(fa.X); ok {
		p = inner
	} else if ld, isLoad := fa.X.(*ssa.UnOp); isLoad && ld.Op == token.MUL {
		// x.ptrField.f : address computed from a loaded pointer field
		if inner, ok := c01ValuePath(ld); ok {
			p = inner
		} else {
			p = c01Path{Base: fa.X}
		}
	} else {
		p = c01Path{Base: fa.X}
	}
	p.Vars = append(append([]*types.Var{}, p.Vars...), st.Field(fa.Field))
	p.JSON = append(append([]string{}, p.JSON...), c01JSONName(st, fa.Field))
	return p, true
}

// c01ValuePath resolves a value that is the content of a field path: a load
// of a FieldAddr chain, a load through a loaded pointer field (*x.Subject), or
// a Field chain on a struct value.
func c01ValuePath(v ssa.Value) (c01Path, bool) {
	switch u := v.(type) {
	case *ssa.UnOp:
		if u.Op != token.MUL {
			return c01Path{}, false
		}
		if p, ok := c01AddrPath(u.X); ok {
			return p, true
		}
		if inner, ok := u.X.(*ssa.UnOp); ok && inner.Op == token.MUL {
			// deref of a pointer-typed field value
			if p, ok := c01ValuePath(inner); ok {
				return p, true
			}
		}
	case *ssa.Field:
		st := c01StructOf(u.X.Type())
		if st == nil {
			return c01Path{}, false
		}
		p, ok := c01ValuePath(u.X)
		if !ok {
			p = c01Path{Base: u.X}
		}
		p.Vars = append(append([]*types.Var{}, p.Vars...), st.Field(u.Field))
		p.JSON = append(append([]string{}, p.JSON...), c01JSONName(st, u.Field))
		return p, true
	}
	return c01Path{}, false
}

// c01IsFieldValue: v is the content of (exactly) field fv of some struct.
func c01IsFieldValue(v ssa.Value, fv *types.Var) bool {
	p, ok := c01ValuePath(v)
	return ok && fv != nil && p.last() == fv
}

func c01IsOCIDescriptor(t types.Type) bool {
	n, ok := t.(*types.Named)
	return ok && n.Obj().Pkg() != nil && n.Obj().Pkg().Path() == c01OCISpec && n.Obj().Name() == "Descriptor"
}

// c01DescriptorCarrier: Descriptor, *Descriptor or []Descriptor.
func c01DescriptorCarrier(t types.Type) bool {
	switch u := t.(type) {
	case *types.Pointer:
		return c01IsOCIDescriptor(u.Elem())
	case *types.Slice:
		return c01IsOCIDescriptor(u.Elem())
	}
	return c01IsOCIDescriptor(t)
}

// c01FieldReachingStores: the stores to field #field of the struct at address
// base that may reach instruction at.  unknown is set when the whole struct
// may have been (re)written after the last field store, or nothing was stored.
func c01FieldReachingStores(base ssa.Value, field int, at ssa.Instruction) (stores []*ssa.Store, unknown bool) {
	fn := at.Parent()
	seen := map[*ssa.Store]bool{}
	visited := map[*ssa.BasicBlock]bool{}
	var walk func(b *ssa.BasicBlock, from int)
	walk = func(b *ssa.BasicBlock, from int) {
		for i := from; i >= 0; i-- {
			s, ok := b.Instrs[i].(*ssa.Store)
			if !ok {
				continue
			}
			if s.Addr == base {
				unknown = true
				return
			}
			if fa, ok := s.Addr.(*ssa.FieldAddr); ok && fa.X == base && fa.Field == field {
				if !seen[s] {
					seen[s] = true
					stores = append(stores, s)
				}
				return
			}
		}
		if b == fn.Blocks[0] {
			unknown = true
			return
		}
		for _, p := range b.Preds {
			if !visited[p] {
				visited[p] = true
				walk(p, len(p.Instrs)-1)
			}
		}
	}
	walk(at.Block(), instrIndex(at)-1)
	return
}

// ---------- string comparisons ----------

type c01StrTest struct {
	If     *ssa.If
	Subj   ssa.Value
	Const  string
	Eq, Ne Edge
}

// c01StrTests lists `subject == "const"` / `!=` tests feeding an If.
func c01StrTests(fn *ssa.Function, isSubj func(v ssa.Value) bool) []c01StrTest {
	var out []c01StrTest
	for _, i := range Ifs(fn) {
		cond, t, f := ifEdges(i)
		bo, ok := cond.(*ssa.BinOp)
		if !ok || (bo.Op != token.EQL && bo.Op != token.NEQ) {
			continue
		}
		var subj ssa.Value
		var k string
		if s, ok := constString(bo.Y); ok && isSubj(bo.X) {
			subj, k = bo.X, s
		} else if s, ok := constString(bo.X); ok && isSubj(bo.Y) {
			subj, k = bo.Y, s
		} else {
			continue
		}
		if bo.Op == token.NEQ {
			t, f = f, t
		}
		out = append(out, c01StrTest{If: i, Subj: subj, Const: k, Eq: t, Ne: f})
	}
	return out
}

func c01TestConsts(ts []c01StrTest) []string {
	set := map[string]bool{}
	for _, t := range ts {
		set[t.Const] = true
	}
	var out []string
	for s := range set {
		out = append(out, s)
	}
	sort.Strings(out)
	return out
}

// c01CaseCut: the edges that cannot be taken when the tested subject equals m
// (the equal-edges of every other constant, the not-equal edges of m).
func c01CaseCut(ts []c01StrTest, m string) *cut {
	k := newCut()
	for _, t := range ts {
		if t.Const == m {
			k.Edges(t.Ne)
		} else {
			k.Edges(t.Eq)
		}
	}
	return k
}

// c01CaseCutP extends c01CaseCut with module predicates on descriptors used as
// If conditions (e.g. descriptor.IsManifest(p)): the predicate's own media-type
// dispatch is evaluated for m and the edge it excludes is added.  Predicates
// whose answer for m cannot be determined are reported in undecided.
func c01CaseCutP(fn *ssa.Function, ts []c01StrTest, m string, isSubj func(v ssa.Value) bool) (k *cut, undecided []string) {
	k = c01CaseCut(ts, m)
	c01TableCut(fn, m, isSubj, k)
	for _, i := range Ifs(fn) {
		cond, t, f := ifEdges(i)
		call, ok := cond.(*ssa.Call)
		if !ok {
			continue
		}
		g := StaticCallee(call)
		if g == nil || !inModule(g) || len(g.Blocks) == 0 || g.Signature.Results().Len() != 1 {
			continue
		}
		gt, gSubj, relevant := c01PredicateInfo(call, isSubj)
		if !relevant || (len(gt) == 0 && len(c01DispatchConsts(g, gSubj)) == 0) {
			continue // not a media-type predicate
		}
		gk := c01CaseCut(gt, m)
		c01TableCut(g, m, gSubj, gk)
		canTrue, canFalse, other := false, false, false
		for _, r := range Returns(g) {
			if !c01Feasible(r, gk) {
				continue
			}
			val, known := c01BoolUnder(r.Results[0], m, gSubj)
			switch {
			case !known:
				other = true
			case val:
				canTrue = true
			default:
				canFalse = true
			}
		}
		switch {
		case other || (canTrue && canFalse) || (!canTrue && !canFalse):
			undecided = append(undecided, FnName(g))
		case canTrue:
			k.Edges(f)
		default:
			k.Edges(t)
		}
	}
	return
}

// c01PredicateTests: call is a call of a module function g that receives a
// descriptor or its media type; returns g's own comparisons of that media type
// with constants (empty when g is not such a predicate).
func c01PredicateTests(call *ssa.Call, isSubj func(v ssa.Value) bool) []c01StrTest {
	ts, gSubj, relevant := c01PredicateInfo(call, isSubj)
	if relevant && len(ts) == 0 {
		// a table-driven predicate: report pseudo tests so that callers see it as a media-type predicate
		for _, k := range c01DispatchConsts(StaticCallee(call), gSubj) {
			ts = append(ts, c01StrTest{Const: k})
		}
	}
	return ts
}

// c01PredicateInfo: g's comparisons of the media type it receives, the subject
// predicate inside g, and whether g receives a descriptor / media type at all.
func c01PredicateInfo(call *ssa.Call, isSubj func(v ssa.Value) bool) ([]c01StrTest, func(v ssa.Value) bool, bool) {
	g := StaticCallee(call)
	if g == nil || !inModule(g) || len(g.Blocks) == 0 {
		return nil, isSubj, false
	}
	subj := isSubj
	relevant := false
	for i, a := range call.Call.Args {
		if i >= len(g.Params) {
			break
		}
		if c01IsOCIDescriptor(a.Type()) {
			relevant = true
		}
		if b, isStr := a.Type().Underlying().(*types.Basic); isStr && b.Kind() == types.String {
			isMT := false
			for _, r := range Roots(a) {
				if isSubj(r) {
					isMT = true
				}
			}
			if isMT {
				relevant = true
				prm := g.Params[i]
				al := Aliases(prm)
				prev := subj
				subj = func(v ssa.Value) bool { return prev(v) || al[v] }
			}
		}
	}
	if !relevant {
		return nil, subj, false
	}
	return c01StrTests(g, subj), subj, true
}

// c01EmptyStrEdges: edges on which a string x with match(x) is known to be
// empty / non-empty (x == "", x != "", len(x) == 0 …).
func c01EmptyStrEdges(fn *ssa.Function, match func(x ssa.Value) bool) (empty, nonEmpty []Edge) {
	for _, i := range Ifs(fn) {
		cond, t, f := ifEdges(i)
		bo, ok := cond.(*ssa.BinOp)
		if !ok {
			continue
		}
		if bo.Op == token.EQL || bo.Op == token.NEQ {
			var x ssa.Value
			if s, ok := constString(bo.Y); ok && s == "" {
				x = bo.X
			} else if s, ok := constString(bo.X); ok && s == "" {
				x = bo.Y
			}
			if x != nil && match(x) {
				if bo.Op == token.NEQ {
					t, f = f, t
				}
				empty, nonEmpty = append(empty, t), append(nonEmpty, f)
				continue
			}
		}
		if ln, ok := bo.X.(*ssa.Call); ok && CalleeName(ln) == "builtin:len" && match(ln.Call.Args[0]) {
			if k, ok := constInt(bo.Y); ok {
				switch {
				case bo.Op == token.EQL && k == 0, bo.Op == token.LEQ && k == 0, bo.Op == token.LSS && k == 1:
					empty, nonEmpty = append(empty, t), append(nonEmpty, f)
				case bo.Op == token.NEQ && k == 0, bo.Op == token.GTR && k == 0, bo.Op == token.GEQ && k == 1:
					empty, nonEmpty = append(empty, f), append(nonEmpty, t)
				}
			}
		}
	}
	return
}

// ---------- CFG ----------

// c01MustPassEdge: every path from entry that takes edge e hits the cut.
func c01MustPassEdge(e Edge, c *cut) bool {
	if c.edges[e] {
		return true
	}
	return MustPass(e.From.Instrs[len(e.From.Instrs)-1], c)
}

// c01Feasible: instruction in is reachable from entry without crossing k.
func c01Feasible(in ssa.Instruction, k *cut) bool {
	return reach(in.Parent().Blocks[0], 0, in, k)
}

func c01CutUnion(cs ...*cut) *cut {
	out := newCut()
	for _, c := range cs {
		if c == nil {
			continue
		}
		for i := range c.instrs {
			out.instrs[i] = true
		}
		for e := range c.edges {
			out.edges[e] = true
		}
	}
	return out
}

// c01NilOnlyIfArgNil: module function g returns a nil error only on paths where
// its error parameter #pi was found nil (an error wrapper such as newCopyError).
func c01NilOnlyIfArgNil(g *ssa.Function, pi int) bool {
	idx := ErrResultIndex(g.Signature)
	if idx < 0 || pi >= len(g.Params) || len(g.Blocks) == 0 {
		return false
	}
	nilE, _, _ := NilTests(g, Aliases(g.Params[pi]))
	for _, a := range RetAtoms(g, idx) {
		if ErrNilStatus(a.Val, 0) == NonNil {
			continue
		}
		if len(nilE) == 0 || !AtomMustPass(a, newCut().Edges(nilE...)) {
			return false
		}
	}
	return true
}

// c01CertainErr: error value v is certainly non-nil when control is at r.
func c01CertainErr(r *ssa.Return, v ssa.Value, depth int) bool {
	if depth > 3 {
		return false
	}
	if _, isZero := v.(zeroMarker); isZero {
		return false
	}
	if k, ok := v.(*ssa.Const); ok && k.Value == nil {
		return false
	}
	if ErrNilStatus(v, 0) == NonNil {
		return true
	}
	if call, ok := v.(*ssa.Call); ok && isCtxErr(call) {
		return true // ctx.Err() / context.Cause(ctx) returned on the ctx.Done() branch
	}
	al := Aliases(v)
	if _, isZ := v.(zeroMarker); !isZ {
		// a reload of a named-result cell denotes the value last stored: its other loads may carry the test
		for _, rv := range Roots(v) {
			if _, isZ2 := rv.(zeroMarker); isZ2 {
				continue
			}
			for a := range Aliases(rv) {
				al[a] = true
			}
		}
	}
	_, nonNil, _ := NilTests(r.Parent(), al)
	if len(nonNil) > 0 && MustPass(r, newCut().Edges(nonNil...)) {
		return true
	}
	if call, ok := v.(*ssa.Call); ok {
		if g := StaticCallee(call); g != nil && inModule(g) {
			for i, a := range call.Call.Args {
				if isErrorType(a.Type()) && c01NilOnlyIfArgNil(g, i) && c01CertainErr(r, a, depth+1) {
					return true
				}
			}
		}
	}
	return false
}

// c01IsErrorReturn: the Return certainly carries a non-nil error (a non-nil
// constructor / sentinel, an error value on the non-nil side of its test, or
// a module wrapper of such a value).
func c01IsErrorReturn(r *ssa.Return, errIdx int) bool {
	if errIdx < 0 || errIdx >= len(r.Results) {
		return false
	}
	vals := resolveAt(r.Results[errIdx], r.Block(), nil, r, map[ssa.Value]bool{})
	if len(vals) == 0 {
		return false
	}
	for _, v := range vals {
		if !c01CertainErr(r, v, 0) {
			return false
		}
	}
	return true
}

// c01SuccessReturnFrom explores forward from edge `from` without crossing the
// cut and returns a Return that may report success (nil error, or one of the
// `okSentinels` such as ~.SkipNode) — nil if every reachable return certainly
// carries an error.
func c01SuccessReturnFrom(fn *ssa.Function, from Edge, c *cut, okSentinels map[string]bool, ccs ...c01CondCut) *ssa.Return {
	cc := c01MergeConds(ccs...)
	errIdx := ErrResultIndex(fn.Signature)
	type state struct{ b, pred *ssa.BasicBlock }
	visited := map[state]bool{}
	var bad *ssa.Return
	var walk func(b, pred *ssa.BasicBlock)
	walk = func(b, pred *ssa.BasicBlock) {
		if bad != nil || visited[state{b, pred}] {
			return
		}
		visited[state{b, pred}] = true
		for _, in := range b.Instrs {
			if c != nil && c.instrs[in] {
				return
			}
			r, ok := in.(*ssa.Return)
			if !ok {
				continue
			}
			if errIdx < 0 {
				bad = r
				return
			}
			for _, v := range resolveAt(r.Results[errIdx], b, pred, r, map[ssa.Value]bool{}) {
				if n := sentinelName(v); n != "" && okSentinels[n] {
					bad = r
					return
				}
				if !c01CertainErr(r, v, 0) {
					bad = r
					return
				}
			}
			return
		}
		for _, s := range c01FeasibleSuccs(b, pred, c, cc) {
			walk(s, b)
		}
	}
	walk(from.To, from.From)
	return bad
}

// ---------- backward slices ----------

// c01Slice walks the operands of v backwards (through phis, loads of local
// cells and their stores, aggregate literals, calls' arguments, free-variable
// bindings) and reports whether visit returns true for some value.
func c01Slice(v ssa.Value, visit func(x ssa.Value) bool) bool {
	seen := map[ssa.Value]bool{}
	var rec func(x ssa.Value, d int) bool
	rec = func(x ssa.Value, d int) bool {
		if x == nil || seen[x] || d > 40 {
			return false
		}
		seen[x] = true
		if visit(x) {
			return true
		}
		switch u := x.(type) {
		case *ssa.Alloc:
			for _, r := range *u.Referrers() {
				switch a := r.(type) {
				case *ssa.Store:
					if a.Addr == u && rec(a.Val, d+1) {
						return true
					}
				case *ssa.FieldAddr, *ssa.IndexAddr:
					for _, r2 := range *a.(ssa.Value).Referrers() {
						if s, ok := r2.(*ssa.Store); ok && s.Addr == a.(ssa.Value) && rec(s.Val, d+1) {
							return true
						}
					}
				}
			}
			return false
		case *ssa.FreeVar:
			for _, b := range freeVarBindings(u) {
				if rec(b, d+1) {
					return true
				}
			}
			return false
		case *ssa.Parameter, *ssa.Const, *ssa.Global, *ssa.Function, *ssa.Builtin:
			return false
		}
		if in, ok := x.(ssa.Instruction); ok {
			for _, op := range in.Operands(nil) {
				if *op != nil && rec(*op, d+1) {
					return true
				}
			}
		}
		return false
	}
	return rec(v, 0)
}

// c01OuterName: the name of the outermost enclosing declared function (stable
// key for closures, independent of their ordinal).
func c01OuterName(f *ssa.Function) string {
	for f.Parent() != nil {
		f = f.Parent()
	}
	return FnName(f)
}

// c01ClosureKey: outer function name plus a role label for a closure.
func c01ClosureKey(f *ssa.Function, role string) string {
	if f.Parent() == nil {
		return FnName(f)
	}
	return c01OuterName(f) + "$" + role
}

// c01ModuleFuncs: every function with a body that belongs to the repository.
func c01ModuleFuncs(p *Prog) []*ssa.Function {
	var out []*ssa.Function
	for f := range p.All {
		if len(f.Blocks) == 0 || !inModule(f) {
			continue
		}
		if f.Synthetic != "" && !strings.HasPrefix(f.Synthetic, "instance of") {
			continue
		}
		out = append(out, f)
	}
	sort.Slice(out, func(i, j int) bool {
		if out[i].String() != out[j].String() {
			return out[i].String() < out[j].String()
		}
		return out[i].Pos() < out[j].Pos()
	})
	return out
}

// c01ParamOf: v denotes a parameter of its function — the Parameter itself or a
// load of the local copy the parameter is spilled into (address-taken params).
func c01ParamOf(v ssa.Value) *ssa.Parameter {
	v = strip(v)
	if p, ok := v.(*ssa.Parameter); ok {
		return p
	}
	ld, ok := v.(*ssa.UnOp)
	if !ok || ld.Op != token.MUL {
		return nil
	}
	a, ok := ld.X.(*ssa.Alloc)
	if !ok {
		return nil
	}
	ss := storesTo(a)
	if len(ss) != 1 || len(closureWriters(a)) > 0 {
		return nil
	}
	// no field of the copy may be written either
	for _, r := range *a.Referrers() {
		if fa, ok := r.(*ssa.FieldAddr); ok {
			for _, r2 := range *fa.Referrers() {
				if st, ok := r2.(*ssa.Store); ok && st.Addr == fa {
					return nil
				}
			}
		}
	}
	p, _ := ss[0].Val.(*ssa.Parameter)
	return p
}

// c01FuncOfParam: the function a func-typed parameter denotes when every call site of its function (in the root package)
// passes the same function value.
func c01FuncOfParam(prm *ssa.Parameter, depth int) (fn *ssa.Function, recv ssa.Value) {
	if c01P == nil || prm.Parent() == nil {
		return nil, nil
	}
	if _, isSig := prm.Type().Underlying().(*types.Signature); !isSig {
		return nil, nil
	}
	idx := -1
	for i, q := range prm.Parent().Params {
		if q == prm {
			idx = i
		}
	}
	n := 0
	for _, F := range c01P.FuncsOfPkg("") {
		for _, cs := range Calls(F, func(string) bool { return true }) {
			if StaticCallee(cs) != prm.Parent() || idx < 0 || idx >= len(cs.Common().Args) {
				continue
			}
			g, r := c01FuncOfValueD(cs.Common().Args[idx], depth+1)
			if g == nil || (fn != nil && g != fn) {
				return nil, nil
			}
			fn, recv = g, r
			n++
		}
	}
	if n == 0 {
		return nil, nil
	}
	return fn, recv
}

func c01SameStrip(a, b ssa.Value) bool {
	if a == nil || b == nil {
		return false
	}
	return strip(a) == strip(b) || SameValue(a, b)
}

func c01SetString(m map[string]bool) string {
	var s []string
	for k := range m {
		s = append(s, k)
	}
	sort.Strings(s)
	return "{" + strings.Join(s, ", ") + "}"
}

// ---------- role helpers that do not care about closure / method / function form ----------

// c01FuncOfValue: the function a func-typed value denotes — a closure literal,
// a declared function, or a bound method value (then recv is the receiver).
func c01FuncOfValue(v ssa.Value) (fn *ssa.Function, recv ssa.Value) {
	return c01FuncOfValueD(v, 0)
}

func c01FuncOfValueD(v ssa.Value, depth int) (fn *ssa.Function, recv ssa.Value) {
	if v == nil || depth > 4 {
		return nil, nil
	}
	for _, r := range Roots(v) {
		switch u := r.(type) {
		case *ssa.UnOp:
			// a function variable captured by a closure: follow the binding's stores
			if fv, isFV := u.X.(*ssa.FreeVar); isFV && u.Op == token.MUL {
				var cells []*ssa.Alloc
				var follow func(fv *ssa.FreeVar, d int)
				follow = func(fv *ssa.FreeVar, d int) {
					for _, b := range freeVarBindings(fv) {
						if a, isAlloc := b.(*ssa.Alloc); isAlloc {
							cells = append(cells, a)
						} else if fv2, isFV2 := b.(*ssa.FreeVar); isFV2 && d < 3 {
							follow(fv2, d+1) // captured again by a closure nested in the closure
						}
					}
				}
				follow(fv, 0)
				for _, a := range cells {
					for _, st := range storesTo(a) {
						if f2, r2 := c01FuncOfValueD(st.Val, depth+1); f2 != nil {
							fn, recv = f2, r2
						}
					}
				}
			}
		case *ssa.Function:
			fn = u
		case *ssa.Parameter:
			// a function handed down as an argument: the one function every caller in the package passes
			if g, r2 := c01FuncOfParam(u, depth); g != nil {
				fn, recv = g, r2
			}
		case *ssa.MakeClosure:
			f := u.Fn.(*ssa.Function)
			if strings.HasPrefix(f.Synthetic, "bound method wrapper") && len(u.Bindings) == 1 {
				for _, call := range Calls(f, func(string) bool { return true }) {
					if g := StaticCallee(call); g != nil && g.Signature.Recv() != nil {
						fn, recv = g, u.Bindings[0]
					}
				}
				continue
			}
			fn = f
		}
	}
	return
}

// c01GraphCopyFns: the functions that start the copy traversal — the parent of
// a traversal closure, or any function handing the traversal (closure, method
// value, function) to syncutil.Go.
func c01GraphCopyFns(p *Prog) map[*ssa.Function]bool {
	out := map[*ssa.Function]bool{}
	for _, t := range c01Traversals(p) {
		inTraversal := c01ReachableFns(t.Entry, 3)
		for _, f := range p.FuncsOfPkg("") {
			if inTraversal[f] || c01IsDispatcher(f, t.Entry) {
				continue
			}
			if len(c01DispatchCalls(f, t.Entry)) > 0 {
				out[f] = true
			}
		}
	}
	return out
}

// c01Dispatch is one hand-over of items to syncutil.Go(ctx, limiter, entry, items...) — directly, or through a
// dispatcher helper whose body is that call with its own parameters.
type c01Dispatch struct {
	Call    ssa.CallInstruction // the call in the function under consideration
	Items   ssa.Value           // the items, in that function's context
	Limiter ssa.Value           // the limiter handed to syncutil.Go (in the context of the function holding the Go call)
	GoCall  ssa.CallInstruction // the syncutil.Go call itself
}

// c01IsDispatcher: f does nothing but forward its parameters to syncutil.Go(…, entry, items...).
func c01IsDispatcher(f, entry *ssa.Function) bool {
	if f == nil || len(f.Blocks) == 0 {
		return false
	}
	gos := CallsTo(f, nGo)
	if len(gos) != 1 || len(gos[0].Common().Args) < 3 {
		return false
	}
	if fn, _ := c01FuncOfValue(gos[0].Common().Args[2]); fn != entry {
		return false
	}
	prm, isParam := variadicArg(gos[0]).(*ssa.Parameter)
	return isParam && prm.Parent() == f
}

func c01DispatchCalls(f, entry *ssa.Function) []c01Dispatch {
	var out []c01Dispatch
	for _, call := range Calls(f, func(string) bool { return true }) {
		if _, isDefer := call.(*ssa.Defer); isDefer {
			continue
		}
		if CalleeName(call) == nGo && len(call.Common().Args) >= 3 {
			if fn, _ := c01FuncOfValue(call.Common().Args[2]); fn == entry && !c01IsDispatcher(f, entry) {
				out = append(out, c01Dispatch{Call: call, Items: variadicArg(call), Limiter: call.Common().Args[1], GoCall: call})
			}
			continue
		}
		d := StaticCallee(call)
		if d == nil || !c01IsDispatcher(d, entry) {
			continue
		}
		g := CallsTo(d, nGo)[0]
		prm := variadicArg(g).(*ssa.Parameter)
		for k, q := range d.Params {
			if q == prm && k < len(call.Common().Args) {
				out = append(out, c01Dispatch{Call: call, Items: call.Common().Args[k], Limiter: g.Common().Args[1], GoCall: g})
			}
		}
	}
	out = append(out, c01StepDispatches(f, entry)...)
	return out
}

// c01StepDispatches: the hand-over sits in a step closure of a step table of f (`for _, step := range []func() error{
// func() error { return syncutil.Go(ctx, limiter, entry, items...) }, …}`).  The dispatch happens at the table's
// step() call of f; the items are what f last stored into the captured variable before the step closure was made
// (one reaching store, none afterwards, none in a closure), else the step's own read of the variable.
func c01StepDispatches(f, entry *ssa.Function) []c01Dispatch {
	var out []c01Dispatch
	if f == nil || len(f.Blocks) == 0 {
		return nil
	}
	for _, sl := range c11StepLoops(f) {
		for _, sv := range sl.Steps {
			mk, isMk := sv.(*ssa.MakeClosure)
			if !isMk || mk.Parent() != f {
				continue
			}
			S := mk.Fn.(*ssa.Function)
			if strings.HasPrefix(S.Synthetic, "bound method") || len(S.Blocks) == 0 {
				continue
			}
			for _, g := range CallsTo(S, nGo) {
				if _, isDefer := g.(*ssa.Defer); isDefer || len(g.Common().Args) < 3 {
					continue
				}
				if fn, _ := c01FuncOfValue(g.Common().Args[2]); fn != entry {
					continue
				}
				items := variadicArg(g)
				if ld, isLd := strip(items).(*ssa.UnOp); isLd && ld.Op == token.MUL {
					if fv, isFV := ld.X.(*ssa.FreeVar); isFV && !freeVarWritten(S, fv) {
						for i, b := range mk.Bindings {
							cell, isCell := b.(*ssa.Alloc)
							if S.FreeVars[i] != fv || !isCell || len(closureWriters(cell)) > 0 {
								continue
							}
							sts := ReachingStores(cell, mk)
							late := false
							for _, st := range storesTo(cell) {
								if Reachable(mk, st) {
									late = true
								}
							}
							if len(sts) == 1 && sts[0] != nil && !late {
								items = sts[0].Val
							}
						}
					}
				}
				out = append(out, c01Dispatch{Call: sl.Call, Items: items, Limiter: g.Common().Args[1], GoCall: g})
			}
		}
	}
	return out
}

// c01ReachableFns: f and the module functions / closures it calls (static callees and function values), to depth.
func c01ReachableFns(f *ssa.Function, depth int) map[*ssa.Function]bool {
	out := map[*ssa.Function]bool{}
	var rec func(g *ssa.Function, d int)
	rec = func(g *ssa.Function, d int) {
		if g == nil || out[g] || len(g.Blocks) == 0 || !inModule(g) {
			return
		}
		out[g] = true
		if d == 0 {
			return
		}
		for _, call := range Calls(g, func(string) bool { return true }) {
			h := StaticCallee(call)
			if h == nil && !call.Common().IsInvoke() {
				h, _ = c01FuncOfValue(call.Common().Value)
			}
			rec(h, d-1)
			// a function value handed to a module helper (outsideRegion(region, func() error {…})) runs on g's behalf
			if h != nil && inModule(h) {
				for _, a := range call.Common().Args {
					if _, isSig := a.Type().Underlying().(*types.Signature); isSig {
						if ha, _ := c01FuncOfValue(a); ha != nil && ha != g {
							rec(ha, d-1)
						}
					}
				}
			}
		}
	}
	rec(f, depth)
	return out
}

// c01CarriedSources resolves a value read inside a closure / method from state
// that merely carries values set up by the enclosing code: a captured variable
// (free variable cell) or a field of the receiver / of a captured state struct.
// It returns the values stored into that carrier (by the functions of package
// ~), or ok=false when v is not such a read.
func c01CarriedSources(p *Prog, v ssa.Value) (srcs []ssa.Value, ok bool) {
	ld, isLoad := strip(v).(*ssa.UnOp)
	if !isLoad || ld.Op != token.MUL {
		return nil, false
	}
	switch x := ld.X.(type) {
	case *ssa.FreeVar:
		bs := freeVarBindings(x)
		if len(bs) == 0 {
			return nil, false
		}
		for _, b := range bs {
			a, isAlloc := b.(*ssa.Alloc)
			if !isAlloc {
				// a closure nested in a closure: follow the outer free variable
				if fv2, isFV := b.(*ssa.FreeVar); isFV {
					for _, b2 := range freeVarBindings(fv2) {
						if a2, ok2 := b2.(*ssa.Alloc); ok2 {
							for _, s := range storesTo(a2) {
								srcs = append(srcs, s.Val)
							}
							continue
						}
						return nil, false
					}
					continue
				}
				return nil, false
			}
			if len(closureWriters(a)) > 0 {
				return nil, false
			}
			for _, s := range storesTo(a) {
				srcs = append(srcs, s.Val)
			}
		}
		return srcs, len(srcs) > 0
	case *ssa.FieldAddr:
		path, isPath := c01AddrPath(x)
		if !isPath {
			return nil, false
		}
		// base must be the receiver / a parameter / a captured pointer — not a local being built
		base := path.Base
		if bl, isBL := base.(*ssa.UnOp); isBL && bl.Op == token.MUL {
			if _, isFV := bl.X.(*ssa.FreeVar); !isFV {
				return nil, false
			}
		} else if _, isParam := base.(*ssa.Parameter); !isParam {
			if _, isFV := base.(*ssa.FreeVar); !isFV {
				// a value receiver / struct parameter spilled into a local copy
				a, isAlloc := base.(*ssa.Alloc)
				if !isAlloc {
					return nil, false
				}
				ss := storesTo(a)
				if len(ss) != 1 {
					return nil, false
				}
				if _, isP := ss[0].Val.(*ssa.Parameter); !isP {
					return nil, false
				}
			}
		}
		fv := path.last()
		for _, f := range p.FuncsOfPkg(short(fnPkgPath(v.(ssa.Instruction).Parent()))) {
			AllInstrs(f, func(in ssa.Instruction) {
				if s, isStore := in.(*ssa.Store); isStore {
					if sp, ok := c01AddrPath(s.Addr); ok && sp.last() == fv && len(sp.Vars) == len(path.Vars) {
						srcs = append(srcs, s.Val)
					}
				}
			})
		}
		return srcs, len(srcs) > 0
	}
	return nil, false
}

// c01CarriedFrom: v (inside a closure / method) denotes parameter prm of the
// function that set up the carrier.
func c01CarriedFrom(p *Prog, v ssa.Value, prm *ssa.Parameter) bool {
	if prm == nil {
		return false
	}
	for _, r := range Roots(v) {
		srcs, ok := c01CarriedSources(p, r)
		if !ok {
			return false
		}
		for _, s := range srcs {
			if q := c01ParamOf(s); q != prm {
				return false
			}
		}
	}
	return true
}

// ---------- callback invocation sites (direct or through a nil-safe helper) ----------

// c01HookHelper: module function h invokes its func-typed parameter #pi unless
// it is nil, on every path, and returns that call's error unchanged (nil when
// the hook is nil).
func c01HookHelper(h *ssa.Function, pi int) bool {
	if h == nil || len(h.Blocks) == 0 || pi >= len(h.Params) {
		return false
	}
	prm := h.Params[pi]
	var calls []ssa.CallInstruction
	for _, call := range Calls(h, func(string) bool { return true }) {
		if !call.Common().IsInvoke() && call.Common().Value == ssa.Value(prm) {
			calls = append(calls, call)
		}
	}
	if len(calls) == 0 {
		return false
	}
	nilE, _, _ := NilTests(h, Aliases(prm))
	cutInv := newCut().Calls(calls).Edges(nilE...)
	for _, r := range Returns(h) {
		if !MustPass(r, cutInv) {
			return false
		}
	}
	errIdx := ErrResultIndex(h.Signature)
	if errIdx < 0 {
		return true
	}
	al := map[ssa.Value]bool{}
	for _, call := range calls {
		if e := ErrOf(call); e != nil {
			for a := range Aliases(e) {
				al[a] = true
			}
		}
	}
	for _, a := range RetAtoms(h, errIdx) {
		if al[a.Val] || al[strip(a.Val)] {
			continue
		}
		if k, isK := a.Val.(*ssa.Const); isK && k.Value == nil {
			continue
		}
		if _, isZero := a.Val.(zeroMarker); isZero {
			continue
		}
		return false
	}
	return true
}

// c01CallbackSites: the places in fn where option callback fv is invoked — a
// call through the field value itself, or a call of a nil-safe hook helper
// (c01HookHelper) that receives the field value.  nilSafe[i] tells whether the
// site already handles a nil callback.
// c01P is the program of the current run (set by the Run functions); used by
// helpers that have to scan the package for stores into carrier fields.
var c01P *Prog

// c01IsCallbackValue: v is the option callback fv — read from the option field
// itself, or from a captured variable / state-struct field that was filled
// from the option field.
func c01IsCallbackValue(v ssa.Value, fv *types.Var) bool {
	rs := Roots(v)
	if len(rs) == 0 {
		return false
	}
	for _, r := range rs {
		if c01IsFieldValue(r, fv) {
			continue
		}
		if c01P == nil {
			return false
		}
		srcs, ok := c01CarriedSources(c01P, r)
		if !ok {
			return false
		}
		for _, sv := range srcs {
			for _, r2 := range Roots(sv) {
				if !c01IsFieldValue(r2, fv) {
					return false
				}
			}
		}
	}
	return true
}

// c01CallbackValues: every value in fn denoting the option callback fv.
func c01CallbackValues(fn *ssa.Function, fv *types.Var) map[ssa.Value]bool {
	out := map[ssa.Value]bool{}
	AllInstrs(fn, func(in ssa.Instruction) {
		v, ok := in.(ssa.Value)
		if !ok {
			return
		}
		if _, isSig := v.Type().Underlying().(*types.Signature); isSig && c01IsCallbackValue(v, fv) {
			out[v] = true
		}
	})
	return out
}

func c01CallbackSites(fn *ssa.Function, fv *types.Var) (sites []ssa.CallInstruction, nilSafe []bool) {
	isField := func(v ssa.Value) bool { return c01IsCallbackValue(v, fv) }
	for _, call := range Calls(fn, func(string) bool { return true }) {
		if _, isDefer := call.(*ssa.Defer); isDefer {
			continue
		}
		cc := call.Common()
		if !cc.IsInvoke() && isField(cc.Value) {
			if _, isFn := cc.Value.(*ssa.Function); !isFn {
				sites, nilSafe = append(sites, call), append(nilSafe, false)
				continue
			}
		}
		if h := StaticCallee(call); h != nil && inModule(h) {
			for i, a := range cc.Args {
				if _, isSig := a.Type().Underlying().(*types.Signature); isSig && isField(a) && c01HookHelper(h, i) {
					sites, nilSafe = append(sites, call), append(nilSafe, true)
				}
			}
		}
	}
	return
}

// c01Traversal is the recursive copy traversal, whatever its form: Entry is the
// function handed to syncutil.Go that claims its node with TryCommit(param);
// Body is the function that looks at the node and dispatches the successors
// with syncutil.Go(…, Entry, …) — Entry itself, or a function Entry calls.
type c01Traversal struct {
	Entry, Body *ssa.Function
}

func c01ClaimsParam(f *ssa.Function) bool {
	for _, tc := range CallsTo(f, nTryCommit) {
		args := tc.Common().Args
		if prm := c01ParamOf(args[len(args)-1]); prm != nil && prm.Parent() == f {
			return true
		}
	}
	return false
}

func c01Traversals(p *Prog) []c01Traversal {
	if c01P == nil {
		c01P = p
	}
	var out []c01Traversal
	seen := map[*ssa.Function]bool{}
	for _, f := range p.FuncsOfPkg("") {
		for _, g := range CallsTo(f, nGo) {
			if len(g.Common().Args) < 3 {
				continue
			}
			entry, _ := c01FuncOfValue(g.Common().Args[2])
			if entry == nil || seen[entry] || len(entry.Blocks) == 0 || !c01ClaimsParam(entry) {
				continue
			}
			// the body: the function reachable from the entry (the entry itself first) that dispatches the entry again
			var body *ssa.Function
			if len(c01DispatchCalls(entry, entry)) > 0 {
				body = entry
			} else {
				var cands []*ssa.Function
				for b := range c01ReachableFns(entry, 3) {
					if b != entry && len(c01DispatchCalls(b, entry)) > 0 {
						cands = append(cands, b)
					}
				}
				sort.Slice(cands, func(i, j int) bool { return cands[i].String() < cands[j].String() })
				if len(cands) > 0 {
					body = cands[0]
				}
			}
			if body != nil {
				seen[entry] = true
				out = append(out, c01Traversal{Entry: entry, Body: body})
			}
		}
	}
	sort.Slice(out, func(i, j int) bool { return out[i].Entry.String() < out[j].Entry.String() })
	return out
}

// c01TraversalKey: stable key of the traversal (outermost declared function).
func c01TraversalKey(t c01Traversal) string { return c01ClosureKey(t.Body, "traverse") }

// c01ElemLoop recognises a loop that visits every element of a slice X once:
// `for _, e := range X`, `for i := range X`, or `for i := 0; i < len(X); i++`.
// idx is the index value used to address the element in the body.
func c01ElemLoop(l *Loop) (X ssa.Value, idx ssa.Value, body, exit Edge, ok bool) {
	if X, idx, body, exit, ok = l.RangeIndex(); ok {
		return
	}
	h := l.Header
	if len(h.Instrs) == 0 {
		return nil, nil, Edge{}, Edge{}, false
	}
	ifi, isIf := h.Instrs[len(h.Instrs)-1].(*ssa.If)
	if !isIf {
		return nil, nil, Edge{}, Edge{}, false
	}
	cond, t, f := ifEdges(ifi)
	bo, isBin := cond.(*ssa.BinOp)
	if !isBin {
		return nil, nil, Edge{}, Edge{}, false
	}
	x, y, op := bo.X, bo.Y, bo.Op
	if op == token.GTR { // len(X) > i
		x, y, op = y, x, token.LSS
	}
	if op != token.LSS {
		return nil, nil, Edge{}, Edge{}, false
	}
	phi, isPhi := x.(*ssa.Phi)
	if !isPhi || phi.Block() != h {
		return nil, nil, Edge{}, Edge{}, false
	}
	ln, isCall := y.(*ssa.Call)
	if !isCall || CalleeName(ln) != "builtin:len" {
		return nil, nil, Edge{}, Edge{}, false
	}
	for i, ev := range phi.Edges {
		if l.Blocks[h.Preds[i]] {
			inc, isInc := ev.(*ssa.BinOp)
			if !isInc || inc.Op != token.ADD || inc.X != ssa.Value(phi) {
				return nil, nil, Edge{}, Edge{}, false
			}
			if k, isK := constInt(inc.Y); !isK || k != 1 {
				return nil, nil, Edge{}, Edge{}, false
			}
		} else if k, isK := constInt(ev); !isK || k != 0 {
			return nil, nil, Edge{}, Edge{}, false
		}
	}
	return ln.Call.Args[0], phi, t, f, true
}

// c01ReachesFieldStore: f, or a module function it calls (to the given depth),
// stores into struct field fv.
func c01ReachesFieldStore(f *ssa.Function, fv *types.Var, depth int, seen map[*ssa.Function]bool) bool {
	if f == nil || seen[f] || len(f.Blocks) == 0 {
		return false
	}
	seen[f] = true
	found := false
	AllInstrs(f, func(in ssa.Instruction) {
		if found {
			return
		}
		switch x := in.(type) {
		case *ssa.Store:
			if p, ok := c01AddrPath(x.Addr); ok && p.last() == fv {
				found = true
			}
		case ssa.CallInstruction:
			if depth > 0 {
				if g := StaticCallee(x); g != nil && inModule(g) && c01ReachesFieldStore(g, fv, depth-1, seen) {
					found = true
				}
			}
		}
	})
	return found
}

// ---------- branch conditions materialised as boolean phis (a && b in a switch case) ----------

// c01CondCut: condition values with the polarity on which the branch is cut
// (e.g. `cb != nil` -> false: the branch where the callback is nil).
type c01CondCut map[ssa.Value]map[bool]bool

func (cc c01CondCut) add(v ssa.Value, pol bool) {
	if cc[v] == nil {
		cc[v] = map[bool]bool{}
	}
	cc[v][pol] = true
}

// c01NilConds: the comparisons of a value in vals with nil, cut on the nil side.
func c01NilConds(fn *ssa.Function, vals map[ssa.Value]bool) c01CondCut {
	cc := c01CondCut{}
	AllInstrs(fn, func(in ssa.Instruction) {
		bo, ok := in.(*ssa.BinOp)
		if !ok || (bo.Op != token.EQL && bo.Op != token.NEQ) {
			return
		}
		var x ssa.Value
		if isNilConst(bo.Y) {
			x = bo.X
		} else if isNilConst(bo.X) {
			x = bo.Y
		}
		if x != nil && vals[x] {
			cc.add(bo, bo.Op == token.EQL)
		}
	})
	return cc
}

// c01BoolConds: the boolean values in vals themselves, cut on polarity pol.
func c01BoolConds(vals map[ssa.Value]bool, pol bool) c01CondCut {
	cc := c01CondCut{}
	for v := range vals {
		cc.add(v, pol)
	}
	return cc
}

func c01MergeConds(ccs ...c01CondCut) c01CondCut {
	out := c01CondCut{}
	for _, cc := range ccs {
		for v, m := range cc {
			for p := range m {
				out.add(v, p)
			}
		}
	}
	return out
}

// c01FeasibleSuccs: the successors of b that can be taken when b was entered
// from pred, without crossing a cut edge or a cut condition.  An If whose
// condition is a boolean phi of b (the materialised form of `x && y` / `x || y`)
// is decided by the phi's operand for pred: a constant selects one successor,
// any other operand is the condition actually tested on that path.
func c01FeasibleSuccs(b, pred *ssa.BasicBlock, c *cut, cc c01CondCut) []*ssa.BasicBlock {
	var out []*ssa.BasicBlock
	ifi, isIf := b.Instrs[len(b.Instrs)-1].(*ssa.If)
	if !isIf {
		for _, s := range b.Succs {
			if c == nil || !c.edges[Edge{b, s}] {
				out = append(out, s)
			}
		}
		return out
	}
	cond := ifi.Cond
	flip := false
	norm := func() {
		for {
			u, ok := cond.(*ssa.UnOp)
			if !ok || u.Op != token.NOT {
				return
			}
			cond, flip = u.X, !flip
		}
	}
	norm()
	for depth := 0; depth < 4; depth++ {
		phi, isPhi := cond.(*ssa.Phi)
		if !isPhi || phi.Block() != b || pred == nil {
			break
		}
		found := false
		for i, p := range b.Preds {
			if p == pred {
				cond, found = phi.Edges[i], true
			}
		}
		if !found {
			break
		}
		norm()
	}
	take := func(when bool) *ssa.BasicBlock { // successor taken when cond == when
		if when != flip {
			return b.Succs[0]
		}
		return b.Succs[1]
	}
	if k, isK := cond.(*ssa.Const); isK && k.Value != nil {
		s := take(boolConst(k))
		if c == nil || !c.edges[Edge{b, s}] {
			out = append(out, s)
		}
		return out
	}
	for _, when := range []bool{true, false} {
		s := take(when)
		if c != nil && c.edges[Edge{b, s}] {
			continue
		}
		if cc != nil && cc[cond][when] {
			continue
		}
		out = append(out, s)
	}
	return out
}

// c01ReachPS: path-sensitive reach (states are (block, predecessor)); like reach
// but using c01FeasibleSuccs.
func c01ReachPS(fromB *ssa.BasicBlock, fromIdx int, pred *ssa.BasicBlock, to ssa.Instruction, c *cut, cc c01CondCut) bool {
	type st struct{ b, p *ssa.BasicBlock }
	seen := map[st]bool{}
	var scan func(b, p *ssa.BasicBlock, i int) bool
	scan = func(b, p *ssa.BasicBlock, i int) bool {
		for ; i < len(b.Instrs); i++ {
			in := b.Instrs[i]
			if in == to {
				return true
			}
			if c != nil && c.instrs[in] {
				return false
			}
		}
		for _, s := range c01FeasibleSuccs(b, p, c, cc) {
			if seen[st{s, b}] {
				continue
			}
			seen[st{s, b}] = true
			if scan(s, b, 0) {
				return true
			}
		}
		return false
	}
	return scan(fromB, pred, fromIdx)
}

// ---------- constant tables (map / slice literals, package-level or local) ----------

// c01Table is a literal lookup table keyed by string constants.
type c01Table struct {
	Keys []string
	Vals map[string]ssa.Value // nil entries for slices (membership only)
}

// c01TableOf resolves a map[string]T or []string value to the literal it was
// built from: a local literal, or a package-level variable initialised in the
// package's init with a literal and never assigned elsewhere.
func c01TableOf(v ssa.Value) (*c01Table, bool) {
	v = strip(v)
	if ld, ok := v.(*ssa.UnOp); ok && ld.Op == token.MUL {
		g, isGlobal := ld.X.(*ssa.Global)
		if !isGlobal || g.Pkg == nil {
			return nil, false
		}
		init := g.Pkg.Func("init")
		if init == nil {
			return nil, false
		}
		var src ssa.Value
		n := 0
		AllInstrs(init, func(in ssa.Instruction) {
			if st, ok := in.(*ssa.Store); ok && st.Addr == ssa.Value(g) {
				src = st.Val
				n++
			}
		})
		if n != 1 {
			return nil, false
		}
		// no other function may store to the variable
		for _, m := range g.Pkg.Members {
			if fn, isFn := m.(*ssa.Function); isFn && fn != init {
				bad := false
				var scan func(f *ssa.Function)
				scan = func(f *ssa.Function) {
					AllInstrs(f, func(in ssa.Instruction) {
						if st, ok := in.(*ssa.Store); ok && st.Addr == ssa.Value(g) {
							bad = true
						}
					})
					for _, a := range f.AnonFuncs {
						scan(a)
					}
				}
				scan(fn)
				if bad {
					return nil, false
				}
			}
		}
		return c01TableOf(src)
	}
	t := &c01Table{Vals: map[string]ssa.Value{}}
	switch u := v.(type) {
	case *ssa.MakeMap:
		for _, r := range *u.Referrers() {
			switch x := r.(type) {
			case *ssa.MapUpdate:
				if x.Map != ssa.Value(u) {
					continue
				}
				k, ok := constString(x.Key)
				if !ok {
					return nil, false
				}
				t.Keys = append(t.Keys, k)
				t.Vals[k] = x.Value
			}
		}
		sort.Strings(t.Keys)
		return t, len(t.Keys) > 0
	case *ssa.Slice:
		arr, ok := u.X.(*ssa.Alloc)
		if !ok {
			return nil, false
		}
		for _, r := range *arr.Referrers() {
			ia, ok := r.(*ssa.IndexAddr)
			if !ok {
				continue
			}
			for _, r2 := range *ia.Referrers() {
				if st, ok := r2.(*ssa.Store); ok && st.Addr == ssa.Value(ia) {
					k, isStr := constString(st.Val)
					if !isStr {
						return nil, false
					}
					t.Keys = append(t.Keys, k)
					t.Vals[k] = nil
				}
			}
		}
		sort.Strings(t.Keys)
		return t, len(t.Keys) > 0
	}
	return nil, false
}

// c01Membership describes a value that answers "is the subject in table T":
// T[subj] (map[string]bool), the ok of `_, ok := T[subj]`, or slices.Contains(T, subj).
// member(m) tells the answer for media type m.
func c01Membership(v ssa.Value, isSubj func(v ssa.Value) bool) (member func(m string) bool, keys []string, ok bool) {
	subjOK := func(x ssa.Value) bool {
		for _, r := range Roots(x) {
			if !isSubj(r) {
				return false
			}
		}
		return true
	}
	switch u := v.(type) {
	case *ssa.Lookup:
		if u.CommaOk || !subjOK(u.Index) {
			return nil, nil, false
		}
		t, okT := c01TableOf(u.X)
		if !okT {
			return nil, nil, false
		}
		var ks []string
		for _, k := range t.Keys {
			if c, isC := t.Vals[k].(*ssa.Const); isC && c.Value != nil && boolConst(c) {
				ks = append(ks, k)
			}
		}
		return func(m string) bool {
			c, isC := t.Vals[m].(*ssa.Const)
			return isC && c.Value != nil && boolConst(c)
		}, ks, true
	case *ssa.Extract:
		lk, isLk := u.Tuple.(*ssa.Lookup)
		if !isLk || !lk.CommaOk || u.Index != 1 || !subjOK(lk.Index) {
			return nil, nil, false
		}
		t, okT := c01TableOf(lk.X)
		if !okT {
			return nil, nil, false
		}
		return func(m string) bool { _, in := t.Vals[m]; return in }, t.Keys, true
	case *ssa.Call:
		if CalleeName(u) != "slices.Contains" || len(u.Call.Args) != 2 || !subjOK(u.Call.Args[1]) {
			return nil, nil, false
		}
		t, okT := c01TableOf(u.Call.Args[0])
		if !okT {
			return nil, nil, false
		}
		return func(m string) bool { _, in := t.Vals[m]; return in }, t.Keys, true
	}
	return nil, nil, false
}

// c01TableCut adds to k the branch edges that cannot be taken when the subject
// equals m, for Ifs deciding on a table membership of the subject.
func c01TableCut(fn *ssa.Function, m string, isSubj func(v ssa.Value) bool, k *cut) {
	for _, i := range Ifs(fn) {
		cond, t, f := ifEdges(i)
		var member func(string) bool
		for _, r := range Roots(cond) {
			if mf, _, ok := c01Membership(r, isSubj); ok {
				member = mf
			}
		}
		if member == nil {
			continue
		}
		if member(m) {
			k.Edges(f)
		} else {
			k.Edges(t)
		}
	}
}

// c01DispatchConsts: the media types fn distinguishes — constants the subject
// is compared with, and keys of tables it is looked up in.
func c01DispatchConsts(fn *ssa.Function, isSubj func(v ssa.Value) bool) []string {
	set := map[string]bool{}
	for _, c := range c01TestConsts(c01StrTests(fn, isSubj)) {
		set[c] = true
	}
	AllInstrs(fn, func(in ssa.Instruction) {
		if v, ok := in.(ssa.Value); ok {
			if _, ks, ok := c01Membership(v, isSubj); ok {
				for _, k := range ks {
					set[k] = true
				}
			}
			if lk, isLk := v.(*ssa.Lookup); isLk && lk.CommaOk {
				okSubj := true
				for _, r := range Roots(lk.Index) {
					if !isSubj(r) {
						okSubj = false
					}
				}
				if t, okT := c01TableOf(lk.X); okT && okSubj {
					for _, k := range t.Keys {
						set[k] = true
					}
				}
			}
		}
	})
	var out []string
	for s := range set {
		out = append(out, s)
	}
	sort.Strings(out)
	return out
}

// c01BoolUnder: the boolean v under the assumption subject == m, when it is a
// constant or a table membership.
func c01BoolUnder(v ssa.Value, m string, isSubj func(v ssa.Value) bool) (val, known bool) {
	if k, ok := v.(*ssa.Const); ok && k.Value != nil {
		return boolConst(k), true
	}
	if mf, _, ok := c01Membership(v, isSubj); ok {
		return mf(m), true
	}
	return false, false
}

// ---------- range-over-func loops ----------

// c01RangeFunc is one `for x := range seq` over a function iterator in F:
// go/ssa calls seq with a synthesized yield closure holding the loop body.
type c01RangeFunc struct {
	Call     ssa.CallInstruction // seq(body) in F
	Body     *ssa.Function       // the synthesized yield closure (loop body)
	ProdCall *ssa.Call           // the call producing seq, when seq comes from a module function
	Prod     *ssa.Function       // the iterator closure that function returns (calls yield)
}

func c01RangeFuncs(F *ssa.Function) []c01RangeFunc {
	var out []c01RangeFunc
	for _, call := range Calls(F, func(string) bool { return true }) {
		cc := call.Common()
		if cc.IsInvoke() || len(cc.Args) != 1 {
			continue
		}
		mc, ok := cc.Args[0].(*ssa.MakeClosure)
		if !ok || mc.Fn.(*ssa.Function).Synthetic != "range-over-func yield" {
			continue
		}
		rf := c01RangeFunc{Call: call, Body: mc.Fn.(*ssa.Function)}
		if pc, ok := cc.Value.(*ssa.Call); ok {
			if g := StaticCallee(pc); g != nil && inModule(g) && len(g.Blocks) > 0 {
				for _, r := range Returns(g) {
					if f, _ := c01FuncOfValue(r.Results[0]); f != nil {
						rf.ProdCall, rf.Prod = pc, f
					}
				}
			}
		}
		out = append(out, rf)
	}
	return out
}

// c01NextIterTargets: in a range-over-func body, `continue` / falling off the
// end is `return true`; these returns stand for "next iteration".
func c01NextIterTargets(body *ssa.Function) []ssa.Instruction {
	var out []ssa.Instruction
	for _, r := range Returns(body) {
		if k, ok := r.Results[0].(*ssa.Const); ok && k.Value != nil && boolConst(k) {
			out = append(out, r)
		}
	}
	return out
}

// c01DeferredOverwrite: fn has a named error result that a deferred closure assigns without first finding it nil
// (defer func() { err = f() }()): whatever error the body returned is replaced.  Returns a description, or "".
func c01DeferredOverwrite(fn *ssa.Function) string {
	errIdx := ErrResultIndex(fn.Signature)
	if errIdx < 0 {
		return ""
	}
	cells := map[ssa.Value]bool{}
	for _, r := range Returns(fn) {
		if a := cellOf(r.Results[errIdx]); a != nil {
			cells[a] = true
		}
	}
	if len(cells) == 0 {
		return ""
	}
	out := ""
	AllInstrs(fn, func(in ssa.Instruction) {
		d, ok := in.(*ssa.Defer)
		if !ok {
			return
		}
		mc, ok := d.Call.Value.(*ssa.MakeClosure)
		if !ok {
			return
		}
		g := mc.Fn.(*ssa.Function)
		for i, b := range mc.Bindings {
			if !cells[b] {
				continue
			}
			fv := g.FreeVars[i]
			loads := map[ssa.Value]bool{}
			var stores []*ssa.Store
			for _, r := range *fv.Referrers() {
				switch x := r.(type) {
				case *ssa.UnOp:
					if x.Op == token.MUL {
						loads[x] = true
					}
				case *ssa.Store:
					if x.Addr == ssa.Value(fv) {
						stores = append(stores, x)
					}
				}
			}
			nilE, _, _ := NilTests(g, loads)
			for _, st := range stores {
				// keeping a non-nil error (err = errors.Join(err, x), or assigning only when err == nil) is fine
				if len(nilE) > 0 && MustPass(st, newCut().Edges(nilE...)) {
					continue
				}
				if c01Slice(st.Val, func(x ssa.Value) bool { return loads[x] }) {
					continue
				}
				out = "; a deferred closure assigns the named error result unconditionally, replacing the error the body returned"
			}
		}
	})
	return out
}
