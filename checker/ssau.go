package main

// E3 primitives over go/ssa: callee naming, value resolution through phi and
// local cells, nil tests, cut-reachability (must-pass-through / must-take-edge),
// return atoms.

import (
	"fmt"
	"go/constant"
	"go/token"
	"go/types"
	"strings"

	"golang.org/x/tools/go/ssa"
)

// ---------- callee naming ----------

// CalleeName gives a canonical, type-resolved name for the callee of a call:
//
//	static function/method   os.Rename, (*sync.Map).LoadOrStore, ~/content.ReadAll
//	interface method         (~/content.Pusher).Push   (the declaring interface)
//	builtin                  builtin:close
//	field-held func value    field:~.CopyGraphOptions.PreCopy
//	other dynamic            dyn:<kind>:<name>
func CalleeName(c ssa.CallInstruction) string {
	cc := c.Common()
	if cc.IsInvoke() {
		return short(cc.Method.FullName())
	}
	switch v := cc.Value.(type) {
	case *ssa.Builtin:
		return "builtin:" + v.Name()
	case *ssa.Function:
		return fnFullName(v)
	case *ssa.MakeClosure:
		return "closure:" + fnFullName(v.Fn.(*ssa.Function))
	}
	if f := fieldOfFuncValue(cc.Value); f != "" {
		return "field:" + f
	}
	switch v := cc.Value.(type) {
	case *ssa.Parameter:
		return "dyn:param:" + v.Name()
	case *ssa.FreeVar:
		return "dyn:freevar:" + v.Name()
	case *ssa.UnOp:
		if fv, ok := v.X.(*ssa.FreeVar); ok {
			return "dyn:freevar:" + fv.Name()
		}
		if a, ok := v.X.(*ssa.Alloc); ok {
			return "dyn:local:" + a.Comment
		}
	case *ssa.Phi:
		return "dyn:phi:" + v.Comment
	}
	return "dyn:" + cc.Value.Name()
}

func fnFullName(f *ssa.Function) string {
	if o := f.Origin(); o != nil {
		f = o
	}
	if obj, ok := f.Object().(*types.Func); ok && obj != nil {
		return short(obj.FullName())
	}
	return short(f.String())
}

// fieldOfFuncValue: if v is a load of a struct field (x.F), returns "T.F"
// with T the (shortened) named struct type, else "".
func fieldOfFuncValue(v ssa.Value) string {
	switch u := v.(type) {
	case *ssa.UnOp:
		if u.Op == token.MUL {
			if fa, ok := u.X.(*ssa.FieldAddr); ok {
				return fieldName(fa.X.Type(), fa.Field)
			}
		}
	case *ssa.Field:
		return fieldName(u.X.Type(), u.Field)
	}
	return ""
}

func fieldName(t types.Type, idx int) string {
	if p, ok := t.Underlying().(*types.Pointer); ok {
		t = p.Elem()
	}
	st, ok := t.Underlying().(*types.Struct)
	if !ok || idx >= st.NumFields() {
		return ""
	}
	name := "struct"
	if n, ok := t.(*types.Named); ok {
		name = short(n.Obj().Pkg().Path() + "." + n.Obj().Name())
	}
	return name + "." + st.Field(idx).Name()
}

// StaticCallee returns the called *ssa.Function for static calls and
// immediately-applied closures, else nil.
func StaticCallee(c ssa.CallInstruction) *ssa.Function {
	cc := c.Common()
	if cc.IsInvoke() {
		return nil
	}
	switch v := cc.Value.(type) {
	case *ssa.Function:
		return v
	case *ssa.MakeClosure:
		return v.Fn.(*ssa.Function)
	}
	return nil
}

// Calls returns the call instructions (Call, Defer, Go) of fn whose callee
// name satisfies match, in block/instruction order.
func Calls(fn *ssa.Function, match func(name string) bool) []ssa.CallInstruction {
	var out []ssa.CallInstruction
	for _, b := range fn.Blocks {
		for _, in := range b.Instrs {
			if c, ok := in.(ssa.CallInstruction); ok && match(CalleeName(c)) {
				out = append(out, c)
			}
		}
	}
	return out
}

// CallsTo returns calls whose canonical callee name equals one of names.
func CallsTo(fn *ssa.Function, names ...string) []ssa.CallInstruction {
	return Calls(fn, func(n string) bool {
		for _, x := range names {
			if n == x {
				return true
			}
		}
		return false
	})
}

// AllInstrs iterates over the instructions of fn.
func AllInstrs(fn *ssa.Function, f func(in ssa.Instruction)) {
	for _, b := range fn.Blocks {
		for _, in := range b.Instrs {
			f(in)
		}
	}
}

// ---------- value resolution ----------

// strip removes representation-only wrappers.
func strip(v ssa.Value) ssa.Value {
	for {
		switch u := v.(type) {
		case *ssa.ChangeType:
			v = u.X
		case *ssa.ChangeInterface:
			v = u.X
		case *ssa.MakeInterface:
			v = u.X
		case *ssa.Convert:
			v = u.X
		default:
			return v
		}
	}
}

// cellOf: if v is a load (*a) of a local Alloc holding a non-aggregate that
// is only stored/loaded/captured, return the Alloc.
func cellOf(v ssa.Value) *ssa.Alloc {
	u, ok := v.(*ssa.UnOp)
	if !ok || u.Op != token.MUL {
		return nil
	}
	a, ok := u.X.(*ssa.Alloc)
	if !ok {
		return nil
	}
	return a
}

// storesTo lists the Store instructions of fn (not of closures) to cell a.
func storesTo(a *ssa.Alloc) []*ssa.Store {
	var out []*ssa.Store
	for _, r := range *a.Referrers() {
		if s, ok := r.(*ssa.Store); ok && s.Addr == a {
			out = append(out, s)
		}
	}
	return out
}

// closureWriters returns closures (captured a) that contain stores to a.
func closureWriters(a *ssa.Alloc) []*ssa.Function {
	var out []*ssa.Function
	for _, r := range *a.Referrers() {
		mc, ok := r.(*ssa.MakeClosure)
		if !ok {
			continue
		}
		f := mc.Fn.(*ssa.Function)
		for i, b := range mc.Bindings {
			if b != a {
				continue
			}
			fv := f.FreeVars[i]
			if freeVarWritten(f, fv) {
				out = append(out, f)
			}
		}
	}
	return out
}

func freeVarWritten(f *ssa.Function, fv *ssa.FreeVar) bool {
	for _, r := range *fv.Referrers() {
		if s, ok := r.(*ssa.Store); ok && s.Addr == fv {
			return true
		}
		if mc, ok := r.(*ssa.MakeClosure); ok {
			g := mc.Fn.(*ssa.Function)
			for i, b := range mc.Bindings {
				if b == fv && freeVarWritten(g, g.FreeVars[i]) {
					return true
				}
			}
		}
	}
	return false
}

// ReachingStores returns the Store instructions to cell a that may reach the
// program point just before instruction at (in at's block).  A nil entry means
// "the zero value from the Alloc may reach" (no store on some path).
func ReachingStores(a *ssa.Alloc, at ssa.Instruction) []*ssa.Store {
	fn := at.Parent()
	isStore := func(in ssa.Instruction) *ssa.Store {
		if s, ok := in.(*ssa.Store); ok && s.Addr == a {
			return s
		}
		return nil
	}
	var out []*ssa.Store
	seenStore := map[*ssa.Store]bool{}
	zero := false
	visited := map[*ssa.BasicBlock]bool{}
	var walk func(b *ssa.BasicBlock, from int)
	walk = func(b *ssa.BasicBlock, from int) {
		for i := from; i >= 0; i-- {
			if b.Instrs[i] == ssa.Instruction(a) {
				zero = true
				return
			}
			if s := isStore(b.Instrs[i]); s != nil {
				if !seenStore[s] {
					seenStore[s] = true
					out = append(out, s)
				}
				return
			}
		}
		if b == fn.Blocks[0] {
			zero = true
			return
		}
		for _, p := range b.Preds {
			if !visited[p] {
				visited[p] = true
				walk(p, len(p.Instrs)-1)
			}
		}
	}
	b := at.Block()
	idx := instrIndex(at)
	walk(b, idx-1)
	if zero {
		out = append(out, nil)
	}
	return out
}

func instrIndex(in ssa.Instruction) int {
	for i, x := range in.Block().Instrs {
		if x == in {
			return i
		}
	}
	return -1
}

// Roots expands v through phi nodes, representation wrappers and loads of
// local cells (via reaching stores) into the set of values it may denote.
func Roots(v ssa.Value) []ssa.Value {
	var out []ssa.Value
	seen := map[ssa.Value]bool{}
	var rec func(v ssa.Value)
	rec = func(v ssa.Value) {
		v = strip(v)
		if seen[v] {
			return
		}
		seen[v] = true
		switch u := v.(type) {
		case *ssa.Phi:
			for _, e := range u.Edges {
				rec(e)
			}
			return
		case *ssa.UnOp:
			if a := cellOf(u); a != nil {
				if _, isStruct := a.Type().(*types.Pointer).Elem().Underlying().(*types.Struct); !isStruct {
					for _, s := range ReachingStores(a, u) {
						if s == nil {
							out = append(out, u) // zero value: keep the load itself
						} else {
							rec(s.Val)
						}
					}
					return
				}
			}
		}
		out = append(out, v)
	}
	rec(v)
	return out
}

// SameValue reports whether a and b denote the same single value after
// resolution (both resolve to exactly one identical root).
func SameValue(a, b ssa.Value) bool {
	ra, rb := Roots(a), Roots(b)
	return len(ra) == 1 && len(rb) == 1 && ra[0] == rb[0]
}

// Aliases returns every value in fn that denotes v: v itself, wrappers, and
// loads of cells where a store of v reaches.
func Aliases(v ssa.Value) map[ssa.Value]bool {
	out := map[ssa.Value]bool{v: true}
	work := []ssa.Value{v}
	for len(work) > 0 {
		x := work[len(work)-1]
		work = work[:len(work)-1]
		refs := x.Referrers()
		if refs == nil {
			continue
		}
		for _, r := range *refs {
			switch u := r.(type) {
			case *ssa.Store:
				if u.Val != x {
					continue
				}
				a, ok := u.Addr.(*ssa.Alloc)
				if !ok {
					continue
				}
				for _, lr := range *a.Referrers() {
					ld, ok := lr.(*ssa.UnOp)
					if !ok || ld.Op != token.MUL {
						continue
					}
					for _, s := range ReachingStores(a, ld) {
						if s == u && !out[ld] {
							out[ld] = true
							work = append(work, ld)
						}
					}
				}
			case *ssa.ChangeType, *ssa.ChangeInterface, *ssa.MakeInterface:
				val := r.(ssa.Value)
				if !out[val] {
					out[val] = true
					work = append(work, val)
				}
			case *ssa.Phi:
				if !out[u] {
					out[u] = true
					work = append(work, u)
				}
			}
		}
	}
	return out
}

// ResultOf returns the value of result index idx of a call (the call itself
// for single-result callees, the Extract otherwise); nil if never extracted.
func ResultOf(c ssa.CallInstruction, idx int) ssa.Value {
	v := c.Value()
	if v == nil {
		return nil
	}
	tup, ok := v.Type().(*types.Tuple)
	if !ok {
		if idx == 0 {
			return v
		}
		return nil
	}
	if idx < 0 {
		idx = tup.Len() + idx
	}
	for _, r := range *v.Referrers() {
		if e, ok := r.(*ssa.Extract); ok && e.Index == idx {
			return e
		}
	}
	return nil
}

// ErrResultIndex returns the index of the last result if it is `error`, else -1.
func ErrResultIndex(sig *types.Signature) int {
	n := sig.Results().Len()
	if n == 0 {
		return -1
	}
	if isErrorType(sig.Results().At(n - 1).Type()) {
		return n - 1
	}
	return -1
}

func isErrorType(t types.Type) bool {
	n, ok := t.(*types.Named)
	return ok && n.Obj().Pkg() == nil && n.Obj().Name() == "error"
}

// ErrOf returns the error result value of a call, or nil.
func ErrOf(c ssa.CallInstruction) ssa.Value {
	i := ErrResultIndex(c.Common().Signature())
	if i < 0 {
		return nil
	}
	return ResultOf(c, i)
}

// ---------- CFG primitives ----------

type Edge struct{ From, To *ssa.BasicBlock }

func (e Edge) String() string { return fmt.Sprintf("b%d->b%d", e.From.Index, e.To.Index) }

type cut struct {
	instrs map[ssa.Instruction]bool
	edges  map[Edge]bool
}

func newCut() *cut { return &cut{instrs: map[ssa.Instruction]bool{}, edges: map[Edge]bool{}} }

func (c *cut) Instr(ins ...ssa.Instruction) *cut {
	for _, i := range ins {
		if i != nil {
			c.instrs[i] = true
		}
	}
	return c
}
func (c *cut) Calls(cs []ssa.CallInstruction) *cut {
	for _, i := range cs {
		c.instrs[i] = true
	}
	return c
}
func (c *cut) Edges(es ...Edge) *cut {
	for _, e := range es {
		c.edges[e] = true
	}
	return c
}

// reach reports whether `to` can be reached from the point just before
// instruction index fromIdx of block fromB without executing a cut instruction
// or taking a cut edge.  `to` itself is reached when control arrives at it
// (it need not be executable).  If to == nil, reports whether any function
// exit (Return) is reachable; exitFilter may restrict which.
func reach(fromB *ssa.BasicBlock, fromIdx int, to ssa.Instruction, c *cut) bool {
	type key struct {
		b *ssa.BasicBlock
	}
	visited := map[*ssa.BasicBlock]bool{}
	var scan func(b *ssa.BasicBlock, i int) bool
	scan = func(b *ssa.BasicBlock, i int) bool {
		for ; i < len(b.Instrs); i++ {
			in := b.Instrs[i]
			if in == to {
				return true
			}
			if c != nil && c.instrs[in] {
				return false
			}
		}
		for _, s := range b.Succs {
			if c != nil && c.edges[Edge{b, s}] {
				continue
			}
			if visited[s] {
				continue
			}
			visited[s] = true
			if scan(s, 0) {
				return true
			}
		}
		return false
	}
	return scan(fromB, fromIdx)
}

// MustPass: every path from function entry to `to` executes a cut instruction
// or takes a cut edge.  Vacuously true if `to` is unreachable at all — callers
// that need non-vacuity check Reachable first.
func MustPass(to ssa.Instruction, c *cut) bool {
	fn := to.Parent()
	return !reach(fn.Blocks[0], 0, to, c)
}

// MustPassBetween: every path from just after `from` to `to` hits the cut.
func MustPassBetween(from, to ssa.Instruction, c *cut) bool {
	return !reach(from.Block(), instrIndex(from)+1, to, c)
}

// Reachable: `to` is reachable from just after `from`.
func Reachable(from, to ssa.Instruction) bool {
	return reach(from.Block(), instrIndex(from)+1, to, nil)
}

// ReachableFromEntry: `to` reachable from entry.
func ReachableFromEntry(to ssa.Instruction) bool {
	return reach(to.Parent().Blocks[0], 0, to, nil)
}

// Dominates: instruction a dominates instruction b (same function).
func Dominates(a, b ssa.Instruction) bool {
	if a.Block() == b.Block() {
		return instrIndex(a) <= instrIndex(b)
	}
	return a.Block().Dominates(b.Block())
}

// Returns lists the Return instructions of fn.
func Returns(fn *ssa.Function) []*ssa.Return {
	var out []*ssa.Return
	for _, b := range fn.Blocks {
		if len(b.Instrs) == 0 {
			continue
		}
		if r, ok := b.Instrs[len(b.Instrs)-1].(*ssa.Return); ok {
			out = append(out, r)
		}
	}
	return out
}

// ---------- conditions ----------

// CondTest describes an `If` whose condition tests value X.
type CondTest struct {
	If      *ssa.If
	TrueTo  Edge // edge taken when the predicate described holds
	FalseTo Edge
}

// ifEdges returns the (true,false) out-edges of an If, looking through NOT.
func ifEdges(i *ssa.If) (cond ssa.Value, t, f Edge) {
	b := i.Block()
	cond = i.Cond
	t, f = Edge{b, b.Succs[0]}, Edge{b, b.Succs[1]}
	for {
		u, ok := cond.(*ssa.UnOp)
		if !ok || u.Op != token.NOT {
			return
		}
		cond = u.X
		t, f = f, t
	}
}

// Ifs lists all If instructions of fn.
func Ifs(fn *ssa.Function) []*ssa.If {
	var out []*ssa.If
	for _, b := range fn.Blocks {
		if len(b.Instrs) == 0 {
			continue
		}
		if i, ok := b.Instrs[len(b.Instrs)-1].(*ssa.If); ok {
			out = append(out, i)
		}
	}
	return out
}

func isNilConst(v ssa.Value) bool {
	c, ok := v.(*ssa.Const)
	return ok && c.Value == nil && !isBasicNonPointer(c.Type())
}

func isBasicNonPointer(t types.Type) bool {
	b, ok := t.Underlying().(*types.Basic)
	return ok && b.Kind() != types.UnsafePointer && b.Kind() != types.UntypedNil
}

// NilTests finds every `If` testing a value in `vals` against nil and returns
// the edges taken when the value is nil / non-nil.
func NilTests(fn *ssa.Function, vals map[ssa.Value]bool) (nilEdges, nonNilEdges []Edge, ifs []*ssa.If) {
	for _, i := range Ifs(fn) {
		cond, t, f := ifEdges(i)
		bo, ok := cond.(*ssa.BinOp)
		if !ok || (bo.Op != token.EQL && bo.Op != token.NEQ) {
			continue
		}
		var x ssa.Value
		if isNilConst(bo.Y) {
			x = bo.X
		} else if isNilConst(bo.X) {
			x = bo.Y
		} else {
			continue
		}
		if !vals[x] {
			continue
		}
		ifs = append(ifs, i)
		if bo.Op == token.EQL {
			nilEdges = append(nilEdges, t)
			nonNilEdges = append(nonNilEdges, f)
		} else {
			nilEdges = append(nilEdges, f)
			nonNilEdges = append(nonNilEdges, t)
		}
	}
	return
}

// BoolTests finds every `If` whose condition is (an alias of) the boolean
// value v and returns the edges for v==true / v==false.
func BoolTests(fn *ssa.Function, vals map[ssa.Value]bool) (trueEdges, falseEdges []Edge) {
	for _, i := range Ifs(fn) {
		cond, t, f := ifEdges(i)
		if vals[cond] {
			trueEdges = append(trueEdges, t)
			falseEdges = append(falseEdges, f)
		}
	}
	return
}

// CallTests finds `If`s whose condition is the boolean result of a call
// matching name (e.g. errors.Is, content.Equal) for which argOK(call) holds.
func CallTests(fn *ssa.Function, name string, argOK func(c *ssa.Call) bool) (trueEdges, falseEdges []Edge, calls []*ssa.Call) {
	for _, i := range Ifs(fn) {
		cond, t, f := ifEdges(i)
		c, ok := cond.(*ssa.Call)
		if !ok || CalleeName(c) != name {
			continue
		}
		if argOK != nil && !argOK(c) {
			continue
		}
		trueEdges = append(trueEdges, t)
		falseEdges = append(falseEdges, f)
		calls = append(calls, c)
	}
	return
}

// constString returns the constant string value of v, if any.
func constString(v ssa.Value) (string, bool) {
	c, ok := strip(v).(*ssa.Const)
	if !ok || c.Value == nil || c.Value.Kind() != constant.String {
		return "", false
	}
	return constant.StringVal(c.Value), true
}

func constInt(v ssa.Value) (int64, bool) {
	c, ok := strip(v).(*ssa.Const)
	if !ok || c.Value == nil || c.Value.Kind() != constant.Int {
		return 0, false
	}
	return c.Int64(), true
}

// ---------- return atoms ----------

// RetAtom is one way a result value of a Return is established.
type RetAtom struct {
	Ret   *ssa.Return
	Val   ssa.Value  // resolved value (no phi / cell load at top level)
	Edges []Edge     // phi edges that select Val (outermost first)
	Store *ssa.Store // for named-result cells: the store that establishes Val
}

// Anchor is the program point after which the atom's value is fixed.
func (a RetAtom) anchor() (b *ssa.BasicBlock, idx int) {
	if len(a.Edges) > 0 {
		e := a.Edges[len(a.Edges)-1] // innermost = earliest
		return e.From, len(e.From.Instrs) - 1
	}
	if a.Store != nil {
		return a.Store.Block(), instrIndex(a.Store)
	}
	return a.Ret.Block(), instrIndex(a.Ret)
}

// RetAtoms expands result idx of every Return of fn.
func RetAtoms(fn *ssa.Function, idx int) []RetAtom {
	var out []RetAtom
	for _, r := range Returns(fn) {
		if idx >= len(r.Results) {
			continue
		}
		var rec func(v ssa.Value, edges []Edge, st *ssa.Store, at ssa.Instruction, depth int)
		rec = func(v ssa.Value, edges []Edge, st *ssa.Store, at ssa.Instruction, depth int) {
			if depth > 8 {
				out = append(out, RetAtom{Ret: r, Val: v, Edges: edges, Store: st})
				return
			}
			switch u := v.(type) {
			case *ssa.Phi:
				for i, e := range u.Edges {
					ne := append(append([]Edge{}, edges...), Edge{u.Block().Preds[i], u.Block()})
					rec(e, ne, st, at, depth+1)
				}
				return
			case *ssa.UnOp:
				if a := cellOf(u); a != nil {
					if _, isStruct := a.Type().(*types.Pointer).Elem().Underlying().(*types.Struct); !isStruct {
						for _, s := range ReachingStores(a, u) {
							if s == nil {
								out = append(out, RetAtom{Ret: r, Val: zeroOf(u), Edges: edges, Store: st})
							} else {
								rec(s.Val, edges, s, s, depth+1)
							}
						}
						return
					}
				}
			}
			out = append(out, RetAtom{Ret: r, Val: v, Edges: edges, Store: st})
		}
		rec(r.Results[idx], nil, nil, r, 0)
	}
	return out
}

// zeroOf marks "zero value of the cell" — represented by the load itself.
func zeroOf(u *ssa.UnOp) ssa.Value { return zeroMarker{u} }

type zeroMarker struct{ *ssa.UnOp }

// AtomMustPass: every path from entry through the atom to its Return hits the cut.
func AtomMustPass(a RetAtom, c *cut) bool {
	fn := a.Ret.Parent()
	ab, ai := a.anchor()
	// entry -> anchor avoiding cut ?
	var target ssa.Instruction = ab.Instrs[ai]
	toAnchor := reach(fn.Blocks[0], 0, target, c)
	if !toAnchor {
		return true
	}
	// anchor -> return avoiding cut (restricted to the phi edges)
	if len(a.Edges) > 0 {
		// walk the chain of edges: each edge's To must lead to next edge's From
		cur := a.Edges[len(a.Edges)-1]
		if c.edges[cur] {
			return true
		}
		for i := len(a.Edges) - 2; i >= -1; i-- {
			var tgt ssa.Instruction
			if i >= 0 {
				nb := a.Edges[i].From
				tgt = nb.Instrs[len(nb.Instrs)-1]
			} else {
				tgt = a.Ret
			}
			if !reach(cur.To, 0, tgt, c) {
				return true
			}
			if i >= 0 {
				cur = a.Edges[i]
				if c.edges[cur] {
					return true
				}
			}
		}
		return false
	}
	if a.Store == nil {
		// the value is established at the Return itself: the Return is
		// reachable without hitting the cut
		return false
	}
	if c.instrs[target] {
		return true
	}
	return !reach(ab, ai+1, a.Ret, c)
}

// ---------- nil status ----------

type NilStatus int

const (
	MaybeNil NilStatus = iota
	IsNil
	NonNil
)

// nonNilCallees: callees whose (error) result is non-nil by documented contract.
var nonNilCallees = map[string]bool{
	"fmt.Errorf": true, "errors.New": true,
}

// ErrNilStatus classifies an error-typed value.
func ErrNilStatus(v ssa.Value, depth int) NilStatus {
	if _, ok := v.(zeroMarker); ok {
		return IsNil
	}
	switch u := v.(type) {
	case *ssa.Const:
		if u.Value == nil {
			return IsNil
		}
	case *ssa.MakeInterface:
		return NonNil
	case *ssa.UnOp:
		if u.Op == token.MUL {
			if g, ok := u.X.(*ssa.Global); ok && isErrorType(g.Type().(*types.Pointer).Elem()) {
				return NonNil // package-level sentinel error
			}
		}
	case *ssa.Call:
		name := CalleeName(u)
		if nonNilCallees[name] {
			return NonNil
		}
		if f := StaticCallee(u); f != nil && depth < 3 && len(f.Blocks) > 0 {
			idx := ErrResultIndex(f.Signature)
			if idx >= 0 {
				all := true
				for _, a := range RetAtoms(f, idx) {
					if ErrNilStatus(a.Val, depth+1) != NonNil {
						all = false
						break
					}
				}
				if all {
					return NonNil
				}
			}
		}
	}
	return MaybeNil
}

// describe renders a value briefly.
func describe(v ssa.Value) string {
	if v == nil {
		return "<nil>"
	}
	if z, ok := v.(zeroMarker); ok {
		return "zero(" + z.UnOp.X.Name() + ")"
	}
	s := v.String()
	if len(s) > 80 {
		s = s[:80] + "…"
	}
	return short(v.Name() + "=" + s)
}

func hasPrefixAny(s string, ps ...string) bool {
	for _, p := range ps {
		if strings.HasPrefix(s, p) {
			return true
		}
	}
	return false
}

// blockPos returns the first valid source position in block b (phi nodes and
// synthesized instructions have none).
func blockPos(b *ssa.BasicBlock) token.Pos {
	for _, in := range b.Instrs {
		if in.Pos().IsValid() {
			return in.Pos()
		}
	}
	for _, s := range b.Succs {
		for _, in := range s.Instrs {
			if in.Pos().IsValid() {
				return in.Pos()
			}
		}
	}
	return token.NoPos
}
